(** Round trip: extracting the entry list [ZipDir] produces for a well-formed
    tree reproduces that tree beneath the destination and changes nothing
    else (Arch/ZipRound.v, Arch/Extract.v). *)
From Coq Require Import List NArith Bool Lia.
From Verif Require Import Lib.Path Arch.Extract Arch.ExtractProofs Arch.ZipRound.
Import ListNotations.
Local Open Scope N_scope.

(** *** Finite maps as lists *)

Lemma lookup_app a b k :
  lookup (a ++ b) k = match lookup a k with Some n => Some n | None => lookup b k end.
Proof.
  induction a as [|[k0 n0] a IH]; cbn [app lookup]; [reflexivity|].
  destruct (key_eqb k0 k); [reflexivity|exact IH].
Qed.

Lemma lookup_some_in l k n : lookup l k = Some n -> In (k, n) l.
Proof.
  induction l as [|[k0 n0] l IH]; cbn [lookup]; [discriminate|].
  destruct (key_eqb k0 k) eqn:E.
  - apply key_eqb_eq in E. subst k0. intros [= ->]. now left.
  - intros H. right. now apply IH.
Qed.

Lemma lookup_none_notin l k n : lookup l k = None -> ~ In (k, n) l.
Proof.
  induction l as [|[k0 n0] l IH]; cbn [lookup]; [intros _ []|].
  destruct (key_eqb k0 k) eqn:E; [discriminate|].
  intros H [Hin|Hin]; [|now apply (IH H)].
  injection Hin as -> _. now rewrite key_eqb_refl in E.
Qed.

Lemma existsb_key_in l k : existsb (fun e' : key * node => key_eqb (fst e') k) l = true <-> exists n, In (k, n) l.
Proof.
  rewrite existsb_exists. split.
  - intros ([k' n] & Hin & E). cbn in E. apply key_eqb_eq in E. subst k'. now exists n.
  - intros [n Hin]. exists (k, n). split; [exact Hin|]. apply key_eqb_refl.
Qed.

Lemma lookup_in_nodup l k n : nodup_keys l = true -> In (k, n) l -> lookup l k = Some n.
Proof.
  induction l as [|[k0 n0] l IH]; intros Hnd Hin; [destruct Hin|].
  cbn [nodup_keys fst] in Hnd. apply andb_true_iff in Hnd as [Hne Hnd]. apply negb_true_iff in Hne.
  cbn [lookup]. destruct Hin as [Hin|Hin].
  - injection Hin as -> ->. now rewrite key_eqb_refl.
  - destruct (key_eqb k0 k) eqn:E; [|now apply IH].
    apply key_eqb_eq in E. subst k0.
    assert (X : existsb (fun e' : key * node => key_eqb (fst e') k) l = true) by (apply existsb_key_in; now exists n).
    congruence.
Qed.

(** *** The walk order *)

Lemma key_ltb_irrefl a : key_ltb a a = false.
Proof.
  induction a as [|x a IH]; [reflexivity|]. cbn. now rewrite str_ltb_irrefl, str_eqb_refl, IH.
Qed.

Lemma key_ltb_trans a b c : key_ltb a b = true -> key_ltb b c = true -> key_ltb a c = true.
Proof.
  revert b c; induction a as [|x a IH]; intros [|y b] [|z c]; cbn; try discriminate; try reflexivity.
  intros H1 H2. apply orb_true_iff in H1. apply orb_true_iff in H2. apply orb_true_iff.
  destruct H1 as [H1|H1], H2 as [H2|H2].
  - left. eapply str_ltb_trans; eassumption.
  - apply andb_true_iff in H2 as [E _]. apply str_eqb_eq in E. subst. now left.
  - apply andb_true_iff in H1 as [E _]. apply str_eqb_eq in E. subst. now left.
  - apply andb_true_iff in H1 as [E1 H1]. apply andb_true_iff in H2 as [E2 H2].
    apply str_eqb_eq in E1, E2. subst. right. rewrite str_eqb_refl. cbn. eapply IH; eassumption.
Qed.

Lemma key_trichotomy a b : key_ltb a b = false -> key_eqb a b = false -> key_ltb b a = true.
Proof.
  revert b; induction a as [|x a IH]; intros [|y b]; cbn; try discriminate; try reflexivity.
  intros H1 H2. apply orb_false_iff in H1 as [L H1].
  destruct (str_eqb x y) eqn:E.
  - apply str_eqb_eq in E. subst y. cbn in H1, H2. rewrite str_eqb_refl. cbn.
    rewrite (IH b H1 H2). apply orb_true_r.
  - rewrite (str_trichotomy x y L E). reflexivity.
Qed.

(** A directory precedes everything beneath it. *)
Lemma prefix_key_ltb p k : is_prefix p k = true -> p <> k -> key_ltb p k = true.
Proof.
  revert k; induction p as [|x p IH]; intros [|y k] H Hne; cbn in *; try congruence; try discriminate.
  apply andb_true_iff in H as [E H]. apply str_eqb_eq in E. subst y.
  rewrite str_eqb_refl. cbn. rewrite IH; [apply orb_true_r|exact H|congruence].
Qed.

Fixpoint sortedk (l : tree) : bool :=
  match l with
  | a :: ((b :: _) as r) => key_ltb (fst a) (fst b) && sortedk r
  | _ => true
  end.

Lemma sortedk_cons x l :
  sortedk (x :: l) = true <-> (forall y, In y l -> key_ltb (fst x) (fst y) = true) /\ sortedk l = true.
Proof.
  revert x; induction l as [|y l IH]; intros x.
  - cbn. split; [intros _; split; [intros y []|reflexivity]|reflexivity].
  - change (sortedk (x :: y :: l)) with (key_ltb (fst x) (fst y) && sortedk (y :: l)).
    rewrite andb_true_iff. split.
    + intros [H1 H2]. split; [|exact H2]. intros z [<-|Hz]; [exact H1|].
      apply IH in H2 as [H2 _]. eapply key_ltb_trans; [exact H1|]. now apply H2.
    + intros [H1 H2]. split; [|exact H2]. apply H1. now left.
Qed.

Lemma insert_key_in e e' l : In e' (insert_key e l) <-> e' = e \/ In e' l.
Proof.
  induction l as [|y l IH]; cbn.
  - intuition (auto; congruence).
  - destruct (key_ltb (fst e) (fst y)); cbn; [intuition (auto; congruence)|]. rewrite IH. intuition (auto; congruence).
Qed.

Lemma sort_tree_in e t : In e (sort_tree t) <-> In e t.
Proof.
  induction t as [|x t IH]; cbn; [reflexivity|]. rewrite insert_key_in, IH. intuition (auto; congruence).
Qed.

Lemma insert_key_sorted e l :
  sortedk l = true -> (forall y, In y l -> key_eqb (fst e) (fst y) = false) ->
  sortedk (insert_key e l) = true.
Proof.
  induction l as [|y l IH]; intros H Hd; [reflexivity|].
  cbn [insert_key]. destruct (key_ltb (fst e) (fst y)) eqn:L.
  - change (sortedk (e :: y :: l)) with (key_ltb (fst e) (fst y) && sortedk (y :: l)). now rewrite L, H.
  - apply sortedk_cons in H as [H1 H2]. apply sortedk_cons. split.
    + intros z Hz. apply insert_key_in in Hz as [->|Hz]; [|now apply H1].
      apply key_trichotomy; [exact L|]. apply Hd. now left.
    + apply IH; [exact H2|]. intros z Hz. apply Hd. now right.
Qed.

Lemma sort_tree_sorted t : nodup_keys t = true -> sortedk (sort_tree t) = true.
Proof.
  induction t as [|[k n] t IH]; intros H; [reflexivity|].
  cbn [nodup_keys fst] in H. apply andb_true_iff in H as [Hne H]. apply negb_true_iff in Hne.
  change (sort_tree ((k, n) :: t)) with (insert_key (k, n) (sort_tree t)).
  apply insert_key_sorted; [now apply IH|].
  intros [k' n'] Hy. apply (proj1 (sort_tree_in _ _)) in Hy. cbn [fst].
  destruct (key_eqb k k') eqn:E; [|reflexivity]. apply key_eqb_eq in E. subst k'.
  assert (X : existsb (fun e' : key * node => key_eqb (fst e') k) t = true) by (apply existsb_key_in; now exists n').
  congruence.
Qed.

Lemma sortedk_nodup l : sortedk l = true -> nodup_keys l = true.
Proof.
  induction l as [|x l IH]; intros H; [reflexivity|].
  apply sortedk_cons in H as [H1 H2]. cbn [nodup_keys]. rewrite (IH H2), andb_true_r.
  apply negb_true_iff. destruct (existsb _ l) eqn:E; [|reflexivity].
  apply existsb_exists in E as (y & Hy & Ey). apply key_eqb_eq in Ey.
  specialize (H1 y Hy). rewrite Ey, key_ltb_irrefl in H1. discriminate.
Qed.

Lemma sortedk_app_inv a e b :
  sortedk (a ++ e :: b) = true ->
  (forall y, In y b -> key_ltb (fst e) (fst y) = true) /\ sortedk a = true.
Proof.
  induction a as [|x a IH]; cbn [app]; intros H.
  - apply sortedk_cons in H as [H _]. now split.
  - apply sortedk_cons in H as [H1 H2]. destruct (IH H2) as [A B]. split; [exact A|].
    apply sortedk_cons. split; [|exact B]. intros y Hy. apply H1. apply in_or_app. now left.
Qed.

(** In walk order, whatever sorts before an entry has already been seen. *)
Lemma sorted_earlier_in_done a e b p n :
  sortedk (a ++ e :: b) = true -> In (p, n) (a ++ e :: b) -> key_ltb p (fst e) = true -> In (p, n) a.
Proof.
  intros Hs Hin Hlt. apply in_app_or in Hin as [Hin|[Hin|Hin]]; [exact Hin| |].
  - subst e. cbn in Hlt. now rewrite key_ltb_irrefl in Hlt.
  - destruct (sortedk_app_inv _ _ _ Hs) as [A _]. specialize (A _ Hin). cbn [fst] in A.
    pose proof (key_ltb_trans _ _ _ Hlt A) as X. now rewrite key_ltb_irrefl in X.
Qed.

(** *** What each step of the walk may assume *)

Definition step_ok (done : tree) (e : key * node) : Prop :=
  lookup done (fst e) = None /\
  forallb goodb (fst e) = true /\
  match fst e with
  | [] => is_dir_node (Some (snd e)) = true
  | k => is_dir_node (lookup done (removelast k)) = true
  end.

Definition ok_seq (S : tree) : Prop :=
  forall done e todo, S = done ++ e :: todo -> step_ok done e.

Lemma removelast_is_prefix (k : key) : is_prefix (removelast k) k = true.
Proof.
  destruct k as [|x k] using rev_ind; [reflexivity|]. rewrite removelast_last. apply is_prefix_app.
Qed.

Lemma removelast_neq (k : key) : k <> [] -> removelast k <> k.
Proof.
  intros H E. apply (f_equal (@length str)) in E.
  destruct k as [|x k] using rev_ind; [congruence|]. rewrite removelast_last, app_length in E. cbn in E. lia.
Qed.

Lemma wf_tree_ok_seq t : wf_tree t = true -> ok_seq (sort_tree t).
Proof.
  unfold wf_tree. intros H. apply andb_true_iff in H as [H Hv]. apply andb_true_iff in H as [Hroot Hnd].
  pose proof (sort_tree_sorted t Hnd) as Hs.
  intros done e todo E. rewrite E in Hs.
  pose proof (sortedk_nodup _ Hs) as HndS.
  assert (Hin : In e t) by (apply (proj1 (sort_tree_in _ _)); rewrite E; apply in_or_app; right; now left).
  rewrite forallb_forall in Hv. specialize (Hv e Hin). unfold valid_entry in Hv.
  apply andb_true_iff in Hv as [Hg Hp].
  split; [|split; [exact Hg|]].
  - (* the entry's own position has not been produced yet *)
    destruct (lookup done (fst e)) as [n|] eqn:El; [|reflexivity].
    apply lookup_some_in in El.
    assert (X : In (fst e, n) (done ++ e :: todo)) by (apply in_or_app; now left).
    destruct e as [k n0]. cbn [fst] in *.
    pose proof (lookup_in_nodup _ _ _ HndS X) as L1.
    assert (Y : In (k, n0) (done ++ (k, n0) :: todo)) by (apply in_or_app; right; now left).
    pose proof (lookup_in_nodup _ _ _ HndS Y) as L2.
    (* both occurrences are the same element; but then it occurs twice *)
    clear L1 L2 X Y. exfalso.
    apply in_split in El as (d1 & d2 & ->).
    rewrite <- app_assoc in Hs. cbn [app] in Hs.
    destruct (sortedk_app_inv _ _ _ Hs) as [A _].
    specialize (A (k, n0) ltac:(apply in_or_app; right; now left)). cbn [fst] in A.
    now rewrite key_ltb_irrefl in A.
  - destruct (fst e) as [|x k'] eqn:Ek; [exact Hp|]. rewrite <- Ek in *.
    assert (Hne : fst e <> []) by (rewrite Ek; discriminate).
    destruct (lookup t (removelast (fst e))) as [np|] eqn:Ep; [|discriminate].
    apply lookup_some_in in Ep. apply (proj2 (sort_tree_in _ _)) in Ep. rewrite E in Ep.
    assert (Hlt : key_ltb (removelast (fst e)) (fst e) = true).
    { apply prefix_key_ltb; [apply removelast_is_prefix|now apply removelast_neq]. }
    pose proof (sorted_earlier_in_done _ _ _ _ _ Hs Ep Hlt) as Hd.
    destruct (sortedk_app_inv _ _ _ Hs) as [_ Hsd].
    rewrite (lookup_in_nodup _ _ _ (sortedk_nodup _ Hsd) Hd). exact Hp.
Qed.

Definition closedT (l : tree) : Prop :=
  forall k, lookup l k <> None -> k <> [] -> is_dir_node (lookup l (removelast k)) = true.

Lemma ok_seq_closed done todo : ok_seq (done ++ todo) -> closedT done.
Proof.
  revert todo. induction done as [|e done IH] using rev_ind; intros todo H.
  - intros k Hk. cbn in Hk. congruence.
  - assert (H' : ok_seq (done ++ e :: todo)) by (now rewrite <- app_assoc in H).
    pose proof (IH _ H') as Hc. destruct (H' done e todo eq_refl) as (Hn & _ & Hp).
    intros k Hk Hne. rewrite lookup_app in Hk |- *.
    destruct (lookup done k) as [n|] eqn:El.
    + assert (Hd : is_dir_node (lookup done (removelast k)) = true) by (apply Hc; [congruence|exact Hne]).
      destruct (lookup done (removelast k)); [exact Hd|discriminate].
    + destruct e as [ke ne]. cbn [lookup fst snd] in *.
      destruct (key_eqb ke k) eqn:Ek; [|congruence]. apply key_eqb_eq in Ek. subst ke.
      destruct k as [|x k']; [congruence|].
      destruct (lookup done (removelast (x :: k'))); [exact Hp|discriminate].
Qed.

Lemma is_prefix_snoc (k1 k : key) x :
  is_prefix k1 (k ++ [x]) = true -> k1 = k ++ [x] \/ is_prefix k1 k = true.
Proof.
  revert k1; induction k as [|y k IH]; intros [|z k1] H; cbn in *; try (now right).
  - apply andb_true_iff in H as [E H]. apply str_eqb_eq in E. subst z.
    destruct k1; [now left|discriminate].
  - apply andb_true_iff in H as [E H]. apply str_eqb_eq in E. subst z.
    destruct (IH _ H) as [->|H']; [now left|right]. now rewrite str_eqb_refl.
Qed.

Lemma closed_prefix_dirs l : closedT l ->
  forall k, is_dir_node (lookup l k) = true ->
  forall k1, is_prefix k1 k = true -> is_dir_node (lookup l k1) = true.
Proof.
  intros Hc k. induction k as [|x k IH] using rev_ind; intros Hk k1 Hp.
  - destruct k1; [exact Hk|discriminate].
  - destruct (is_prefix_snoc _ _ _ Hp) as [->|Hp']; [exact Hk|].
    apply IH; [|exact Hp'].
    assert (X : lookup l (k ++ [x]) <> None) by (destruct (lookup l (k ++ [x])); [discriminate|discriminate]).
    specialize (Hc _ X ltac:(destruct k; discriminate)). now rewrite removelast_last in Hc.
Qed.

(** *** MkdirAll along existing directories *)

Fixpoint dirs_along (f : fs) (pre : key) (rest : list str) : bool :=
  match rest with
  | [] => true
  | x :: r => is_dir_node (lookup f (pre ++ [x])) && dirs_along f (pre ++ [x]) r
  end.

Lemma mkdir_walk_along um perm f a : forall pre b,
  dirs_along f pre a = true ->
  mkdir_walk um perm f pre (a ++ b) = mkdir_walk um perm f (pre ++ a) b.
Proof.
  induction a as [|x a IH]; intros pre b H; cbn [app].
  - now rewrite app_nil_r.
  - cbn [dirs_along] in H. apply andb_true_iff in H as [Hd H]. cbn [mkdir_walk].
    destruct (lookup f (pre ++ [x])) as [[pm d|pm]|]; try discriminate.
    rewrite IH by exact H. now rewrite <- app_assoc.
Qed.

Lemma mkdir_walk_noop um perm f T : dirs_along f [] T = true -> mkdir_walk um perm f [] T = (true, f).
Proof. intros H. rewrite <- (app_nil_r T), mkdir_walk_along by exact H. reflexivity. Qed.

Lemma mkdir_walk_new um perm f T :
  T <> [] -> dirs_along f [] (removelast T) = true -> lookup f T = None ->
  mkdir_walk um perm f [] T = (true, set f T (NDir (N.ldiff (N.land perm perm_dir_mask) um))).
Proof.
  intros Hne Hd Hn. rewrite (app_removelast_last [] Hne) at 1.
  rewrite mkdir_walk_along by exact Hd. cbn [app mkdir_walk]. unfold str in *.
  rewrite <- (app_removelast_last [] Hne), Hn. reflexivity.
Qed.

Lemma dirs_along_intro f rest : forall pre,
  (forall q, is_prefix pre q = true -> is_prefix q (pre ++ rest) = true -> q <> pre ->
             is_dir_node (lookup f q) = true) ->
  dirs_along f pre rest = true.
Proof.
  induction rest as [|x rest IH]; intros pre H; [reflexivity|].
  cbn [dirs_along]. apply andb_true_iff. split.
  - apply H.
    + apply is_prefix_app.
    + apply is_prefix_spec. exists rest. now rewrite <- app_assoc.
    + intros E. apply (f_equal (@length str)) in E. rewrite app_length in E. cbn in E. lia.
  - apply IH. intros q H1 H2 H3. apply H.
    + eapply is_prefix_trans; [apply is_prefix_app|exact H1].
    + now rewrite <- app_assoc in H2.
    + intros ->. apply is_prefix_spec in H1 as [r Hr].
      apply (f_equal (@length str)) in Hr. rewrite !app_length in Hr. cbn in Hr. lia.
Qed.

Lemma is_prefix_app_cases (q D kp : key) :
  is_prefix q (D ++ kp) = true ->
  (is_prefix q D = true /\ q <> D) \/ exists k1, q = D ++ k1 /\ is_prefix k1 kp = true.
Proof.
  revert q; induction D as [|d D IH]; intros q H; cbn [app] in *.
  - right. now exists q.
  - destruct q as [|x q]; [left; split; [reflexivity|discriminate]|].
    cbn in H. apply andb_true_iff in H as [E H]. apply str_eqb_eq in E. subst x.
    destruct (IH _ H) as [[A B]|(k1 & -> & A)].
    + left. cbn. rewrite str_eqb_refl. split; [exact A|congruence].
    + right. now exists k1.
Qed.

Lemma proper_prefix_in rest : forall pre q,
  is_prefix pre q = true -> is_prefix q (pre ++ rest) = true -> q <> pre ++ rest ->
  In q (prefixes_from pre rest).
Proof.
  induction rest as [|x rest IH]; intros pre q H1 H2 H3.
  - rewrite app_nil_r in *. exfalso. apply H3.
    apply is_prefix_spec in H1 as [r1 ->]. apply is_prefix_spec in H2 as [r2 E].
    rewrite <- app_assoc in E. rewrite <- (app_nil_r pre) in E at 1.
    apply app_inv_head in E. symmetry in E. apply app_eq_nil in E as [-> _]. now rewrite app_nil_r.
  - cbn [prefixes_from]. destruct (key_eqb pre q) eqn:E.
    + apply key_eqb_eq in E. now left.
    + right. apply IH.
      * apply is_prefix_spec in H1 as [r1 ->].
        destruct r1 as [|y r1]; [rewrite app_nil_r, key_eqb_refl in E; discriminate|].
        apply is_prefix_spec in H2 as [r2 E2]. rewrite <- !app_assoc in E2. apply app_inv_head in E2.
        cbn in E2. injection E2 as -> _. apply is_prefix_spec. exists r1. now rewrite <- app_assoc.
      * now rewrite <- app_assoc.
      * now rewrite <- app_assoc.
Qed.

Lemma is_prefix_false_of_proper (q D : key) : is_prefix q D = true -> q <> D -> is_prefix D q = false.
Proof.
  intros H Hne. destruct (is_prefix D q) eqn:E; [|reflexivity]. exfalso. apply Hne.
  apply is_prefix_spec in H as [r1 ->]. apply is_prefix_spec in E as [r2 E].
  rewrite <- app_assoc in E. rewrite <- (app_nil_r q) in E at 1. apply app_inv_head in E.
  symmetry in E. apply app_eq_nil in E as [-> _]. now rewrite app_nil_r.
Qed.

Lemma last_app_ne {A} (a b : list A) d : b <> [] -> last (a ++ b) d = last b d.
Proof.
  intros Hb. induction a as [|x a IH]; [reflexivity|]. cbn [app].
  destruct (a ++ b) eqn:E; [apply app_eq_nil in E as [_ E]; congruence|]. exact IH.
Qed.

(** *** The round trip *)

Section RoundTrip.
  Variable c : cfg.
  Variable f : fs.
  Variable dir : str.
  Variable D : key.
  Hypothesis Hcwd : forallb goodb (cwd c) = true.
  Hypothesis Hdir : dir <> [].
  Hypothesis HD : resolve (cwd c) dir = Some D.
  Hypothesis Hready : dest_ready f D.

  Let um := umask c.

  Definition Inv (f' : fs) (done : tree) : Prop :=
    (forall r, lookup f' (D ++ r) = option_map (under_umask um) (lookup done r)) /\
    (forall k, is_prefix D k = false -> lookup f' k = lookup f k).

  Lemma ready_parts :
    D <> [] /\
    (forall q, is_prefix q D = true -> q <> D -> is_dir_node (lookup f q) = true) /\
    (forall k, is_prefix D k = true -> lookup f k = None).
  Proof.
    unfold dest_ready, dest_readyb in Hready.
    apply andb_true_iff in Hready as [H H3]. apply andb_true_iff in H as [H1 H2].
    split; [destruct D; [discriminate|discriminate]|]. split.
    - intros q Hq Hne. rewrite forallb_forall in H2. apply H2.
      apply (proper_prefix_in D [] q); [reflexivity|exact Hq|exact Hne].
    - intros k Hk. destruct (lookup f k) as [n|] eqn:E; [|reflexivity].
      apply lookup_some_in in E. rewrite forallb_forall in H3. specialize (H3 _ E).
      cbn [fst] in H3. now rewrite Hk in H3.
  Qed.

  Lemma inv_init : Inv f [].
  Proof.
    destruct ready_parts as (_ & _ & Habs). split; [|reflexivity].
    intros r. cbn. apply Habs. apply is_prefix_app.
  Qed.

  Lemma goodb_parts (l : list str) :
    forallb goodb l = true -> forallb normalb l = true /\ forallb noslashb l = true.
  Proof.
    induction l as [|x l IH]; [now split|]. cbn. intros H. apply andb_true_iff in H as [Hx H].
    unfold goodb in Hx. apply andb_true_iff in Hx as [H1 H2]. destruct (IH H) as [A B].
    now rewrite H1, H2, A, B.
  Qed.

  Lemma resolve_entry k :
    forallb goodb k = true ->
    resolve (cwd c) (filepath_join [dir; join_slash k]) = Some (D ++ k).
  Proof.
    intros Hk. destruct (goodb_parts k Hk) as [Hn Hs].
    rewrite (resolve_join _ _ _ _ HD). f_equal.
    destruct k as [|x k]; [cbn; now rewrite rev_involutive, app_nil_r|].
    rewrite split_join by (discriminate || exact Hs).
    rewrite norm_from_normal by exact Hn. now rewrite rev_app_distr, !rev_involutive.
  Qed.

  Lemma join_slash_snoc_slash_split k :
    k <> [] -> forallb noslashb k = true ->
    split_slash (join_slash k ++ [slash]) = k ++ [[]].
  Proof. intros Hne Hs. now rewrite split_slash_snoc_slash, split_join. Qed.

  Lemma entry_name_dir k :
    forallb goodb k = true ->
    filepath_join [dir; rel_name k ++ [slash]] = filepath_join [dir; join_slash k].
  Proof.
    intros Hk. destruct (goodb_parts k Hk) as [Hn Hs].
    rewrite !filepath_join2. destruct dir as [|c0 d'] eqn:Ed; [congruence|]. cbn [is_empty].
    rewrite <- Ed. assert (Hne : dir <> []) by (rewrite Ed; discriminate).
    apply clean_eq_of_nsegs.
    - now rewrite !is_rooted_app.
    - unfold nsegs. rewrite !is_rooted_app by exact Hne.
      rewrite (split_slash_app_slash dir (rel_name k ++ [slash])).
      rewrite (split_slash_app_slash dir (join_slash k)).
      unfold norm. rewrite !norm_from_app. f_equal.
      destruct k as [|x k].
      + reflexivity.
      + cbn [rel_name]. now rewrite split_slash_snoc_slash, norm_from_snoc_empty.
  Qed.

  Lemma name_last k :
    k <> [] -> forallb goodb k = true ->
    normalb (last (split_slash (filepath_join [dir; join_slash k])) []) = true.
  Proof.
    intros Hne Hk. destruct (goodb_parts k Hk) as [Hn Hs].
    rewrite filepath_join2. destruct dir as [|c0 d'] eqn:Ed; [congruence|]. cbn [is_empty].
    rewrite <- Ed. assert (Hdne : dir <> []) by (rewrite Ed; discriminate).
    set (p := dir ++ slash :: join_slash k).
    assert (En : nsegs p = nsegs dir ++ k).
    { unfold nsegs, p. rewrite is_rooted_app by exact Hdne.
      rewrite split_slash_app_slash, split_join by assumption. now apply norm_app_normal. }
    rewrite clean_render, last_split_render.
    - rewrite En, last_app_ne by exact Hne.
      clear - Hn Hne. induction k as [|x k IH]; [congruence|]. cbn in Hn. apply andb_true_iff in Hn as [Hx Hn].
      destruct k as [|y k]; [exact Hx|]. apply IH; [discriminate|exact Hn].
    - rewrite En. destruct (nsegs dir); [cbn; exact Hne|discriminate].
    - apply nsegs_noslash.
    - apply nsegs_shaped.
  Qed.

  Lemma key_eqb_app_l (a b b' : key) : key_eqb (a ++ b) (a ++ b') = key_eqb b b'.
  Proof. induction a as [|x a IH]; [reflexivity|]. cbn. now rewrite str_eqb_refl, IH. Qed.

  Lemma is_prefix_app_l (a b b' : key) : is_prefix (a ++ b) (a ++ b') = is_prefix b b'.
  Proof. induction a as [|x a IH]; [reflexivity|]. cbn. now rewrite str_eqb_refl, IH. Qed.

  (** All directories from the root down to [D ++ kp] exist. *)
  Lemma dirs_to f' done kp :
    Inv f' done -> closedT done -> is_dir_node (lookup done kp) = true ->
    dirs_along f' [] (D ++ kp) = true.
  Proof.
    intros [I1 I2] Hc Hkp. destruct ready_parts as (HDne & Hanc & _).
    apply dirs_along_intro. intros q _ Hq Hqne. cbn [app] in Hq.
    destruct (is_prefix_app_cases _ _ _ Hq) as [[A B]|(k1 & -> & A)].
    - rewrite I2 by (now apply is_prefix_false_of_proper). now apply Hanc.
    - rewrite I1. pose proof (closed_prefix_dirs _ Hc _ Hkp _ A) as X.
      destruct (lookup done k1) as [[pm d|pm]|]; try discriminate. reflexivity.
  Qed.

  Lemma dirs_to_parent_of_dest f' done :
    Inv f' done -> dirs_along f' [] (removelast D) = true.
  Proof.
    intros [_ I2]. destruct ready_parts as (HDne & Hanc & _).
    apply dirs_along_intro. intros q _ Hq Hqne. cbn [app] in Hq.
    assert (Hp : is_prefix q D = true) by (eapply is_prefix_trans; [exact Hq|apply removelast_is_prefix]).
    assert (Hne : q <> D).
    { intros ->. pose proof (removelast_neq D HDne) as X. apply X.
      apply is_prefix_spec in Hq as [r Hr]. pose proof (removelast_is_prefix D) as Y.
      apply is_prefix_spec in Y as [r' Hr']. rewrite Hr in Hr' at 1.
      rewrite <- app_assoc in Hr'. rewrite <- (app_nil_r D) in Hr' at 1. apply app_inv_head in Hr'.
      symmetry in Hr'. apply app_eq_nil in Hr' as [-> _]. now rewrite app_nil_r in Hr. }
    rewrite I2 by (now apply is_prefix_false_of_proper). now apply Hanc.
  Qed.

  Lemma inv_extend f' done k n T n' :
    Inv f' done -> lookup done k = None -> T = D ++ k -> n' = under_umask um n ->
    Inv (set f' T n') (done ++ [(k, n)]).
  Proof.
    intros [I1 I2] Hn -> ->. split.
    - intros r. rewrite lookup_set, key_eqb_app_l, lookup_app. cbn [lookup].
      destruct (key_eqb k r) eqn:E.
      + apply key_eqb_eq in E. subst r. now rewrite Hn.
      + rewrite I1. destruct (lookup done r); reflexivity.
    - intros q Hq. rewrite lookup_set.
      destruct (key_eqb (D ++ k) q) eqn:E; [|now apply I2].
      apply key_eqb_eq in E. subst q. now rewrite is_prefix_app in Hq.
  Qed.

  Lemma removelast_app_ne (a b : key) : b <> [] -> removelast (a ++ b) = a ++ removelast b.
  Proof. intros H. now apply removelast_app. Qed.

  (** One entry of the walk. *)
  Lemma entry_step f' done e :
    Inv f' done -> closedT done -> step_ok done e ->
    exists f'', unzip_entry c f' dir (entry_of e) = (None, f'') /\ Inv f'' (done ++ [e]).
  Proof.
    intros HI Hc (Hnone & Hg & Hparent). destruct e as [k n]. cbn [fst snd] in *.
    pose proof HI as [I1 I2].
    assert (Hlk : lookup f' (D ++ k) = None) by (rewrite I1, Hnone; reflexivity).
    destruct ready_parts as (HDne & _ & _).
    destruct n as [pm d|pm].
    - (* a file *)
      destruct k as [|x0 k0] eqn:Ek; [discriminate|]. rewrite <- Ek in *.
      assert (Hkne : k <> []) by (rewrite Ek; discriminate).
      unfold unzip_entry, entry_of. cbn [snd fst e_name e_kind e_perm e_data].
      assert (En : rel_name k = join_slash k) by (rewrite Ek; reflexivity). rewrite En.
      rewrite in_dir_join_good by exact Hg. cbn [negb].
      set (name := filepath_join [dir; join_slash k]).
      pose proof (resolve_entry k Hg) as Hres. fold name in Hres.
      assert (Hsplit : D ++ k = (D ++ removelast k) ++ [last k []]).
      { rewrite <- app_assoc. f_equal. now apply app_removelast_last. }
      assert (Hdirres : resolve (cwd c) (dir_of name) = Some (D ++ removelast k)).
      { eapply resolve_dir_of_parent; [rewrite <- Hsplit; exact Hres|]. now apply name_last. }
      assert (Hpd : is_dir_node (lookup done (removelast k)) = true) by (rewrite Ek in Hparent |- *; exact Hparent).
      pose proof (dirs_to f' done (removelast k) HI Hc Hpd) as Hdirs.
      unfold mkdir_all. rewrite Hdirres, mkdir_walk_noop by exact Hdirs. cbn [negb].
      unfold open_trunc. rewrite Hres.
      destruct (D ++ k) as [|t0 T0] eqn:ET; [destruct D; discriminate|]. rewrite <- ET in *.
      assert (Hrl : removelast (D ++ k) = D ++ removelast k) by (now apply removelast_app).
      rewrite Hrl.
      assert (Hpdir : is_dir_node (lookup f' (D ++ removelast k)) = true).
      { rewrite I1. destruct (lookup done (removelast k)) as [[?pm ?d|?pm]|]; try discriminate. reflexivity. }
      rewrite Hpdir, Hlk.
      eexists. split; [reflexivity|].
      assert (Eset : forall n1 n2, set (set f' (D ++ k) n1) (D ++ k) n2 = set f' (D ++ k) n2 \/ True) by (intros; now right).
      clear Eset.
      (* two writes to the same position: the second wins *)
      assert (Inv (set f' (D ++ k) (NFile (N.land pm perm_mask) d)) (done ++ [(k, NFile pm d)])) as HI'.
      { eapply inv_extend; [exact HI|exact Hnone|reflexivity|reflexivity]. }
      destruct HI' as [J1 J2]. split.
      + intros r. rewrite <- J1. rewrite !lookup_set. destruct (key_eqb (D ++ k) (D ++ r)); reflexivity.
      + intros q Hq. rewrite <- (J2 q Hq). rewrite !lookup_set. destruct (key_eqb (D ++ k) q); reflexivity.
    - (* a directory *)
      unfold unzip_entry, entry_of. cbn [snd fst e_name e_kind e_perm e_data].
      rewrite entry_name_dir by exact Hg.
      rewrite in_dir_join_good by exact Hg. cbn [negb].
      unfold mkdir_all. rewrite (resolve_entry k Hg).
      assert (HT : D ++ k <> []) by (destruct D; [congruence|discriminate]).
      assert (Hdirs : dirs_along f' [] (removelast (D ++ k)) = true).
      { destruct k as [|x0 k0] eqn:Ek.
        - rewrite app_nil_r. now apply (dirs_to_parent_of_dest f' done).
        - rewrite <- Ek in *. rewrite removelast_app by (rewrite Ek; discriminate).
          apply (dirs_to f' done); [exact HI|exact Hc|]. rewrite Ek in Hparent |- *. exact Hparent. }
      rewrite (mkdir_walk_new _ _ _ _ HT Hdirs Hlk).
      eexists. split; [reflexivity|].
      eapply inv_extend; [exact HI|exact Hnone|reflexivity|reflexivity].
  Qed.

  Lemma entries_run todo : forall done f',
    ok_seq (done ++ todo) -> Inv f' done ->
    exists f'', unzip_entries c f' dir (map entry_of todo) = (XOk, f'') /\ Inv f'' (done ++ todo).
  Proof.
    induction todo as [|e todo IH]; intros done f' Hok HI.
    - exists f'. rewrite app_nil_r. now split.
    - pose proof (ok_seq_closed done (e :: todo) Hok) as Hc.
      pose proof (Hok done e todo eq_refl) as Hstep.
      destruct (entry_step f' done e HI Hc Hstep) as (f1 & E1 & HI1).
      cbn [map unzip_entries]. rewrite E1.
      assert (Hok' : ok_seq ((done ++ [e]) ++ todo)) by (now rewrite <- app_assoc).
      destruct (IH _ _ Hok' HI1) as (f2 & E2 & HI2).
      exists f2. split; [exact E2|]. now rewrite <- app_assoc in HI2.
  Qed.

  Lemma lookup_sort_tree t r : nodup_keys t = true -> lookup (sort_tree t) r = lookup t r.
  Proof.
    intros Hnd. pose proof (sortedk_nodup _ (sort_tree_sorted t Hnd)) as HndS.
    destruct (lookup t r) as [n|] eqn:E.
    - apply lookup_some_in in E. apply (proj2 (sort_tree_in _ _)) in E. now apply lookup_in_nodup.
    - destruct (lookup (sort_tree t) r) as [n|] eqn:E'; [|reflexivity].
      apply lookup_some_in in E'. apply (proj1 (sort_tree_in _ _)) in E'. exfalso. now apply (lookup_none_notin _ _ n E).
  Qed.

  Theorem roundtrip_in_section t :
    wf_tree t = true ->
    exists f',
      unzip_entries c f dir (zip_dir t) = (XOk, f') /\
      (forall r, lookup f' (D ++ r) = option_map (under_umask um) (lookup t r)) /\
      (forall k, is_prefix D k = false -> lookup f' k = lookup f k).
  Proof.
    intros Hwf. pose proof (wf_tree_ok_seq t Hwf) as Hok.
    destruct (entries_run (sort_tree t) [] f Hok inv_init) as (f' & E & [I1 I2]).
    exists f'. split; [exact E|]. split; [|exact I2].
    intros r. rewrite I1. cbn [app]. rewrite lookup_sort_tree; [reflexivity|].
    unfold wf_tree in Hwf. apply andb_true_iff in Hwf as [Hwf _]. now apply andb_true_iff in Hwf as [_ Hwf].
  Qed.

  Theorem zip_file_in_section name pm d :
    goodb name = true ->
    exists f',
      unzip_entries c f dir (zip_file name pm d) = (XOk, f') /\
      lookup f' (D ++ [name]) = Some (NFile (N.land pm perm_mask) d) /\
      (forall k, is_prefix D k = false -> lookup f' k = lookup f k).
  Proof.
    intros Hn.
    (* ZipFile's archive is ZipDir's for the one-file tree minus the root
       entry; UnzipDir then creates the destination itself through
       MkdirAll(filepath.Dir(name)). *)
    destruct ready_parts as (HDne & Hanc & Habs).
    assert (Hg : forallb goodb [name] = true) by (cbn; now rewrite Hn).
    unfold zip_file. cbn [unzip_entries]. unfold unzip_entry. cbn [e_name e_kind e_perm e_data].
    change name with (join_slash [name]) at 1 2 3 4.
    rewrite in_dir_join_good by exact Hg. cbn [negb].
    set (nm := filepath_join [dir; join_slash [name]]).
    pose proof (resolve_entry [name] Hg) as Hres. fold nm in Hres.
    assert (Hdirres : resolve (cwd c) (dir_of nm) = Some D).
    { eapply resolve_dir_of_parent; [exact Hres|]. apply (name_last [name]); [discriminate|exact Hg]. }
    unfold mkdir_all. rewrite Hdirres.
    assert (Hdirs : dirs_along f [] (removelast D) = true).
    { apply (dirs_to_parent_of_dest f []). apply inv_init. }
    assert (HlD : lookup f D = None) by (apply Habs, is_prefix_refl).
    rewrite (mkdir_walk_new _ _ _ _ HDne Hdirs HlD). cbn [negb].
    unfold open_trunc. rewrite Hres.
    destruct (D ++ [name]) as [|t0 T0] eqn:ET; [destruct D; discriminate|]. rewrite <- ET.
    rewrite removelast_last, lookup_set, key_eqb_refl. cbn [is_dir_node].
    rewrite lookup_set.
    assert (Hneq : key_eqb D (D ++ [name]) = false).
    { apply key_eqb_neq. intros E. apply (f_equal (@length str)) in E. rewrite app_length in E. cbn in E. lia. }
    rewrite Hneq, (Habs (D ++ [name]) (is_prefix_app D [name])).
    eexists. split; [reflexivity|]. split.
    - now rewrite lookup_set, key_eqb_refl.
    - intros q Hq. rewrite !lookup_set.
      destruct (key_eqb (D ++ [name]) q) eqn:E1.
      { apply key_eqb_eq in E1. subst q. now rewrite is_prefix_app in Hq. }
      destruct (key_eqb D q) eqn:E2; [|reflexivity].
      apply key_eqb_eq in E2. subst q. now rewrite is_prefix_refl in Hq.
  Qed.
End RoundTrip.

Theorem zip_roundtrip c f dir D t :
  wf_tree t = true ->
  forallb goodb (cwd c) = true ->
  dir <> [] ->
  resolve (cwd c) dir = Some D ->
  dest_ready f D ->
  exists f',
    unzip_entries c f dir (zip_dir t) = (XOk, f') /\
    (forall r, lookup f' (D ++ r) = option_map (under_umask (umask c)) (lookup t r)) /\
    (forall k, is_prefix D k = false -> lookup f' k = lookup f k).
Proof. intros Hwf Hc Hd HD Hr. now apply (roundtrip_in_section c f dir D Hd HD Hr). Qed.

Theorem zip_file_roundtrip c f dir D name pm d :
  goodb name = true ->
  forallb goodb (cwd c) = true ->
  dir <> [] ->
  resolve (cwd c) dir = Some D ->
  dest_ready f D ->
  exists f',
    unzip_entries c f dir (zip_file name pm d) = (XOk, f') /\
    lookup f' (D ++ [name]) = Some (NFile (N.land pm perm_mask) d) /\
    (forall k, is_prefix D k = false -> lookup f' k = lookup f k).
Proof. intros Hn Hc Hd HD Hr. now apply (zip_file_in_section c f dir D Hd HD Hr). Qed.

(** *** With [clear]: whatever was at the destination before *)

Lemma prefixes_from_spec rest : forall pre q,
  In q (prefixes_from pre rest) ->
  is_prefix q (pre ++ rest) = true /\ (length q < length (pre ++ rest))%nat.
Proof.
  induction rest as [|x rest IH]; intros pre q H; [destruct H|].
  cbn [prefixes_from] in H. destruct H as [<-|H].
  - split; [apply is_prefix_app|]. rewrite app_length. cbn. lia.
  - destruct (IH _ _ H) as [A B]. now rewrite <- app_assoc in A, B.
Qed.

Lemma file_on_the_way_dirs f rest : forall pre,
  forallb (fun k => is_dir_node (lookup f k)) (prefixes_from pre rest) = true ->
  file_on_the_way f pre rest = false.
Proof.
  induction rest as [|x rest IH]; intros pre H; [reflexivity|].
  destruct rest as [|y rest]; [reflexivity|].
  change (prefixes_from pre (x :: y :: rest)) with (pre :: prefixes_from (pre ++ [x]) (y :: rest)) in H.
  cbn [forallb] in H. apply andb_true_iff in H as [_ H].
  assert (Hd : is_dir_node (lookup f (pre ++ [x])) = true).
  { change (prefixes_from (pre ++ [x]) (y :: rest))
      with ((pre ++ [x]) :: prefixes_from ((pre ++ [x]) ++ [y]) rest) in H.
    cbn [forallb] in H. now apply andb_true_iff in H as [H _]. }
  change (file_on_the_way f pre (x :: y :: rest))
    with (match lookup f (pre ++ [x]) with
          | Some (NFile _ _) => true
          | _ => file_on_the_way f (pre ++ [x]) (y :: rest)
          end).
  destruct (lookup f (pre ++ [x])) as [[pm d|pm]|]; cbn in Hd; try congruence; now apply IH.
Qed.

Lemma dest_ready_after_clear f D :
  D <> [] ->
  forallb (fun k => is_dir_node (lookup f k)) (proper_prefixes D) = true ->
  dest_ready (remove_under f D) D.
Proof.
  intros HD Hanc. unfold dest_ready, dest_readyb. apply andb_true_iff. split; [apply andb_true_iff; split|].
  - destruct D; [congruence|reflexivity].
  - rewrite forallb_forall in Hanc |- *. intros q Hq. rewrite lookup_remove_under.
    destruct (prefixes_from_spec D [] q Hq) as [A B]. cbn [app] in A, B.
    assert (E : is_prefix D q = false).
    { destruct (is_prefix D q) eqn:E; [|reflexivity]. exfalso.
      apply is_prefix_spec in E as [r ->]. rewrite app_length in B. lia. }
    rewrite E. now apply Hanc.
  - unfold remove_under. rewrite forallb_forall. intros e He. apply filter_In in He as [_ He]. exact He.
Qed.

(** [UnzipDir(dir, r, true)] of [ZipDir]'s archive: the destination may hold
    anything beforehand. *)
Theorem zip_roundtrip_clear c f dir D t :
  wf_tree t = true ->
  forallb goodb (cwd c) = true ->
  resolve (cwd c) dir = Some D ->
  D <> [] -> ends_with_dot dir = false ->
  forallb (fun k => is_dir_node (lookup f k)) (proper_prefixes D) = true ->
  exists f',
    unzip c f dir true (zip_dir t) = (XOk, f') /\
    (forall r, lookup f' (D ++ r) = option_map (under_umask (umask c)) (lookup t r)) /\
    (forall k, is_prefix D k = false -> lookup f' k = lookup f k).
Proof.
  intros Hwf Hc HD HDne Hdot Hanc.
  assert (Hdir : dir <> []) by (intros ->; discriminate).
  unfold unzip, remove_all. rewrite HD. destruct D as [|x D'] eqn:ED; [congruence|]. rewrite <- ED in *.
  rewrite Hdot, (file_on_the_way_dirs f D [] Hanc).
  destruct (zip_roundtrip c (remove_under f D) dir D t Hwf Hc Hdir HD (dest_ready_after_clear f D HDne Hanc))
    as (f' & E & A & B).
  exists f'. split; [exact E|]. split; [exact A|].
  intros k Hk. rewrite (B k Hk), lookup_remove_under, Hk. reflexivity.
Qed.
