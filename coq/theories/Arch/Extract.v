(** Archive extraction (ziputil/unzip.go [UnzipDir], dock/write_tar.go
    [writeTarToDir]) over a small file-system model without symbolic links:
    a finite map from absolute positions (lists of real path elements) to
    files (permission bits, content) and directories (permission bits).
    Path strings are resolved against a working directory with Lib/Path.v.
    Definitions only. *)
From Coq Require Import List NArith Bool.
From Verif Require Import Lib.Path.
Import ListNotations.
Local Open Scope N_scope.

Definition key := list str.

Inductive node :=
| NFile (perm : N) (data : str)
| NDir (perm : N).

Definition fs := list (key * node).

Fixpoint key_eqb (a b : key) : bool :=
  match a, b with
  | [], [] => true
  | x :: a', y :: b' => str_eqb x y && key_eqb a' b'
  | _, _ => false
  end.

Fixpoint lookup (f : fs) (k : key) : option node :=
  match f with
  | [] => None
  | (k', n) :: r => if key_eqb k' k then Some n else lookup r k
  end.

Definition remove (f : fs) (k : key) : fs :=
  filter (fun e => negb (key_eqb (fst e) k)) f.

Definition set (f : fs) (k : key) (n : node) : fs := (k, n) :: remove f k.

(** Everything at or beneath [k]. *)
Definition remove_under (f : fs) (k : key) : fs :=
  filter (fun e => negb (is_prefix k (fst e))) f.

Record cfg := { cwd : key; umask : N }.

Definition is_dir_node (o : option node) : bool :=
  match o with Some (NDir _) => true | _ => false end.

(** What [mkdir(2)] keeps of the requested mode: the permission bits and the
    sticky bit (01777); set-user-ID and set-group-ID are not honoured. *)
Definition perm_dir_mask : N := 1023.

(** [os.MkdirAll]: walk down from the root; an existing directory is kept,
    a file on the way is ENOTDIR, a missing element is created with
    [perm & 01777 &^ umask]. *)
Fixpoint mkdir_walk (um perm : N) (f : fs) (pre : key) (rest : list str) : bool * fs :=
  match rest with
  | [] => (true, f)
  | x :: rest' =>
      let k := pre ++ [x] in
      match lookup f k with
      | Some (NDir _) => mkdir_walk um perm f k rest'
      | Some (NFile _ _) => (false, f)
      | None => mkdir_walk um perm (set f k (NDir (N.ldiff (N.land perm perm_dir_mask) um))) k rest'
      end
  end.

Definition mkdir_all (c : cfg) (f : fs) (p : str) (perm : N) : bool * fs :=
  match resolve (cwd c) p with
  | None => (false, f)
  | Some k => mkdir_walk (umask c) perm f [] k
  end.

(** [open(O_CREAT|O_TRUNC)]: the parent must be a directory; an existing
    file is truncated and keeps its mode; a new one gets [perm &^ umask]. *)
Definition open_trunc (c : cfg) (f : fs) (p : str) (perm : N) : option (key * N * fs) :=
  match resolve (cwd c) p with
  | None => None
  | Some [] => None                                  (* the root is a directory *)
  | Some k =>
      if is_dir_node (lookup f (removelast k)) then
        match lookup f k with
        | Some (NDir _) => None                        (* EISDIR *)
        | Some (NFile pm _) => Some (k, pm, set f k (NFile pm []))
        | None => let pm := N.ldiff perm (umask c) in Some (k, pm, set f k (NFile pm []))
        end
      else None
  end.

Definition ends_with_dot (p : str) : bool :=
  str_eqb (last (split_slash p) []) s_dot.

Fixpoint file_on_the_way (f : fs) (pre : key) (rest : list str) : bool :=
  match rest with
  | [] | [_] => false
  | x :: rest' =>
      match lookup f (pre ++ [x]) with
      | Some (NFile _ _) => true
      | _ => file_on_the_way f (pre ++ [x]) rest'
      end
  end.

(** [os.RemoveAll]: "" is a no-op; a path ending in "." is EINVAL; a file
    among the proper ancestors is ENOTDIR; the root is not modelled. *)
Definition remove_all (c : cfg) (f : fs) (p : str) : bool * fs :=
  match resolve (cwd c) p with
  | None => (true, f)
  | Some [] => (false, f)
  | Some k =>
      if ends_with_dot p then (false, f)
      else if file_on_the_way f [] k then (false, f)
      else (true, remove_under f k)
  end.

(** ** Archive entries as the Go readers report them *)

Inductive ekind := KFile | KDir | KOther.

Record entry := { e_name : str; e_kind : ekind; e_perm : N; e_data : str }.

Inductive xres :=
| XOk
| XRefused      (* entry outside the destination: errcode.InvalidArg *)
| XOsErr        (* a file-system call failed *)
| XUnsupported. (* tar entry type not supported *)

Definition perm_dir_default : N := 448.   (* 0700 *)
Definition perm_create_default : N := 438. (* 0666 *)
Definition perm_mask : N := 4095.          (* 07777 *)

(** One zip entry; [None] = continue with the next entry. *)
Definition unzip_entry (c : cfg) (f : fs) (dir : str) (e : entry) : option xres * fs :=
  let name := filepath_join [dir; e_name e] in
  if negb (in_dir dir name) then (Some XRefused, f)
  else
    match e_kind e with
    | KDir =>
        let '(ok, f1) := mkdir_all c f name (e_perm e) in
        (if ok then None else Some XOsErr, f1)
    | _ =>
        let '(ok, f1) := mkdir_all c f (dir_of name) perm_dir_default in
        if negb ok then (Some XOsErr, f1)
        else match open_trunc c f1 name perm_create_default with
             | None => (Some XOsErr, f1)
             | Some (k, _, f2) =>
                 (* Chmod(mod); io.Copy; Close *)
                 (None, set f2 k (NFile (N.land (e_perm e) perm_mask) (e_data e)))
             end
    end.

Fixpoint unzip_entries (c : cfg) (f : fs) (dir : str) (es : list entry) : xres * fs :=
  match es with
  | [] => (XOk, f)
  | e :: rest =>
      match unzip_entry c f dir e with
      | (Some r, f1) => (r, f1)
      | (None, f1) => unzip_entries c f1 dir rest
      end
  end.

(** [ziputil.UnzipDir(dir, r, clear)] *)
Definition unzip (c : cfg) (f : fs) (dir : str) (clear : bool) (es : list entry) : xres * fs :=
  if clear then
    let '(ok, f1) := remove_all c f dir in
    if ok then unzip_entries c f1 dir es else (XOsErr, f1)
  else unzip_entries c f dir es.

(** One tar entry of [dock.writeTarToDir]. *)
Definition untar_entry (c : cfg) (f : fs) (dir : str) (e : entry) : option xres * fs :=
  let dest := filepath_join [dir; e_name e] in
  if negb (in_dir dir dest) then (Some XRefused, f)
  else
    match e_kind e with
    | KFile =>
        let d := dir_of dest in
        let '(ok, f1) :=
          if negb (is_empty d) && negb (str_eqb d s_dot)
          then mkdir_all c f d perm_dir_default else (true, f) in
        if negb ok then (Some XOsErr, f1)
        else match open_trunc c f1 dest (N.land (e_perm e) perm_mask) with
             | None => (Some XOsErr, f1)
             | Some (k, pm, f2) => (None, set f2 k (NFile pm (e_data e)))
             end
    | KDir =>
        let '(ok, f1) := mkdir_all c f dest (e_perm e) in
        (if ok then None else Some XOsErr, f1)
    | KOther => (Some XUnsupported, f)
    end.

Fixpoint untar (c : cfg) (f : fs) (dir : str) (es : list entry) : xres * fs :=
  match es with
  | [] => (XOk, f)
  | e :: rest =>
      match untar_entry c f dir e with
      | (Some r, f1) => (r, f1)
      | (None, f1) => untar c f1 dir rest
      end
  end.

(** [dock.writeFirstFileAs(r, file)]: the first regular entry's content goes
    to [file] — a path chosen by the caller, no entry name is used; other
    entries are skipped; no regular entry is "not found". *)
Inductive ffres := FOk | FNotFound | FOsErr.

Fixpoint first_file_as (c : cfg) (f : fs) (file : str) (es : list entry) : ffres * fs :=
  match es with
  | [] => (FNotFound, f)
  | e :: rest =>
      match e_kind e with
      | KFile =>
          match open_trunc c f file (N.land (e_perm e) perm_mask) with
          | None => (FOsErr, f)
          | Some (k, pm, f2) => (FOk, set f2 k (NFile pm (e_data e)))
          end
      | _ => first_file_as c f file rest
      end
  end.

(** [tarutil.TarZipFile(tw, p, dir)] (tarutil/zip_file.go): every zip entry
    becomes a tar entry of the same kind, permission bits and content, named
    [path.Join(dir, name)] — or [name] itself when [dir] is empty.  (Zip
    entries whose mode says link, device, fifo or socket make the call fail;
    [KOther] stands for them and is left as it is.) *)
Definition tar_zip_entry (dir : str) (e : entry) : entry :=
  {| e_name := if is_empty dir then e_name e else path_join [dir; e_name e];
     e_kind := e_kind e;
     e_perm := e_perm e;
     e_data := match e_kind e with KDir => [] | _ => e_data e end |}.

Definition tar_zip (dir : str) (es : list entry) : list entry := map (tar_zip_entry dir) es.

(** NOT the deployed code: [UnzipDir] with a per-call memo [made] of
    directories "already checked and created", consulted both to skip
    [MkdirAll] and to skip the containment test; a directory entry records its
    own name and its parent.  Used to show what deciding containment per
    entry, from the entry's own resolved name, is relied upon for
    ([memo_polluted_by_root_entry_refuted] in Arch/Round3.v). *)
Definition in_made (made : list str) (p : str) : bool := existsb (str_eqb p) made.

Fixpoint unzip_entries_memo (c : cfg) (f : fs) (dir : str) (made : list str) (es : list entry)
  : xres * fs :=
  match es with
  | [] => (XOk, f)
  | e :: rest =>
      let name := filepath_join [dir; e_name e] in
      let parent := dir_of name in
      if negb (in_made made parent) && negb (in_dir dir name) then (XRefused, f)
      else
        match e_kind e with
        | KDir =>
            let '(ok, f1) := mkdir_all c f name (e_perm e) in
            if ok then unzip_entries_memo c f1 dir (name :: parent :: made) rest else (XOsErr, f1)
        | _ =>
            let '(ok, f1) := if in_made made parent then (true, f)
                             else mkdir_all c f parent perm_dir_default in
            if negb ok then (XOsErr, f1)
            else match open_trunc c f1 name perm_create_default with
                 | None => (XOsErr, f1)
                 | Some (k, _, f2) =>
                     unzip_entries_memo c (set f2 k (NFile (N.land (e_perm e) perm_mask) (e_data e))) dir
                                        (parent :: made) rest
                 end
        end
  end.

(** NOT the deployed code: the path that is written is computed from a
    REWRITTEN entry name [rw name] after the containment test judged the raw
    [name] (e.g. translating separators for archives stamped as coming from
    FAT or NTFS).  [write_zip_entry] is what [unzip_entry] does once its test
    is passed; with [rw] the identity this is [unzip_entry] itself
    ([unzip_entry_is_rw_id], Arch/Round3.v). *)
Definition write_zip_entry (c : cfg) (f : fs) (name : str) (e : entry) : option xres * fs :=
  match e_kind e with
  | KDir =>
      let '(ok, f1) := mkdir_all c f name (e_perm e) in
      (if ok then None else Some XOsErr, f1)
  | _ =>
      let '(ok, f1) := mkdir_all c f (dir_of name) perm_dir_default in
      if negb ok then (Some XOsErr, f1)
      else match open_trunc c f1 name perm_create_default with
           | None => (Some XOsErr, f1)
           | Some (k, _, f2) =>
               (None, set f2 k (NFile (N.land (e_perm e) perm_mask) (e_data e)))
           end
  end.

Definition unzip_entry_rw (rw : str -> str) (c : cfg) (f : fs) (dir : str) (e : entry) : option xres * fs :=
  if negb (in_dir dir (filepath_join [dir; e_name e])) then (Some XRefused, f)
  else write_zip_entry c f (filepath_join [dir; rw (e_name e)]) e.

Fixpoint unzip_entries_rw (rw : str -> str) (c : cfg) (f : fs) (dir : str) (es : list entry) : xres * fs :=
  match es with
  | [] => (XOk, f)
  | e :: rest =>
      match unzip_entry_rw rw c f dir e with
      | (Some r, f1) => (r, f1)
      | (None, f1) => unzip_entries_rw rw c f1 dir rest
      end
  end.

(** backslash to slash *)
Definition unbackslash (n : str) : str := map (fun ch => if ch =? 92 then 47 else ch) n.
