(** Confinement of archive extraction (Arch/Extract.v): whatever the entry
    names, the destination string, the working directory and the initial file
    system, the only positions whose content changes are at or beneath the
    destination, or are missing ancestors of the destination that get created
    as directories. *)
From Coq Require Import List NArith Bool Lia.
From Verif Require Import Lib.Path Arch.Extract.
Import ListNotations.
Local Open Scope N_scope.

(** *** The finite map *)

Lemma key_eqb_eq a b : key_eqb a b = true <-> a = b.
Proof.
  split.
  - revert b; induction a as [|x a IH]; intros [|y b]; cbn; try discriminate; [reflexivity|].
    intros H. apply andb_true_iff in H as [H1 H2]. apply str_eqb_eq in H1. subst. f_equal. now apply IH.
  - intros ->. induction b as [|y b IH]; cbn; [reflexivity|]. now rewrite str_eqb_refl, IH.
Qed.

Lemma key_eqb_refl a : key_eqb a a = true.
Proof. now apply key_eqb_eq. Qed.

Lemma key_eqb_neq a b : a <> b -> key_eqb a b = false.
Proof. intros H. destruct (key_eqb a b) eqn:E; [|reflexivity]. apply key_eqb_eq in E. contradiction. Qed.

Lemma lookup_remove f k k' :
  lookup (remove f k) k' = if key_eqb k k' then None else lookup f k'.
Proof.
  unfold remove. induction f as [|[k0 n0] f IH]; cbn [filter lookup fst].
  - now destruct (key_eqb k k').
  - destruct (key_eqb k0 k) eqn:E0; cbn [negb].
    + apply key_eqb_eq in E0. subst k0. rewrite IH. destruct (key_eqb k k'); reflexivity.
    + cbn [lookup]. rewrite IH. destruct (key_eqb k0 k') eqn:E1; [|reflexivity].
      apply key_eqb_eq in E1. subst k'. destruct (key_eqb k k0) eqn:E2; [|reflexivity].
      apply key_eqb_eq in E2. subst k0. now rewrite key_eqb_refl in E0.
Qed.

Lemma lookup_set f k n k' :
  lookup (set f k n) k' = if key_eqb k k' then Some n else lookup f k'.
Proof.
  unfold set. cbn [lookup]. destruct (key_eqb k k') eqn:E; [reflexivity|].
  now rewrite lookup_remove, E.
Qed.

Lemma lookup_remove_under f k k' :
  lookup (remove_under f k) k' = if is_prefix k k' then None else lookup f k'.
Proof.
  unfold remove_under. induction f as [|[k0 n0] f IH]; cbn [filter lookup fst].
  - now destruct (is_prefix k k').
  - destruct (is_prefix k k0) eqn:E0; cbn [negb].
    + rewrite IH. destruct (is_prefix k k') eqn:E1; [reflexivity|].
      destruct (key_eqb k0 k') eqn:E2; [|reflexivity]. apply key_eqb_eq in E2. congruence.
    + cbn [lookup]. rewrite IH. destruct (key_eqb k0 k') eqn:E2; [|reflexivity].
      apply key_eqb_eq in E2. subst k'. now rewrite E0.
Qed.

(** *** Confinement as a relation between two file systems *)

Definition confined (D : key) (f f' : fs) : Prop :=
  forall k,
    lookup f' k = lookup f k \/
    is_prefix D k = true \/
    (is_prefix k D = true /\ lookup f k = None /\ is_dir_node (lookup f' k) = true).

Lemma confined_refl D f : confined D f f.
Proof. intros k. now left. Qed.

Lemma confined_trans D f f1 f2 : confined D f f1 -> confined D f1 f2 -> confined D f f2.
Proof.
  intros H1 H2 k. destruct (H2 k) as [E2|[U2|(A2 & N2 & D2)]].
  - rewrite E2. apply H1.
  - right. now left.
  - destruct (H1 k) as [E1|[U1|(A1 & N1 & D1)]].
    + right. right. repeat split; [exact A2|congruence|exact D2].
    + right. now left.
    + right. right. now repeat split.
Qed.

Lemma set_confined D f k n : is_prefix D k = true -> confined D f (set f k n).
Proof.
  intros H k'. rewrite lookup_set. destruct (key_eqb k k') eqn:E; [|now left].
  apply key_eqb_eq in E. subst k'. right. now left.
Qed.

Lemma remove_under_confined D f : confined D f (remove_under f D).
Proof.
  intros k. rewrite lookup_remove_under. destruct (is_prefix D k) eqn:E; [right; now left|now left].
Qed.

(** *** MkdirAll *)

Lemma mkdir_walk_changes um perm rest :
  forall f pre ok f',
    mkdir_walk um perm f pre rest = (ok, f') ->
    forall k, lookup f' k = lookup f k \/
              (is_prefix k (pre ++ rest) = true /\ lookup f k = None /\
               is_dir_node (lookup f' k) = true).
Proof.
  induction rest as [|x rest IH]; intros f pre ok f' H k; cbn [mkdir_walk] in H.
  - injection H as _ <-. now left.
  - destruct (lookup f (pre ++ [x])) as [[pm d|pm]|] eqn:E.
    + injection H as _ <-. now left.
    + destruct (IH _ _ _ _ H k) as [A|(A & B & C)]; [now left|right].
      rewrite <- app_assoc in A. now repeat split.
    + specialize (IH _ _ _ _ H k). rewrite lookup_set in IH.
      rewrite <- app_assoc in IH. cbn [app] in IH.
      destruct (key_eqb (pre ++ [x]) k) eqn:Ek.
      * apply key_eqb_eq in Ek. subst k. right.
        destruct IH as [A|(_ & B & _)]; [|discriminate].
        repeat split; [|exact E|now rewrite A].
        apply is_prefix_spec. exists rest. now rewrite <- app_assoc.
      * exact IH.
Qed.

Lemma mkdir_walk_confined D um perm f t ok f' :
  mkdir_walk um perm f [] t = (ok, f') ->
  is_prefix D t = true \/ is_prefix t D = true ->
  confined D f f'.
Proof.
  intros H Hc k. destruct (mkdir_walk_changes _ _ _ _ _ _ _ H k) as [A|(A & B & C)]; [now left|right].
  cbn [app] in A. destruct Hc as [Hc|Hc].
  - pose proof (prefixes_comparable _ _ _ A Hc) as Hp. unfold comparable in Hp.
    apply orb_true_iff in Hp as [Hp|Hp]; [right; now repeat split|now left].
  - right. repeat split; [|exact B|exact C]. eapply is_prefix_trans; eassumption.
Qed.

Lemma mkdir_all_confined D c f p perm ok f' :
  mkdir_all c f p perm = (ok, f') ->
  (forall t, resolve (cwd c) p = Some t -> is_prefix D t = true \/ is_prefix t D = true) ->
  confined D f f'.
Proof.
  unfold mkdir_all. intros H Hc. destruct (resolve (cwd c) p) as [t|].
  - eapply mkdir_walk_confined; [exact H|]. now apply Hc.
  - injection H as _ <-. apply confined_refl.
Qed.

(** *** open(O_CREAT|O_TRUNC) *)

Lemma open_trunc_spec c f p perm k pm f' :
  open_trunc c f p perm = Some (k, pm, f') ->
  resolve (cwd c) p = Some k /\ exists d, f' = set f k (NFile pm d).
Proof.
  unfold open_trunc. destruct (resolve (cwd c) p) as [[|x t]|]; try discriminate.
  destruct (is_dir_node (lookup f (removelast (x :: t)))); [|discriminate].
  destruct (lookup f (x :: t)) as [[pm0 d0|pm0]|]; try discriminate;
    intros [= <- <- <-]; (split; [reflexivity|]); now exists [].
Qed.

(** *** Where the targets of an entry lie *)

Lemma filepath_join_nil d n : filepath_join [d; n] = [] -> d = [] /\ n = [].
Proof.
  rewrite filepath_join2. destruct d as [|c d]; cbn [is_empty].
  - destruct n as [|c n]; cbn [is_empty]; [now split|]. intros H. now apply clean_nonempty in H.
  - intros H. now apply clean_nonempty in H.
Qed.

Lemma resolve_dot cwd : resolve cwd s_dot = Some cwd.
Proof. unfold resolve. cbn. now rewrite rev_involutive. Qed.

Lemma clean_nil : clean [] = s_dot.
Proof. reflexivity. Qed.

Lemma targets_beneath c dir x D :
  let name := filepath_join [dir; x] in
  in_dir dir name = true ->
  resolve (cwd c) (clean dir) = Some D ->
  (forall t, resolve (cwd c) name = Some t -> is_prefix D t = true) /\
  (forall kd, resolve (cwd c) (dir_of name) = Some kd ->
     is_prefix D kd = true \/ is_prefix kd D = true).
Proof.
  intros name Hin HD.
  assert (Hname : forall t, resolve (cwd c) name = Some t -> is_prefix D t = true).
  { intros t Ht. destruct (filepath_join_clean [dir; x]) as [E|E]; fold name in E.
    - rewrite E in Ht. discriminate.
    - eapply in_dir_resolve; [exact Hin|exact HD|]. now rewrite E. }
  split; [exact Hname|].
  intros kd Hkd. destruct name as [|c0 nm] eqn:En.
  - (* Join gave "": the destination is "" and the entry name is "" *)
    destruct (filepath_join_nil dir x En) as [-> _].
    rewrite clean_nil, resolve_dot in HD. injection HD as <-.
    unfold dir_of in Hkd. cbn [upto_last_slash] in Hkd. rewrite clean_nil, resolve_dot in Hkd.
    injection Hkd as <-. left. apply is_prefix_refl.
  - rewrite <- En in *.
    assert (Hne : name <> []) by (rewrite En; discriminate).
    pose proof (resolve_nonempty (cwd c) name Hne) as Ht.
    destruct (resolve_dir_of_comparable _ _ _ Ht) as (kd' & Hkd' & Hcmp).
    rewrite Hkd in Hkd'. injection Hkd' as <-.
    pose proof (Hname _ Ht) as HDt.
    unfold comparable in Hcmp. apply orb_true_iff in Hcmp as [Hc|Hc].
    + pose proof (prefixes_comparable _ _ _ Hc HDt) as Hp. unfold comparable in Hp.
      apply orb_true_iff in Hp as [Hp|Hp]; [now right|now left].
    + left. eapply is_prefix_trans; eassumption.
Qed.

(** *** One entry *)

Lemma unzip_entry_confined c f dir e D r f' :
  resolve (cwd c) (clean dir) = Some D ->
  unzip_entry c f dir e = (r, f') -> confined D f f'.
Proof.
  intros HD. unfold unzip_entry.
  set (name := filepath_join [dir; e_name e]).
  destruct (in_dir dir name) eqn:Hin; cbn [negb].
  2:{ intros [= _ <-]. apply confined_refl. }
  destruct (targets_beneath c dir (e_name e) D Hin HD) as [Hname Hdir]. fold name in Hname, Hdir.
  assert (Hfile :
    (let '(ok, f1) := mkdir_all c f (dir_of name) perm_dir_default in
     if negb ok then (Some XOsErr, f1)
     else match open_trunc c f1 name perm_create_default with
          | None => (Some XOsErr, f1)
          | Some (k, _, f2) => (None, set f2 k (NFile (N.land (e_perm e) perm_mask) (e_data e)))
          end) = (r, f') -> confined D f f').
  { destruct (mkdir_all c f (dir_of name) perm_dir_default) as [ok f1] eqn:Em.
    assert (C1 : confined D f f1).
    { eapply mkdir_all_confined; [exact Em|]. intros t Ht. now apply Hdir. }
    destruct ok; cbn [negb]; [|intros [= _ <-]; exact C1].
    destruct (open_trunc c f1 name perm_create_default) as [[[k pm] f2]|] eqn:Eo;
      [|intros [= _ <-]; exact C1].
    intros [= _ <-]. destruct (open_trunc_spec _ _ _ _ _ _ _ Eo) as (Hk & d & ->).
    pose proof (Hname _ Hk) as HDk.
    eapply confined_trans; [exact C1|]. eapply confined_trans; apply set_confined; exact HDk. }
  destruct (e_kind e); [exact Hfile| |exact Hfile].
  destruct (mkdir_all c f name (e_perm e)) as [ok f1] eqn:Em.
  intros [= _ <-]. eapply mkdir_all_confined; [exact Em|]. intros t Ht. left. now apply Hname.
Qed.

Lemma untar_entry_confined c f dir e D r f' :
  resolve (cwd c) (clean dir) = Some D ->
  untar_entry c f dir e = (r, f') -> confined D f f'.
Proof.
  intros HD. unfold untar_entry.
  set (dest := filepath_join [dir; e_name e]).
  destruct (in_dir dir dest) eqn:Hin; cbn [negb].
  2:{ intros [= _ <-]. apply confined_refl. }
  destruct (targets_beneath c dir (e_name e) D Hin HD) as [Hname Hdir]. fold dest in Hname, Hdir.
  destruct (e_kind e).
  - set (guard := negb (is_empty (dir_of dest)) && negb (str_eqb (dir_of dest) s_dot)).
    destruct (if guard then mkdir_all c f (dir_of dest) perm_dir_default else (true, f)) as [ok f1] eqn:Em.
    assert (C1 : confined D f f1).
    { destruct guard.
      - eapply mkdir_all_confined; [exact Em|]. intros t Ht. now apply Hdir.
      - injection Em as _ <-. apply confined_refl. }
    destruct ok; cbn [negb]; [|intros [= _ <-]; exact C1].
    destruct (open_trunc c f1 dest (N.land (e_perm e) perm_mask)) as [[[k pm] f2]|] eqn:Eo;
      [|intros [= _ <-]; exact C1].
    intros [= _ <-]. destruct (open_trunc_spec _ _ _ _ _ _ _ Eo) as (Hk & d & ->).
    pose proof (Hname _ Hk) as HDk.
    eapply confined_trans; [exact C1|]. eapply confined_trans; apply set_confined; exact HDk.
  - destruct (mkdir_all c f dest (e_perm e)) as [ok f1] eqn:Em.
    intros [= _ <-]. eapply mkdir_all_confined; [exact Em|]. intros t Ht. left. now apply Hname.
  - intros [= _ <-]. apply confined_refl.
Qed.

(** *** Whole archives *)

Theorem unzip_entries_confined c dir D es :
  resolve (cwd c) (clean dir) = Some D ->
  forall f, confined D f (snd (unzip_entries c f dir es)).
Proof.
  intros HD. induction es as [|e es IH]; intros f; cbn [unzip_entries].
  - apply confined_refl.
  - destruct (unzip_entry c f dir e) as [[r|] f1] eqn:E.
    + cbn [snd]. eapply unzip_entry_confined; eassumption.
    + eapply confined_trans; [eapply unzip_entry_confined; eassumption|apply IH].
Qed.

Lemma remove_all_confined c f dir D ok f' :
  resolve (cwd c) (clean dir) = Some D ->
  remove_all c f dir = (ok, f') -> confined D f f'.
Proof.
  intros HD. unfold remove_all.
  destruct dir as [|c0 dir'] eqn:Ed.
  - cbn. intros [= _ <-]. apply confined_refl.
  - rewrite <- Ed in *. assert (Hne : dir <> []) by (rewrite Ed; discriminate).
    rewrite resolve_clean in HD by exact Hne. rewrite HD.
    destruct D as [|x D']; [intros [= _ <-]; apply confined_refl|].
    destruct (ends_with_dot dir); [intros [= _ <-]; apply confined_refl|].
    destruct (file_on_the_way f [] (x :: D')); intros [= _ <-];
      [apply confined_refl|apply remove_under_confined].
Qed.

(** [UnzipDir]: for every destination string, clear flag, entry list,
    working directory, umask and initial file system. *)
Theorem unzip_confined c f dir clear es D :
  resolve (cwd c) (clean dir) = Some D ->
  confined D f (snd (unzip c f dir clear es)).
Proof.
  intros HD. unfold unzip. destruct clear; [|now apply unzip_entries_confined].
  destruct (remove_all c f dir) as [ok f1] eqn:Er.
  pose proof (remove_all_confined _ _ _ _ _ _ HD Er) as C1.
  destruct ok; cbn [snd]; [|exact C1].
  eapply confined_trans; [exact C1|now apply unzip_entries_confined].
Qed.

(** [writeTarToDir]. *)
Theorem untar_confined c dir D es :
  resolve (cwd c) (clean dir) = Some D ->
  forall f, confined D f (snd (untar c f dir es)).
Proof.
  intros HD. induction es as [|e es IH]; intros f; cbn [untar].
  - apply confined_refl.
  - destruct (untar_entry c f dir e) as [[r|] f1] eqn:E.
    + cbn [snd]. eapply untar_entry_confined; eassumption.
    + eapply confined_trans; [eapply untar_entry_confined; eassumption|apply IH].
Qed.

(** When the destination's ancestors exist, nothing at all changes outside
    the destination. *)
Corollary confined_strict D f f' :
  confined D f f' ->
  (forall k, is_prefix k D = true -> k <> D -> lookup f k <> None) ->
  forall k, is_prefix D k = false -> lookup f' k = lookup f k.
Proof.
  intros H Hanc k Hk. destruct (H k) as [E|[U|(A & N & _)]]; [exact E|congruence|].
  exfalso. apply (Hanc k A); [|exact N]. intros ->. now rewrite is_prefix_refl in Hk.
Qed.

(** A refused entry is refused before anything is written, and ends the
    extraction. *)
Theorem unzip_refuses_outside c f dir e rest :
  in_dir dir (filepath_join [dir; e_name e]) = false ->
  unzip_entries c f dir (e :: rest) = (XRefused, f).
Proof. intros H. cbn [unzip_entries]. unfold unzip_entry. now rewrite H. Qed.

Theorem untar_refuses_outside c f dir e rest :
  in_dir dir (filepath_join [dir; e_name e]) = false ->
  untar c f dir (e :: rest) = (XRefused, f).
Proof. intros H. cbn [untar]. unfold untar_entry. now rewrite H. Qed.

(** *** Entry types *)

(** A tar entry that is neither a regular file nor a directory (symbolic
    link, hard link, device, fifo, ...) is never written and ends the
    extraction; nothing is created for it. *)
Theorem untar_other_writes_nothing c f dir e :
  e_kind e = KOther ->
  snd (untar_entry c f dir e) = f /\
  (fst (untar_entry c f dir e) = Some XUnsupported \/ fst (untar_entry c f dir e) = Some XRefused).
Proof.
  intros H. unfold untar_entry. rewrite H.
  destruct (in_dir dir (filepath_join [dir; e_name e])); cbn; split; auto.
Qed.

(** A zip entry whose mode says symbolic link, device, fifo or socket is
    extracted exactly like a regular file with the same permission bits: its
    content is written to a regular file; no link or device is created. *)
Theorem unzip_non_dir_is_regular c f dir e :
  e_kind e <> KDir ->
  unzip_entry c f dir e =
  unzip_entry c f dir {| e_name := e_name e; e_kind := KFile; e_perm := e_perm e; e_data := e_data e |}.
Proof.
  intros H. unfold unzip_entry. cbn [e_name e_kind e_perm e_data].
  destruct (e_kind e); [reflexivity|congruence|reflexivity].
Qed.

(** [writeFirstFileAs]: only the file the caller named can change, whatever
    the entries are called. *)
Theorem first_file_confined c file es : forall f k,
  (forall t, resolve (cwd c) file = Some t -> k <> t) ->
  lookup (snd (first_file_as c f file es)) k = lookup f k.
Proof.
  induction es as [|e es IH]; intros f k Hk; [reflexivity|].
  cbn [first_file_as]. destruct (e_kind e); try (now apply IH).
  destruct (open_trunc c f file (N.land (e_perm e) perm_mask)) as [[[t pm] f2]|] eqn:Eo; [|reflexivity].
  destruct (open_trunc_spec _ _ _ _ _ _ _ Eo) as (Ht & d & ->). cbn [snd].
  rewrite !lookup_set. specialize (Hk t Ht).
  destruct (key_eqb t k) eqn:E; [apply key_eqb_eq in E; congruence|reflexivity].
Qed.
