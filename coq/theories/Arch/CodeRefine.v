(** The containment test of the archive extractors as it is written NOW
    (Gen/CodeArch.v: [inDir] of ziputil/unzip.go and of dock/write_tar.go,
    translated by gen/gotrans.go on every run) is the model [in_dir] of
    Lib/Path.v on every pair of strings.  Candidates for the counterexample
    search: CodeCands.v. *)
From Coq Require Import List NArith Bool.
From Verif Require Import Lib.Path Lib.GoLib Gen.CodeArch Arch.CodeCands.
Import ListNotations.
Local Open Scope N_scope.

Ltac in_dir_tac :=
  unfold in_dir, filepath_Rel, strings_HasPrefix, go_str_eqb, s_dotdot, slash;
  match goal with |- context [filepath_rel ?d ?p] => destruct (filepath_rel d p) end;
  cbn [go_isnil fst snd app]; go_solve.

Lemma gen_ziputil_inDir_is_model : forall dir p, gen_ziputil_inDir dir p = in_dir dir p.
Proof. intros. unfold gen_ziputil_inDir. in_dir_tac. Qed.

Lemma gen_dock_inDir_is_model : forall dir p, gen_dock_inDir dir p = in_dir dir p.
Proof. intros. unfold gen_dock_inDir. in_dir_tac. Qed.

(** What the test means, read over the code of both extractors. *)
Lemma code_containment_sound : forall dir p,
  gen_ziputil_inDir dir p = true \/ gen_dock_inDir dir p = true ->
  is_rooted (clean p) = is_rooted (clean dir) /\
  exists rest, nsegs (clean p) = nsegs (clean dir) ++ rest /\ forallb normalb rest = true.
Proof.
  intros dir p H. apply in_dir_segments.
  destruct H as [H|H]; [rewrite <- gen_ziputil_inDir_is_model|rewrite <- gen_dock_inDir_is_model]; exact H.
Qed.

Lemma code_containment_resolves : forall cwd dir p kd k,
  gen_ziputil_inDir dir p = true \/ gen_dock_inDir dir p = true ->
  resolve cwd (clean dir) = Some kd -> resolve cwd (clean p) = Some k ->
  is_prefix kd k = true.
Proof.
  intros cwd dir p kd k H. apply in_dir_resolve.
  destruct H as [H|H]; [rewrite <- gen_ziputil_inDir_is_model|rewrite <- gen_dock_inDir_is_model]; exact H.
Qed.

Lemma code_containment_complete : forall dir ks,
  forallb goodb ks = true ->
  gen_ziputil_inDir dir (filepath_join [dir; join_slash ks]) = true /\
  gen_dock_inDir dir (filepath_join [dir; join_slash ks]) = true.
Proof.
  intros dir ks H. rewrite gen_ziputil_inDir_is_model, gen_dock_inDir_is_model.
  split; now apply in_dir_join_good.
Qed.
