(** C20 — aries routing: the code itself (semantic tie).  Property theorems
    only: each is closed by a lemma of Aries/CodeRefine.v, which proves that
    the bodies of [route.size], [route.relRoute] (route.go) and
    [C.ShiftRoute] (context.go) as gen/gotrans.go translates them on every
    run (Gen/CodeAries.v) compute the routing-position model of
    Aries/Router.v ([rel_route], [shift]) for every routing state.  Kept apart
    from Props/C20.v so that a failing refinement lemma does not take the
    model-level theorems down with it. *)
From Coq Require Import List NArith ZArith Bool.
From Verif Require Import Lib.GoLib Aries.Str Aries.Router Gen.CodeAries Aries.CodeCands Aries.CodeRefine.
Import ListNotations.
Local Open Scope Z_scope.

Theorem C20_code_route_size_is_model : forall routes : list str,
  gen_aries_route_size routes = Z.of_nat (length routes).
Proof. exact gen_route_size_is_model. Qed.
Print Assumptions C20_code_route_size_is_model.

Theorem C20_code_relRoute_is_model : forall c : ctx,
  gen_aries_route_relRoute (c_routes c) (Z.of_nat (c_pos c)) = rel_route c.
Proof. exact gen_relRoute_is_model. Qed.
Print Assumptions C20_code_relRoute_is_model.

Theorem C20_code_ShiftRoute_is_model : forall (c : ctx) (inc : nat),
  Z.of_nat (c_pos c + inc) < two63z ->
  gen_aries_C_ShiftRoute (c_routes c) (Z.of_nat (c_pos c)) (Z.of_nat inc) = Z.of_nat (c_pos (shift c inc)).
Proof. exact gen_ShiftRoute_is_model. Qed.
Print Assumptions C20_code_ShiftRoute_is_model.

(** The routing position never passes the end of the route ... *)
Theorem C20_code_shift_bounded : forall (c : ctx) (inc : nat),
  Z.of_nat (c_pos c + inc) < two63z ->
  gen_aries_C_ShiftRoute (c_routes c) (Z.of_nat (c_pos c)) (Z.of_nat inc) <= Z.of_nat (length (c_routes c)).
Proof. exact code_shift_bounded. Qed.
Print Assumptions C20_code_shift_bounded.

(** ... and what a handler sees after a shift is the tail of what its
    router saw. *)
Theorem C20_code_relRoute_after_shift : forall (c : ctx) (inc : nat),
  Z.of_nat (c_pos c + inc) < two63z ->
  gen_aries_route_relRoute (c_routes c)
    (gen_aries_C_ShiftRoute (c_routes c) (Z.of_nat (c_pos c)) (Z.of_nat inc))
  = skipn inc (gen_aries_route_relRoute (c_routes c) (Z.of_nat (c_pos c))).
Proof. exact code_relRoute_after_shift. Qed.
Print Assumptions C20_code_relRoute_after_shift.

Example C20_code_route_example :
  gen_aries_route_relRoute [[97%N]; [98%N]; [99%N]] 1 = [[98%N]; [99%N]] /\
  gen_aries_route_relRoute [[97%N]; [98%N]; [99%N]] 3 = [] /\
  gen_aries_C_ShiftRoute [[97%N]; [98%N]; [99%N]] 1 1 = 2 /\
  gen_aries_C_ShiftRoute [[97%N]; [98%N]; [99%N]] 2 5 = 3.
Proof. vm_compute. repeat split. Qed.
