(** C14 — TLS hello sniffing: the code itself (semantic tie).  Property
    theorems only: each is closed by a lemma of Sni/CodeRefineHello.v.  The
    statements of [TLSHelloConn.HelloInfo] (tls_hello_conn.go) from the first
    Peek to [recLen := int(hdr[3])<<8 | int(hdr[4])], as gen/gotrans.go
    translates them on every run in checked mode (Gen/CodeSni.v: [None] = index
    panic, [Some None] = returned earlier, [Some (Some n)] = the length), read
    the record header exactly as the model [sniff] of Sni/Hello.v does.  Kept
    apart from Props/C14.v so that a failing refinement lemma does not take
    the model-level theorems down with it. *)
From Coq Require Import List NArith ZArith Bool.
From Verif Require Import Lib.Bytes Lib.GoLib Sni.Hello Gen.CodeSni Sni.CodeCandsHello Sni.CodeRefineHello.
Import ListNotations.
Local Open Scope N_scope.

Theorem C14_code_HelloInfo_recLen_is_model : forall hdr,
  is_bytes hdr -> (5 <= length hdr)%nat ->
  rec_len_res (gen_sniproxy_HelloInfo_recLen (hdr, None)) = rec_len_of hdr.
Proof. exact gen_HelloInfo_recLen_is_model. Qed.
Print Assumptions C14_code_HelloInfo_recLen_is_model.

Theorem C14_code_HelloInfo_peek_error : forall hdr e,
  gen_sniproxy_HelloInfo_recLen (hdr, Some e) = Some None.
Proof. exact code_HelloInfo_peek_error. Qed.
Print Assumptions C14_code_HelloInfo_peek_error.

(** On the five bytes of a successful Peek(5): no index panic; the second
    Peek asks for 5 + n bytes with n <= 65535 (more than the 5 + 16384 byte
    buffer holds: the model's [RFull] case). *)
Theorem C14_code_HelloInfo_no_panic : forall t v1 v2 l1 l2,
  is_bytes [t; v1; v2; l1; l2] ->
  exists r, gen_sniproxy_HelloInfo_recLen ([t; v1; v2; l1; l2], None) = Some r /\
            match r with Some n => (0 <= n <= 65535)%Z | None => t <> 22 end.
Proof. exact code_HelloInfo_no_panic. Qed.
Print Assumptions C14_code_HelloInfo_no_panic.

Example C14_code_HelloInfo_example :
  gen_sniproxy_HelloInfo_recLen ([22; 3; 1; 1; 2], None) = Some (Some 258%Z) /\
  gen_sniproxy_HelloInfo_recLen ([23; 3; 1; 1; 2], None) = Some None /\
  gen_sniproxy_HelloInfo_recLen ([22; 3; 1], None) = None.
Proof. vm_compute. repeat split. Qed.
