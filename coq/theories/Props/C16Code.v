(** C16 — credentials: the code itself (semantic tie).  Property theorems
    only: each is closed by a lemma of Cred/CodeRefine.v, which proves that
    the Go function bodies as gen/gotrans.go translates them on every run
    (Gen/CodeCred.v) compute the hand-written models of Cred/Sign.v,
    Cred/Jwt.v and Cred/PassCode.v on ALL inputs, and restates property
    theorems of Props/C16.v directly over the generated definitions.
    HMAC-SHA256 is any function (a Section variable of the generated file).
    Kept apart from Props/C16.v so that a failing refinement lemma does not
    take the model-level theorems down with it. *)
From Coq Require Import String.
From Coq Require Import List NArith ZArith Bool.
From Verif Require Import Lib.Bytes Lib.Codec Lib.Path Lib.GoLib Cred.Sign Cred.Jwt Cred.PassCode
  Gen.CodeCred Cred.CodeCands Cred.CodeRefine.
Import ListNotations.
Local Open Scope Z_scope.

(** * signer: time.go, sessions.go, signer.go, time_signer.go *)

Theorem C16_code_inWindow_is_model : forall t now w, is_i64 w ->
  gen_signer_inWindow t now w = in_window t now w.
Proof. exact gen_inWindow_is_model. Qed.
Print Assumptions C16_code_inWindow_is_model.

Theorem C16_code_refreshTTL_is_model : forall ttl, is_i64 ttl -> gen_signer_refreshTTL ttl = refresh_ttl ttl.
Proof. exact gen_refreshTTL_is_model. Qed.
Print Assumptions C16_code_refreshTTL_is_model.

Theorem C16_code_NeedRefresh_is_model : forall maxttl left, is_i64 maxttl ->
  gen_signer_Sessions_NeedRefresh (gen_signer_refreshTTL maxttl) left = need_refresh maxttl left.
Proof. exact gen_NeedRefresh_is_model. Qed.
Print Assumptions C16_code_NeedRefresh_is_model.

(** The expiry instant [Sessions.New] returns (the statements up to
    [expires := now(s.TimeFunc).Add(ttl)]): now plus the capped lifetime. *)
Theorem C16_code_Sessions_New_expires_is_model : forall maxttl t0 ttl,
  gen_signer_Sessions_New_expires maxttl t0 ttl = t0 + eff_ttl maxttl ttl.
Proof. exact gen_New_expires_is_model. Qed.
Print Assumptions C16_code_Sessions_New_expires_is_model.

Theorem C16_code_Signer_Check_is_model : forall K (mac : K -> bytes -> bytes) k bs, go_sized bs ->
  gen_signer_Signer_Check (mac k) bs = ck_res (check mac k bs).
Proof. exact @gen_Signer_Check_is_model. Qed.
Print Assumptions C16_code_Signer_Check_is_model.

Theorem C16_code_Signer_CheckHex_is_model : forall K (mac : K -> bytes -> bytes) k s, go_sized s ->
  gen_signer_Signer_CheckHex (mac k) s = ck_res (check_hex mac k s).
Proof. exact @gen_Signer_CheckHex_is_model. Qed.
Print Assumptions C16_code_Signer_CheckHex_is_model.

Theorem C16_code_Sessions_Check_is_model : forall K (mac : K -> bytes -> bytes) k now s, go_sized s ->
  gen_signer_Sessions_Check (mac k) now s = sess_res (sess_check mac k now s).
Proof. exact @gen_Sessions_Check_is_model. Qed.
Print Assumptions C16_code_Sessions_Check_is_model.

(** [s.window] is [NewTimeSigner]'s [|w|]; the most negative [int64] (whose
    negation wraps in Go, not in the model) is excluded. *)
Theorem C16_code_TimeSigner_Check_is_model : forall K (mac : K -> bytes -> bytes) k w now s,
  - two63z < w < two63z -> go_sized s ->
  gen_signer_TimeSigner_Check (mac k) (abs_window w) now s = ts_check mac k w now s.
Proof. exact @gen_TimeSigner_Check_is_model. Qed.
Print Assumptions C16_code_TimeSigner_Check_is_model.

(** * jwt/time.go, roles/pass_code.go *)

Theorem C16_code_CheckTime_is_model : forall c now,
  unix_in_range (c_iat c) -> unix_in_range (c_exp c) ->
  jwt_time_err (snd (gen_jwt_CheckTime (c_iat c) (c_exp c) now)) = check_time c now.
Proof. exact gen_CheckTime_is_model. Qed.
Print Assumptions C16_code_CheckTime_is_model.

Theorem C16_code_checkPassCode_is_model : forall (text : N -> list N) claim pc now,
  text 0%N = [] -> (forall a b, text a = text b -> a = b) ->
  pc_err_code (run_checkPassCode text claim pc now) = checkPassCode claim pc now.
Proof. exact gen_checkPassCode_is_model. Qed.
Print Assumptions C16_code_checkPassCode_is_model.

Theorem C16_code_checkHeader_is_model : forall got want : header,
  jwt_header_err (gen_jwt_checkHeader (h_kid got) (h_alg got) (h_typ got) (h_kid want) (h_alg want) (h_typ want))
  = check_header got want.
Proof. exact gen_checkHeader_is_model. Qed.
Print Assumptions C16_code_checkHeader_is_model.

(** [CheckClaimSet] with both arguments present ([strutil.MakeSet] + lookups
    as list membership, [strings.Fields] as the model's [fields]). *)
Theorem C16_code_CheckClaimSet_is_model : forall c tmpl : claims,
  jwt_claims_err (gen_jwt_CheckClaimSet false false (c_iss c) (c_aud c) (c_typ c) (c_sub c) (c_scope c)
                    (c_iss tmpl) (c_aud tmpl) (c_typ tmpl) (c_sub tmpl) (c_scope tmpl))
  = check_claims c tmpl.
Proof. exact gen_CheckClaimSet_is_model. Qed.
Print Assumptions C16_code_CheckClaimSet_is_model.

(** The window [NewTimeSigner] / [NewRSATimeSigner] store. *)
Theorem C16_code_NewTimeSigner_window_is_model : forall w, - two63z < w < two63z ->
  gen_signer_NewTimeSigner_window w = abs_window w.
Proof. exact gen_NewTimeSigner_window_is_model. Qed.
Print Assumptions C16_code_NewTimeSigner_window_is_model.

Theorem C16_code_NewRSATimeSigner_window_is_model : forall w, - two63z < w < two63z ->
  gen_signer_NewRSATimeSigner_window w = abs_window w.
Proof. exact gen_NewRSATimeSigner_window_is_model. Qed.
Print Assumptions C16_code_NewRSATimeSigner_window_is_model.

(** * Property theorems of Props/C16.v, read over the code *)

Theorem C16_code_session_ttl_capped : forall maxttl t0 ttl,
  gen_signer_Sessions_New_expires maxttl t0 ttl <= t0 + maxttl /\
  (0 < maxttl -> t0 < gen_signer_Sessions_New_expires maxttl t0 ttl) /\
  (0 < ttl <= maxttl -> gen_signer_Sessions_New_expires maxttl t0 ttl = t0 + ttl).
Proof. exact code_session_ttl_capped. Qed.
Print Assumptions C16_code_session_ttl_capped.

Theorem C16_code_session_check_iff : forall K (mac : K -> bytes -> bytes),
  (forall k d, List.length (mac k d) = mac_size) -> (forall k d, is_bytes (mac k d)) ->
  forall k now s d left, go_sized s ->
  gen_signer_Sessions_Check (mac k) now s = (d, left, true) <->
  exists e, is_int64 e /\ is_bytes d /\ s = sign_hex mac k (le64 (u64_of_int e) ++ d)
            /\ now < e /\ left = clamp_dur (e - now).
Proof. exact code_session_check_iff. Qed.
Print Assumptions C16_code_session_check_iff.

Theorem C16_code_time_token_check_iff : forall K (mac : K -> bytes -> bytes),
  (forall k d, List.length (mac k d) = mac_size) -> (forall k d, is_bytes (mac k d)) ->
  forall k w now s, - two63z < w < two63z -> go_sized s ->
  gen_signer_TimeSigner_Check (mac k) (abs_window w) now s = true <->
  exists t, is_int64 t /\ s = ts_token mac k t /\ now - Z.abs w < t < now + Z.abs w.
Proof. exact code_time_token_check_iff. Qed.
Print Assumptions C16_code_time_token_check_iff.

Theorem C16_code_jwt_time : forall iat exp now,
  unix_in_range iat -> unix_in_range exp ->
  snd (gen_jwt_CheckTime iat exp now) = None <-> iat * sec_ns - grace_ns < now <= exp * sec_ns.
Proof. exact code_jwt_time. Qed.
Print Assumptions C16_code_jwt_time.

Theorem C16_code_passcode_missing_window : forall (text : N -> list N) claim c t,
  text 0%N = [] -> (forall a b, text a = text b -> a = b) ->
  p_has_valid c = false \/ p_has_expire c = false ->
  run_checkPassCode text claim (Some c) t <> None.
Proof. exact code_passcode_missing_window. Qed.
Print Assumptions C16_code_passcode_missing_window.

(** Non-vacuity: a session signed with a toy MAC is accepted before its
    expiry and refused from it on, by the generated code. *)
Example C16_code_session_example :
  let mac := fun (_ : unit) (d : bytes) => repeat (N.of_nat (length d)) 32 in
  let tok := sign_hex mac tt (le64 (u64_of_int 6000) ++ [65]%N) in
  gen_signer_Sessions_Check (mac tt) 5999 tok = ([65]%N, 1, true) /\
  gen_signer_Sessions_Check (mac tt) 6000 tok = ([], 0, false) /\
  gen_signer_inWindow 5 4 2 = true /\ gen_signer_inWindow 6 4 2 = false /\
  snd (gen_jwt_CheckTime 1000 2000 1500000000000) = None /\
  fst (gen_jwt_CheckTime 1000 2000 1500000000000) = 500000000000.
Proof. vm_compute. repeat split. Qed.
