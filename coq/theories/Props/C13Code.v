(** C13 — the sniproxy wire codec: the code itself (semantic tie).  Property
    theorems only: each is closed by a lemma of Sni/CodeRefineWire.v, which
    proves that the methods of the wire decoder (decoder.go) as gen/gotrans.go
    translates them on every run (Gen/CodeSni.v: state-passing over an
    abstract io.Reader, the receiver's fields n / err / tail as state, the
    sticky error) return, for EVERY reader — every chunking, empty reads, data
    delivered together with io.EOF — what the model Sni/Wire.v computes from
    the bytes the reader holds.  Kept apart from Props/C13.v so that a failing
    refinement lemma does not take the model-level theorems down with it. *)
From Coq Require Import String.
From Coq Require Import List NArith ZArith Bool.
From Verif Require Import Lib.Bytes Lib.GoLib Sni.Wire Gen.CodeSni Sni.CodeCandsWire Sni.CodeRefineWire.
Import ListNotations.
Local Open Scope Z_scope.

(** The reader model itself: what [io.ReadFull] / [io.CopyN] obtain does not
    depend on how the bytes are cut into chunks. *)
Theorem C13_code_reader_chunking_irrelevant : forall (cs : list (list N)) (n : N) (flag : bool),
  let '(got, e, cs') := rd_fill cs n flag in
  got = firstn (N.to_nat n) (concat cs) /\ concat cs' = skipn (N.to_nat n) (concat cs).
Proof. exact rd_fill_spec. Qed.
Print Assumptions C13_code_reader_chunking_irrelevant.

Theorem C13_code_decoder_read_is_model : forall (rd : go_reader) (n : Z) (e : go_error) (buf : list N),
  0 <= n -> n + go_len (rd_bytes rd) < two63z -> run_read rd n e buf = model_read rd n e buf.
Proof. exact gen_read_is_model. Qed.
Print Assumptions C13_code_decoder_read_is_model.

Theorem C13_code_decoder_u64_is_model : forall (rd : go_reader) (n : Z) (e : go_error),
  0 <= n -> n + go_len (rd_bytes rd) < two63z -> run_u64 rd n e = model_u64 rd n e.
Proof. exact gen_u64_is_model. Qed.
Print Assumptions C13_code_decoder_u64_is_model.

Theorem C13_code_decoder_u8_is_model : forall (rd : go_reader) (n : Z) (e : go_error),
  0 <= n -> n + go_len (rd_bytes rd) < two63z -> run_u8 rd n e = model_u8 rd n e.
Proof. exact gen_u8_is_model. Qed.
Print Assumptions C13_code_decoder_u8_is_model.

(** [bytes(buf)] with all three ways of getting the field's memory (the
    caller's buffer, make up to decodeAllocMax, io.CopyN beyond); the field
    handed back after an error is not compared (every caller checks the error). *)
Theorem C13_code_decoder_bytes_is_model : forall (rd : go_reader) (n : Z) (e : go_error) (buf : list N),
  0 <= n -> n + go_len (rd_bytes rd) < two63z -> go_len buf < two63z -> derr_known e ->
  run_bytes rd n e buf = model_bytes 65536 rd n e buf.
Proof. exact gen_bytes_is_model. Qed.
Print Assumptions C13_code_decoder_bytes_is_model.

Theorem C13_code_decoder_str_is_model : forall (rd : go_reader) (n : Z) (e : go_error),
  0 <= n -> n + go_len (rd_bytes rd) < two63z -> derr_known e ->
  run_str rd n e = model_bytes 65536 rd n e [].
Proof. exact gen_str_is_model. Qed.
Print Assumptions C13_code_decoder_str_is_model.

Theorem C13_code_decoder_end_is_model : forall (rd : go_reader) (e : go_error),
  go_len (rd_bytes rd) < two63z -> run_end rd e = model_end rd e.
Proof. exact gen_end_is_model. Qed.
Print Assumptions C13_code_decoder_end_is_model.

(** [end()]: every byte the reader still delivers is counted — one by one,
    in large reads, or together with io.EOF — and reported as a tail error. *)
Theorem C13_code_end_counts_every_trailing_byte : forall (rd : go_reader),
  go_len (rd_bytes rd) < two63z ->
  exists rd',
    gen_sniproxy_decoder_end rd None 0
    = GoOk (gen_sniproxy_decoder_tailError (go_len (rd_bytes rd)), go_len (rd_bytes rd), rd') /\
    rd_bytes rd' = [].
Proof. exact end_counts_every_trailing_byte. Qed.
Print Assumptions C13_code_end_counts_every_trailing_byte.

(** A word the reader cannot fill is an error ([io.ErrUnexpectedEOF], also
    when nothing at all could be read), for every chunking. *)
Theorem C13_code_truncated_is_error : forall (rd : go_reader) (n : Z),
  0 <= n -> n + go_len (rd_bytes rd) < two63z -> (List.length (rd_bytes rd) < 8)%nat ->
  exists v n' e' rd',
    gen_sniproxy_decoder_u64 rd n None = GoOk (v, n', e', rd') /\ derr_go 0 e' = Some EEof /\ rd_bytes rd' = [].
Proof. exact truncated_is_error. Qed.
Print Assumptions C13_code_truncated_is_error.

(** * encoder.go over an abstract writer *)

Theorem C13_code_encoder_u64_is_model : forall out n v, 0 <= n -> n + 8 < two63z -> (v < two64)%N ->
  gen_sniproxy_encoder_u64 (wr_ok out) n None (Z.of_N v) = GoOk (n + 8, None, wr_ok (out ++ enc_value KU64 (VU64 v))).
Proof. exact enc_u64_ok. Qed.
Print Assumptions C13_code_encoder_u64_is_model.

Theorem C13_code_encoder_bytes_is_model : forall out n bs, 0 <= n -> n + 8 + go_len bs < two63z ->
  gen_sniproxy_encoder_bytes (wr_ok out) n None bs = GoOk (n + 8 + go_len bs, None, wr_ok (out ++ enc_bytes bs)).
Proof. exact enc_bytes_ok. Qed.
Print Assumptions C13_code_encoder_bytes_is_model.

Theorem C13_code_encoder_str_is_model : forall out n s, 0 <= n -> n + 8 + go_len s < two63z ->
  gen_sniproxy_encoder_str (wr_ok out) n None s = GoOk (n + 8 + go_len s, None, wr_ok (out ++ enc_value KStr (VBytes s))).
Proof. exact enc_str_ok. Qed.
Print Assumptions C13_code_encoder_str_is_model.

Theorem C13_code_encoder_u8_is_model : forall out n v, 0 <= n -> n + 1 < two63z ->
  gen_sniproxy_encoder_u8 (wr_ok out) n None (Z.of_N v) = GoOk (n + 1, None, wr_ok (out ++ [v])).
Proof. exact enc_u8_ok. Qed.
Print Assumptions C13_code_encoder_u8_is_model.

(** The encoder's error is sticky, and a failing Write takes nothing. *)
Theorem C13_code_encoder_sticky : forall w n e (v : Z) (bs : list N), e <> None ->
  gen_sniproxy_encoder_write w n e bs = GoOk (n, e, w) /\
  gen_sniproxy_encoder_u64 w n e v = GoOk (n, e, w) /\
  gen_sniproxy_encoder_u8 w n e v = GoOk (n, e, w) /\
  gen_sniproxy_encoder_bytes w n e bs = GoOk (n, e, w) /\
  gen_sniproxy_encoder_str w n e bs = GoOk (n, e, w).
Proof. exact enc_sticky. Qed.
Print Assumptions C13_code_encoder_sticky.

(** What the generated encoder writes, the generated decoder reads back from
    any chunking of it. *)
Theorem C13_code_enc_dec_u64 : forall v cs flag, (v < two64)%N -> concat cs = enc_value KU64 (VU64 v) ->
  run_u64 (mkReader cs flag) 0 None = Some (Z.of_N v, ([], 8%N, 0%N)).
Proof. exact enc_dec_u64. Qed.
Print Assumptions C13_code_enc_dec_u64.

(** Non-vacuity: three trailing bytes, two of them arriving with io.EOF. *)
Example C13_code_end_example :
  gen_sniproxy_decoder_end (mkReader [[1%N]; []; [2%N; 3%N]] true) None 0
  = GoOk (Some (GoErr "tailError" ""), 3, mkReader [] true) /\
  gen_sniproxy_decoder_end (mkReader [] false) None 0 = GoOk (None, 0, mkReader [] false) /\
  (exists v n e r, gen_sniproxy_decoder_u64 (mkReader [[1%N; 2%N]; [3%N]] true) 0 None = GoOk (v, n, e, r)
                   /\ v = 197121 /\ n = 3 /\ e = io_ErrUnexpectedEOF).
Proof. vm_compute. repeat split. do 4 eexists. repeat split. Qed.
