(** C17 — archive extraction: the code itself (semantic tie).  Property
    theorems only: each is closed by a lemma of Arch/CodeRefine.v, which
    proves that the bodies of [inDir] (ziputil/unzip.go, dock/write_tar.go) as
    gen/gotrans.go translates them on every run (Gen/CodeArch.v) compute the
    model [in_dir] of Lib/Path.v on ALL pairs of strings, and restates the
    containment theorems of Props/C17.v over the generated definitions.  Kept
    apart from Props/C17.v so that a failing refinement lemma does not take
    the model-level theorems down with it. *)
From Coq Require Import List NArith Bool String.
From Verif Require Import Lib.Path Lib.GoLib Gen.CodeArch Arch.CodeCands Arch.CodeRefine.
Import ListNotations.
Local Open Scope N_scope.

Theorem C17_code_ziputil_inDir_is_model : forall dir p, gen_ziputil_inDir dir p = in_dir dir p.
Proof. exact gen_ziputil_inDir_is_model. Qed.
Print Assumptions C17_code_ziputil_inDir_is_model.

Theorem C17_code_dock_inDir_is_model : forall dir p, gen_dock_inDir dir p = in_dir dir p.
Proof. exact gen_dock_inDir_is_model. Qed.
Print Assumptions C17_code_dock_inDir_is_model.

(** A target that passes the test of either extractor has the destination's
    clean elements followed by real elements only ... *)
Theorem C17_code_containment_test_sound : forall dir p,
  gen_ziputil_inDir dir p = true \/ gen_dock_inDir dir p = true ->
  is_rooted (clean p) = is_rooted (clean dir) /\
  exists rest, nsegs (clean p) = nsegs (clean dir) ++ rest /\ forallb normalb rest = true.
Proof. exact code_containment_sound. Qed.
Print Assumptions C17_code_containment_test_sound.

(** ... and resolves beneath the destination from any working directory. *)
Theorem C17_code_containment_test_resolves : forall cwd dir p kd k,
  gen_ziputil_inDir dir p = true \/ gen_dock_inDir dir p = true ->
  resolve cwd (clean dir) = Some kd -> resolve cwd (clean p) = Some k ->
  is_prefix kd k = true.
Proof. exact code_containment_resolves. Qed.
Print Assumptions C17_code_containment_test_resolves.

(** Nothing that stays beneath is refused. *)
Theorem C17_code_containment_test_complete : forall dir ks,
  forallb goodb ks = true ->
  gen_ziputil_inDir dir (filepath_join [dir; join_slash ks]) = true /\
  gen_dock_inDir dir (filepath_join [dir; join_slash ks]) = true.
Proof. exact code_containment_complete. Qed.
Print Assumptions C17_code_containment_test_complete.

Example C17_code_inDir_example :
  gen_ziputil_inDir (bs "/d"%string) (bs "/d/a"%string) = true /\ gen_ziputil_inDir (bs "/d"%string) (bs "/d/../x"%string) = false /\
  gen_dock_inDir (bs "d"%string) (bs "d/..a"%string) = true /\ gen_dock_inDir (bs "d"%string) (bs "../d"%string) = false.
Proof. vm_compute. repeat split. Qed.
