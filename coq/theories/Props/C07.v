(** C07 — jsonx: Marshal followed by Unmarshal returns the same value.
    Property theorems only.

    The printer's input is the tree json.Marshal + decode(UseNumber) hands to
    it: [pvalue], with numbers as JSON number literals, strings and keys as
    valid rune lists.  [is_print] is unicode.IsPrint, [pf] strconv.ParseFloat
    on an unsigned literal, [ff] json.Marshal of the float64 it returned;
    what is assumed of them is stated in the theorems. *)
From Coq Require Import List NArith Bool String.
From Verif Require Import Lib.Utf8 Jsonx.Lex Jsonx.Tok Jsonx.GoStr Jsonx.Num Jsonx.NumProofs
  Jsonx.Parse Jsonx.Json Jsonx.Encode Jsonx.Print Jsonx.PrintProofs Jsonx.Roundtrip
  Jsonx.GenTypes Gen.JsonxConsts Gen.JsonxOwn Jsonx.Own Jsonx.FileModel Jsonx.ConstsGen Jsonx.FileProofs Jsonx.NoLimit Jsonx.ReadModel.
Import ListNotations.
Local Open Scope N_scope.

(** Numbers: every unsigned JSON number literal (integer, fraction, exponent
    with or without sign), followed by a rune that cannot continue a number,
    is lexed as ONE number token covering the whole literal, without error. *)
Theorem C07_printed_number_lexes : forall u d rest,
  nscan NNeg u = Some (u, []) -> lex_num_stop d = true ->
  exists ty, lex_number (u ++ d :: rest) = LTok (mkTok ty u) [] (d :: rest) /\
             (ty = TInt \/ ty = TFloat).
Proof. exact json_number_lexes. Qed.
Print Assumptions C07_printed_number_lexes.

(** ... and an integer literal is re-emitted digit for digit, whatever its
    size (no float64 in between). *)
Theorem C07_integer_reemitted : forall ip, int_part ip -> int_json ip = Some ip.
Proof. exact int_json_canonical. Qed.
Print Assumptions C07_integer_reemitted.

(** Strings: strconv.Quote of any string of valid runes is lexed as one
    string token, the whole literal, without error; strconv.Unquote gives the
    string back. *)
Theorem C07_printed_string_lexes : forall is_print : N -> bool,
  is_print 10 = false ->
  forall rs rest, forallb valid_rune rs = true ->
  lex_string 34 (go_quote is_print rs ++ rest) = LTok (mkTok TString (go_quote is_print rs)) [] rest.
Proof. exact go_quote_lexes. Qed.
Print Assumptions C07_printed_string_lexes.

Theorem C07_printed_string_unquotes : forall is_print : N -> bool,
  is_print 10 = false ->
  forall rs, forallb valid_rune rs = true ->
  go_unquote (go_quote is_print rs) = Some (utf8_encode rs).
Proof. exact go_quote_unquotes. Qed.
Print Assumptions C07_printed_string_unquotes.

(** Keys: a key printed bare is an identifier that is not a keyword. *)
Theorem C07_bare_key_not_keyword : forall k, is_ident_key k = true -> is_keyword k = false.
Proof. exact is_ident_key_not_keyword. Qed.
Print Assumptions C07_bare_key_not_keyword.

(** The printed text of any value lexes to the expected tokens, at any
    indentation, followed by "," or a line end. *)
Theorem C07_print_lexes : forall is_print : N -> bool,
  is_print 10 = false ->
  forall v, wfpb v = true ->
  forall d s l, delim_tail s -> L s l -> L (print_value is_print d v ++ s) (rt is_print v ++ l).
Proof. exact print_lexes. Qed.
Print Assumptions C07_print_lexes.

(** The round trip, for every value (any nesting, any keys, any strings of
    valid runes, any JSON number literal whose float spelling strconv can
    read): Unmarshal accepts what Marshal printed, and the JSON it hands to
    json.Unmarshal is, read by the reference parser, the original value —
    integers digit for digit, a float literal [u] possibly respelt as
    [ff f] with [pf u = Some f]. *)
Theorem C07_roundtrip :
  forall (F : Type) (pf : list N -> option F) (ff : F -> list N) (is_print : N -> bool),
  is_print 10 = false ->
  (forall f, is_json_number (ff f) = true) -> (forall f r, ff f <> 45 :: r) ->
  forall v, wfpb v = true -> fokb pf v = true ->
  exists out j',
    unmarshal pf ff (print_doc is_print v) = Ok (UOk out) /\
    json_parse out = Some j' /\ jrel pf ff (jv v) j'.
Proof. exact (fun F pf ff is_print H1 H2 H3 => roundtrip pf ff is_print H1 H2 H3). Qed.
Print Assumptions C07_roundtrip.

(** Exactness: if every number literal of the value is canonical - [ff]
    writes for the float [pf] reads from it the literal itself, which is
    true of the shortest spelling json.Marshal writes and is checked on every
    literal of every run - then the JSON handed to json.Unmarshal is, read by
    the reference parser, EXACTLY the original tree (keys sorted, as
    json.Marshal sorts them): no number is respelt.  So decoding into the
    same Go type gives what encoding/json's own Marshal/Unmarshal round trip
    gives, and comparing with reflect.DeepEqual is justified wherever that is
    the identity. *)
Theorem C07_roundtrip_exact :
  forall (F : Type) (pf : list N -> option F) (ff : F -> list N) (is_print : N -> bool),
  is_print 10 = false ->
  (forall f, is_json_number (ff f) = true) -> (forall f r, ff f <> 45 :: r) ->
  forall v, wfpb v = true -> fokb pf v = true -> all_nums (canon_num pf ff) v ->
  exists out, unmarshal pf ff (print_doc is_print v) = Ok (UOk out) /\ json_parse out = Some (jv v).
Proof. exact (fun F pf ff is_print H1 H2 H3 => roundtrip_exact pf ff is_print H1 H2 H3). Qed.
Print Assumptions C07_roundtrip_exact.

(** Any reader of the JSON text (the caller's type: struct with tags, map,
    pointer, []byte, json.Number ...) that does not depend on the spelling of
    a float reads after the round trip what it reads from json.Marshal's own
    output. *)
Theorem C07_roundtrip_any_decoder :
  forall (F : Type) (pf : list N -> option F) (ff : F -> list N) (is_print : N -> bool),
  is_print 10 = false ->
  (forall f, is_json_number (ff f) = true) -> (forall f r, ff f <> 45 :: r) ->
  forall (A : Type) (dec : jvalue -> A) v,
  (forall a b, jrel pf ff a b -> dec a = dec b) ->
  wfpb v = true -> fokb pf v = true ->
  exists out j', unmarshal pf ff (print_doc is_print v) = Ok (UOk out) /\
    json_parse out = Some j' /\ dec j' = dec (jv v).
Proof. exact (fun F pf ff is_print H1 H2 H3 A dec v => roundtrip_decoder pf ff is_print H1 H2 H3 dec v). Qed.
Print Assumptions C07_roundtrip_any_decoder.

(** The source read on this run accepts '+' and '-' as exponent signs, as the
    lexer model does. *)
Theorem C07_source_agrees_with_model :
  same_set (disjuncts gen_exp_sign_cond) (GCall "IsDigit" :: map GRuneIs exp_signs) = true /\
  gen_max_errs = Some (N.of_nat max_errs).
Proof. exact (conj gen_exp_sign_agree gen_max_errs_agree). Qed.
Print Assumptions C07_source_agrees_with_model.

(** Ownership: the bytes Marshal returns are the caller's.  For the allocation
    policy read from the source on this run (gen/jsonx_own.go: every []byte
    result is a buffer made in that call, there is no package-level buffer
    or pool), after ANY history of calls and of caller writes into results
    it was handed, what the caller reads from each result is what value
    semantics says ([spec]: independent values, each changed only by its
    owner); and the result of a call is the function of that call's input
    alone, until the caller overwrites that very result. *)
Theorem C07_results_owned_by_caller : forall (F : list N -> list N) h k,
  read (run F (policy_of gen_result_origins gen_pkg_buffers) h) k = nth_error (spec F h) k.
Proof. exact gen_results_owned. Qed.
Print Assumptions C07_results_owned_by_caller.

Theorem C07_result_function_of_its_input_only : forall (F : list N -> list N) h1 i h2,
  forallb (fun e => negb (writes_to (ncalls h1) e)) h2 = true ->
  read (run F (policy_of gen_result_origins gen_pkg_buffers) (h1 ++ ECall i :: h2)) (ncalls h1) = Some (F i).
Proof. exact gen_result_stable. Qed.
Print Assumptions C07_result_function_of_its_input_only.

(** ... whereas a buffer the implementation keeps (a package-level buffer, a
    sync.Pool) is overwritten by the next call while the first caller still
    holds it. *)
Theorem C07_pooled_buffer_refuted : forall (F : list N -> list N) a b, F a <> F b ->
  read (run F Pooled [ECall a; ECall b]) 0 = Some (F b) /\
  nth_error (spec F [ECall a; ECall b]) 0 = Some (F a) /\
  read (run F Pooled [ECall a; ECall b]) 0 <> nth_error (spec F [ECall a; ECall b]) 0.
Proof. exact pooled_refuted. Qed.
Print Assumptions C07_pooled_buffer_refuted.

Example C07_ownership_example :
  (* three calls; the caller scribbles over the first result after the second call *)
  let h := [ECall [1]; ECall [2]; EWrite 0 [9; 9]; ECall [3]]%N in
  map (read (run (fun i => i ++ i) Fresh h)) [0; 1; 2]%nat
  = [Some [9; 9]; Some [2; 2]; Some [3; 3]]%N /\
  map (read (run (fun i => i ++ i) Pooled h)) [0; 1; 2]%nat
  = [Some [3; 3]; Some [3; 3]; Some [3; 3]]%N.
Proof. vm_compute. split; reflexivity. Qed.

(** Files.  WriteFile replaces the whole content of the file (the way it
    opens the file is read from the source on this run: os.WriteFile,
    os.Create, or os.OpenFile with O_TRUNC).  After ANY history of WriteFile
    calls, on any paths and over whatever was there before, the file at a
    path holds exactly the last text written there ... *)
Theorem C07_file_holds_last_write : forall h f p,
  read_file (run_writes (wpolicy_of gen_writefile_opens) h f) p = last_write p h (f p).
Proof. exact gen_file_last_write. Qed.
Print Assumptions C07_file_holds_last_write.

(** ... so ReadFile returns the LAST value written: after the calls [h1],
    WriteFile(p, v), and any calls [h2] on other paths, the file at [p] is the
    text Marshal prints for [v], Unmarshal (which is what ReadFile applies to
    the file's bytes) accepts it and yields [v] - whatever longer or shorter
    texts [h1] wrote to [p] before. *)
Theorem C07_file_history_roundtrip :
  forall (F : Type) (pf : list N -> option F) (ff : F -> list N) (is_print : N -> bool),
  is_print 10 = false ->
  (forall f, is_json_number (ff f) = true) -> (forall f r, ff f <> 45 :: r) ->
  forall h1 p v h2 f,
  wfpb v = true -> fokb pf v = true ->
  forallb (fun pv : nat * pvalue => negb (Nat.eqb p (fst pv))) h2 = true ->
  exists text out j',
    read_file (run_values is_print (h1 ++ (p, v) :: h2) f) p = Some text /\
    text = print_doc is_print v /\
    unmarshal pf ff text = Ok (UOk out) /\
    json_parse out = Some j' /\ jrel pf ff (jv v) j'.
Proof. exact (fun F pf ff is_print H1 H2 H3 => file_history_roundtrip pf ff is_print H1 H2 H3). Qed.
Print Assumptions C07_file_history_roundtrip.

(** A write that does not truncate keeps the tail of a longer old content. *)
Theorem C07_overlay_write_refuted : forall old text tail,
  old = firstn (List.length text) old ++ tail -> (List.length text <= List.length old)%nat ->
  read_file (run_writes Overlay [(0%nat, old); (0%nat, text)] fs0) 0%nat = Some (text ++ tail).
Proof. exact overlay_keeps_tail. Qed.
Print Assumptions C07_overlay_write_refuted.

(** ReadFile is a function of the file's current bytes: after any history of
    rewrites (any content, any time stamp) and reads, every read answers what
    the reader computes from the bytes on disk at that moment - the readers
    keep no state (read from the source on this run). *)
Theorem C07_readfile_reads_current_bytes : forall (R : Type) (F : list N -> R) h cur,
  stateless R F cur h = map F (on_disk cur h).
Proof. exact stateless_reads_current. Qed.
Print Assumptions C07_readfile_reads_current_bytes.

Theorem C07_readers_keep_no_state : gen_reader_state = [].
Proof. exact gen_readfile_stateless. Qed.
Print Assumptions C07_readers_keep_no_state.

(** A cache keyed by length and time stamp answers the OLD value after a
    rewrite of the same length with the same time stamp. *)
Theorem C07_cached_reader_refuted : forall (R : Type) (F : list N -> R) c1 c2 t,
  List.length c1 = List.length c2 -> F c1 <> F c2 ->
  cached R F None (mkFile c1 t) [EvRead; EvWrite (mkFile c2 t); EvRead] = [F c1; F c1] /\
  stateless R F (mkFile c1 t) [EvRead; EvWrite (mkFile c2 t); EvRead] = [F c1; F c2] /\
  cached R F None (mkFile c1 t) [EvRead; EvWrite (mkFile c2 t); EvRead]
  <> stateless R F (mkFile c1 t) [EvRead; EvWrite (mkFile c2 t); EvRead].
Proof. exact cached_refuted. Qed.
Print Assumptions C07_cached_reader_refuted.

(** No token length limit: a string of ANY length n is printed as a literal
    that the lexer reads back as one token, whole and without error, and that
    unquotes to the string (the printer emits tokens of every length, the
    lexer must take them); the integers the source names are the known
    three, none of them a bound on the input. *)
Theorem C07_no_token_length_limit : forall is_print : N -> bool,
  is_print 10 = false ->
  forall (n : nat) rs rest, List.length rs = n -> forallb valid_rune rs = true ->
  lex_string 34 (go_quote is_print rs ++ rest) = LTok (mkTok TString (go_quote is_print rs)) [] rest /\
  go_unquote (go_quote is_print rs) = Some (utf8_encode rs) /\
  (n + 2 <= List.length (go_quote is_print rs))%nat.
Proof. exact no_token_length_limit. Qed.
Print Assumptions C07_no_token_length_limit.

Theorem C07_named_integers_known : gen_int_literals = [420; 55296; 57344].
Proof. exact gen_int_literals_known. Qed.
Print Assumptions C07_named_integers_known.

(** A scanner that reports an error once a token has [max] runes rejects a
    literal the printer prints, for every [max]. *)
Theorem C07_bounded_scanner_refuted : forall is_print : N -> bool,
  is_print 10 = false ->
  forall max : nat,
  exists rs, forallb valid_rune rs = true /\ List.length rs = max /\
    bounded max (lex_string 34 (go_quote is_print rs))
    <> LTok (mkTok TString (go_quote is_print rs)) [] [].
Proof. exact bounded_scanner_refuted. Qed.
Print Assumptions C07_bounded_scanner_refuted.

(** Non-vacuity: a value with a negative fraction, an exponent with "+", an
    integer above 2^63, keyword and non-identifier keys, escapes and nesting. *)
Definition ex_print (r : N) : bool := negb ((r <? 32) || (r =? 127)).
Definition ex_pf (lit : list N) : option (list N) :=
  if list_N_eqb lit [49; 46; 53] then Some [49; 46; 53]                  (* 1.5 *)
  else if list_N_eqb lit [49; 101; 43; 50; 49] then Some [49; 101; 43; 50; 49]  (* 1e+21 *)
  else None.

Definition ex_value : pvalue :=
  PObj [ ([116; 114; 117; 101], PArr [PNum [45; 49; 46; 53]; PNum [49; 101; 43; 50; 49];
                                      PNum [57;50;50;51;51;55;50;48;51;54;56;53;52;55;55;53;56;48;57]]);
         ([97; 32; 98], PStr [233; 10; 34; 92; 0; 8232; 128512]);
         ([122], PObj [([107], PNull); ([95; 49], PBool false); ([120], PArr [])]) ].

Example C07_nonvacuous :
  wfpb ex_value = true /\ fokb ex_pf ex_value = true /\ ex_print 10 = false /\
  match unmarshal ex_pf (fun t => t) (print_doc ex_print ex_value) with
  | Ok (UOk out) => json_parse out
  | _ => None
  end
  = Some (JObj [ ([97; 32; 98], JStr [233; 10; 34; 92; 0; 8232; 128512]);
                 ([116; 114; 117; 101],
                  JArr [JNum [45; 49; 46; 53]; JNum [49; 101; 43; 50; 49];
                        JNum [57;50;50;51;51;55;50;48;51;54;56;53;52;55;55;53;56;48;57]]);
                 ([122], JObj [([95; 49], JBool false); ([107], JNull); ([120], JArr [])]) ]).
Proof. vm_compute. repeat split. Qed.

(** The hypothesis of the exactness theorem holds for the example. *)
Example C07_exact_example : all_nums (canon_num ex_pf (fun t => t)) ex_value.
Proof.
  apply all_nums_global. intros u f H. unfold ex_pf in H.
  destruct (list_N_eqb u [49; 46; 53]) eqn:E1; [apply list_N_eqb_true in E1; congruence|].
  destruct (list_N_eqb u [49; 101; 43; 50; 49]) eqn:E2; [apply list_N_eqb_true in E2; congruence|discriminate].
Qed.

Example C07_exponent_plus : (* "1e+06" used to be three tokens *)
  jsonx_raw_tokens [49; 101; 43; 48; 54; 10]
  = Ok [(mkTok TFloat [49; 101; 43; 48; 54], []); (mkTok TEndl [10], [])].
Proof. vm_compute. reflexivity. Qed.

(** [1] printed, then 7 printed over it without truncation: the file is
    "7", a line end, and the old tail; Unmarshal reports the trailing content. *)
Example C07_overlay_example :
  let old := print_doc ex_print (PArr [PNum [49]]) in
  let new := print_doc ex_print (PNum [55]) in
  read_file (run_writes Overlay [(0%nat, old); (0%nat, new)] fs0) 0%nat
    = Some [55; 10; 32; 32; 32; 32; 49; 44; 10; 93; 10] /\
  unmarshal ex_pf (fun t => t) [55; 10; 32; 32; 32; 32; 49; 44; 10; 93; 10] = Ok UMore /\
  read_file (run_writes Replace [(0%nat, old); (0%nat, new)] fs0) 0%nat = Some [55; 10] /\
  unmarshal ex_pf (fun t => t) [55; 10] = Ok (UOk [55]).
Proof. vm_compute. repeat split. Qed.

