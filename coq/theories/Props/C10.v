(** C10 — caco3: an incremental build always equals a clean build.
    Property theorems only (work in progress: the shape obligation first). *)
From Coq Require Import List String Bool Arith.
From Verif Require Import Caco.Load Caco.Build Caco.BuildGen Gen.CacoBuild.
Import ListNotations.
Local Open Scope string_scope.

(** The builder of the current source has the shape the model mirrors. *)
Theorem C10_builder_shape_frozen :
  builder_frozenb = true /\ buildnode_order_okb = true /\ samestat_okb = true /\
  gen_ruleFileSet = "file_set" /\ gen_ruleBundle = "bundle".
Proof. exact gen_builder_shape. Qed.
Print Assumptions C10_builder_shape_frozen.
