(** C10 — caco3: an incremental build always equals a clean build.
    Property theorems only; each is closed by a theorem of Caco/BuildProofs.v
    about the model Caco/Build.v, which is the one the harness replays
    against the real [caco3.Builder] on every run (Caco/BuildCorr.v).

    Quantification: every rule set of file_set and bundle rules, every
    source tree, every history [h] of source edits ([OSetSrc]: add, edit,
    touch, chmod, delete), rule edits ([OSetRules]), output tampering and
    deletion ([OTamper]) and builds of arbitrary target lists ([OBuild],
    successful or not), from an empty out/.

    Standing assumptions (header of Caco/Build.v): SHA-256 is modelled by the
    structured value that is hashed (collision-freeness); an edit is a change
    of (size, mtime, mode, symlink); every write of an output leaves a new
    stat (strictly increasing stamp); no cache expiry within the history.
    [hist_in_scope] / [build_in_scope] restrict to the model's scope at every
    build of the history: no file set lists an output file, no rule or output
    is named like a source file ([scopeb], a decidable predicate the
    correspondence run evaluates on every generated history). *)
From Coq Require Import List String Bool Arith NArith Relations.
From Verif Require Import Caco.Load Caco.LoadProofs Caco.Build Caco.BuildProofs Caco.BuildGen Gen.CacoBuild.
From Verif Require Import Caco.LoadSessionGen Caco.BuildSession Caco.BuildSessionProofs Caco.BuildParse Caco.BuildLinks Caco.BuildDepKey Caco.BuildSessionGen.
Import ListNotations.
Local Open Scope string_scope.

(** The cache invariant holds after every history: a cache entry whose
    recorded outputs still carry the recorded stamps stands for a successful
    execution of the rule with that very action digest, and the outputs hold
    what that execution wrote ([entry_ok]); all stamps are older than the
    clock and a recorded (output, stamp) belongs to one digest only. *)
Theorem C10_cache_valid : forall h rs src,
  hist_in_scope h (empty_world rs src) ->
  let w := run h (empty_world rs src) in
  (forall d b, cache_get d (w_cache w) = Some b -> entry_ok (w_out w) d b) /\
  fresh (w_out w) (w_cache w) (w_clock w).
Proof. exact cache_valid_hist. Qed.
Print Assumptions C10_cache_valid.

(** The digest covers every input: two configurations, from any two moments
    of any histories, in which a file-set rule has the same action digest;
    if executing it succeeded in one, it succeeds in the other with the same
    list.  (Since the repair of the action digest - it records listed files
    that are not source nodes - this needs no assumption about rules named
    like source files.) *)
Theorem C10_digest_determines_output :
  forall L rules src L0 rules0 src0,
  wfG L rules src -> wfG L0 rules0 src0 ->
  forall f x d, sdig L rules src f x = Some d ->
  forall f0 x0, sdig L0 rules0 src0 f0 x0 = Some d ->
  forall n r files sels igns incs,
    find_node x L = Some n -> ntype n = TRule -> find_rule x rules = Some r ->
    r_kind r = KFileSet files sels igns incs ->
  forall g0 l0, scont L0 rules0 src0 g0 x0 = Some (inl l0) ->
  exists g, scont L rules src g x = Some (inl l0).
Proof. exact key_lemma. Qed.
Print Assumptions C10_digest_determines_output.

(** After any history (time may pass, entries may expire), a successful
    build - with or without AlwaysRebuild - leaves, for every rule reachable
    from the targets, exactly the output a build of the same sources and
    rules from an empty out/ (and empty cache) produces - and that clean
    build succeeds too. *)
Theorem C10_incremental_eq_clean : forall h rs src always always' ts w1 e1 L,
  hist_in_scope h (empty_world rs src) ->
  let w := run h (empty_world rs src) in
  build_in_scope ts w -> load_world w ts = LOk L -> build_with always ts w = (w1, e1, BOk) ->
  exists w2 e2, build_with always' ts (clean w) = (w2, e2, BOk) /\
    forall r rl fs ss gs is',
      reach_rule L ts r -> find_rule r (w_rules w) = Some rl -> r_kind rl = KFileSet fs ss gs is' ->
      exists l, content_at (w_out w1) (fileset_out r) = Some (CList l) /\
                content_at (w_out w2) (fileset_out r) = Some (CList l).
Proof. exact incremental_eq_clean_hist. Qed.
Print Assumptions C10_incremental_eq_clean.

(** A build with nothing changed executes no rule and changes nothing. *)
Theorem C10_noop_rebuild : forall h rs src always ts w1 e1,
  hist_in_scope h (empty_world rs src) ->
  let w := run h (empty_world rs src) in
  build_in_scope ts w -> build_with always ts w = (w1, e1, BOk) -> build ts w1 = (w1, [], BOk).
Proof. exact noop_rebuild_hist. Qed.
Print Assumptions C10_noop_rebuild.

(** Exactly the rules whose current action digest has no valid cache entry
    are executed (all reachable ones under AlwaysRebuild): a reachable rule
    runs iff its digest (which covers its own definition and, transitively,
    the digests of everything it depends on) is not in the cache, unexpired,
    with outputs still carrying the recorded stamps ([wvalid]). *)
Theorem C10_exec_iff : forall h rs src always ts w1 e1 L,
  hist_in_scope h (empty_world rs src) ->
  let w := run h (empty_world rs src) in
  build_in_scope ts w -> load_world w ts = LOk L -> build_with always ts w = (w1, e1, BOk) ->
  forall r,
    In r e1 <->
    reach_rule L ts r /\
    exists F d, sdig L (w_rules w) (w_src w) F r = Some d /\ (~ wvalid w d \/ always = true).
Proof. exact exec_iff_hist. Qed.
Print Assumptions C10_exec_iff.

(** ... and after a successful build every reachable rule's digest is
    validly cached. *)
Theorem C10_built_is_cached : forall h rs src always ts w1 e1 L,
  hist_in_scope h (empty_world rs src) ->
  let w := run h (empty_world rs src) in
  build_in_scope ts w -> load_world w ts = LOk L -> build_with always ts w = (w1, e1, BOk) ->
  forall r F d, reach_rule L ts r -> sdig L (w_rules w) (w_src w) F r = Some d -> wvalid w1 d.
Proof. exact built_is_cached_hist. Qed.
Print Assumptions C10_built_is_cached.

(** Cache expiry only ever causes re-execution, never a stale hit: a
    reachable rule whose entry has expired is executed - and by
    [C10_incremental_eq_clean], which quantifies over histories in which time
    passes ([OAdvance]), what the build leaves is still the clean build's
    output. *)
Theorem C10_expiry_only_rebuilds : forall h rs src always ts w1 e1 L,
  hist_in_scope h (empty_world rs src) ->
  let w := run h (empty_world rs src) in
  build_in_scope ts w -> load_world w ts = LOk L -> build_with always ts w = (w1, e1, BOk) ->
  forall r F d, reach_rule L ts r -> sdig L (w_rules w) (w_src w) F r = Some d ->
    live (w_now w) (w_times w) d = false -> In r e1.
Proof. exact expired_is_rebuilt_hist. Qed.
Print Assumptions C10_expiry_only_rebuilds.

(** After a successful build and any source / rule edits (outputs left
    alone, no time passing), the next successful build does not execute a
    rule that was reachable before and has the same action digest as before:
    what a change does not reach is not rebuilt (bundles included). *)
Theorem C10_unchanged_not_rebuilt : forall h rs src always ts w1 e1 L edits ts2 w3 e3 L2,
  hist_in_scope h (empty_world rs src) ->
  let w := run h (empty_world rs src) in
  build_in_scope ts w -> load_world w ts = LOk L -> build_with always ts w = (w1, e1, BOk) ->
  forallb is_edit edits = true ->
  let w2 := run edits w1 in
  build_in_scope ts2 w2 -> load_world w2 ts2 = LOk L2 -> build ts2 w2 = (w3, e3, BOk) ->
  forall r F d F2,
    reach_rule L ts r -> sdig L (w_rules w) (w_src w) F r = Some d ->
    sdig L2 (w_rules w2) (w_src w2) F2 r = Some d ->
    ~ In r e3.
Proof. exact unchanged_not_rebuilt_hist. Qed.
Print Assumptions C10_unchanged_not_rebuilt.

(** "A change re-executes exactly the rules that transitively depend on it",
    for rules with an output: after a successful build, any source and rule
    edits (outputs left alone) and another successful build, a file set
    reachable in both builds is executed iff its action digest changed - and
    the digest is the structured value over the rule's own definition
    (files, selections, ignores, includes) and, recursively, the digests of
    everything it depends on, so it changes exactly when something the rule
    transitively depends on changed.  (For a bundle, which has no output, an
    old digest remains valid in the cache, so only the direction
    [C10_unchanged_not_rebuilt] holds.) *)
Theorem C10_minimal_rebuild : forall h rs src always ts w1 e1 L edits ts2 w3 e3 L2,
  hist_in_scope h (empty_world rs src) ->
  let w := run h (empty_world rs src) in
  build_in_scope ts w -> load_world w ts = LOk L -> build_with always ts w = (w1, e1, BOk) ->
  forallb is_edit edits = true ->
  let w2 := run edits w1 in
  build_in_scope ts2 w2 -> load_world w2 ts2 = LOk L2 -> build ts2 w2 = (w3, e3, BOk) ->
  forall r rl0 fs0 ss0 gs0 is0 rl fs ss gs is' F d F2 d2,
    reach_rule L ts r -> reach_rule L2 ts2 r ->
    find_rule r (w_rules w) = Some rl0 -> r_kind rl0 = KFileSet fs0 ss0 gs0 is0 ->
    find_rule r (w_rules w2) = Some rl -> r_kind rl = KFileSet fs ss gs is' ->
    sdig L (w_rules w) (w_src w) F r = Some d ->
    sdig L2 (w_rules w2) (w_src w2) F2 r = Some d2 ->
    (In r e3 <-> d <> d2).
Proof. exact minimal_rebuild_hist. Qed.
Print Assumptions C10_minimal_rebuild.

(** ... and a changed file set is rebuilt whatever time passed in between
    and whether or not the second build uses AlwaysRebuild. *)
Theorem C10_changed_is_rebuilt : forall h rs src always always2 ts w1 e1 L edits ts2 w3 e3 L2,
  hist_in_scope h (empty_world rs src) ->
  let w := run h (empty_world rs src) in
  build_in_scope ts w -> load_world w ts = LOk L -> build_with always ts w = (w1, e1, BOk) ->
  forallb is_edit_or_time edits = true ->
  let w2 := run edits w1 in
  build_in_scope ts2 w2 -> load_world w2 ts2 = LOk L2 -> build_with always2 ts2 w2 = (w3, e3, BOk) ->
  forall r rl0 fs0 ss0 gs0 is0 rl fs ss gs is' F d F2 d2,
    reach_rule L ts r -> reach_rule L2 ts2 r ->
    find_rule r (w_rules w) = Some rl0 -> r_kind rl0 = KFileSet fs0 ss0 gs0 is0 ->
    find_rule r (w_rules w2) = Some rl -> r_kind rl = KFileSet fs ss gs is' ->
    sdig L (w_rules w) (w_src w) F r = Some d ->
    sdig L2 (w_rules w2) (w_src w2) F2 r = Some d2 ->
    d <> d2 -> In r e3.
Proof. exact changed_is_rebuilt_hist. Qed.
Print Assumptions C10_changed_is_rebuilt.

(** A rule whose execution failed is the last one logged, and its action
    digest has no cache entry afterwards: it cannot be taken as built. *)
Theorem C10_failed_not_cached : forall h rs src always ts w' ex e L,
  hist_in_scope h (empty_world rs src) ->
  let w := run h (empty_world rs src) in
  build_in_scope ts w -> load_world w ts = LOk L -> build_with always ts w = (w', ex, BFail e) ->
  exists ex0 x F d,
    ex = (ex0 ++ [x])%list /\ reach_rule L ts x /\
    sdig L (w_rules w) (w_src w) F x = Some d /\ cache_get d (w_cache w') = None.
Proof. exact failed_not_cached_hist. Qed.
Print Assumptions C10_failed_not_cached.

(** The model's fuel always suffices. *)
Theorem C10_build_total : forall always ts w, snd (build_with always ts w) <> BOutOfFuel.
Proof. exact build_total. Qed.
Print Assumptions C10_build_total.

(** The builder of the current source has the shape the model mirrors:
    skeletons of Build / buildNode / buildNodeDigest / makeDigest / newBuilt /
    checkSameBuilt / newFileStat / sameFileStat / the cache / newFileSet /
    fileSet.meta / fileSet.fileNodes / fileSet.build / bundle and the layouts
    of buildAction, fileStat, built, the cache entry and the rule structs; in
    buildNode the cache entry is removed before the rule runs and stored only
    after it and newBuilt succeeded; sameFileStat compares size, mtime, mode,
    symlink; a file set's action digest carries fileNodes; the cache reads
    its clock at get and put and expires entries after the model's 7 days. *)
Theorem C10_builder_shape_frozen :
  builder_frozenb = true /\ buildnode_order_okb = true /\ samestat_okb = true /\
  filenodes_okb = true /\ cache_clock_okb = true /\ gen_cache_expire_ns = Build.expire /\
  gen_ruleFileSet = "file_set" /\ gen_ruleBundle = "bundle".
Proof. exact gen_builder_shape. Qed.
Print Assumptions C10_builder_shape_frozen.


(** ** Several Build calls on one Builder (Caco/BuildSession.v)

    The theorems above are about [run], in which every build starts with an
    empty memo [ctx.built].  That is the model of the code because [Build]
    makes its [buildContext] at every call - which is read off the current
    source on every run: the one [buildContext] literal of the package is a
    statement of [Builder.Build]'s body (under no [if], loop or closure), bound
    by [:=] to a local that is not assigned again and is what [buildNodes]
    gets; nothing replaces a context's [built] field; the structs that
    outlive a call ([Builder], [env], [buildOpts], [dockerOpts]) and the
    package's variables are the frozen ones (no context, no map among them);
    [loadNodes] makes a new loader at every call and [buildNodes] re-points
    [env.nodeType]/[env.ruleType] at the context of the call first. *)
Theorem C10_memo_is_made_per_build :
  memo_policy_of_source = MemoPerBuild /\ memo_site_per_buildb = true /\
  long_lived_state_frozenb = true /\ loader_per_loadb = true /\ env_hooks_per_buildb = true /\
  env_writes_frozenb = true.
Proof. exact gen_memo_made_per_build. Qed.
Print Assumptions C10_memo_is_made_per_build.

(** A Build call entered with the empty memo is [build_with]. *)
Theorem C10_build_from_empty_memo : forall always ts w,
  fst (build_from [] always ts w) = build_with always ts w.
Proof. exact build_from_nil. Qed.
Print Assumptions C10_build_from_empty_memo.

(** With the memo policy of the current source, every history of
    operations and Build calls on ONE long-lived Builder - or on Builders
    replaced at any points - passes through the same worlds, executes the same
    rules and ends each build the same way as the same history with Builders
    that hold nothing ([wrun]: a function of the world alone; [SWipeOut] =
    the whole out/ directory removed), whatever the Builder held when the
    history began. *)
Theorem C10_one_builder_eq_fresh_builders : forall h s,
  s_world (fst (srun memo_policy_of_source h s)) = wrun h (s_world s) /\
  snd (srun memo_policy_of_source h s) = wtrace h (s_world s).
Proof. exact source_session_eq_wrun. Qed.
Print Assumptions C10_one_builder_eq_fresh_builders.

(** ... and [wrun], when out/ is never removed wholesale, is [run]. *)
Theorem C10_one_builder_eq_run : forall h s,
  no_wipeb h = true ->
  s_world (fst (srun memo_policy_of_source h s)) = run (plain h) (s_world s).
Proof. exact source_session_eq_run. Qed.
Print Assumptions C10_one_builder_eq_run.

(** The invariant of [C10_cache_valid] also holds along histories in which
    out/ (with out/CACHE) is removed at any points. *)
Theorem C10_cache_valid_with_wipes : forall h w,
  winv w -> shist_in_scope h w -> winv (wrun h w).
Proof. exact wrun_inv. Qed.
Print Assumptions C10_cache_valid_with_wipes.

(** incremental = clean for every history of Build calls on one Builder *)
Theorem C10_one_builder_incremental_eq_clean : forall h rs src always always' ts s1 e1 L,
  shist_in_scope h (empty_world rs src) ->
  let s := fst (srun memo_policy_of_source h (new_session rs src)) in
  build_in_scope ts (s_world s) -> load_world (s_world s) ts = LOk L ->
  sbuild memo_policy_of_source always ts s = (s1, e1, BOk) ->
  exists w2 e2, build_with always' ts (clean (s_world s)) = (w2, e2, BOk) /\
    forall r rl fs ss gs is',
      reach_rule L ts r -> find_rule r (w_rules (s_world s)) = Some rl ->
      r_kind rl = KFileSet fs ss gs is' ->
      exists l, content_at (w_out (s_world s1)) (fileset_out r) = Some (CList l) /\
                content_at (w_out w2) (fileset_out r) = Some (CList l).
Proof. exact source_session_incremental_eq_clean. Qed.
Print Assumptions C10_one_builder_incremental_eq_clean.

(** the next Build call on the same Builder, nothing changed, executes nothing *)
Theorem C10_one_builder_noop_rebuild : forall h rs src always ts s1 e1,
  shist_in_scope h (empty_world rs src) ->
  let s := fst (srun memo_policy_of_source h (new_session rs src)) in
  build_in_scope ts (s_world s) ->
  sbuild memo_policy_of_source always ts s = (s1, e1, BOk) ->
  exists s2, sbuild memo_policy_of_source false ts s1 = (s2, [], BOk) /\ s_world s2 = s_world s1.
Proof. exact source_session_noop_rebuild. Qed.
Print Assumptions C10_one_builder_noop_rebuild.

(** a rule whose execution failed is not remembered as built by the Builder:
    no cache entry, and the next call on the same Builder does what a call on a
    new Builder does *)
Theorem C10_one_builder_failed_not_remembered : forall h rs src always ts s1 ex e L,
  shist_in_scope h (empty_world rs src) ->
  let s := fst (srun memo_policy_of_source h (new_session rs src)) in
  build_in_scope ts (s_world s) -> load_world (s_world s) ts = LOk L ->
  sbuild memo_policy_of_source always ts s = (s1, ex, BFail e) ->
  (exists ex0 x F d,
     ex = (ex0 ++ [x])%list /\ reach_rule L ts x /\
     sdig L (w_rules (s_world s)) (w_src (s_world s)) F x = Some d /\
     cache_get d (w_cache (s_world s1)) = None) /\
  forall always2 ts2,
    (let '(s2, ex2, r2) := sbuild memo_policy_of_source always2 ts2 s1 in (s_world s2, ex2, r2)) =
    (let '(s2, ex2, r2) := sbuild memo_policy_of_source always2 ts2 (mkS (s_world s1) []) in
     (s_world s2, ex2, r2)).
Proof. exact source_session_failed_not_remembered. Qed.
Print Assumptions C10_one_builder_failed_not_remembered.

(** A memo that survives across Build calls loses all of this: the statement
    of [C10_one_builder_incremental_eq_clean] is false for [MemoKept] ... *)
Theorem C10_kept_memo_refuted :
  ~ (forall h rs src always always' ts s1 e1 L,
       shist_in_scope h (empty_world rs src) ->
       let s := fst (srun MemoKept h (new_session rs src)) in
       build_in_scope ts (s_world s) -> load_world (s_world s) ts = LOk L ->
       sbuild MemoKept always ts s = (s1, e1, BOk) ->
       exists w2 e2, build_with always' ts (clean (s_world s)) = (w2, e2, BOk) /\
         forall r rl fs ss gs is',
           reach_rule L ts r -> find_rule r (w_rules (s_world s)) = Some rl ->
           r_kind rl = KFileSet fs ss gs is' ->
           exists l, content_at (w_out (s_world s1)) (fileset_out r) = Some (CList l) /\
                     content_at (w_out w2) (fileset_out r) = Some (CList l)).
Proof. exact session_kept_memo_refuted. Qed.
Print Assumptions C10_kept_memo_refuted.

(** ... by the history "build one target, edit a source of a dependency it
    shares with another target, build that other target": stale lists; *)
Theorem C10_kept_memo_stale_output_refuted :
  let s := fst (srun MemoKept kx_hist (new_session kx_rules kx_src)) in
  let '(s1, e1, r1) := sbuild MemoKept false ["pkg/right"] s in
  let '(w2, e2, r2) := build_with false ["pkg/right"] (clean (s_world s)) in
  r1 = BOk /\ r2 = BOk /\ e1 = ["pkg/right"] /\ e2 = ["pkg/base"; "pkg/right"] /\
  content_at (w_out (s_world s1)) "pkg/right.fileset" =
    Some (CList [ESrc "pkg/a.txt" (mkStat 2 1001 420 ""); ESrc "pkg/r.txt" (mkStat 6 1003 420 "")]) /\
  content_at (w_out w2) "pkg/right.fileset" =
    Some (CList [ESrc "pkg/a.txt" (mkStat 10 1010 420 ""); ESrc "pkg/r.txt" (mkStat 6 1003 420 "")]).
Proof. exact kept_memo_stale_output_refuted. Qed.
Print Assumptions C10_kept_memo_stale_output_refuted.

(** ... and "a rule fails, build again": the second call succeeds, executes
    nothing and leaves no output, while a clean build fails. *)
Theorem C10_kept_memo_failed_treated_as_built_refuted :
  let s0 := new_session kf_rules kx_src in
  let '(s1, e1, r1) := sbuild MemoKept false ["pkg/top"] s0 in
  let '(s2, e2, r2) := sbuild MemoKept false ["pkg/top"] s1 in
  let '(w3, e3, r3) := build_with false ["pkg/top"] (clean (s_world s1)) in
  r1 = BFail (FInclude "pkg/bun") /\ e1 = ["pkg/base"; "pkg/bun"; "pkg/top"] /\
  r2 = BOk /\ e2 = [] /\ content_at (w_out (s_world s2)) "pkg/top.fileset" = None /\
  r3 = BFail (FInclude "pkg/bun").
Proof. exact kept_memo_failed_treated_as_built_refuted. Qed.
Print Assumptions C10_kept_memo_failed_treated_as_built_refuted.

(** ** The parse of the BUILD files is per Build call (Caco/BuildParse.v)

    [newFileSet] expands Select patterns while a BUILD file is read, so what
    a read yields depends on the source tree at that moment.  [run] expands at
    every build against the current sources; that is the model of the code
    because every Build call reads the BUILD files - decided on the current
    source: the loader and its [read] table are made per [loadNodes] call,
    [readBuildFile] (both of them) have the frozen text, and nothing but the
    workspace memo and the per-call hooks is ever written on the Builder's
    [env], whose fields are the frozen ones. *)
Theorem C10_parse_is_per_build : parse_policy_of_source = ParsePerBuild.
Proof. exact gen_parse_policy_per_build. Qed.
Print Assumptions C10_parse_is_per_build.

(** a Build whose patterns are expanded against the current sources is [build_with] *)
Theorem C10_build_parsed_current : forall always ts w,
  build_parsed (map fst (w_src w)) always ts w = build_with always ts w.
Proof. exact build_parsed_current. Qed.
Print Assumptions C10_build_parsed_current.

(** With the parse policy of the current source a history on one long-lived
    Builder goes through the worlds of [run] and executes what its builds
    execute. *)
Theorem C10_one_builder_parse_eq_run : forall h s,
  p_world (fst (prun parse_policy_of_source h s)) = run h (p_world s) /\
  snd (prun parse_policy_of_source h s) = btrace h (p_world s).
Proof. exact source_prun_per_build. Qed.
Print Assumptions C10_one_builder_parse_eq_run.

(** Parsed BUILD files kept on the Builder while the files themselves are
    unchanged: a file added to a selected directory is not listed and nothing
    executes (a clean build lists it) ... *)
Theorem C10_kept_parse_added_file_refuted :
  let h := [OBuild ["p1/b"]; OSetSrc "p0/n.go" (Some (mkStat 10 1030 420 ""))] in
  let s := fst (prun ParseKept h (mkP (empty_world kp_rules kp_src) None)) in
  let '(s1, e1, r1) := pbuild ParseKept false ["p1/b"] s in
  let '(w2, e2, r2) := build_with false ["p1/b"] (clean (p_world s)) in
  let '(s3, e3, r3) := pbuild ParsePerBuild false ["p1/b"] s in
  r1 = BOk /\ e1 = [] /\ r2 = BOk /\ e2 = ["p0/a"; "p1/b"] /\ r3 = BOk /\ e3 = ["p0/a"; "p1/b"] /\
  content_at (w_out (p_world s1)) "p0/a.fileset" =
    Some (CList [ESrc "p0/m.go" (mkStat 10 1002 420 ""); ESrc "p0/x.txt" (mkStat 4 1001 420 "")]) /\
  content_at (w_out w2) "p0/a.fileset" =
    Some (CList [ESrc "p0/m.go" (mkStat 10 1002 420 ""); ESrc "p0/n.go" (mkStat 10 1030 420 "");
                 ESrc "p0/x.txt" (mkStat 4 1001 420 "")]) /\
  content_at (w_out (p_world s3)) "p0/a.fileset" = content_at (w_out w2) "p0/a.fileset".
Proof. exact kept_parse_added_file_refuted. Qed.
Print Assumptions C10_kept_parse_added_file_refuted.

(** ... and a file removed from it fails the build that a clean build passes. *)
Theorem C10_kept_parse_removed_file_refuted :
  let src := ("p0/n.go", mkStat 10 1030 420 "") :: kp_src in
  let h := [OBuild ["p1/b"]; OSetSrc "p0/n.go" None] in
  let s := fst (prun ParseKept h (mkP (empty_world kp_rules src) None)) in
  let '(s1, e1, r1) := pbuild ParseKept false ["p1/b"] s in
  let '(w2, e2, r2) := build_with false ["p1/b"] (clean (p_world s)) in
  r1 = BLoadErr [EStat "p0/n.go"] /\ r2 = BOk /\ e2 = ["p0/a"; "p1/b"].
Proof. exact kept_parse_removed_file_refuted. Qed.
Print Assumptions C10_kept_parse_removed_file_refuted.

(** ** Sources that are symbolic links (Caco/BuildLinks.v)

    The stat of a source is its [lstat]; for a link, the link's OWN size,
    mtime, mode and target text.  [C10_digest_determines_output] rests on the
    entry a file set writes for a source and the digest of that source node
    being made of the same value: *)
Theorem C10_src_entry_is_digested_stat : forall L rules src always now out n st st' f e,
  find_node f L = Some n -> ntype n = TSrc -> nname n = f ->
  file_entry L src out f = inl e ->
  visit L rules src always now n st = inl st' ->
  exists s, lookup f src = Some s /\ e = ESrc f s /\ lookup f (b_memo st') = Some (DSrc f s).
Proof. exact src_entry_is_digested_stat. Qed.
Print Assumptions C10_src_entry_is_digested_stat.

(** ... which the current source is held to: from [buildNodeDigest] (the
    digests), [fileSet.build] (the entries), [fileSet.fileNodes] and
    [checkSameBuilt] the same stat calls are reached through the package's call
    graph - [os.Lstat] with [os.Readlink], never [os.Stat]. *)
Theorem C10_stat_kind_consistent : stat_kind_consistentb = true.
Proof. exact gen_stat_kind_consistent. Qed.
Print Assumptions C10_stat_kind_consistent.

(** What lies behind a link - a dependency of the set or not, inside the
    source tree or outside - is no input of a build. *)
Theorem C10_target_edit_changes_nothing : forall always ts w tg tg',
  let '(lw1, e1, r1) := lbuild always ts (mkLW w tg) in
  let '(lw2, e2, r2) := lbuild always ts (mkLW w tg') in
  bw_world lw1 = bw_world lw2 /\ e1 = e2 /\ r1 = r2.
Proof. exact target_edit_changes_nothing. Qed.
Print Assumptions C10_target_edit_changes_nothing.

(** An output that records the size and mtime of the file BEHIND a link
    while the digest covers the link's lstat only: equal digests (a valid cache
    hit, nothing executes), different outputs. *)
Theorem C10_read_through_link_refuted :
  let w0 := empty_world lk_rules lk_src in
  let '(w1, e1, r1) := build_with false ["p0/links"] w0 in
  let '(w2, e2, r2) := build_with false ["p0/links"] w1 in
  let tg := [("p0/other.lnk", (9, 1002))]%N in
  let tg' := [("p0/other.lnk", (21, 1010))]%N in
  r1 = BOk /\ e1 = ["p0/links"] /\ r2 = BOk /\ e2 = [] /\
  map fst (w_cache w1) = map fst (w_cache w2) /\
  content_at (w_out w1) "p0/links.fileset" = content_at (w_out w2) "p0/links.fileset" /\
  content_at (w_out w1) "p0/links.fileset" =
    Some (CList [ESrc "p0/listed.txt" (mkStat 7 1001 420 "");
                 ESrc "p0/other.lnk" (mkStat 12 1005 134218239 "unlisted.txt")]) /\
  through_content tg (content_at (w_out w1) "p0/links.fileset") <>
  through_content tg' (content_at (w_out w2) "p0/links.fileset").
Proof. exact read_through_link_refuted. Qed.
Print Assumptions C10_read_through_link_refuted.

(** ** Dependency digests are keyed by the exact name (Caco/BuildDepKey.v)

    [C10_digest_determines_output] needs the action digest to hold the digest
    of EVERY dependency: the hashed map has one entry per dependency name, and
    names that differ only in letter case are different names. *)
Theorem C10_digest_covers_every_dependency : forall (l : list (name * digest)) n d,
  NoDup (map fst l) -> In (n, d) l -> dl_lookup n (canon_deps l) = Some d.
Proof. exact digest_covers_every_dependency. Qed.
Print Assumptions C10_digest_covers_every_dependency.

(** The key expressions in the current source are the names themselves. *)
Theorem C10_dep_key_is_name : dep_key_is_nameb = true.
Proof. exact gen_dep_key_is_name. Qed.
Print Assumptions C10_dep_key_is_name.

(** A key that folds names (lower-casing): README.txt and Readme.txt share one
    entry, README.txt's digest is not in the map, and editing it leaves the
    action digest as it was. *)
Theorem C10_folding_key_drops_dependency_refuted :
  let up := DSrc "pkg/README.txt" (mkStat 6 1001 420 "") in
  let up' := DSrc "pkg/README.txt" (mkStat 14 1010 420 "") in
  let lo := DSrc "pkg/Readme.txt" (mkStat 6 1002 420 "") in
  canon_deps_keyed lower [("pkg/README.txt", up); ("pkg/Readme.txt", lo)] =
  canon_deps_keyed lower [("pkg/README.txt", up'); ("pkg/Readme.txt", lo)] /\
  canon_deps_keyed lower [("pkg/README.txt", up); ("pkg/Readme.txt", lo)] = DCons "pkg/readme.txt" lo DNil /\
  canon_deps [("pkg/README.txt", up); ("pkg/Readme.txt", lo)] <>
  canon_deps [("pkg/README.txt", up'); ("pkg/Readme.txt", lo)].
Proof. exact folding_key_drops_dependency_refuted. Qed.
Print Assumptions C10_folding_key_drops_dependency_refuted.

(** ** Non-vacuity: a concrete workspace and history. *)
Local Open Scope N_scope.

Definition ex_rules : list rule :=
  [ mkRule "p0/a" (KFileSet ["p0/x.txt"] [SGlobExt "p0" ".go"] [IGlobExt "p0" "_test.go"] []);
    mkRule "p1/b" (KFileSet ["p1/y.txt"] [] [] ["p0/a"]);
    mkRule "p1/all" (KBundle ["p1/b"; "p0/a.fileset"]) ].

Definition ex_src : list (name * stat) :=
  [ ("p0/x.txt", mkStat 4 1001 420 ""); ("p0/m.go", mkStat 10 1002 420 "");
    ("p1/y.txt", mkStat 4 1003 420 "") ].

(** build; rebuild; edit; build; edit back to the very same stat; build;
    overwrite an output; build a part; break a rule; build (fails); build *)
Definition ex_hist : list op :=
  [ OBuild ["p1/all"]; OBuild ["p1/all"];
    OSetSrc "p0/x.txt" (Some (mkStat 4 1010 420 "")); OBuild ["p1/all"];
    OSetSrc "p0/x.txt" (Some (mkStat 4 1001 420 "")); OBuild ["p1/all"];
    OTamper "p0/a.fileset" (Some (CGarbage 1)); OBuild ["p1/b"];
    OSetRules [ mkRule "p0/a" (KFileSet ["p0/x.txt"] [SGlobExt "p0" ".go"] [IGlobExt "p0" "_test.go"] []);
                mkRule "p1/zz" (KBundle ["p0/a"]);
                mkRule "p1/b" (KFileSet ["p1/y.txt"] [] [] ["p0/a"; "p1/zz"]);
                mkRule "p1/all" (KBundle ["p1/b"; "p0/a.fileset"]) ];
    OBuild ["p1/all"] ].

Example C10_nonvacuous_scope :
  hist_in_scope (ex_hist ++ [OBuild ["p1/all"]]) (empty_world ex_rules ex_src).
Proof. apply hist_in_scopeb_ok. vm_compute. reflexivity. Qed.

(** what the builds of this history execute *)
Fixpoint execs (w : world) (h : list op) : list (list name * bool) :=
  match h with
  | [] => []
  | OBuild ts :: r =>
      match build ts w with
      | (w', ex, res) => (ex, match res with BOk => true | _ => false end) :: execs w' r
      end
  | OBuildAlways ts :: r =>
      match build_with true ts w with
      | (w', ex, res) => (ex, match res with BOk => true | _ => false end) :: execs w' r
      end
  | o :: r => execs (step w o) r
  end.

Example C10_nonvacuous_history :
  execs (empty_world ex_rules ex_src) (ex_hist ++ [OBuild ["p1/all"]]) =
  [ (["p0/a"; "p1/b"; "p1/all"], true);     (* everything, from scratch *)
    ([], true);                              (* nothing changed *)
    (["p0/a"; "p1/b"; "p1/all"], true);     (* x.txt changed: all depend on it *)
    (["p0/a"; "p1/b"], true);               (* edited back: stale stamps, rebuilt; the bundle's
                                                old digest is in the cache and it has no output *)
    (["p0/a"], true);                       (* overwritten output rebuilt, p1/b still valid *)
    (["p1/zz"; "p1/b"], false);             (* p1/b now includes a bundle: fails *)
    (["p1/b"], false) ].                    (* and is executed (and fails) again *)
Proof. vm_compute. reflexivity. Qed.

(** the clean build of the example agrees with the incremental one *)
Example C10_nonvacuous_clean :
  let w := run (firstn 5 ex_hist) (empty_world ex_rules ex_src) in
  let w1 := fst (fst (build ["p1/all"] w)) in
  let w2 := fst (fst (build ["p1/all"] (clean w))) in
  content_at (w_out w1) "p1/b.fileset" = content_at (w_out w2) "p1/b.fileset" /\
  content_at (w_out w1) "p1/b.fileset" =
  Some (CList [ESrc "p0/m.go" (mkStat 10 1002 420 ""); ESrc "p0/x.txt" (mkStat 4 1001 420 "");
               ESrc "p1/y.txt" (mkStat 4 1003 420 "")]) /\
  snd (snd (fst (build ["p1/all"] w)), snd (fst (build ["p1/all"] (clean w)))) =
  ["p0/a"; "p1/b"; "p1/all"].
Proof. vm_compute. repeat split. Qed.

(** ignores, output chmod, cache expiry and AlwaysRebuild in one history *)
Definition ex_hist2 : list op :=
  [ OBuild ["p1/all"];
    OSetSrc "p0/m_test.go" (Some (mkStat 5 1020 420 "")); OBuild ["p1/all"];
    OSetSrc "p0/n.go" (Some (mkStat 5 1021 420 "")); OBuild ["p1/all"];
    OTouchOut "p0/a.fileset"; OBuild ["p1/all"];
    OAdvance 604799000000000; OBuild ["p1/all"];
    OAdvance 1000000000; OBuild ["p1/all"];
    OBuildAlways ["p1/b"]; OBuild ["p1/all"] ].

Example C10_nonvacuous_history2 :
  hist_in_scope ex_hist2 (empty_world ex_rules ex_src) /\
  execs (empty_world ex_rules ex_src) ex_hist2 =
  [ (["p0/a"; "p1/b"; "p1/all"], true);
    ([], true);                              (* the new file is ignored: it ends in _test.go *)
    (["p0/a"; "p1/b"; "p1/all"], true);     (* a selected file appeared *)
    (["p0/a"], true);                       (* chmod of an output: rebuilt, same content *)
    ([], true);                              (* one second before the expiry *)
    (["p0/a"; "p1/b"; "p1/all"], true);     (* every entry expired *)
    (["p0/a"; "p1/b"], true);               (* AlwaysRebuild of p1/b *)
    ([], true) ].
Proof. split; [apply hist_in_scopeb_ok; vm_compute; reflexivity|vm_compute; reflexivity]. Qed.

(** one long-lived Builder, Builders replaced in the middle: the same worlds
    and the same executions as [run] (here with the first example history) *)
Example C10_nonvacuous_session :
  let h := (map SOp (firstn 6 ex_hist) ++ [SNewBuilder] ++ map SOp (skipn 6 ex_hist) ++
            [SOp (OBuild ["p1/all"]); SWipeOut; SOp (OBuild ["p0/a"]); SOp (OBuild ["p0/a"])])%list in
  shist_in_scope h (empty_world ex_rules ex_src) /\
  map fst (snd (srun memo_policy_of_source h (new_session ex_rules ex_src))) =
  [ ["p0/a"; "p1/b"; "p1/all"]; []; ["p0/a"; "p1/b"; "p1/all"]; ["p0/a"; "p1/b"]; ["p0/a"];
    ["p1/zz"; "p1/b"]; ["p1/b"]; ["p0/a"]; [] ].
Proof. split; [apply shist_in_scopeb_ok; vm_compute; reflexivity|vm_compute; reflexivity]. Qed.
