(** C11 — caco3: build graphs load soundly: cycles, duplicates and order.
    Property theorems only; each is closed by a lemma of Caco/LoadProofs.v.
    The model (Caco/Load.v) is the one the harness compares with the real
    [caco3.Builder] on every run (Caco/LoadCorr.v).

    Vocabulary (all defined over the build files alone, not over the
    algorithm):
    - [reached fs roots q]: directory [q] is a repository root or is listed,
      transitively, in [sub_builds] of error-free build files;
    - [read_problem fs roots]: a reached build file has an unnamed rule (or
      another file-level error), declares the empty name, declares a rule or
      output name twice, or two reached files declare the same name;
    - [declared fs roots n] / [dedge]: the nodes (rules and their outputs)
      declared by reached files and their dependency edges;
    - [graph_problem fs roots kind ts]: from a requested name one reaches a
      dependency cycle, or a name that is neither declared nor a source file;
    - [reachable_rule fs roots ts r]: [r] is a declared rule reachable from a
      requested name. *)
From Coq Require Import List String Bool Arith Permutation Relations.
From Verif Require Import Lib.Path Caco.Names Caco.Load Caco.LoadProofs Caco.LoadGen Gen.CacoBuild.
From Verif Require Import Caco.LoadNames Caco.LoadNamesProofs.
From Verif Require Import Caco.LoadOutCycle Caco.LoadSession Caco.LoadArgs Caco.LoadLinks Caco.LoadSessionGen.
Import ListNotations.
Local Open Scope string_scope.

(** Loading terminates: reading build files through any sub-directory
    reference relation (self and mutual references included) ... *)
Theorem C11_read_build_files_terminates : forall fs roots,
  read_roots fs roots <> None.
Proof. exact read_roots_terminates. Qed.
Print Assumptions C11_read_build_files_terminates.

(** ... and the whole run (read, load with the tracer, build walk) never
    runs out of the model's fuel nor meets a missing dependency while
    building. *)
Theorem C11_load_terminates : forall fs roots kind ts,
  c11_run fs roots kind ts <> COutOfFuel /\ c11_run fs roots kind ts <> CMissing.
Proof. exact c11_total. Qed.
Print Assumptions C11_load_terminates.

(** The recursion of [readBuildFile] as it was before the repair never
    returns on a sub_builds entry that names its own directory, whatever the
    fuel. *)
Theorem C11_read_build_files_legacy_refuted : forall fuel st,
  read_dir_legacy fuel [("p", [DSub ["p"]])] "p" st = None.
Proof. exact read_dir_legacy_diverges. Qed.
Print Assumptions C11_read_build_files_legacy_refuted.

(** An error is reported exactly when something is wrong with the declared
    files or with the part of the graph the targets reach; an error result
    carries no execution at all. *)
Theorem C11_load_error_iff : forall fs roots kind ts,
  (exists es, c11_run fs roots kind ts = CErr es /\ es <> []) <->
  read_problem fs roots \/ graph_problem fs roots kind ts.
Proof. exact c11_error_iff. Qed.
Print Assumptions C11_load_error_iff.

(** Otherwise exactly the reachable rules execute (empty cache), each once,
    and every rule after all rules it depends on, directly or through
    outputs and other rules. *)
Theorem C11_exec_sound : forall fs roots kind ts ex,
  c11_run fs roots kind ts = CExec ex ->
  NoDup ex /\
  (forall r, In r ex <-> reachable_rule fs roots ts r) /\
  (forall e1 a e2, ex = (e1 ++ a :: e2)%list ->
     forall b n, clos_trans name (dedge fs roots) a b -> declared fs roots n -> nname n = b ->
                 ntype n = TRule -> In b e1).
Proof. exact c11_exec_sound. Qed.
Print Assumptions C11_exec_sound.

(** The order of declarations inside the build files and the order of the
    repositories change neither the verdict nor the set of executed rules. *)
Theorem C11_order_irrelevant : forall fs fs' roots roots' kind ts,
  same_decls fs fs' -> (forall r, In r roots <-> In r roots') ->
  match c11_run fs roots kind ts, c11_run fs' roots' kind ts with
  | CErr _, CErr _ => True
  | CExec ex, CExec ex' => Permutation ex ex'
  | _, _ => False
  end.
Proof. exact order_irrelevant. Qed.
Print Assumptions C11_order_irrelevant.

(** ** Names as written (Caco/LoadNames.v on top of Caco/Names.v)

    [c11_run_raw] takes the BUILD files as written and resolves every rule
    name, dependency, file and sub-build directory with the model of
    [makeRelPath] / [makePath]; it is what the correspondence run evaluates. *)

(** A written name matters only through where it leads from the package:
    "x", "./x", "a/../x", "/x", "x/." are one name. *)
Theorem C11_names_resolved : forall p f g,
  rsegs (bs f) = rsegs (bs g) -> rel p f = rel p g.
Proof. exact rel_same_segs. Qed.
Print Assumptions C11_names_resolved.

(** The error characterisation and the soundness of the execution order,
    from the files as written. *)
Theorem C11_raw_load_error_iff : forall fs roots kind ts,
  (exists es, c11_run_raw fs roots kind ts = CErr es /\ es <> []) <->
  read_problem (resolve_fs fs) roots \/ graph_problem (resolve_fs fs) roots kind ts.
Proof. exact c11_raw_error_iff. Qed.
Print Assumptions C11_raw_load_error_iff.

Theorem C11_raw_exec_sound : forall fs roots kind ts ex,
  c11_run_raw fs roots kind ts = CExec ex ->
  NoDup ex /\
  (forall r, In r ex <-> reachable_rule (resolve_fs fs) roots ts r) /\
  (forall e1 a e2, ex = (e1 ++ a :: e2)%list ->
     forall b n, clos_trans name (dedge (resolve_fs fs) roots) a b ->
                 declared (resolve_fs fs) roots n -> nname n = b -> ntype n = TRule -> In b e1).
Proof. exact c11_raw_exec_sound. Qed.
Print Assumptions C11_raw_exec_sound.

(** Two rules of a reached build file whose written names lead to the same
    place are an error, however they are spelled and wherever they stand. *)
Theorem C11_spellings_clash : forall fs roots kind ts q l1 f deps1 l2 g deps2 l3,
  reached (resolve_fs fs) roots q ->
  lookup q fs = Some (l1 ++ RBundle f deps1 :: l2 ++ RBundle g deps2 :: l3)%list ->
  rsegs (bs f) = rsegs (bs g) ->
  exists es, c11_run_raw fs roots kind ts = CErr es /\ es <> [].
Proof. exact spellings_clash. Qed.
Print Assumptions C11_spellings_clash.

(** [read_problem] covers every pair of declarations sharing a name - a
    rule's name or the name of one of its outputs - in one reached file, in
    either order, and across two reached files; in particular a rule named
    like the output of a file set, registered before or after it. *)
Theorem C11_clash_in_file : forall fs roots q l1 d1 l2 d2 l3 x,
  reached fs roots q ->
  lookup q fs = Some (l1 ++ d1 :: l2 ++ d2 :: l3)%list ->
  In x (names_of d1) -> In x (names_of d2) ->
  read_problem fs roots.
Proof. exact clash_in_file. Qed.
Print Assumptions C11_clash_in_file.

Theorem C11_clash_across_files : forall fs roots q1 q2 ds1 ds2 d1 d2 x,
  q1 <> q2 -> reached fs roots q1 -> reached fs roots q2 ->
  lookup q1 fs = Some ds1 -> lookup q2 fs = Some ds2 ->
  In d1 ds1 -> In d2 ds2 -> In x (names_of d1) -> In x (names_of d2) ->
  read_problem fs roots.
Proof. exact clash_across_files. Qed.
Print Assumptions C11_clash_across_files.

Theorem C11_rule_vs_output_clash : forall fs roots q l1 l2 l3 nm deps outs o deps' outs',
  reached fs roots q -> In o outs ->
  (lookup q fs = Some (l1 ++ DRule nm deps outs :: l2 ++ DRule o deps' outs' :: l3)%list \/
   lookup q fs = Some (l1 ++ DRule o deps' outs' :: l2 ++ DRule nm deps outs :: l3)%list) ->
  read_problem fs roots.
Proof. exact rule_vs_output_clash. Qed.
Print Assumptions C11_rule_vs_output_clash.

(** The loader of the current source still has the shape the model was
    written against: statement skeletons of register / load / load1 /
    registerOuts / readBuildFile / loadNodes / the tracer / buildNodes and of
    lexing.ErrorList regenerated from /repo equal the recorded ones; the
    reader is guarded by the set of directories read; load1 checks tracer,
    memo, nodes in this order; the error list cap is the model's. *)
Theorem C11_loader_shape_frozen :
  loader_frozenb = true /\
  read_guard_okb = true /\
  load1_order_okb = true /\
  loadnodes_order_okb = true /\
  gen_max_errs = max_errs.
Proof. exact gen_loader_shape. Qed.
Print Assumptions C11_loader_shape_frozen.

(** ** Cycles through output files (Caco/LoadOutCycle.v)

    [graph_problem] speaks of [dedge], whose edges are those of every
    declared node - rules AND the output files they declare, each output
    leading to its rule.  Stated on its own: a rule that reaches one of its own
    output files (a file set listing the [.fileset] of another rule that
    includes it, or its own) is reported whenever a requested name reaches it,
    whatever node of the cycle the walk meets first. *)
Theorem C11_cycle_through_output_reported : forall fs roots kind ts t q ds r deps outs o,
  reached fs roots q -> lookup q fs = Some ds -> In (DRule r deps outs) ds -> In o outs ->
  clos_trans name (dedge fs roots) r o ->
  In t ts -> clos_refl_trans name (dedge fs roots) t r ->
  exists es, c11_run fs roots kind ts = CErr es /\ es <> [].
Proof. exact cycle_through_output_reported. Qed.
Print Assumptions C11_cycle_through_output_reported.

Theorem C11_own_output_listed_reported : forall fs roots kind ts t q ds r deps outs o,
  reached fs roots q -> lookup q fs = Some ds -> In (DRule r deps outs) ds -> In o outs ->
  In o deps ->
  In t ts -> clos_refl_trans name (dedge fs roots) t r ->
  exists es, c11_run fs roots kind ts = CErr es /\ es <> [].
Proof. exact own_output_listed_reported. Qed.
Print Assumptions C11_own_output_listed_reported.

(** A loader that puts a rule's outputs into [loaded] when it STARTS loading
    the rule misses such a cycle when the walk enters it at that rule; the
    model's (and the code's) [load1] reports it from every entry point. *)
Theorem C11_early_outputs_miss_cycle_refuted :
  (match load1_early oc_nodes (fun _ => KNone) 10 "p/r" (mkL [] [] []) with
   | Some s => l_errs s | None => [EOther] end) = [] /\
  (match load1_early oc_nodes (fun _ => KNone) 10 "p/self" (mkL [] [] []) with
   | Some s => l_errs s | None => [EOther] end) = [] /\
  (match load1 oc_nodes (fun _ => KNone) 10 "p/r" (mkL [] [] []) with
   | Some s => l_errs s | None => [] end) = [ECycle ["p/r"; "q/mid"; "p/r.fileset"]] /\
  (match load1 oc_nodes (fun _ => KNone) 10 "q/mid" (mkL [] [] []) with
   | Some s => l_errs s | None => [] end) = [ECycle ["q/mid"; "p/r.fileset"; "p/r"]] /\
  (match load1 oc_nodes (fun _ => KNone) 10 "p/r.fileset" (mkL [] [] []) with
   | Some s => l_errs s | None => [] end) = [ECycle ["p/r.fileset"; "p/r"; "q/mid"]] /\
  (match load1 oc_nodes (fun _ => KNone) 10 "p/self" (mkL [] [] []) with
   | Some s => l_errs s | None => [] end) = [ECycle ["p/self"; "p/self.fileset"]].
Proof. exact early_outputs_miss_cycle_refuted. Qed.
Print Assumptions C11_early_outputs_miss_cycle_refuted.

(** ** Several Build calls on one Builder (Caco/LoadSession.v)

    The loader lives for one [loadNodes] call, which is read off the current
    source on every run: [loadNodes] begins with [newLoader(env)], whose tables
    are made on the spot; the only fields of the Builder's [env] ever assigned
    are the workspace memo and the two per-call hooks; [env] and [loader] have
    the frozen fields; a node enters a [loaded] map only at the two places of
    [load1], after its dependencies were loaded. *)
Theorem C11_loader_is_made_per_call :
  loader_policy_of_source = LoaderPerBuild /\ loader_per_loadb = true /\ env_writes_frozenb = true /\
  env_layout_frozenb = true /\ loaded_stores_frozenb = true /\ load1_order_okb = true.
Proof. exact gen_loader_made_per_build. Qed.
Print Assumptions C11_loader_is_made_per_call.

(** With the loader policy of the current source, every call of a sequence
    of Build calls on ONE Builder gives what that call alone gives, whatever
    was built (or failed to load) before and whatever the Builder held. *)
Theorem C11_one_builder_each_call_alone : forall fs roots kind calls held,
  lrun loader_policy_of_source fs roots kind calls held = map (c11_run fs roots kind) calls.
Proof. exact source_lrun_per_call. Qed.
Print Assumptions C11_one_builder_each_call_alone.

Theorem C11_one_builder_error_iff : forall fs roots kind calls held k ts,
  nth_error calls k = Some ts ->
  (exists es, nth_error (lrun loader_policy_of_source fs roots kind calls held) k = Some (CErr es) /\ es <> []) <->
  read_problem fs roots \/ graph_problem fs roots kind ts.
Proof. exact source_lrun_error_iff. Qed.
Print Assumptions C11_one_builder_error_iff.

Theorem C11_one_builder_exec_sound : forall fs roots kind calls held k ts ex,
  nth_error calls k = Some ts ->
  nth_error (lrun loader_policy_of_source fs roots kind calls held) k = Some (CExec ex) ->
  NoDup ex /\ (forall r, In r ex <-> reachable_rule fs roots ts r).
Proof. exact source_lrun_exec_sound. Qed.
Print Assumptions C11_one_builder_exec_sound.

(** A loader kept across calls loses this, because [load1] puts a node into
    [loaded] even when loading its dependencies reported an error: after a call
    that failed on a dangling dependency, the same call again reports no load
    error and the build walk starts ([CMissing]: it stops at the missing node,
    after executing what precedes it) ... *)
Theorem C11_kept_loader_misses_dangling_refuted :
  lrun LoaderKept kl_files ["p0"; "p1"] kl_kind [["p0/d"]; ["p0/d"]; ["p0/top"]] [] =
    [CErr [EStat "p0/nothing"]; CMissing; CMissing] /\
  lrun LoaderPerBuild kl_files ["p0"; "p1"] kl_kind [["p0/d"]; ["p0/d"]; ["p0/top"]] [] =
    [CErr [EStat "p0/nothing"]; CErr [EStat "p0/nothing"]; CErr [EStat "p0/nothing"]].
Proof. exact kept_loader_misses_dangling_refuted. Qed.
Print Assumptions C11_kept_loader_misses_dangling_refuted.

(** ... and after a call that failed on a cycle, the same call again reports
    no error and the build walk does not terminate. *)
Theorem C11_kept_loader_misses_cycle_refuted :
  lrun LoaderKept kl_files ["p0"; "p1"] kl_kind [["p1/x"]; ["p1/x"]] [] =
    [CErr [ECycle ["p1/x"; "p1/y"]]; COutOfFuel] /\
  lrun LoaderPerBuild kl_files ["p0"; "p1"] kl_kind [["p1/x"]; ["p1/x"]] [] =
    [CErr [ECycle ["p1/x"; "p1/y"]]; CErr [ECycle ["p1/x"; "p1/y"]]].
Proof. exact kept_loader_misses_cycle_refuted. Qed.
Print Assumptions C11_kept_loader_misses_cycle_refuted.

(** ** The arguments of Build are the caller's (Caco/LoadArgs.v)

    A Builder made inside a package directory resolves its targets with
    [makePath(w, r)] - which is not idempotent ("top" -> "pkg/top" ->
    "pkg/pkg/top") - into a NEW slice.  Read off the current source: no
    function of the package assigns to an element of a slice or map parameter,
    appends to, copies into or sorts a slice parameter ([param_writes] is
    empty), and [Build] begins with the copying loop. *)
Theorem C11_params_not_written :
  params_not_writtenb = true /\ args_policy_of_source = ArgsCopied.
Proof. exact gen_params_not_written_and_copied. Qed.
Print Assumptions C11_params_not_written.

Theorem C11_build_does_not_write_targets : forall w slice,
  snd (build_call args_policy_of_source w slice) = slice.
Proof. exact source_build_does_not_write_targets. Qed.
Print Assumptions C11_build_does_not_write_targets.

(** The result of a call is a function of the VALUES passed: the same slice
    handed to Build any number of times (same or new Builders) gives, each
    time, the run of the targets it spells. *)
Theorem C11_same_slice_same_result : forall fs roots kind w slice n held,
  lrun loader_policy_of_source fs roots kind (same_slice_calls args_policy_of_source w slice n) held =
  repeat (c11_run fs roots kind (resolve_targets w slice)) n.
Proof. exact source_same_slice_same_result. Qed.
Print Assumptions C11_same_slice_same_result.

(** Resolved names written back into the caller's slice: the second call
    with the same slice loads pkg/pkg/top - the nested package's rules, none of
    them reachable from the requested target, or an error on a sound graph. *)
Theorem C11_in_place_changes_targets_refuted :
  same_slice_calls ArgsInPlace "pkg" ["top"] 3 = [["pkg/top"]; ["pkg/pkg/top"]; ["pkg/pkg/pkg/top"]] /\
  same_slice_calls ArgsCopied "pkg" ["top"] 3 = [["pkg/top"]; ["pkg/top"]; ["pkg/top"]] /\
  same_slice_calls ArgsInPlace "pkg" ["//pkg/top"] 2 = [["pkg/top"]; ["pkg/pkg/top"]].
Proof. exact in_place_changes_targets_refuted. Qed.
Print Assumptions C11_in_place_changes_targets_refuted.

Theorem C11_in_place_builds_other_rules_refuted :
  lrun LoaderPerBuild ia_files ["pkg"] (fun _ => KNone) (same_slice_calls ArgsInPlace "pkg" ["top"] 2) [] =
    [CExec ["pkg/leaf"; "pkg/top"]; CExec ["pkg/pkg/inner"; "pkg/pkg/top"]] /\
  lrun LoaderPerBuild ia_files ["pkg"] (fun _ => KNone) (same_slice_calls ArgsCopied "pkg" ["top"] 2) [] =
    [CExec ["pkg/leaf"; "pkg/top"]; CExec ["pkg/leaf"; "pkg/top"]] /\
  lrun LoaderPerBuild [("pkg", [DRule "pkg/leaf" [] []; DRule "pkg/top" ["pkg/leaf"] []])] ["pkg"]
       (fun _ => KNone) (same_slice_calls ArgsInPlace "pkg" ["top"] 2) [] =
    [CExec ["pkg/leaf"; "pkg/top"]; CErr [EStat "pkg/pkg/top"]].
Proof. exact in_place_builds_other_rules_refuted. Qed.
Print Assumptions C11_in_place_builds_other_rules_refuted.

(** ** A build file that is a symbolic link (Caco/LoadLinks.v)

    The build file of a package is what <p>/BUILD.caco3 RESOLVES to: a shared
    build file linked in is read as the build file of the linking package
    (relative names resolve against it); a dangling link or a link to a
    directory is no build file.  Read off the source: [readBuildFile] tests
    through [osutil.IsRegular], which is [os.Stat]. *)
Theorem C11_build_file_follows_links : build_file_follows_linksb = true.
Proof. exact gen_build_file_follows_links. Qed.
Print Assumptions C11_build_file_follows_links.

(** the error characterisation, over the resolved view of the build files *)
Theorem C11_linked_build_files_error_iff : forall fs roots kind ts,
  (exists es, run_links fs roots kind ts = CErr es /\ es <> []) <->
  read_problem (resolve_fs (effective fs)) roots \/ graph_problem (resolve_fs (effective fs)) roots kind ts.
Proof. exact run_links_error_iff. Qed.
Print Assumptions C11_linked_build_files_error_iff.

(** A test by [lstat] takes a linked build file for no build file: a
    duplicate declared there is not reported and the build goes ahead ... *)
Theorem C11_lstat_misses_errors_refuted :
  run_links ll_dup ["p"; "q"] (fun _ => KNone) ["p/ok"] = CErr [EDup "q/twice"; EPrev] /\
  c11_run_raw (lstat_view ll_dup) ["p"; "q"] (fun _ => KNone) ["p/ok"] = CExec ["p/ok"].
Proof. exact lstat_misses_errors_refuted. Qed.
Print Assumptions C11_lstat_misses_errors_refuted.

(** ... and a sound graph whose rules live there is rejected. *)
Theorem C11_lstat_rejects_linked_rules_refuted :
  run_links ll_shared ["p"; "q"] (fun _ => KNone) ["q/shared"] = CExec ["q/leaf"; "q/shared"] /\
  run_links ll_shared ["p"; "q"] (fun _ => KNone) ["p/shared"] = CExec ["p/leaf"; "p/shared"] /\
  c11_run_raw (lstat_view ll_shared) ["p"; "q"] (fun _ => KNone) ["q/shared"] = CErr [EStat "q/shared"].
Proof. exact lstat_rejects_linked_rules_refuted. Qed.
Print Assumptions C11_lstat_rejects_linked_rules_refuted.

(** ** Non-vacuity: concrete workspaces on which the statements bite. *)

Definition ex_kind : name -> skind := kind_of ["p0/x.txt"] [""; "p0"; "p0/s"].

(** a diamond through an output node, over a package and a sub-build *)
Definition ex_fs : bfiles :=
  [("p0", [DSub ["p0/s"; "p0"];
           DRule "p0/a" ["p0/s/b"; "p0/c"] [];
           DRule "p0/c" ["p0/x.txt"] ["p0/c.fileset"];
           DRule "p0/unused" ["p0/a"] []]);
   ("p0/s", [DRule "p0/s/b" ["p0/c.fileset"; "p0/c"] []])].

Definition ex_fs_permuted : bfiles :=
  [("p0/s", [DRule "p0/s/b" ["p0/c.fileset"; "p0/c"] []]);
   ("p0", [DRule "p0/unused" ["p0/a"] [];
           DRule "p0/c" ["p0/x.txt"] ["p0/c.fileset"];
           DSub ["p0/s"; "p0"];
           DRule "p0/a" ["p0/s/b"; "p0/c"] []])].

Example C11_nonvacuous_exec :
  c11_run ex_fs ["p0"] ex_kind ["p0/a"] = CExec ["p0/c"; "p0/s/b"; "p0/a"] /\
  c11_run ex_fs_permuted ["p0"; "p0"] ex_kind ["p0/a"] = CExec ["p0/c"; "p0/s/b"; "p0/a"] /\
  c11_run ex_fs ["p0"] ex_kind ["p0/s/b"; "p0/x.txt"] = CExec ["p0/c"; "p0/s/b"].
Proof. vm_compute. repeat split. Qed.

Example C11_nonvacuous_same_decls : same_decls ex_fs ex_fs_permuted.
Proof.
  intros q. unfold ex_fs, ex_fs_permuted. simpl.
  destruct (String.eqb q "p0") eqn:E0; destruct (String.eqb q "p0/s") eqn:E1; simpl.
  - apply String.eqb_eq in E0. apply String.eqb_eq in E1. congruence.
  - (* the four declarations of p0 in another order *)
    apply Permutation_sym.
    apply perm_trans with
      [DRule "p0/unused" ["p0/a"] []; DSub ["p0/s"; "p0"];
       DRule "p0/c" ["p0/x.txt"] ["p0/c.fileset"]; DRule "p0/a" ["p0/s/b"; "p0/c"] []].
    + apply perm_skip. apply perm_swap.
    + apply perm_trans with
        [DSub ["p0/s"; "p0"]; DRule "p0/unused" ["p0/a"] [];
         DRule "p0/c" ["p0/x.txt"] ["p0/c.fileset"]; DRule "p0/a" ["p0/s/b"; "p0/c"] []].
      * apply perm_swap.
      * apply perm_skip.
        apply perm_trans with
          [DRule "p0/unused" ["p0/a"] []; DRule "p0/a" ["p0/s/b"; "p0/c"] [];
           DRule "p0/c" ["p0/x.txt"] ["p0/c.fileset"]].
        -- apply perm_skip. apply perm_swap.
        -- apply perm_trans with
             [DRule "p0/a" ["p0/s/b"; "p0/c"] []; DRule "p0/unused" ["p0/a"] [];
              DRule "p0/c" ["p0/x.txt"] ["p0/c.fileset"]].
           ++ apply perm_swap.
           ++ apply perm_skip. apply perm_swap.
  - apply Permutation_refl.
  - exact I.
Qed.

(** errors: a cycle behind a finished node, a duplicate across files, a
    dangling dependency, an unnamed rule; a self-referencing sub_builds is
    harmless for the repaired reader *)
Example C11_nonvacuous_errors :
  c11_run [("p0", [DRule "p0/a" ["p0/b"; "p0/c"] []; DRule "p0/b" ["p0/d"] [];
                   DRule "p0/c" ["p0/d"; "p0/e"] []; DRule "p0/d" [] [];
                   DRule "p0/e" ["p0/c"] []])] ["p0"] ex_kind ["p0/a"]
    = CErr [ECycle ["p0/a"; "p0/c"; "p0/e"]] /\
  c11_run [("p0", [DSub ["p0/s"]; DRule "p0/s/a" [] []]); ("p0/s", [DRule "p0/s/a" [] []])]
          ["p0"] ex_kind ["p0/s/a"]
    = CErr [EDup "p0/s/a"; EPrev] /\
  c11_run [("p0", [DRule "p0/a" ["p0/nothing"] []])] ["p0"] ex_kind ["p0/a"]
    = CErr [EStat "p0/nothing"] /\
  c11_run [("p0", [DRule "p0/a" [] []; DBad EUnnamed])] ["p0"] ex_kind ["p0/a"]
    = CErr [EUnnamed] /\
  c11_run [("p0", [DRule "p0/a" [] []; DSub ["p0"]])] ["p0"] ex_kind ["p0/a"]
    = CExec ["p0/a"].
Proof. vm_compute. repeat split. Qed.

(** the spec-level predicates are inhabited: the cycle above is a
    [graph_problem], and [p0/c] is a [reachable_rule] of the diamond *)
Example C11_nonvacuous_reachable_rule : reachable_rule ex_fs ["p0"] ["p0/a"] "p0/c".
Proof.
  assert (Hr : reached ex_fs ["p0"] "p0").
  { exists "p0". split; [now left|apply rt_refl]. }
  exists "p0/a", (mkNode "p0/c" TRule ["p0/x.txt"]). split; [now left|]. split; [|split; [|split]].
  - apply rt_step. exists (mkNode "p0/a" TRule ["p0/s/b"; "p0/c"]).
    split; [exists "p0"; split; [exact Hr|vm_compute; tauto]|]. split; [reflexivity|simpl; tauto].
  - exists "p0". split; [exact Hr|vm_compute; tauto].
  - reflexivity.
  - reflexivity.
Qed.

(** names as written: the same rule three times under different spellings;
    dependencies with detours; a sub-build directory written "./s/"; a name
    that cannot leave its package *)
Example C11_nonvacuous_spellings :
  c11_run_raw [("p0", [RBundle "x" []; RBundle "./x" []])] ["p0"] ex_kind ["p0/x"]
    = CErr [EDup "p0/x"; EPrev] /\
  c11_run_raw [("p0", [RBundle "a/../x" []; RBundle "/x" []; RBundle "x/." []])] ["p0"] ex_kind ["p0/x"]
    = CErr [EDup "p0/x"; EPrev; EDup "p0/x"; EPrev] /\
  c11_run_raw [("p0", [RSub ["./s/"]; RBundle "s/./x" []]); ("p0/s", [RBundle "../x" []])]
              ["p0"] ex_kind ["p0/s/x"]
    = CErr [EDup "p0/s/x"; EPrev] /\
  c11_run_raw [("p0", [RBundle "a" ["//p1/./b"; "zz/../c"; "/p0//c/."]; RBundle "c" []]);
               ("p1", [RBundle "b" ["/p0/x/../c"]])] ["p0"; "p1"] ex_kind ["p0/a"]
    = CExec ["p0/c"; "p1/b"; "p0/a"] /\
  c11_run_raw [("p0", [RBundle "." []; RBundle "a" []])] ["p0"] ex_kind ["p0/a"] = CErr [EUnnamed] /\
  rsegs (bs "a/../x") = rsegs (bs "./x").
Proof. vm_compute. repeat split. Qed.

(** a rule named like the output of a file set: registered after it, before
    it, and in another reached file - always an error, and a [read_problem]
    by the theorem *)
Example C11_nonvacuous_rule_vs_output :
  c11_run_raw [("p0", [RFileSet "f" ["x.txt"] []; RBundle "f.fileset" []; RBundle "free" []])]
              ["p0"] ex_kind ["p0/free"] = CErr [EDup "p0/f.fileset"; EPrev] /\
  c11_run_raw [("p0", [RBundle "f.fileset" []; RBundle "free" []; RFileSet "f" ["x.txt"] []])]
              ["p0"] ex_kind ["p0/free"] = CErr [EDup "p0/f.fileset"; EPrev] /\
  c11_run_raw [("p0", [RBundle "s/f.fileset" []; RSub ["s"]; RBundle "free" []]);
               ("p0/s", [RFileSet "f" ["//p0/x.txt"] []])]
              ["p0"] ex_kind ["p0/free"] = CErr [EDup "p0/s/f.fileset"; EPrev] /\
  read_problem (resolve_fs [("p0", [RBundle "f.fileset" []; RBundle "free" []; RFileSet "f" ["x.txt"] []])])
               ["p0"].
Proof.
  split; [vm_compute; reflexivity|]. split; [vm_compute; reflexivity|]. split; [vm_compute; reflexivity|].
  apply (rule_vs_output_clash _ _ "p0" [] [DRule "p0/free" [] []] []
           "p0/f" ["p0/x.txt"] ["p0/f.fileset"] "p0/f.fileset" [] []).
  - exists "p0". split; [now left|apply rt_refl].
  - now left.
  - right. vm_compute. reflexivity.
Qed.

(** a cycle through output files, by the theorem, on a concrete workspace *)
Example C11_nonvacuous_output_cycle :
  let fs := [("p", [DRule "p/leaf" [] ["p/leaf.fileset"]; DRule "p/r" ["p/leaf"; "q/mid"] ["p/r.fileset"]]);
             ("q", [DRule "q/mid" ["p/r.fileset"] ["q/mid.fileset"]])] in
  c11_run fs ["p"; "q"] (fun _ => KNone) ["p/leaf"; "p/r"] = CErr [ECycle ["p/r"; "q/mid"; "p/r.fileset"]] /\
  c11_run fs ["p"; "q"] (fun _ => KNone) ["q/mid"] = CErr [ECycle ["q/mid"; "p/r.fileset"; "p/r"]] /\
  c11_run fs ["p"; "q"] (fun _ => KNone) ["p/leaf"] = CExec ["p/leaf"] /\
  lrun loader_policy_of_source fs ["p"; "q"] (fun _ => KNone) [["p/leaf"]; ["p/r"]; ["p/leaf"]] [] =
    [CExec ["p/leaf"]; CErr [ECycle ["p/r"; "q/mid"; "p/r.fileset"]]; CExec ["p/leaf"]].
Proof. vm_compute. repeat split. Qed.
