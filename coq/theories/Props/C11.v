(** C11 — caco3: build graphs load soundly: cycles, duplicates and order.
    Property theorems only; each is closed by a lemma of Caco/LoadProofs.v.
    The model (Caco/Load.v) is the one the harness compares with the real
    [caco3.Builder] on every run (Caco/LoadCorr.v).

    Vocabulary (all defined over the build files alone, not over the
    algorithm):
    - [reached fs roots q]: directory [q] is a repository root or is listed,
      transitively, in [sub_builds] of error-free build files;
    - [read_problem fs roots]: a reached build file has an unnamed rule (or
      another file-level error), declares the empty name, declares a rule or
      output name twice, or two reached files declare the same name;
    - [declared fs roots n] / [dedge]: the nodes (rules and their outputs)
      declared by reached files and their dependency edges;
    - [graph_problem fs roots kind ts]: from a requested name one reaches a
      dependency cycle, or a name that is neither declared nor a source file;
    - [reachable_rule fs roots ts r]: [r] is a declared rule reachable from a
      requested name. *)
From Coq Require Import List String Bool Arith Permutation Relations.
From Verif Require Import Caco.Load Caco.LoadProofs Caco.LoadGen Gen.CacoBuild.
Import ListNotations.
Local Open Scope string_scope.

(** Loading terminates: reading build files through any sub-directory
    reference relation (self and mutual references included) ... *)
Theorem C11_read_build_files_terminates : forall fs roots,
  read_roots fs roots <> None.
Proof. exact read_roots_terminates. Qed.
Print Assumptions C11_read_build_files_terminates.

(** ... and the whole run (read, load with the tracer, build walk) never
    runs out of the model's fuel nor meets a missing dependency while
    building. *)
Theorem C11_load_terminates : forall fs roots kind ts,
  c11_run fs roots kind ts <> COutOfFuel /\ c11_run fs roots kind ts <> CMissing.
Proof. exact c11_total. Qed.
Print Assumptions C11_load_terminates.

(** The recursion of [readBuildFile] as it was before the repair never
    returns on a sub_builds entry that names its own directory, whatever the
    fuel. *)
Theorem C11_read_build_files_legacy_refuted : forall fuel st,
  read_dir_legacy fuel [("p", [DSub ["p"]])] "p" st = None.
Proof. exact read_dir_legacy_diverges. Qed.
Print Assumptions C11_read_build_files_legacy_refuted.

(** An error is reported exactly when something is wrong with the declared
    files or with the part of the graph the targets reach; an error result
    carries no execution at all. *)
Theorem C11_load_error_iff : forall fs roots kind ts,
  (exists es, c11_run fs roots kind ts = CErr es /\ es <> []) <->
  read_problem fs roots \/ graph_problem fs roots kind ts.
Proof. exact c11_error_iff. Qed.
Print Assumptions C11_load_error_iff.

(** Otherwise exactly the reachable rules execute (empty cache), each once,
    and every rule after all rules it depends on, directly or through
    outputs and other rules. *)
Theorem C11_exec_sound : forall fs roots kind ts ex,
  c11_run fs roots kind ts = CExec ex ->
  NoDup ex /\
  (forall r, In r ex <-> reachable_rule fs roots ts r) /\
  (forall e1 a e2, ex = (e1 ++ a :: e2)%list ->
     forall b n, clos_trans name (dedge fs roots) a b -> declared fs roots n -> nname n = b ->
                 ntype n = TRule -> In b e1).
Proof. exact c11_exec_sound. Qed.
Print Assumptions C11_exec_sound.

(** The order of declarations inside the build files and the order of the
    repositories change neither the verdict nor the set of executed rules. *)
Theorem C11_order_irrelevant : forall fs fs' roots roots' kind ts,
  same_decls fs fs' -> (forall r, In r roots <-> In r roots') ->
  match c11_run fs roots kind ts, c11_run fs' roots' kind ts with
  | CErr _, CErr _ => True
  | CExec ex, CExec ex' => Permutation ex ex'
  | _, _ => False
  end.
Proof. exact order_irrelevant. Qed.
Print Assumptions C11_order_irrelevant.

(** The loader of the current source still has the shape the model was
    written against: statement skeletons of register / load / load1 /
    registerOuts / readBuildFile / loadNodes / the tracer / buildNodes and of
    lexing.ErrorList regenerated from /repo equal the recorded ones; the
    reader is guarded by the set of directories read; load1 checks tracer,
    memo, nodes in this order; the error list cap is the model's. *)
Theorem C11_loader_shape_frozen :
  loader_frozenb = true /\
  read_guard_okb = true /\
  load1_order_okb = true /\
  loadnodes_order_okb = true /\
  gen_max_errs = max_errs.
Proof. exact gen_loader_shape. Qed.
Print Assumptions C11_loader_shape_frozen.

(** ** Non-vacuity: concrete workspaces on which the statements bite. *)

Definition ex_kind : name -> skind := kind_of ["p0/x.txt"] [""; "p0"; "p0/s"].

(** a diamond through an output node, over a package and a sub-build *)
Definition ex_fs : bfiles :=
  [("p0", [DSub ["p0/s"; "p0"];
           DRule "p0/a" ["p0/s/b"; "p0/c"] [];
           DRule "p0/c" ["p0/x.txt"] ["p0/c.fileset"];
           DRule "p0/unused" ["p0/a"] []]);
   ("p0/s", [DRule "p0/s/b" ["p0/c.fileset"; "p0/c"] []])].

Definition ex_fs_permuted : bfiles :=
  [("p0/s", [DRule "p0/s/b" ["p0/c.fileset"; "p0/c"] []]);
   ("p0", [DRule "p0/unused" ["p0/a"] [];
           DRule "p0/c" ["p0/x.txt"] ["p0/c.fileset"];
           DSub ["p0/s"; "p0"];
           DRule "p0/a" ["p0/s/b"; "p0/c"] []])].

Example C11_nonvacuous_exec :
  c11_run ex_fs ["p0"] ex_kind ["p0/a"] = CExec ["p0/c"; "p0/s/b"; "p0/a"] /\
  c11_run ex_fs_permuted ["p0"; "p0"] ex_kind ["p0/a"] = CExec ["p0/c"; "p0/s/b"; "p0/a"] /\
  c11_run ex_fs ["p0"] ex_kind ["p0/s/b"; "p0/x.txt"] = CExec ["p0/c"; "p0/s/b"].
Proof. vm_compute. repeat split. Qed.

Example C11_nonvacuous_same_decls : same_decls ex_fs ex_fs_permuted.
Proof.
  intros q. unfold ex_fs, ex_fs_permuted. simpl.
  destruct (String.eqb q "p0") eqn:E0; destruct (String.eqb q "p0/s") eqn:E1; simpl.
  - apply String.eqb_eq in E0. apply String.eqb_eq in E1. congruence.
  - (* the four declarations of p0 in another order *)
    apply Permutation_sym.
    apply perm_trans with
      [DRule "p0/unused" ["p0/a"] []; DSub ["p0/s"; "p0"];
       DRule "p0/c" ["p0/x.txt"] ["p0/c.fileset"]; DRule "p0/a" ["p0/s/b"; "p0/c"] []].
    + apply perm_skip. apply perm_swap.
    + apply perm_trans with
        [DSub ["p0/s"; "p0"]; DRule "p0/unused" ["p0/a"] [];
         DRule "p0/c" ["p0/x.txt"] ["p0/c.fileset"]; DRule "p0/a" ["p0/s/b"; "p0/c"] []].
      * apply perm_swap.
      * apply perm_skip.
        apply perm_trans with
          [DRule "p0/unused" ["p0/a"] []; DRule "p0/a" ["p0/s/b"; "p0/c"] [];
           DRule "p0/c" ["p0/x.txt"] ["p0/c.fileset"]].
        -- apply perm_skip. apply perm_swap.
        -- apply perm_trans with
             [DRule "p0/a" ["p0/s/b"; "p0/c"] []; DRule "p0/unused" ["p0/a"] [];
              DRule "p0/c" ["p0/x.txt"] ["p0/c.fileset"]].
           ++ apply perm_swap.
           ++ apply perm_skip. apply perm_swap.
  - apply Permutation_refl.
  - exact I.
Qed.

(** errors: a cycle behind a finished node, a duplicate across files, a
    dangling dependency, an unnamed rule; a self-referencing sub_builds is
    harmless for the repaired reader *)
Example C11_nonvacuous_errors :
  c11_run [("p0", [DRule "p0/a" ["p0/b"; "p0/c"] []; DRule "p0/b" ["p0/d"] [];
                   DRule "p0/c" ["p0/d"; "p0/e"] []; DRule "p0/d" [] [];
                   DRule "p0/e" ["p0/c"] []])] ["p0"] ex_kind ["p0/a"]
    = CErr [ECycle ["p0/a"; "p0/c"; "p0/e"]] /\
  c11_run [("p0", [DSub ["p0/s"]; DRule "p0/s/a" [] []]); ("p0/s", [DRule "p0/s/a" [] []])]
          ["p0"] ex_kind ["p0/s/a"]
    = CErr [EDup "p0/s/a"; EPrev] /\
  c11_run [("p0", [DRule "p0/a" ["p0/nothing"] []])] ["p0"] ex_kind ["p0/a"]
    = CErr [EStat "p0/nothing"] /\
  c11_run [("p0", [DRule "p0/a" [] []; DBad EUnnamed])] ["p0"] ex_kind ["p0/a"]
    = CErr [EUnnamed] /\
  c11_run [("p0", [DRule "p0/a" [] []; DSub ["p0"]])] ["p0"] ex_kind ["p0/a"]
    = CExec ["p0/a"].
Proof. vm_compute. repeat split. Qed.

(** the spec-level predicates are inhabited: the cycle above is a
    [graph_problem], and [p0/c] is a [reachable_rule] of the diamond *)
Example C11_nonvacuous_reachable_rule : reachable_rule ex_fs ["p0"] ["p0/a"] "p0/c".
Proof.
  assert (Hr : reached ex_fs ["p0"] "p0").
  { exists "p0". split; [now left|apply rt_refl]. }
  exists "p0/a", (mkNode "p0/c" TRule ["p0/x.txt"]). split; [now left|]. split; [|split; [|split]].
  - apply rt_step. exists (mkNode "p0/a" TRule ["p0/s/b"; "p0/c"]).
    split; [exists "p0"; split; [exact Hr|vm_compute; tauto]|]. split; [reflexivity|simpl; tauto].
  - exists "p0". split; [exact Hr|vm_compute; tauto].
  - reflexivity.
  - reflexivity.
Qed.
