(** C11 — caco3: build graphs load soundly: cycles, duplicates and order.
    Property theorems only; each is closed by a lemma of Caco/LoadProofs.v. *)
From Coq Require Import List String Bool Arith.
From Verif Require Import Caco.Load Caco.LoadProofs.
Import ListNotations.
Local Open Scope string_scope.

(** The recursion of [readBuildFile] as it was before the repair never
    returns on a sub_builds entry that names its own directory, whatever the
    fuel. *)
Theorem C11_read_build_files_legacy_refuted : forall fuel st,
  read_dir_legacy fuel [("p", [DSub ["p"]])] "p" st = None.
Proof. exact read_dir_legacy_diverges. Qed.
Print Assumptions C11_read_build_files_legacy_refuted.
