(** C02 — sniproxy: a connection only ever reaches the endpoint its SNI
    selects.  Property theorems only; each is closed by a lemma of
    Sni/RouteProofs.v, Sni/MailboxProofs.v or Sni/RouteGen.v, instantiated
    with what the translator regenerated from /repo (Gen/RouteConsts.v). *)
From Coq Require Import List NArith Bool String.
From Verif Require Import Lib.Bytes Sni.Wire Sni.Route Sni.RouteProofs Sni.Mailbox
  Sni.MailboxProofs Sni.MailboxConc Sni.RouteGen Gen.RouteConsts Gen.WireSchema Sni.WireGen.
Import ListNotations.
Local Open Scope N_scope.

(** ** Names that must not get anywhere *)

(** No server name, an IP literal (whatever net.ParseIP accepts: [is_ip] is
    any function), or a name under one of the rejected suffixes of the
    current source: the statements of isRejectedDomain return true, hostConn
    stops before the dial, and no endpoint is dialled. *)
Theorem C02_rejected_names : forall (is_ip : bytes -> bool) cfg name,
  (name = [] \/ is_ip name = true \/
   exists suf p, In suf gen_rejected_suffixes /\ name = p ++ bytes_of_string suf) ->
  run_rj is_ip gen_rejected_steps name = Some true /\
  decide is_ip gen_rejected_suffixes cfg name = RRejected /\
  endpoint_dials (decide is_ip gen_rejected_suffixes cfg name) = [].
Proof.
  exact (fun is_ip cfg name H =>
    match rejected_names is_ip deployed_suffixes cfg name H with
    | conj R D => conj (eq_trans (run_rj_deployed is_ip name) (f_equal Some R)) D
    end).
Qed.
Print Assumptions C02_rejected_names.

(** A name the lookup refuses (it returned an error - with or without a
    destination next to it), a name for which it returned neither, a
    destination whose endpoint is not connected, or a server without lookup:
    nothing is dialled or served, the route is an error return. *)
Theorem C02_refused_names : forall (is_ip : bytes -> bool) cfg sni,
  (has_lookup cfg = false \/ lk_err (lookup cfg sni) = true \/ lk_dest (lookup cfg sni) = None \/
   exists d, lk_dest (lookup cfg sni) = Some d /\ d_home d = false /\ d_forward d = [] /\
             registry cfg (d_name d) = None) ->
  endpoint_dials (decide is_ip gen_rejected_suffixes cfg sni) = [] /\
  served (decide is_ip gen_rejected_suffixes cfg sni) = false /\
  refusal (decide is_ip gen_rejected_suffixes cfg sni) = true.
Proof. exact (fun is_ip => refused_names is_ip gen_rejected_suffixes). Qed.
Print Assumptions C02_refused_names.

(** The statements of isRejectedDomain and Server.dial as the translator
    emits them from the current source, interpreted ([run_host]), are the
    closed form [decide] the other theorems speak about. *)
Theorem C02_emitted_code_is_decide : forall (is_ip : bytes -> bool) cfg sni,
  run_host is_ip gen_rejected_steps gen_dial_steps cfg sni
  = decide is_ip gen_rejected_suffixes cfg sni.
Proof. exact gen_run_host_decide. Qed.
Print Assumptions C02_emitted_code_is_decide.

(** Over the emitted step list of Server.dial: the error of the lookup alone
    decides.  For every emitted list in which the lookup is followed at once
    by a guard that fires whenever err != nil (whatever dest is) and whose body
    returns a non-nil error - [lookup_err_guarded], decided by computation on
    the current list in [C02_source_tie] - a name for which the lookup returns
    an error is refused whether or not a destination came with the error:
    error return, no endpoint / home / forward dial. *)
Theorem C02_lookup_error_always_refuses : forall steps cfg sni,
  lookup_err_guarded steps = true ->
  has_lookup cfg = true ->
  lk_err (lookup cfg sni) = true ->
  refusal (run_dial cfg sni steps st0) = true /\
  served (run_dial cfg sni steps st0) = false /\
  endpoint_dials (run_dial cfg sni steps st0) = [].
Proof. exact lookup_error_always_refuses. Qed.
Print Assumptions C02_lookup_error_always_refuses.

Theorem C02_lookup_error_always_refuses_here : forall cfg sni,
  has_lookup cfg = true ->
  lk_err (lookup cfg sni) = true ->
  refusal (run_dial cfg sni gen_dial_steps st0) = true /\
  served (run_dial cfg sni gen_dial_steps st0) = false /\
  endpoint_dials (run_dial cfg sni gen_dial_steps st0) = [].
Proof. exact gen_lookup_error_always_refuses. Qed.
Print Assumptions C02_lookup_error_always_refuses_here.

(** All four shapes of the lookup result (destination or nil) x (error or
    nil): the decision never dereferences nil, never hands a nil connection
    to the join, and is either a refusal or a served connection; served only
    when the lookup gave a destination and no error. *)
Theorem C02_dial_total : forall (is_ip : bytes -> bool) cfg sni,
  crashes (decide is_ip gen_rejected_suffixes cfg sni) = false /\
  refusal (decide is_ip gen_rejected_suffixes cfg sni)
  = negb (served (decide is_ip gen_rejected_suffixes cfg sni)).
Proof. exact (fun is_ip => decide_total is_ip gen_rejected_suffixes). Qed.
Print Assumptions C02_dial_total.

Theorem C02_served_only_without_error : forall (is_ip : bytes -> bool) cfg sni,
  served (decide is_ip gen_rejected_suffixes cfg sni) = true ->
  is_rejected is_ip gen_rejected_suffixes sni = false /\ has_lookup cfg = true /\
  lk_err (lookup cfg sni) = false /\ exists d, lk_dest (lookup cfg sni) = Some d.
Proof. exact (fun is_ip => served_only_without_error is_ip gen_rejected_suffixes). Qed.
Print Assumptions C02_served_only_without_error.

(** Every return of hostConn (as emitted from the current source) between
    accepting the front connection and the join: whatever HelloInfo returns
    ([sniff]; None = any error) and whether or not the dial succeeds, the front
    connection is closed when hostConn returns; bytes flow (JoinConn runs) only
    for a sniffed, not rejected name whose route selects a destination and
    whose dial succeeds; with a sniffing error or a rejected name the dialer
    is not called; a connection that was dialled is closed again. *)
Theorem C02_every_error_return_serves_nothing : forall (is_ip : bytes -> bool) cfg sniff dial_ok,
  exists o,
    run_front is_ip gen_rejected_steps gen_dial_steps cfg sniff dial_ok gen_host_steps hs0 = FOut o /\
    fo_front_closed o = true /\
    (fo_joined o = true <->
       exists name, sniff = Some name /\
                    served (decide is_ip gen_rejected_suffixes cfg name) = true /\ dial_ok = true) /\
    ((sniff = None \/ exists name, sniff = Some name /\ is_rejected is_ip gen_rejected_suffixes name = true) ->
       fo_dial o = None /\ fo_joined o = false) /\
    fo_remote_closed o = fo_joined o.
Proof. exact gen_front_outcomes. Qed.
Print Assumptions C02_every_error_return_serves_nothing.

(** ** Exact names

    Server.endpoint is one map index on the name (emitted: [gen_endpoint_lookup]
    = RegExactIndex).  With the registry an exact table - whatever else is
    registered, names differing only in letter case included - a destination
    name under which nothing registered with exactly these bytes is refused:
    endpoint not connected, nothing dialled, nothing served. *)
Theorem C02_unconnected_name_never_served_by_a_variant :
  forall (is_ip : bytes -> bool) has_home lk (l : list (bytes * N)) sni d,
  gen_endpoint_lookup = RegExactIndex /\
  (lk sni = mkLk (Some d) false -> d_home d = false -> d_forward d = [] ->
   ~ In (d_name d) (map fst l) ->
   let r := decide is_ip gen_rejected_suffixes (mkCfg true lk has_home (reg_exact l)) sni in
   endpoint_dials r = [] /\ served r = false /\ refusal r = true).
Proof.
  exact (fun is_ip has_home lk l sni d =>
           conj gen_endpoint_lookup_exact
                (unconnected_name_never_served_by_a_variant is_ip gen_rejected_suffixes has_home lk l sni d)).
Qed.
Print Assumptions C02_unconnected_name_never_served_by_a_variant.

(** A lookup that folds letter case (seeded change C02-j): refuted - only
    "team" is connected, the lookup answers "Team": refused by the exact table,
    dialled to team's endpoint by the folding one. *)
Theorem C02_unconnected_name_never_served_by_a_variant_refuted :
  let team := [116; 101; 97; 109]%N in let Team := [84; 101; 97; 109]%N in
  let l := [(team, 1%N)] in
  let lk := fun _ : bytes => mkLk (Some (mkDest Team false [])) false in
  decide (fun _ => false) gen_rejected_suffixes (mkCfg true lk false (reg_exact l)) [120]%N = RNotFound Team /\
  decide (fun _ => false) gen_rejected_suffixes (mkCfg true lk false (reg_folding lower l)) [120]%N = REndpoint 1 Team.
Proof. exact gen_folding_registry_refuted. Qed.
Print Assumptions C02_unconnected_name_never_served_by_a_variant_refuted.

(** ** At dial time

    The configured Lookup is not a constant function and the registry moves:
    for every history of {the lookup's answers change, endpoints connect /
    disconnect / re-register, a front connection arrives} - with what
    NewServer stores in s.lookup and the statements of isRejectedDomain and
    Server.dial as emitted from the current source - every connection is
    routed by what the lookup answers and what the registry holds at its own
    dial, never by an earlier answer. *)
Theorem C02_routed_by_lookup_at_dial_time : forall (is_ip : bytes -> bool) has_lk has_home evs lk reg,
  run_hist is_ip gen_lookup_store gen_rejected_steps gen_dial_steps has_lk has_home lk reg [] evs
  = spec_hist is_ip gen_rejected_suffixes has_lk has_home lk reg evs.
Proof. exact gen_routed_by_lookup_at_dial_time. Qed.
Print Assumptions C02_routed_by_lookup_at_dial_time.

(** A server that remembers successful answers per domain (seeded change
    C02-g): refuted.  The name is answered with endpoint 1, then refused, then
    moved to endpoint 2; a connection after each change: the memoising server
    hands all three to endpoint 1, the specification says endpoint 1, refusal,
    endpoint 2. *)
Theorem C02_routed_by_lookup_at_dial_time_refuted :
  let d := [100; 46; 99]%N in let a := [47; 97]%N in let b := [47; 98]%N in
  let reg := fun n : bytes => if beqb n a then Some 1%N else if beqb n b then Some 2%N else None in
  let none := fun _ : bytes => mkLk None true in
  run_hist (fun _ => false) LMemo gen_rejected_steps gen_dial_steps true false none reg [] (memo_history d a b)
    = [REndpoint 1 a; REndpoint 1 a; REndpoint 1 a] /\
  spec_hist (fun _ => false) gen_rejected_suffixes true false none reg (memo_history d a b)
    = [REndpoint 1 a; RLookupErr; REndpoint 2 b].
Proof. exact gen_memo_server_refuted. Qed.
Print Assumptions C02_routed_by_lookup_at_dial_time_refuted.

(** Why the premise matters: a list that tests the destination instead of the
    error does not satisfy it, and serves a name the lookup refused. *)
Theorem C02_dest_tested_serves_refused_name : forall cfg sni d ep,
  lookup_err_guarded dest_tested_steps = false /\
  (has_lookup cfg = true -> lookup cfg sni = mkLk (Some d) true ->
   d_home d = false -> d_forward d = [] -> registry cfg (d_name d) = Some ep ->
   run_dial cfg sni dest_tested_steps st0 = REndpoint ep (d_name d)).
Proof. exact (fun cfg sni d ep => conj dest_tested_not_guarded (dest_tested_serves_refused_name cfg sni d ep)). Qed.
Print Assumptions C02_dest_tested_serves_refused_name.

(** ** The selected endpoint, and only it *)

Theorem C02_deliver_only_selected : forall (is_ip : bytes -> bool) cfg sni ep n,
  decide is_ip gen_rejected_suffixes cfg sni = REndpoint ep n <->
  is_rejected is_ip gen_rejected_suffixes sni = false /\ has_lookup cfg = true /\
  exists d, lookup cfg sni = mkLk (Some d) false /\ d_home d = false /\ d_forward d = [] /\
            d_name d = n /\ registry cfg n = Some ep.
Proof. exact (fun is_ip => deliver_only_selected is_ip gen_rejected_suffixes). Qed.
Print Assumptions C02_deliver_only_selected.

Theorem C02_at_most_one_endpoint : forall (is_ip : bytes -> bool) cfg sni,
  match endpoint_dials (decide is_ip gen_rejected_suffixes cfg sni) with
  | [] => forall ep n, decide is_ip gen_rejected_suffixes cfg sni <> REndpoint ep n
  | [ep] => exists n, decide is_ip gen_rejected_suffixes cfg sni = REndpoint ep n
  | _ => False
  end.
Proof. exact (fun is_ip => dials_at_most_one is_ip gen_rejected_suffixes). Qed.
Print Assumptions C02_at_most_one_endpoint.

(** ** Concurrent dials do not get each other's connections
    (every schedule: [ps] is any sequence of whole operations of any number
    of goroutines, including deliveries with arbitrary ids and keys) *)

Theorem C02_ids_unique : forall ps o vs,
  run office_init ps = (o, vs) -> NoDup (ids_of vs).
Proof. exact ids_unique. Qed.
Print Assumptions C02_ids_unique.

Theorem C02_mailbox_isolation : forall ps o vs h tag,
  run office_init ps = (o, vs) ->
  In (h, tag) (o_recv o) ->
  exists b, nth_error (o_boxes o) h = Some b /\
            In (ODeliver (bx_id b) (bx_key b) tag) ps.
Proof. exact mailbox_isolation. Qed.
Print Assumptions C02_mailbox_isolation.

Theorem C02_no_misdelivery : forall ps o vs h tag,
  run office_init ps = (o, vs) ->
  NoDup (newbox_ids ps) -> deliveries_honest o ps ->
  In (h, tag) (o_recv o) -> N.to_nat tag = h.
Proof.
  exact (fun ps o vs h tag Hrun Hnd =>
           no_misdelivery ps o vs h tag Hrun (boxes_distinct_of_ids ps o vs Hrun Hnd)).
Qed.
Print Assumptions C02_no_misdelivery.

Theorem C02_cleanup_local : forall o h o' v,
  step o (OCleanUp h) = (o', v) ->
  forall b, nth_error (o_boxes o) h = Some b ->
  (forall id, id <> bx_id b -> map_get id (o_map o') = map_get id (o_map o)) /\
  (forall h' b', map_get (bx_id b) (o_map o) = Some h' -> nth_error (o_boxes o) h' = Some b' ->
     bx_key b' <> bx_key b -> map_get (bx_id b) (o_map o') = Some h').
Proof. exact cleanup_local. Qed.
Print Assumptions C02_cleanup_local.

(** ** The same for every reachable state of the interleaving semantics

    Any number of dial threads ([next id; newBox; RPC; receive; cleanUp], the
    cleanUp deferred on every path), of arriving side websockets with
    arbitrary id/key, and of session-table handlers; any schedule; one
    critical section per step (atomic by the lock skeleton, [C02_source_tie]). *)

Theorem C02_conc_ids_unique : forall ks s i j ti tj a,
  reach ks s ->
  nth_error (sy_threads s) i = Some ti -> nth_error (sy_threads s) j = Some tj ->
  th_id ti = Some a -> th_id tj = Some a -> i = j.
Proof. exact conc_ids_unique. Qed.
Print Assumptions C02_conc_ids_unique.

Theorem C02_conc_mailbox_isolation : forall ks s i t key a x,
  reach ks s ->
  nth_error (sy_threads s) i = Some t ->
  th_kind t = KDial key -> th_id t = Some a -> th_got t = Some x ->
  exists j tj, nth_error (sy_threads s) j = Some tj /\
               th_kind tj = KDeliver a key x /\ th_pc tj = 1%nat.
Proof. exact conc_mailbox_isolation. Qed.
Print Assumptions C02_conc_mailbox_isolation.

(** No hypothesis on ids or keys any more: the ids are distinct because the
    dials take them from the locked counter.  Within one registration the id
    alone keeps honest deliveries apart, whatever the keys are. *)
Theorem C02_conc_no_misdelivery : forall ks s i t key a x,
  reach ks s -> honest s ->
  nth_error (sy_threads s) i = Some t ->
  th_kind t = KDial key -> th_id t = Some a -> th_got t = Some x ->
  N.to_nat x = i.
Proof. exact conc_no_misdelivery. Qed.
Print Assumptions C02_conc_no_misdelivery.

Theorem C02_conc_session_isolation : forall ks s i t id c,
  reach ks s ->
  nth_error (sy_threads s) i = Some t ->
  th_kind t = KTable (CGet id) -> th_obs t = Some (WFound c) ->
  c_sess c = id /\
  exists j tj, nth_error (sy_threads s) j = Some tj /\ th_kind tj = KTable (CAdd c) /\
               th_pc tj = 1%nat.
Proof. exact conc_session_isolation. Qed.
Print Assumptions C02_conc_session_isolation.

(** What the key adds: across registrations.  Ids restart at 0 for every
    endpoint client and the side websocket is routed by name, so a websocket
    answering a dial of the previous registration can carry an id in use by
    the new one; it carries the old key, and is refused. *)
Theorem C02_stale_generation_refused : forall ks s2 i t k1 k2 a h tag,
  reach ks s2 ->
  nth_error (sy_threads s2) i = Some t ->
  th_kind t = KDial k2 -> th_id t = Some a -> th_h t = Some h ->
  map_get a (o_map (sy_office s2)) = Some h ->
  k1 <> k2 ->
  step (sy_office s2) (ODeliver a k1 tag) = (sy_office s2, VMismatch).
Proof. exact stale_generation_refused. Qed.
Print Assumptions C02_stale_generation_refused.

(** ** The endpoint's session table *)

Theorem C02_session_isolation : forall ps t vs id c t',
  crun ctable_init ps = (t, vs) ->
  cstep t (CGet id) = (t', WFound c) ->
  c_sess c = id /\ In (CAdd c) ps /\ t' = t.
Proof. exact session_isolation. Qed.
Print Assumptions C02_session_isolation.

Theorem C02_session_exclusive : forall t c c0,
  t_closed t = false -> t_get (c_sess c) (t_map t) = Some c0 ->
  cstep t (CAdd c) = (t, WConflict).
Proof. exact session_exclusive. Qed.
Print Assumptions C02_session_exclusive.

(** ** Address forwarding *)

Theorem C02_addr_forwarded : forall id sess key tok front,
  id < two64 -> sess < two64 -> key < two64 ->
  lenN tok < two63 -> lenN front < two63 -> front <> [] ->
  fst (start_call gen_alloc_max gen_table
         (request_frame id 9
            (enc_schema [KU64; KU64; KStr; KStr]
               [VU64 sess; VU64 key; VBytes tok; VBytes (request_addr SidingAddr front)])))
  = CReq id 9 "dialSide2Request"%string [VU64 sess; VU64 key; VBytes tok; VBytes front]
  /\ accepted_remote_addr SidingAddr front = AGiven front.
Proof. exact addr_forwarded. Qed.
Print Assumptions C02_addr_forwarded.

(** ** The code the models were written against is the code in the tree *)

Theorem C02_source_tie :
  gen_rejected_steps = deployed_rj_steps /\
  gen_rejected_suffixes = deployed_suffixes /\
  list_eqb dial_step_eqb gen_dial_steps deployed_dial_steps = true /\
  lookup_err_guarded gen_dial_steps = true /\
  (gen_lookup_store = LDirect /\
   list_eqb String.eqb gen_lookup_callers ["Server.dial"%string] = true /\
   gen_lookup_calls_in_dial = 1%nat /\ lookup_steps gen_dial_steps = 1%nat) /\
  list_eqb host_step_eqb gen_host_steps deployed_host_steps = true /\
  gen_endpoint_lookup = RegExactIndex /\
  gen_server_config_copied = true /\
  reject_before_dialb = true /\
  list_eqb String.eqb gen_host_conn_calls deployed_host_conn_calls = true /\
  (gen_lock_violations = [] /\
   list_eqb String.eqb gen_locked_methods expected_locked_methods = true) /\
  RouteGen.src_diff gen_route_src frozen_route_src = [].
Proof.
  exact (conj gen_rejected_steps_eq (conj gen_suffixes_eq (conj gen_dial_steps_deployed
          (conj gen_dial_lookup_err_guarded (conj gen_lookup_store_direct (conj gen_host_steps_deployed (conj gen_endpoint_lookup_exact (conj gen_server_config_is_copied
          (conj gen_reject_before_dial (conj gen_host_conn_calls_deployed
            (conj gen_lock_skeleton gen_route_src_frozen))))))))))).
Qed.
Print Assumptions C02_source_tie.

(** * Non-vacuity *)

Definition ascii_bytes (s : string) : bytes := bytes_of_string s.

(** A server with lookup, two endpoints, and a table in which every shape of
    lookup result occurs: (dest, nil), (nil, err), (dest, err), (nil, nil). *)
Definition ex_cfg : server_cfg :=
  mkCfg true
    (fun d => if beqb d (ascii_bytes "site1.example") then mkLk (Some (mkDest (ascii_bytes "/ep1") false [])) false
              else if beqb d (ascii_bytes "ghost.example") then mkLk (Some (mkDest (ascii_bytes "/ghost") false [])) false
              else if beqb d (ascii_bytes "suspended.example") then mkLk (Some (mkDest (ascii_bytes "/ep1") false [])) true
              else if beqb d (ascii_bytes "void.example") then mkLk None false
              else mkLk None true)
    false
    (fun n => if beqb n (ascii_bytes "/ep1") then Some 1
              else if beqb n (ascii_bytes "/ep2") then Some 2 else None).

Example C02_nonvacuous_route :
  let is_ip := fun _ : bytes => false in
  decide is_ip gen_rejected_suffixes ex_cfg (ascii_bytes "site1.example")
    = REndpoint 1 (ascii_bytes "/ep1") /\
  decide is_ip gen_rejected_suffixes ex_cfg (ascii_bytes "ghost.example")
    = RNotFound (ascii_bytes "/ghost") /\
  decide is_ip gen_rejected_suffixes ex_cfg (ascii_bytes "nobody.example") = RLookupErr /\
  decide is_ip gen_rejected_suffixes ex_cfg (ascii_bytes "site1.example.after.blue") = RRejected /\
  decide (fun _ => true) gen_rejected_suffixes ex_cfg (ascii_bytes "10.0.0.1") = RRejected /\
  (exists suf p, In suf gen_rejected_suffixes /\
     ascii_bytes "site1.example.after.blue" = p ++ bytes_of_string suf).
Proof.
  vm_compute. repeat split.
  exists ".after.blue"%string, (ascii_bytes "site1.example"). split; [right; left; reflexivity|reflexivity].
Qed.

(** The four shapes through the emitted statements: the name whose lookup
    returns the connected endpoint /ep1 *together with an error* is refused;
    the list that tests the destination instead serves it; (nil, nil) is a
    clean refusal, and was a nil dereference before the guard on dest. *)
Example C02_nonvacuous_four_shapes :
  let run := fun steps n => run_dial ex_cfg (ascii_bytes n) steps st0 in
  has_lookup ex_cfg = true /\
  lk_err (lookup ex_cfg (ascii_bytes "suspended.example")) = true /\
  run gen_dial_steps "site1.example"%string = REndpoint 1 (ascii_bytes "/ep1") /\
  run gen_dial_steps "nobody.example"%string = RLookupErr /\
  run gen_dial_steps "suspended.example"%string = RLookupErr /\
  run gen_dial_steps "void.example"%string = RNoDest /\
  run dest_tested_steps "suspended.example"%string = REndpoint 1 (ascii_bytes "/ep1") /\
  run [DNoLookup; DDomain; DLookup; DGuard CErrNonNil (BRet XErr); DHomeForward; DEndpoint;
       DGuard CErrNonNil (BRet XAnnotErr); DDial] "void.example"%string = RPanic.
Proof. vm_compute. repeat split. Qed.

(** hostConn on four connections: a hello that cannot be sniffed, a served
    name whose dial succeeds / fails, and the name refused with a destination. *)
Example C02_nonvacuous_front :
  let run := fun sniff ok => run_front (fun _ => false) gen_rejected_steps gen_dial_steps ex_cfg
                               sniff ok gen_host_steps hs0 in
  run None true = FOut (mkOut true None false false) /\
  run (Some (ascii_bytes "site1.example")) true
    = FOut (mkOut true (Some (REndpoint 1 (ascii_bytes "/ep1"))) true true) /\
  run (Some (ascii_bytes "site1.example")) false
    = FOut (mkOut true (Some (REndpoint 1 (ascii_bytes "/ep1"))) false false) /\
  run (Some (ascii_bytes "suspended.example")) true = FOut (mkOut true (Some RLookupErr) false false).
Proof. vm_compute. repeat split. Qed.

(** Two dials interleaved (ids 0 and 1 from the counter, keys 77 and 78),
    the endpoint's connections arriving in the opposite order, each named
    after the box it was made for: the hypotheses of [C02_no_misdelivery]
    hold and both dials did receive. *)
Definition ex_ops : list op :=
  [ ONext; ONext; ONewBox 1 78; ONewBox 0 77; ODeliver 0 77 1; ODeliver 1 78 0;
    OReceive 0 false; OReceive 1 false; OCleanUp 1; OCleanUp 0 ].

Example C02_nonvacuous_office :
  let '(o, vs) := run office_init ex_ops in
  vs = [VId 0; VId 1; VHandle 0; VHandle 1; VDelivered; VDelivered; VConn 0; VConn 1; VDone; VDone] /\
  o_recv o = [(1%nat, 1); (0%nat, 0)] /\ o_map o = [] /\
  NoDup (newbox_ids ex_ops) /\ deliveries_honest o ex_ops.
Proof.
  vm_compute. split; [reflexivity|]. split; [reflexivity|]. split; [reflexivity|]. split.
  - repeat constructor; cbn; intuition discriminate.
  - intros id key tag H.
    repeat (destruct H as [H|H]; [try discriminate; injection H as <- <- <-; eexists; split; reflexivity|]).
    contradiction.
Qed.

(** A connection offered with the right id and a wrong key, or under an id
    nobody is dialling with, is refused and never received. *)
Example C02_nonvacuous_forged :
  snd (run office_init [ONext; ONewBox 0 77; ODeliver 0 76 9; ODeliver 5 77 9; OReceive 0 false])
  = [VId 0; VHandle 0; VMismatch; VNotFound; VBlocked].
Proof. reflexivity. Qed.

Example C02_nonvacuous_sessions :
  snd (crun ctable_init [CAdd (mkC 3 100); CAdd (mkC 4 101); CAdd (mkC 3 102); CGet 3; CRemove 3; CGet 3; CGet 4])
  = [WOk; WOk; WConflict; WFound (mkC 3 100); WOk; WNotFound; WFound (mkC 4 101)].
Proof. reflexivity. Qed.

(** Two registrations of one name.  In the new one (this office) the first
    dial has id 0 and key 78 and is waiting; the websocket answering the first
    dial of the old registration arrives with id 0 and the old key 77: refused,
    and the dial then receives the right connection.  With equal keys the
    stale connection would have been accepted: only the key tells the
    registrations apart. *)
Definition ex_regen : list tkind := [KDial 78; KDeliver 0 77 9; KDeliver 0 78 0].

Example C02_nonvacuous_generations :
  exists s3 s4 s6,
    sys_run (sys_init ex_regen) [(0, 0); (0, 0); (0, 0)]%nat = Some s3 /\
    sys_step s3 1 0 = Some s4 /\             (* the stale websocket *)
    sy_office s4 = sy_office s3 /\
    sys_run s4 [(2, 0); (0, 0)]%nat = Some s6 /\
    option_map th_got (nth_error (sy_threads s6) 0) = Some (Some 0) /\
    reach ex_regen s6 /\
    fst (step (sy_office s3) (ODeliver 0 78 9)) <> sy_office s3.
Proof.
  do 3 eexists. split; [reflexivity|]. split; [reflexivity|]. split; [reflexivity|].
  split; [reflexivity|]. split; [reflexivity|]. split.
  - apply (sys_run_reach ex_regen [(0, 0); (0, 0); (0, 0); (1, 0); (2, 0); (0, 0)]%nat (sys_init ex_regen));
      [apply reach_init|reflexivity].
  - discriminate.
Qed.
