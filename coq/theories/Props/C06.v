(** C06 — pisces: read-modify-write operations are atomic under concurrency.
    Property theorems only; each is closed by a lemma of Lib/Sched.v,
    Kv/Atomic.v, Kv/AtomicSql.v, Kv/AtomicCor.v, Kv/AtomicCorr.v or
    Kv/AtomicGen.v.  All are about every interleaving of any number of
    goroutines running any programs. *)
From Coq Require Import List Arith NArith Bool String.
From Verif Require Import Lib.Sched Kv.KeyOrd Kv.AList Kv.Spec Kv.Mem Kv.Sql Kv.Skel Kv.Refine
  Kv.Facts Kv.SeqFacts Kv.KvGen Kv.KvCorr Kv.Atomic Kv.AtomicSql Kv.AtomicCor Kv.AtomicCorr
  Kv.AtomicPg Kv.AtomicGen Gen.KvSql Gen.KvMemSkel.
From Verif Require Import Kv.Retry Gen.KvRetry Kv.AppendStmts.
Import ListNotations.

Notation mreachable := (Sched.reachable table loc result).
Notation minit := (Sched.init table loc result).
Notation mdone := (Sched.done table loc result).
Notation mcalls := (Sched.calls_of table loc result).
Notation mresults := (Sched.results_of table loc result).
Notation msh := (Sched.sh table loc result).
Notation mths := (Sched.ths table loc result).
Notation mholds := (Sched.holds table loc result).

(** ** Mutex reduction (sync.RWMutex), generic *)

Theorem C06_rw_linearizable :
  forall (S L R : Type) (prog : tid -> list (Sched.call S L R)) (s0 : S) (cfg : config S L R),
  (forall j c, In c (prog j) -> call_mode S L R c <> MU) ->
  reachable S L R (init S L R prog s0) cfg ->
  snd (seq_run S L R s0 (Sched.calls_of S L R (done S L R cfg))) = results_of S L R (done S L R cfg) /\
  ((forall j, ~ holds S L R MW (ths S L R cfg j)) ->
   sh S L R cfg = fst (seq_run S L R s0 (Sched.calls_of S L R (done S L R cfg)))).
Proof. exact rw_linearizable. Qed.
Print Assumptions C06_rw_linearizable.

Theorem C06_program_order :
  forall (S L R : Type) (prog : tid -> list (Sched.call S L R)) (s0 : S) (cfg : config S L R),
  reachable S L R (init S L R prog s0) cfg ->
  forall i, prog i = thread_done S L R i (done S L R cfg) ++ pending S L R (ths S L R cfg i).
Proof. exact program_order. Qed.
Print Assumptions C06_program_order.

(** ** Memory backend *)

Theorem C06_mem_call_is_mem_step : forall o m,
  seq_call table loc result (mem_call o) m = mem_step m o.
Proof. exact mem_call_seq. Qed.
Print Assumptions C06_mem_call_is_mem_step.

Theorem C06_mem_atomic : forall bprog m0 cfg,
  mreachable (minit (mem_prog bprog) m0) cfg ->
  exists ops,
    Forall (in_prog bprog) ops /\
    mcalls (mdone cfg) = map mem_call ops /\
    snd (run mem_step m0 ops) = mresults (mdone cfg) /\
    ((forall j, ~ mholds MW (mths cfg j)) -> msh cfg = fst (run mem_step m0 ops)).
Proof. exact mem_atomic. Qed.
Print Assumptions C06_mem_atomic.

Theorem C06_mem_atomic_spec : forall bprog m0 cfg,
  mreachable (minit (mem_prog bprog) m0) cfg ->
  nodupk m0 ->
  (forall i, forallb bop_okb (bprog i) = true) ->
  exists ops,
    Forall (in_prog bprog) ops /\
    mcalls (mdone cfg) = map mem_call ops /\
    snd (run spec_step (abs m0) ops) = mresults (mdone cfg) /\
    ((forall j, ~ mholds MW (mths cfg j)) ->
     nodupk (msh cfg) /\ abs (msh cfg) = fst (run spec_step (abs m0) ops)).
Proof. exact mem_atomic_spec. Qed.
Print Assumptions C06_mem_atomic_spec.

(** ** sqlite backend (statement table regenerated from sqlite3_kv.go).
    Nothing is claimed about psqlKV under concurrency: PostgreSQL's isolation
    levels are not modelled (and PostgreSQL cannot run in this environment). *)

Theorem C06_sql_serializable : forall bprog db0 cfg,
  qreachable gen_sqlite_methods (qinit bprog db0) cfg ->
  run (sql_step gen_sqlite_methods) db0 (qops (applied (qdone cfg)))
  = (qdb cfg, qresults (applied (qdone cfg))).
Proof. exact gen_sql_serializable. Qed.
Print Assumptions C06_sql_serializable.

Theorem C06_sql_serializable_spec : forall bprog db0 cfg,
  qreachable gen_sqlite_methods (qinit bprog db0) cfg ->
  nodupk db0 ->
  (forall i, forallb bop_okb (bprog i) = true) ->
  Forall (in_prog bprog) (qops (applied (qdone cfg))) /\
  run spec_step (abs db0) (qops (applied (qdone cfg)))
  = (abs (qdb cfg), qresults (applied (qdone cfg))).
Proof. exact gen_sql_serializable_spec. Qed.
Print Assumptions C06_sql_serializable_spec.

Theorem C06_sql_snapshot_stable : forall bprog db0 cfg i k f v todo,
  qreachable gen_sqlite_methods (qinit bprog db0) cfg ->
  qths cfg i = QRead k f v todo -> exists c, lookup k (qdb cfg) = Some (c, v).
Proof. exact gen_sql_snapshot_stable. Qed.
Print Assumptions C06_sql_snapshot_stable.

(** ** In the words of the statement *)

Theorem C06_mem_no_lost_update : forall bprog m0 cfg k g c v0,
  mreachable (minit (mem_prog bprog) m0) cfg -> nodupk m0 ->
  (forall i, forallb bop_okb (bprog i) = true) ->
  (forall i, Forall (incr_or_other k g) (bprog i)) ->
  @lookup entry k m0 = Some (c, v0) -> mem_quiet cfg ->
  exists ops,
    mcalls (mdone cfg) = map mem_call ops /\
    lookup k (msh cfg) = Some (c, Nat.iter (List.length (key_ops k ops)) g v0) /\
    key_results k ops (mresults (mdone cfg)) = repeat RUnit (List.length (key_ops k ops)).
Proof. exact mem_no_lost_update. Qed.
Print Assumptions C06_mem_no_lost_update.

Theorem C06_sql_no_lost_update : forall bprog db0 cfg k g c v0,
  qreachable gen_sqlite_methods (qinit bprog db0) cfg -> nodupk db0 ->
  (forall i, forallb bop_okb (bprog i) = true) ->
  (forall i, Forall (incr_or_other k g) (bprog i)) ->
  @lookup entry k db0 = Some (c, v0) ->
  let ops := qops (applied (qdone cfg)) in
  lookup k (abs (qdb cfg)) = Some (c, Nat.iter (List.length (key_ops k ops)) g v0) /\
  key_results k ops (qresults (applied (qdone cfg))) = repeat RUnit (List.length (key_ops k ops)).
Proof. exact gen_sql_no_lost_update. Qed.
Print Assumptions C06_sql_no_lost_update.

Theorem C06_mem_add_once : forall bprog m0 cfg k,
  mreachable (minit (mem_prog bprog) m0) cfg -> nodupk m0 ->
  (forall i, forallb bop_okb (bprog i) = true) ->
  (forall i, Forall (add_or_other k) (bprog i)) ->
  @lookup entry k m0 = None -> mem_quiet cfg ->
  exists ops,
    mcalls (mdone cfg) = map mem_call ops /\
    match key_ops k ops with
    | [] => lookup k (msh cfg) = None
    | BAdd _ c v :: rest =>
        lookup k (msh cfg) = Some (c, v) /\
        key_results k ops (mresults (mdone cfg)) = RUnit :: repeat (RErr EExists) (List.length rest)
    | _ => False
    end.
Proof. exact mem_add_once. Qed.
Print Assumptions C06_mem_add_once.

Theorem C06_sql_add_once : forall bprog db0 cfg k,
  qreachable gen_sqlite_methods (qinit bprog db0) cfg -> nodupk db0 ->
  (forall i, forallb bop_okb (bprog i) = true) ->
  (forall i, Forall (add_or_other k) (bprog i)) ->
  @lookup entry k db0 = None ->
  let ops := qops (applied (qdone cfg)) in
  match key_ops k ops with
  | [] => lookup k (abs (qdb cfg)) = None
  | BAdd _ c v :: rest =>
      lookup k (abs (qdb cfg)) = Some (c, v) /\
      key_results k ops (qresults (applied (qdone cfg))) = RUnit :: repeat (RErr EExists) (List.length rest)
  | _ => False
  end.
Proof. exact gen_sql_add_once. Qed.
Print Assumptions C06_sql_add_once.

(** ** What the function of a Mutate is shown

    The models hand the function the stored bytes; the code decodes them with
    json.Unmarshal into the caller's variable, and Unmarshal merges into maps
    and into struct fields the JSON omits.  With the shape extracted from the
    source (each backend invokes the function at most once per call, or the
    decode target is fresh per invocation) the function is shown, in every
    attempt, the value that attempt read and nothing else, and what is written
    is the function's result on the value read last. *)
Theorem C06_mutate_sees_stored_value_only : forall g reads,
  attempts_allowed gen_mutate_shape reads ->
  fst (attempts gen_mutate_shape g [] reads) = map canon reads /\
  match rev reads with
  | [] => snd (attempts gen_mutate_shape g [] reads) = []
  | r :: _ => snd (attempts gen_mutate_shape g [] reads) = g (canon r)
  end.
Proof.
  exact (fun g reads H =>
           mutate_sees_stored_value_only gen_mutate_shape g [] reads gen_mutate_target_ok H eq_refl).
Qed.
Print Assumptions C06_mutate_sees_stored_value_only.

Theorem C06_mutate_shape : mshape_ok gen_mutate_shape = true.
Proof. exact gen_mutate_target_ok. Qed.
Print Assumptions C06_mutate_shape.

(** ** AppendBytes, statement by statement

    The SQL concurrency model runs AppendBytes as one atomic step; it is one
    autocommit statement in the source ([C06_append_statements]).  For a
    single-statement upsert the interleavings of the calls are the orders in
    which the statements run, and in every order the value holds every
    appended token exactly once after what was there - also from an absent
    key. *)
Theorem C06_append_single_statement_atomic : forall (tokens order : list bytes) (s : cell),
  Permutation.Permutation order tokens ->
  run_upserts order s
  = match s, order with
    | None, [] => None
    | _, _ => Some (match s with Some x => x | None => [] end ++ List.concat order)
    end /\
  Permutation.Permutation order tokens.
Proof. exact single_statement_append_atomic. Qed.
Print Assumptions C06_append_single_statement_atomic.

Theorem C06_append_statements :
  append_statements gen_sqlite_methods = [SInsert [CK; CV; CC] OcAppendV] /\
  append_statements gen_psql_methods = [SInsert [CK; CV; CC] OcAppendV] /\
  method_evs gen_sqlite_methods "appendBytes"
  = [ECall HDb FX (SInsert [CK; CV; CC] OcAppendV) [GTable; GTable] [GK; GBs; GEmpty]; ERet "err"] /\
  method_evs gen_psql_methods "appendBytes"
  = [ECall HDb FX (SInsert [CK; CV; CC] OcAppendV) [GTable; GTable] [GK; GBs; GEmpty]; ERet "err"].
Proof. exact gen_sqlite_append_statements. Qed.
Print Assumptions C06_append_statements.

(** concurrent Removes of one key: exactly the first to take effect succeeds *)
Theorem C06_mem_remove_once : forall bprog m0 cfg k e,
  mreachable (minit (mem_prog bprog) m0) cfg -> nodupk m0 ->
  (forall i, forallb bop_okb (bprog i) = true) ->
  (forall i, Forall (remove_or_other k) (bprog i)) ->
  @lookup entry k m0 = Some e -> mem_quiet cfg ->
  exists ops,
    mcalls (mdone cfg) = map mem_call ops /\
    match key_ops k ops with
    | [] => lookup k (msh cfg) = Some e
    | _ :: rest =>
        lookup k (msh cfg) = None /\
        key_results k ops (mresults (mdone cfg)) = RUnit :: repeat (RErr ENotFound) (List.length rest)
    end.
Proof. exact mem_remove_once. Qed.
Print Assumptions C06_mem_remove_once.

Theorem C06_sql_remove_once : forall bprog db0 cfg k e,
  qreachable gen_sqlite_methods (qinit bprog db0) cfg -> nodupk db0 ->
  (forall i, forallb bop_okb (bprog i) = true) ->
  (forall i, Forall (remove_or_other k) (bprog i)) ->
  @lookup entry k db0 = Some e ->
  let ops := qops (applied (qdone cfg)) in
  match key_ops k ops with
  | [] => lookup k (abs (qdb cfg)) = Some e
  | _ :: rest =>
      lookup k (abs (qdb cfg)) = None /\
      key_results k ops (qresults (applied (qdone cfg))) = RUnit :: repeat (RErr ENotFound) (List.length rest)
  end.
Proof. exact gen_sql_remove_once. Qed.
Print Assumptions C06_sql_remove_once.

Theorem C06_mem_emplace_keeps_first : forall bprog m0 cfg k,
  mreachable (minit (mem_prog bprog) m0) cfg -> nodupk m0 ->
  (forall i, forallb bop_okb (bprog i) = true) ->
  (forall i, Forall (emplace_or_other k) (bprog i)) ->
  @lookup entry k m0 = None -> mem_quiet cfg ->
  exists ops,
    mcalls (mdone cfg) = map mem_call ops /\
    match key_ops k ops with
    | [] => lookup k (msh cfg) = None
    | BEmplace _ c v :: _ => lookup k (msh cfg) = Some (c, v)
    | _ => False
    end.
Proof. exact mem_emplace_keeps_first. Qed.
Print Assumptions C06_mem_emplace_keeps_first.

Theorem C06_sql_emplace_keeps_first : forall bprog db0 cfg k,
  qreachable gen_sqlite_methods (qinit bprog db0) cfg -> nodupk db0 ->
  (forall i, forallb bop_okb (bprog i) = true) ->
  (forall i, Forall (emplace_or_other k) (bprog i)) ->
  @lookup entry k db0 = None ->
  match key_ops k (qops (applied (qdone cfg))) with
  | [] => lookup k (abs (qdb cfg)) = None
  | BEmplace _ c v :: _ => lookup k (abs (qdb cfg)) = Some (c, v)
  | _ => False
  end.
Proof. exact gen_sql_emplace_keeps_first. Qed.
Print Assumptions C06_sql_emplace_keeps_first.

Theorem C06_mem_append_all_once : forall bprog m0 cfg k,
  mreachable (minit (mem_prog bprog) m0) cfg -> nodupk m0 ->
  (forall i, forallb bop_okb (bprog i) = true) ->
  (forall i, Forall (append_or_other k) (bprog i)) ->
  mem_quiet cfg ->
  exists ops,
    mcalls (mdone cfg) = map mem_call ops /\
    lookup k (msh cfg)
    = match lookup k m0, key_ops k ops with
      | None, [] => None
      | None, _ => Some ([], List.concat (map appended (key_ops k ops)))
      | Some (c, v0), _ => Some (c, v0 ++ List.concat (map appended (key_ops k ops)))
      end.
Proof. exact mem_append_all_once. Qed.
Print Assumptions C06_mem_append_all_once.

Theorem C06_sql_append_all_once : forall bprog db0 cfg k,
  qreachable gen_sqlite_methods (qinit bprog db0) cfg -> nodupk db0 ->
  (forall i, forallb bop_okb (bprog i) = true) ->
  (forall i, Forall (append_or_other k) (bprog i)) ->
  let ops := qops (applied (qdone cfg)) in
  lookup k (abs (qdb cfg))
  = match lookup k db0, key_ops k ops with
    | None, [] => None
    | None, _ => Some ([], List.concat (map appended (key_ops k ops)))
    | Some (c, v0), _ => Some (c, v0 ++ List.concat (map appended (key_ops k ops)))
    end.
Proof. exact gen_sql_append_all_once. Qed.
Print Assumptions C06_sql_append_all_once.

(** ** Blocking and refusal: what the forced schedules of the harness show

    sync.RWMutex: while a writer (any memKV method but get / has / walks) is
    inside its critical section - e.g. a Mutate inside the user's function -
    every step of the system is a step of that writer: the other goroutines'
    Lock / RLock is not enabled, they block.  While a reader (a walk inside
    its callback) is inside, no writer can enter. *)
Theorem C06_lock_exclusion :
  forall (S L R : Type) (prog : tid -> list (Sched.call S L R)) (s0 : S) (cfg : config S L R),
  (forall j c, In c (prog j) -> call_mode S L R c <> MU) ->
  reachable S L R (init S L R prog s0) cfg ->
  forall i,
    (holds S L R MW (ths S L R cfg i) ->
     forall j, j <> i -> ~ holds S L R MW (ths S L R cfg j) /\ ~ holds S L R MR (ths S L R cfg j)) /\
    (holds S L R MR (ths S L R cfg i) -> forall j, ~ holds S L R MW (ths S L R cfg j)).
Proof. exact lock_exclusion. Qed.
Print Assumptions C06_lock_exclusion.

Theorem C06_mem_writer_runs_alone : forall bprog m0 cfg cfg' i,
  mreachable (minit (mem_prog bprog) m0) cfg ->
  mholds MW (mths cfg i) -> Sched.step table loc result cfg cfg' ->
  forall j, j <> i -> mths cfg' j = mths cfg j.
Proof.
  exact (fun bprog m0 cfg cfg' i =>
           writer_runs_alone table loc result (mem_prog bprog) m0 cfg cfg' i (mem_prog_locked bprog)).
Qed.
Print Assumptions C06_mem_writer_runs_alone.

Theorem C06_mem_reader_blocks_writers : forall bprog m0 cfg cfg' i,
  mreachable (minit (mem_prog bprog) m0) cfg ->
  mholds MR (mths cfg i) -> Sched.step table loc result cfg cfg' ->
  forall j, ~ mholds MW (mths cfg' j).
Proof.
  exact (fun bprog m0 cfg cfg' i =>
           reader_blocks_writers table loc result (mem_prog bprog) m0 cfg cfg' i (mem_prog_locked bprog)).
Qed.
Print Assumptions C06_mem_reader_blocks_writers.

(** sqlite: while a connection is inside a mutate transaction the committed
    database changes only by that transaction's own commit - a write another
    connection attempts in the meantime can only be refused; and at most one
    connection holds a pending write. *)
Theorem C06_sql_tx_excludes_writes : forall cfg cfg' j,
  qstep gen_sqlite_methods cfg cfg' -> in_tx (qths cfg j) ->
  qdb cfg' = qdb cfg \/
  (exists k f img todo, qths cfg j = QWritten k f img todo /\ qdb cfg' = img).
Proof. exact gen_sql_tx_excludes_writes. Qed.
Print Assumptions C06_sql_tx_excludes_writes.

Theorem C06_sql_reserved_unique : forall bprog db0 cfg,
  qreachable gen_sqlite_methods (qinit bprog db0) cfg -> reserved_unique cfg.
Proof. exact gen_sql_reserved_unique. Qed.
Print Assumptions C06_sql_reserved_unique.

(** ** PostgreSQL (cannot run here; a model of its documented READ COMMITTED
    rules, see Kv/AtomicPg.v).  The source has the shape that loses updates
    (open finding); with SELECT ... FOR UPDATE every schedule of mutates would
    be serializable. *)
Theorem C06_psql_mutate_shape :
  gen_psql_mutate_begin = "b.db.Begin()"%string /\
  gen_psql_mutate_select = "select v from %s where k=$1"%string /\
  gen_psql_mutate_select_locks_row = false.
Proof. exact gen_psql_mutate_shape. Qed.
Print Assumptions C06_psql_mutate_shape.

Theorem C06_psql_for_update_serializable : forall prog db0 cfg,
  preachable true (pinit prog db0) cfg ->
  run mem_step db0 (pops (pdone cfg)) = (pdb cfg, presults (pdone cfg)).
Proof. exact pg_for_update_serializable. Qed.
Print Assumptions C06_psql_for_update_serializable.

(** the property as it would read for psqlKV.mutate as written: NOT proved,
    and refuted in the model by [C06_psql_read_committed_lost_update] *)
Definition stmt_psql_mutate_serializable : Prop :=
  forall prog db0 cfg,
    preachable gen_psql_mutate_select_locks_row (pinit prog db0) cfg ->
    run mem_step db0 (pops (pdone cfg)) = (pdb cfg, presults (pdone cfg)).

(** ** The history checker used on recorded runs is sound *)
Theorem C06_lin_sound : forall fuel pending s final,
  lin fuel pending s final = true ->
  exists order, Permutation.Permutation order pending /\ rt_ordered order /\ seq_ok order s final.
Proof. exact lin_sound. Qed.
Print Assumptions C06_lin_sound.

(** ** The source has the shape the models assume *)
Theorem C06_source_shape :
  all_well_lockedb gen_mem_skeletons = true /\
  skeletons_matchb gen_mem_skeletons = true /\
  gen_mem_ops = deployed_ops /\
  (mutate_in_txb (method_evs gen_sqlite_methods "mutate") = true /\
   mutate_in_txb (method_evs gen_psql_methods "mutate") = true) /\
  (forallb (fun n => single_statementb (method_evs gen_sqlite_methods n)) other_methods = true /\
   forallb (fun n => single_statementb (method_evs gen_psql_methods n)) other_methods = true) /\
  (gen_sqlite_commit = "sqlite3CommitTx(tx)"%string /\
   gen_sqlite_commit_helper
   = "if _, err := tx.X(`commit`); err != nil { return err } ;; tx.Rollback() ;; return nil"%string).
Proof.
  exact (conj gen_mem_well_locked (conj gen_mem_skeletons_match (conj gen_mem_ops_frozen
        (conj gen_mutate_in_tx (conj gen_single_statements gen_sqlite_commit_rolls_back))))).
Qed.
Print Assumptions C06_source_shape.

(** ** Non-vacuity *)

(** The lock hypothesis of the reduction theorem is necessary, and the model
    can exhibit the failure it excludes: an increment made of a read and a
    write under no lock, run by two goroutines, loses an update (final value
    1; every sequential order gives 2). *)
Definition incrU : Sched.call nat nat nat :=
  UCall [(fun _ s => (s, s)); (fun l s => (l, S l))] 0 (fun l => l).
Definition progU (i : tid) : list (Sched.call nat nat nat) :=
  match i with 0 | 1 => [incrU] | _ => [] end.

Ltac ufwd R tac :=
  eapply ReachStep in R; [|tac];
  cbn [Sched.sh Sched.ths Sched.done] in R.

Example C06_lost_update_without_lock :
  exists cfg,
    reachable nat nat nat (init nat nat nat progU 0) cfg /\
    quiescent nat nat nat cfg /\
    List.length (done nat nat nat cfg) = 2 /\
    sh nat nat nat cfg = 1 /\
    fst (seq_run nat nat nat 0 (Sched.calls_of nat nat nat (done nat nat nat cfg))) = 2.
Proof.
  pose proof (ReachRefl nat nat nat (init nat nat nat progU 0)) as R.
  unfold Sched.init in R at 2.
  ufwd R ltac:(eapply StNoLock with (i := 0); reflexivity).
  ufwd R ltac:(eapply StNoLock with (i := 1); reflexivity).
  ufwd R ltac:(eapply StMicro with (i := 0); reflexivity).
  ufwd R ltac:(eapply StMicro with (i := 1); reflexivity).
  ufwd R ltac:(eapply StMicro with (i := 0); reflexivity).
  ufwd R ltac:(eapply StMicro with (i := 1); reflexivity).
  ufwd R ltac:(eapply StReturn with (i := 0); reflexivity).
  ufwd R ltac:(eapply StReturn with (i := 1); reflexivity).
  eexists. split; [exact R|].
  split; [|repeat split].
  intros j. destruct j as [|[|j]]; cbn; eauto.
Qed.

(** A schedule of the memory backend: goroutine 0 increments "k" (Lock,
    three micro-steps, return), goroutine 1 then reads it under RLock. *)
Definition ex_key : key := [107%N].
Definition ex_m0 : table := [(ex_key, ([], [48%N]))].
Definition ex_bprog (i : tid) : list bop :=
  match i with 0 => [BMutate ex_key mf_incr] | 1 => [BGet ex_key] | _ => [] end.

Ltac fwd R tac :=
  eapply ReachStep in R; [|tac];
  cbn [Sched.sh Sched.ths Sched.done] in R.

Example C06_nonvacuous_mem :
  exists cfg,
    mreachable (minit (mem_prog ex_bprog) ex_m0) cfg /\
    mem_quiet cfg /\
    mresults (mdone cfg) = [RUnit; RBytes [49%N]] /\
    msh cfg = [(ex_key, ([], [49%N]))].
Proof.
  pose proof (ReachRefl table loc result (minit (mem_prog ex_bprog) ex_m0)) as R.
  unfold Sched.init in R at 2.
  fwd R ltac:(eapply StLock with (i := 0); [reflexivity|reflexivity|
               intros j; destruct j as [|[|j]]; cbn; tauto]).
  fwd R ltac:(eapply StMicro with (i := 0); reflexivity).
  fwd R ltac:(eapply StMicro with (i := 0); reflexivity).
  fwd R ltac:(eapply StMicro with (i := 0); reflexivity).
  fwd R ltac:(eapply StReturn with (i := 0); reflexivity).
  fwd R ltac:(eapply StRLock with (i := 1); [reflexivity|reflexivity|
               intros j; destruct j as [|[|j]]; cbn; tauto]).
  fwd R ltac:(eapply StMicro with (i := 1); reflexivity).
  fwd R ltac:(eapply StMicro with (i := 1); reflexivity).
  fwd R ltac:(eapply StReturn with (i := 1); reflexivity).
  eexists. split; [exact R|].
  split; [|split; vm_compute; reflexivity].
  intros j. destruct j as [|[|j]]; vm_compute; tauto.
Qed.

(** A schedule of the sqlite backend: two connections both SELECT the
    counter; connection 0 gets RESERVED; connection 1's UPDATE is refused
    (BUSY, rolled back); connection 0 commits.  One increment applied, one
    reported BUSY and not applied. *)
Definition ex_qprog (i : tid) : list bop :=
  match i with 0 | 1 => [BMutate ex_key mf_incr] | _ => [] end.

Ltac qfwd R tac :=
  eapply QReachStep in R; [|tac];
  cbn [qret qdb qths qdone] in R.

Example C06_nonvacuous_sql :
  exists cfg,
    qreachable deployed_methods (qinit ex_qprog ex_m0) cfg /\
    qresults (qdone cfg) = [RErr EBusy; RUnit] /\
    qops (applied (qdone cfg)) = [BMutate ex_key mf_incr] /\
    qdb cfg = [(ex_key, ([], [49%N]))].
Proof.
  pose proof (QReachRefl deployed_methods (qinit ex_qprog ex_m0)) as R.
  unfold qinit in R at 2.
  qfwd R ltac:(eapply QSelect with (i := 0); reflexivity).
  qfwd R ltac:(eapply QSelect with (i := 1); reflexivity).
  qfwd R ltac:(eapply QUpdate with (i := 0); [reflexivity|reflexivity| |reflexivity];
               intros j Hj; destruct j as [|[|j]]; cbn; tauto).
  qfwd R ltac:(eapply QBusyRead with (i := 1); reflexivity).
  qfwd R ltac:(eapply QCommit with (i := 0); [reflexivity|];
               intros j Hj; destruct j as [|[|j]]; cbn; tauto).
  eexists. split; [exact R|]. repeat split; vm_compute; reflexivity.
Qed.

(** The history checker accepts a linearizable history and rejects one with
    a lost update (two increments reported ok, final value 1). *)
Example C06_nonvacuous_checker :
  let incr := UMutate ex_key mf_incr in
  accepts_history [UAdd ex_key [48%N]]
    [mkH 1 4 incr RUnit; mkH 2 3 incr RUnit] [(ex_key, Some [50%N])] = true /\
  accepts_history [UAdd ex_key [48%N]]
    [mkH 1 4 incr RUnit; mkH 2 3 incr RUnit] [(ex_key, Some [49%N])] = false /\
  accepts_history [UAdd ex_key [48%N]]
    [mkH 1 2 (UGet ex_key) (RBytes [49%N]); mkH 3 4 incr RUnit] [(ex_key, Some [49%N])] = false.
Proof. vm_compute. repeat split. Qed.

(** READ COMMITTED, SELECT without row lock: both transactions read "0", the
    first writes "1" and commits, the second writes its own "1" and commits.
    Two successful increments, counter 1 - and the statement above is false. *)
Example C06_psql_read_committed_lost_update :
  exists cfg,
    preachable false (pinit pg_prog pg_db0) cfg /\
    presults (pdone cfg) = [RUnit; RUnit] /\
    pdb cfg = [(pg_key, ([], [49%N]))] /\
    fst (run mem_step pg_db0 (pops (pdone cfg))) = [(pg_key, ([], [50%N]))].
Proof. exact pg_rc_lost_update. Qed.

Example C06_stmt_psql_mutate_serializable_refuted : ~ stmt_psql_mutate_serializable.
Proof.
  intros H. destruct pg_rc_lost_update as (cfg & Hr & _ & Hdb & Hseq).
  specialize (H pg_prog pg_db0 cfg Hr). rewrite H in Hseq. cbn [fst] in Hseq.
  rewrite Hdb in Hseq. discriminate.
Qed.

(** a backend that runs the transaction again after SQLITE_BUSY, with the
    decode target of today (the caller's variable): stored {a,b}, the function
    adds c, the first attempt is refused, another Mutate removes b, the second
    attempt reads {a} - the function is shown {a,b,c} and that is written *)
Example C06_reused_target_refuted :
  let g := tins 99%N in
  attempts retrying_shape g [] [[97; 98]; [97]]%N = ([[97; 98]; [97; 98; 99]], [97; 98; 99])%N /\
  attempts (mkMShape false true) g [] [[97; 98]; [97]]%N = ([[97; 98]; [97]], [97; 99])%N.
Proof. exact reused_target_refuted. Qed.

(** update, then emplace when no row was affected: two callers on an absent
    key, both updates before either emplace - both calls return nil, one
    token is gone; on an existing key the same code is harmless *)
Example C06_update_then_emplace_refuted :
  let tokens := [[49]; [50]]%N in
  let '(pcs, s) := run2 tokens [0; 1; 0; 1]%nat None in
  all_done pcs = true /\ s = Some [49]%N /\
  run_upserts [[49]; [50]]%N None = Some [49; 50]%N /\ run_upserts [[50]; [49]]%N None = Some [50; 49]%N.
Proof. exact update_then_emplace_refuted. Qed.

Example C06_update_then_emplace_existing_ok :
  let tokens := [[49]; [50]]%N in
  snd (run2 tokens [0; 1; 0; 1]%nat (Some [48]%N)) = Some [48; 49; 50]%N.
Proof. exact update_then_emplace_existing_ok. Qed.
