(** C18 — objects: the code itself (semantic tie).  Property theorems only:
    each is closed by a lemma of Obj/CodeRefine.v, which proves that the body
    of [isValidKey] (objects/fs.go) as gen/gotrans.go translates it on every
    run (Gen/CodeObj.v) computes the model [valid_key] of Obj/Base.v on ALL
    strings (the Go loop ranges over runes, the model over bytes).  Kept apart
    from Props/C18.v so that a failing refinement lemma does not take the
    model-level theorems down with it. *)
From Coq Require Import List NArith ZArith Bool.
From Verif Require Import Lib.Bytes Lib.Codec Lib.GoLib Obj.Base Gen.CodeObj Obj.CodeCands Obj.CodeRefine.
Import ListNotations.
Local Open Scope N_scope.

Theorem C18_code_isValidKey_is_model : forall k,
  gen_objects_isValidKey k = valid_key std_key_len std_key_ranges k.
Proof. exact gen_isValidKey_is_model. Qed.
Print Assumptions C18_code_isValidKey_is_model.

Theorem C18_code_hex_key_valid : forall d,
  is_bytes d -> length d = 32%nat -> gen_objects_isValidKey (hex_encode d) = true.
Proof. exact code_hex_key_valid. Qed.
Print Assumptions C18_code_hex_key_valid.

(** Non-vacuity, and the rune/byte difference: 62 letters followed by the
    two bytes of U+00E9 are 64 bytes but not a key. *)
Example C18_code_isValidKey_example :
  gen_objects_isValidKey (repeat 97 64) = true /\
  gen_objects_isValidKey (repeat 97 62 ++ [195; 169]) = false /\
  gen_objects_isValidKey (repeat 97 63 ++ [65]) = false /\
  gen_objects_isValidKey (repeat 97 63) = false.
Proof. vm_compute. repeat split. Qed.
