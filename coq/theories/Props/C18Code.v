(** C18 — objects: the code itself (semantic tie).  Property theorems only:
    each is closed by a lemma of Obj/CodeRefine.v, which proves that the body
    of [isValidKey] (objects/fs.go) as gen/gotrans.go translates it on every
    run (Gen/CodeObj.v) computes the model [valid_key] of Obj/Base.v on ALL
    strings (the Go loop ranges over runes, the model over bytes).  Kept apart
    from Props/C18.v so that a failing refinement lemma does not take the
    model-level theorems down with it. *)
From Coq Require Import List NArith ZArith Bool.
From Verif Require Import Lib.Bytes Lib.Codec Lib.GoLib Obj.Base Obj.CheckReader Obj.CheckReaderProofs
  Gen.CodeObj Obj.CodeCands Obj.CodeRefine.
Import ListNotations.
Local Open Scope N_scope.

Theorem C18_code_isValidKey_is_model : forall k,
  gen_objects_isValidKey k = valid_key std_key_len std_key_ranges k.
Proof. exact gen_isValidKey_is_model. Qed.
Print Assumptions C18_code_isValidKey_is_model.

Theorem C18_code_hex_key_valid : forall d,
  is_bytes d -> length d = 32%nat -> gen_objects_isValidKey (hex_encode d) = true.
Proof. exact code_hex_key_valid. Qed.
Print Assumptions C18_code_hex_key_valid.

(** [hashutil.CheckReader.Read], one call, given what the underlying reader
    did ([n] bytes into [buf], status [st]); sha256 is any function [D]. *)
Theorem C18_code_CheckReader_Read_is_model :
  forall (D : bytes -> bytes) (r : cr) (buf : bytes) (n : Z) (st : rstat),
  (0 <= n <= go_len buf)%Z -> go_sized buf ->
  run_Read D r buf n st = model_Read D r buf n st.
Proof. exact gen_CheckReader_Read_is_model. Qed.
Print Assumptions C18_code_CheckReader_Read_is_model.

(** The final comparison: the status passed on is the verdict on everything
    read so far (io.EOF exactly when the declared length and the digest match). *)
Theorem C18_code_CheckReader_Read_verdict :
  forall (D : bytes -> bytes) (r : cr) (buf : bytes) (n : Z) (st : rstat),
  (0 <= n <= go_len buf)%Z -> go_sized buf ->
  cr_ok r -> (lenZ (cr_acc r ++ firstn (Z.to_nat n) buf) < two63Z)%Z ->
  run_Read D r buf n st =
    (n, verdict D (cr_wantlen r) (cr_want r) (cr_acc r ++ firstn (Z.to_nat n) buf) st,
     lenZ (cr_acc r ++ firstn (Z.to_nat n) buf), cr_acc r ++ firstn (Z.to_nat n) buf).
Proof. exact code_Read_verdict. Qed.
Print Assumptions C18_code_CheckReader_Read_verdict.

(** Non-vacuity, and the rune/byte difference: 62 letters followed by the
    two bytes of U+00E9 are 64 bytes but not a key. *)
Example C18_code_isValidKey_example :
  gen_objects_isValidKey (repeat 97 64) = true /\
  gen_objects_isValidKey (repeat 97 62 ++ [195; 169]) = false /\
  gen_objects_isValidKey (repeat 97 63 ++ [65]) = false /\
  gen_objects_isValidKey (repeat 97 63) = false.
Proof. vm_compute. repeat split. Qed.
