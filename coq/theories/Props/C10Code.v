(** C10 — caco3 incremental build: the code itself (semantic tie).  Property
    theorems only: each is closed by a lemma of Caco/CodeRefineBuild.v, which
    proves that the body of [sameFileStat] (caco3/file_stat.go) as
    gen/gotrans.go translates it on every run (Gen/CodeCaco.v) computes the
    model's [stat_eqb] on ALL pairs of stat records.  Kept apart from
    Props/C10.v so that a failing refinement lemma does not take the
    model-level theorems down with it. *)
From Coq Require Import String.
From Coq Require Import List NArith ZArith Bool.
From Verif Require Import Lib.Path Lib.GoLib Caco.Build Gen.CodeCaco Caco.CodeCandsBuild Caco.CodeRefineBuild.
Import ListNotations.
Local Open Scope N_scope.

Theorem C10_code_sameFileStat_is_model : forall cur st,
  run_sameFileStat (true, None) cur st = (stat_eqb cur st, None).
Proof. exact gen_sameFileStat_is_model. Qed.
Print Assumptions C10_code_sameFileStat_is_model.

(** A source file counts as unchanged exactly when size, mtime, mode and
    symlink target are all what was recorded. *)
Theorem C10_code_sameFileStat_iff : forall cur st,
  fst (run_sameFileStat (true, None) cur st) = true <-> cur = st.
Proof. exact code_sameFileStat_iff. Qed.
Print Assumptions C10_code_sameFileStat_iff.

(** A file that is gone is "changed", not an error; other stat failures are
    passed on with their class. *)
Theorem C10_code_sameFileStat_errors : forall present k m cur st,
  run_sameFileStat (present, Some (GoErr k m)) cur st =
    if String.eqb k "NotFound" then (false, None)
    else (false, Some (GoErr k ("check current: " ++ m)%string)).
Proof. exact code_sameFileStat_errors. Qed.
Print Assumptions C10_code_sameFileStat_errors.

Example C10_code_sameFileStat_example :
  run_sameFileStat (true, None) (mkStat 5 7 420 "") (mkStat 5 7 420 "") = (true, None) /\
  run_sameFileStat (true, None) (mkStat 5 8 420 "") (mkStat 5 7 420 "") = (false, None) /\
  run_sameFileStat (true, None) (mkStat 5 7 420 "x") (mkStat 5 7 420 "") = (false, None).
Proof. vm_compute. repeat split. Qed.
