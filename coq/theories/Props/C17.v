(** C17 — archive extraction never writes outside the destination;
    ZipDir/UnzipDir round trip.  Property theorems only; each is closed by a
    lemma proved in Lib/Path.v, Arch/ExtractProofs.v, Arch/ZipRoundProofs.v or
    Arch/ExtractGen.v. *)
From Coq Require Import List NArith Bool String.
From Verif Require Import Lib.Path Arch.Extract Arch.ExtractProofs Arch.ZipRound Arch.ZipRoundProofs
  Arch.Round3 Arch.ExtractGen Gen.ArchSkeleton.
Import ListNotations.
Local Open Scope N_scope.

(** ** Confinement *)

(** [UnzipDir(dir, r, clear)], for EVERY destination string, clear flag,
    entry list (names, kinds, modes, contents), working directory, umask and
    initial file system: a position whose content differs afterwards is at or
    beneath the destination, or is an ancestor of the destination that did
    not exist and is now a directory. *)
Theorem C17_unzip_confined : forall c f dir clear es D,
  resolve (cwd c) (clean dir) = Some D ->
  forall k,
    lookup (snd (unzip c f dir clear es)) k = lookup f k \/
    is_prefix D k = true \/
    (is_prefix k D = true /\ lookup f k = None /\
     is_dir_node (lookup (snd (unzip c f dir clear es)) k) = true).
Proof. exact unzip_confined. Qed.
Print Assumptions C17_unzip_confined.

(** [writeTarToDir(r, destDir)], likewise. *)
Theorem C17_untar_confined : forall c dir D es,
  resolve (cwd c) (clean dir) = Some D ->
  forall f k,
    lookup (snd (untar c f dir es)) k = lookup f k \/
    is_prefix D k = true \/
    (is_prefix k D = true /\ lookup f k = None /\
     is_dir_node (lookup (snd (untar c f dir es)) k) = true).
Proof. exact untar_confined. Qed.
Print Assumptions C17_untar_confined.

(** With the destination's ancestors in place nothing outside the
    destination changes at all. *)
Theorem C17_nothing_outside_changes : forall D f f',
  confined D f f' ->
  (forall k, is_prefix k D = true -> k <> D -> lookup f k <> None) ->
  forall k, is_prefix D k = false -> lookup f' k = lookup f k.
Proof. exact confined_strict. Qed.
Print Assumptions C17_nothing_outside_changes.

(** Hostile entries are refused before anything is written for them, and the
    extraction stops. *)
Theorem C17_unzip_refuses_outside : forall c f dir e rest,
  in_dir dir (filepath_join [dir; e_name e]) = false ->
  unzip_entries c f dir (e :: rest) = (XRefused, f).
Proof. exact unzip_refuses_outside. Qed.
Print Assumptions C17_unzip_refuses_outside.

Theorem C17_untar_refuses_outside : forall c f dir e rest,
  in_dir dir (filepath_join [dir; e_name e]) = false ->
  untar c f dir (e :: rest) = (XRefused, f).
Proof. exact untar_refuses_outside. Qed.
Print Assumptions C17_untar_refuses_outside.

(** What the containment test means, in path elements: a target that passes
    has the destination's clean elements followed by real elements only, and
    resolves beneath the destination from any working directory. *)
Theorem C17_containment_test_sound : forall dir p,
  in_dir dir p = true ->
  is_rooted (clean p) = is_rooted (clean dir) /\
  exists rest, nsegs (clean p) = nsegs (clean dir) ++ rest /\ forallb normalb rest = true.
Proof. exact in_dir_segments. Qed.
Print Assumptions C17_containment_test_sound.

Theorem C17_containment_test_resolves : forall cwd dir p kd k,
  in_dir dir p = true ->
  resolve cwd (clean dir) = Some kd -> resolve cwd (clean p) = Some k ->
  is_prefix kd k = true.
Proof. exact in_dir_resolve. Qed.
Print Assumptions C17_containment_test_resolves.

(** ... and nothing that stays beneath is refused: an entry name made of real
    elements passes, for every destination string. *)
Theorem C17_containment_test_complete : forall dir ks,
  forallb goodb ks = true ->
  in_dir dir (filepath_join [dir; join_slash ks]) = true.
Proof. exact in_dir_join_good. Qed.
Print Assumptions C17_containment_test_complete.

(** ** Entry types *)

(** Tar entries that are neither regular files nor directories — symbolic
    links, hard links, character and block devices, fifos — are never
    written: the extraction stops with "not supported" (or refuses the name),
    leaving the file system as it was.  So an archive cannot plant a link
    that a later entry would be written through. *)
Theorem C17_untar_links_and_devices_never_written : forall c f dir e,
  e_kind e = KOther ->
  snd (untar_entry c f dir e) = f /\
  (fst (untar_entry c f dir e) = Some XUnsupported \/ fst (untar_entry c f dir e) = Some XRefused).
Proof. exact untar_other_writes_nothing. Qed.
Print Assumptions C17_untar_links_and_devices_never_written.

(** Zip entries whose mode says symbolic link, device, fifo or socket are
    written as regular files holding the entry's bytes, exactly as a regular
    entry with the same permission bits would be. *)
Theorem C17_unzip_link_modes_become_regular_files : forall c f dir e,
  e_kind e <> KDir ->
  unzip_entry c f dir e =
  unzip_entry c f dir {| e_name := e_name e; e_kind := KFile; e_perm := e_perm e; e_data := e_data e |}.
Proof. exact unzip_non_dir_is_regular. Qed.
Print Assumptions C17_unzip_link_modes_become_regular_files.

(** [writeFirstFileAs] uses no entry name at all: only the caller's file can
    change. *)
Theorem C17_first_file_confined : forall c file es f k,
  (forall t, resolve (cwd c) file = Some t -> k <> t) ->
  lookup (snd (first_file_as c f file es)) k = lookup f k.
Proof. exact first_file_confined. Qed.
Print Assumptions C17_first_file_confined.

(** ** Round trip *)

(** Extracting [ZipDir]'s entry list of a well-formed tree into an absent
    (or cleared) destination whose ancestors are directories succeeds, puts
    exactly the tree under the destination — same relative paths, contents,
    file modes; directory modes as [mkdir] leaves them under the umask — and
    changes nothing else. *)
Theorem C17_zip_roundtrip : forall c f dir D t,
  wf_tree t = true ->
  forallb goodb (cwd c) = true ->
  dir <> [] ->
  resolve (cwd c) dir = Some D ->
  dest_ready f D ->
  exists f',
    unzip_entries c f dir (zip_dir t) = (XOk, f') /\
    (forall r, lookup f' (D ++ r) = option_map (under_umask (umask c)) (lookup t r)) /\
    (forall k, is_prefix D k = false -> lookup f' k = lookup f k).
Proof. exact zip_roundtrip. Qed.
Print Assumptions C17_zip_roundtrip.

(** The usual call, [UnzipDir(dir, r, true)]: whatever the destination held
    before is gone, the tree is there, nothing else changed. *)
Theorem C17_zip_roundtrip_clear : forall c f dir D t,
  wf_tree t = true ->
  forallb goodb (cwd c) = true ->
  resolve (cwd c) dir = Some D ->
  D <> [] -> ends_with_dot dir = false ->
  forallb (fun k => is_dir_node (lookup f k)) (proper_prefixes D) = true ->
  exists f',
    unzip c f dir true (zip_dir t) = (XOk, f') /\
    (forall r, lookup f' (D ++ r) = option_map (under_umask (umask c)) (lookup t r)) /\
    (forall k, is_prefix D k = false -> lookup f' k = lookup f k).
Proof. exact zip_roundtrip_clear. Qed.
Print Assumptions C17_zip_roundtrip_clear.

(** [ZipFile] then [UnzipDir]: the one file, same name, content and mode. *)
Theorem C17_zip_file_roundtrip : forall c f dir D name pm d,
  goodb name = true ->
  forallb goodb (cwd c) = true ->
  dir <> [] ->
  resolve (cwd c) dir = Some D ->
  dest_ready f D ->
  exists f',
    unzip_entries c f dir (zip_file name pm d) = (XOk, f') /\
    lookup f' (D ++ [name]) = Some (NFile (N.land pm perm_mask) d) /\
    (forall k, is_prefix D k = false -> lookup f' k = lookup f k).
Proof. exact zip_file_roundtrip. Qed.
Print Assumptions C17_zip_file_roundtrip.

(** ** Round 3: usage patterns *)

(** ANY sequence of extractions into one destination — zip with or without
    clear, tar, in any order, each with any archive, also after a refusal,
    and with anybody removing parts of the destination in between — leaves
    everything outside the destination as it was before the first call. *)
Theorem C17_sequence_of_calls_confined : forall c dir D xs f,
  resolve (cwd c) (clean dir) = Some D ->
  confined D f (do_calls c dir D f xs).
Proof. exact calls_confined. Qed.
Print Assumptions C17_sequence_of_calls_confined.

(** [tarutil.TarZipFile] followed by the tar extractor: confined whatever
    the zip file holds and whatever directory name the entries are put
    under. *)
Theorem C17_tarzip_then_untar_confined : forall c dir D sub zes,
  resolve (cwd c) (clean dir) = Some D ->
  forall f k,
    lookup (snd (untar c f dir (tar_zip sub zes))) k = lookup f k \/
    is_prefix D k = true \/
    (is_prefix k D = true /\ lookup f k = None /\
     is_dir_node (lookup (snd (untar c f dir (tar_zip sub zes))) k) = true).
Proof. exact tar_zip_untar_confined. Qed.
Print Assumptions C17_tarzip_then_untar_confined.

(** "Same permission bits", literally: with umask 0 and modes that [chmod] /
    [mkdir] can represent (07777 for files, 01777 for directories) the
    extracted tree IS the original tree. *)
Theorem C17_zip_roundtrip_exact : forall c f dir D t,
  wf_tree t = true ->
  forallb goodb (cwd c) = true ->
  dir <> [] ->
  resolve (cwd c) dir = Some D ->
  dest_ready f D ->
  umask c = 0 -> modes_plain t = true ->
  exists f',
    unzip_entries c f dir (zip_dir t) = (XOk, f') /\
    (forall r, lookup f' (D ++ r) = lookup t r) /\
    (forall k, is_prefix D k = false -> lookup f' k = lookup f k).
Proof. exact zip_roundtrip_exact. Qed.
Print Assumptions C17_zip_roundtrip_exact.

(** ZipDir, then TarZipFile with no directory prefix, then the tar extractor
    ([Cont.CopyOut]'s): the tree arrives, modes as [mkdir] and [open] leave
    them under the umask, nothing else changes. *)
Theorem C17_tar_roundtrip : forall c f dir D t,
  wf_tree t = true ->
  dir <> [] ->
  resolve (cwd c) dir = Some D ->
  dest_ready f D ->
  exists f',
    untar c f dir (tar_zip [] (zip_dir t)) = (XOk, f') /\
    (forall r, lookup f' (D ++ r) = option_map (tar_node (umask c)) (lookup t r)) /\
    (forall k, is_prefix D k = false -> lookup f' k = lookup f k).
Proof. exact tar_roundtrip. Qed.
Print Assumptions C17_tar_roundtrip.

(** Entries within ONE call: an entry whose own resolved name is outside the
    destination is refused at whatever position of the archive it stands —
    after a directory entry that resolves to the destination itself ("./",
    which ZipDir emits first; "/"; "a/../"), after any run of benign entries —
    unless an earlier entry already stopped the extraction; nothing is
    written for it or after it. *)
Theorem C17_unzip_refuses_outside_anywhere : forall c dir e rest pre f,
  in_dir dir (filepath_join [dir; e_name e]) = false ->
  unzip_entries c f dir (pre ++ e :: rest) =
  match fst (unzip_entries c f dir pre) with
  | XOk => (XRefused, snd (unzip_entries c f dir pre))
  | _ => unzip_entries c f dir pre
  end.
Proof. exact unzip_refuses_outside_anywhere. Qed.
Print Assumptions C17_unzip_refuses_outside_anywhere.

Theorem C17_untar_refuses_outside_anywhere : forall c dir e rest pre f,
  in_dir dir (filepath_join [dir; e_name e]) = false ->
  untar c f dir (pre ++ e :: rest) =
  match fst (untar c f dir pre) with
  | XOk => (XRefused, snd (untar c f dir pre))
  | _ => untar c f dir pre
  end.
Proof. exact untar_refuses_outside_anywhere. Qed.
Print Assumptions C17_untar_refuses_outside_anywhere.

(** The name that is checked is the name that is written.  For ANY rewriting
    [rw] of the entry name between the containment test and the writing calls
    (the deployed loop is [rw] = identity, [C17_unzip_is_rw_identity]): if the
    rewritten name would pass the test whenever the raw one does, extraction
    stays confined.  A separator translation after the test (backslash to
    slash for entries stamped FAT / NTFS) does not have that property:
    [C17_separator_translation_after_check_refuted]. *)
Theorem C17_checked_name_is_written_name : forall rw c dir D es,
  rw_safe dir rw ->
  resolve (cwd c) (clean dir) = Some D ->
  forall f, confined D f (snd (unzip_entries_rw rw c f dir es)).
Proof. exact unzip_entries_rw_confined. Qed.
Print Assumptions C17_checked_name_is_written_name.

Theorem C17_unzip_is_rw_identity : forall c f dir e,
  unzip_entry c f dir e = unzip_entry_rw (fun n => n) c f dir e.
Proof. exact unzip_entry_is_rw_id. Qed.
Print Assumptions C17_unzip_is_rw_identity.

(** Not proved: the same with a directory prefix [S] handed to TarZipFile
    (the tree arrives under [D ++ S]; [D] and the directories of [S] are
    created with the root entry's mode).  [C17_tar_roundtrip] is the case
    [S = []]; the prefixed case is exercised by the tzround stream (dir =
    ctx, ctx/sub, ".") and its containment is [C17_tarzip_then_untar_confined]. *)
Definition stmt_tar_roundtrip_prefixed : Prop := forall c f dir D S t,
  wf_tree t = true -> forallb goodb S = true ->
  dir <> [] -> resolve (cwd c) dir = Some D -> dest_ready f D ->
  exists f',
    untar c f dir (tar_zip (join_slash S) (zip_dir t)) = (XOk, f') /\
    (forall r, lookup f' (D ++ S ++ r) = option_map (tar_node (umask c)) (lookup t r)) /\
    (forall k, is_prefix D k = false -> lookup f' k = lookup f k).

(** ** The model is the current source *)

Theorem C17_source_as_modelled :
  gen_src_unzip = model_src_unzip /\ gen_calls_unzip = model_calls_unzip /\
  gen_src_untar = model_src_untar /\ gen_calls_untar = model_calls_untar /\
  gen_src_unzip_inDir = model_src_unzip_inDir /\ gen_src_untar_inDir = model_src_untar_inDir /\
  gen_src_createFile = model_src_createFile /\
  gen_src_zipDir = model_src_zipDir /\ gen_src_zipFile = model_src_zipFile /\
  gen_check_first_unzip = true /\ gen_check_first_untar = true /\
  gen_src_openInTemp = model_src_openInTemp /\ gen_src_tarZipFile = model_src_tarZipFile /\
  gen_src_copyZipFile = model_src_copyZipFile.
Proof.
  exact (conj arch_src_unzip_unchanged (conj arch_calls_unzip_unchanged
        (conj arch_src_untar_unchanged (conj arch_calls_untar_unchanged
        (conj arch_src_unzip_inDir_unchanged (conj arch_src_untar_inDir_unchanged
        (conj arch_src_createFile_unchanged (conj arch_src_zipDir_unchanged
        (conj arch_src_zipFile_unchanged (conj arch_unzip_check_first (conj arch_untar_check_first
        (conj arch_src_openInTemp_unchanged (conj arch_src_tarZipFile_unchanged arch_src_copyZipFile_unchanged))))))))))))).
Qed.
Print Assumptions C17_source_as_modelled.

(** The exported callers of the extractors are the extractors: [Cont.CopyOut]
    touches the file system only through [writeTarToDir], [Cont.CopyOutFile]
    only through [writeFirstFileAs], that one only through [createFile]; each
    hands on its own destination parameter unchanged, and [writeFirstFileAs]
    reads no entry name.  (Decided on the call skeletons regenerated from
    dock/cont.go and dock/write_tar.go.) *)
Theorem C17_containment_decided_per_entry :
  gen_check_cond_unzip = "!inDir(dir, name)"%string /\ gen_check_cond_untar = "!inDir(destDir, dest)"%string.
Proof. exact arch_check_unconditional. Qed.
Print Assumptions C17_containment_decided_per_entry.

Theorem C17_checked_expression_is_used_expression :
  gen_checked_expr_unzip = "name"%string /\ gen_checked_defs_unzip = ["filepath.Join(dir, f.Name)"%string] /\
  all_in ["name"%string; "filepath.Dir(name)"%string] gen_write_paths_unzip = true /\
  gen_checked_expr_untar = "dest"%string /\
  gen_checked_defs_untar = ["filepath.Join(destDir, filepath.FromSlash(header.Name))"%string] /\
  gen_dir_defs_untar = ["filepath.Dir(dest)"%string] /\
  all_in ["dest"%string; "dir"%string] gen_write_paths_untar = true.
Proof. exact arch_checked_is_used. Qed.
Print Assumptions C17_checked_expression_is_used_expression.

Theorem C17_destination_is_a_path_not_a_pattern : gen_unzip_glob_calls = [].
Proof. exact arch_no_pattern_matching. Qed.
Print Assumptions C17_destination_is_a_path_not_a_pattern.

Theorem C17_callers_are_the_modelled_extractors :
  (only_writer "writeTarToDir" gen_calls_copyout = true /\ gen_dest_arg_copyout = gen_dest_param_copyout) /\
  (only_writer "writeFirstFileAs" gen_calls_copyoutfile = true /\ gen_dest_arg_copyoutfile = gen_dest_param_copyoutfile) /\
  (only_writer "createFile" gen_calls_firstfile = true /\ gen_dest_arg_firstfile = gen_dest_param_firstfile /\
   gen_uses_entry_name_firstfile = false).
Proof.
  exact (conj arch_copyout_is_the_modelled_extractor
        (conj arch_copyoutfile_is_the_modelled_extractor arch_firstfile_ignores_entry_names)).
Qed.
Print Assumptions C17_callers_are_the_modelled_extractors.

(** ** Non-vacuity *)

Definition ex_cfg : cfg := {| cwd := [bs "sb"]; umask := 18 |}.
Definition ex_fs : fs :=
  [ ([], NDir 493); ([bs "sb"], NDir 493); ([bs "sb"; bs "dest"], NDir 493);
    ([bs "sb"; bs "evil.txt"], NFile 384 (bs "pre-existing")) ].
Definition ex_entries : list entry :=
  [ {| e_name := bs "ok.txt"; e_kind := KFile; e_perm := 420; e_data := bs "fine" |};
    {| e_name := bs "../evil.txt"; e_kind := KFile; e_perm := 420; e_data := bs "evil" |} ].

(** The parent-reference entry is refused; the benign one before it was
    extracted; the file outside is untouched. *)
Example C17_nonvacuous_refusal :
  resolve (cwd ex_cfg) (clean (bs "/sb/dest")) = Some [bs "sb"; bs "dest"] /\
  fst (unzip ex_cfg ex_fs (bs "/sb/dest") false ex_entries) = XRefused /\
  lookup (snd (unzip ex_cfg ex_fs (bs "/sb/dest") false ex_entries)) [bs "sb"; bs "dest"; bs "ok.txt"]
    = Some (NFile 420 (bs "fine")) /\
  lookup (snd (unzip ex_cfg ex_fs (bs "/sb/dest") false ex_entries)) [bs "sb"; bs "evil.txt"]
    = Some (NFile 384 (bs "pre-existing")) /\
  fst (untar ex_cfg ex_fs (bs "dest") ex_entries) = XRefused /\
  in_dir (bs "dest") (filepath_join [bs "dest"; bs "../destx/evil.txt"]) = false /\
  in_dir (bs "dest") (filepath_join [bs "dest"; bs "../dest/ok.txt"]) = true /\
  in_dir (bs "dest") (filepath_join [bs "dest"; bs "..a/b"]) = true /\
  in_dir [] (filepath_join [[]; bs "/abs/evil.txt"]) = false.
Proof. vm_compute. repeat split. Qed.

(** A sequence: a hostile archive (refused part-way), the destination
    removed by somebody, a benign archive with clear, the hostile one again
    through the tar extractor: the file outside is what it was. *)
Example C17_nonvacuous_sequence :
  let D := [bs "sb"; bs "dest"] in
  let xs := [XUnzip false ex_entries; XForeign []; XUnzip true [hd (Build_entry [] KFile 0 []) ex_entries];
             XUntar ex_entries] in
  resolve (cwd ex_cfg) (clean (bs "/sb/dest")) = Some D /\
  lookup (do_calls ex_cfg (bs "/sb/dest") D ex_fs xs) [bs "sb"; bs "evil.txt"] = Some (NFile 384 (bs "pre-existing")) /\
  lookup (do_calls ex_cfg (bs "/sb/dest") D ex_fs xs) [bs "sb"; bs "dest"; bs "ok.txt"] = Some (NFile 420 (bs "fine")).
Proof. vm_compute. repeat split. Qed.

(** What deciding per entry is relied upon for.  With a memo of directories
    "already checked" ([unzip_entries_memo], NOT the deployed code) the root
    entry "./" records the destination's PARENT as checked, and the next
    entry, one level above the destination, is written outside — while the
    same entry alone is refused, and the deployed loop refuses it in both
    positions. *)
Example C17_memo_polluted_by_root_entry_refuted :
  let c := ex_cfg in
  let f := ex_fs in
  let root := {| e_name := bs "./"; e_kind := KDir; e_perm := 493; e_data := [] |} in
  let up := {| e_name := bs "../evil.txt"; e_kind := KFile; e_perm := 420; e_data := bs "evil" |} in
  fst (unzip_entries_memo c f (bs "/sb/dest") [] [root; up]) = XOk /\
  lookup (snd (unzip_entries_memo c f (bs "/sb/dest") [] [root; up])) [bs "sb"; bs "evil.txt"]
    = Some (NFile 420 (bs "evil")) /\
  fst (unzip_entries_memo c f (bs "/sb/dest") [] [up]) = XRefused /\
  unzip_entries c f (bs "/sb/dest") [root; up] = (XRefused, f) /\
  unzip_entries c f (bs "/sb/dest") [up] = (XRefused, f).
Proof. vm_compute. repeat split. Qed.

(** A separator translation AFTER the test (NOT the deployed code): the raw
    name [..\evil.txt] is one harmless path element and passes; the translated
    name is written one level above the destination.  The deployed loop writes
    a file whose name contains a backslash, inside. *)
Example C17_separator_translation_after_check_refuted :
  let up := {| e_name := bs "..\evil.txt"; e_kind := KFile; e_perm := 420; e_data := bs "evil" |} in
  in_dir (bs "/sb/dest") (filepath_join [bs "/sb/dest"; e_name up]) = true /\
  in_dir (bs "/sb/dest") (filepath_join [bs "/sb/dest"; unbackslash (e_name up)]) = false /\
  fst (unzip_entries_rw unbackslash ex_cfg ex_fs (bs "/sb/dest") [up]) = XOk /\
  lookup (snd (unzip_entries_rw unbackslash ex_cfg ex_fs (bs "/sb/dest") [up])) [bs "sb"; bs "evil.txt"]
    = Some (NFile 420 (bs "evil")) /\
  lookup (snd (unzip_entries ex_cfg ex_fs (bs "/sb/dest") [up])) [bs "sb"; bs "evil.txt"]
    = Some (NFile 384 (bs "pre-existing")) /\
  lookup (snd (unzip_entries ex_cfg ex_fs (bs "/sb/dest") [up])) [bs "sb"; bs "dest"; bs "..\evil.txt"]
    = Some (NFile 420 (bs "evil")).
Proof. vm_compute. repeat split. Qed.

Definition ex_tree : tree :=
  [ ([bs "a-b"], NFile 420 (bs "1")); ([], NDir 509); ([bs "a"; bs "b"], NFile 384 (bs "2"));
    ([bs "a"], NDir 448) ].

(** Walk order is element-wise ("a/b" before "a-b"), and the hypotheses of
    the round-trip theorem are met by a concrete tree and file system. *)
Example C17_nonvacuous_roundtrip :
  map e_name (zip_dir ex_tree) = [bs "./"; bs "a/"; bs "a/b"; bs "a-b"] /\
  wf_tree ex_tree = true /\
  dest_ready ex_fs [bs "sb"; bs "out"] /\
  fst (unzip_entries ex_cfg ex_fs (bs "out") (zip_dir ex_tree)) = XOk /\
  lookup (snd (unzip_entries ex_cfg ex_fs (bs "out") (zip_dir ex_tree))) [bs "sb"; bs "out"]
    = Some (NDir 493) /\
  lookup (snd (unzip_entries ex_cfg ex_fs (bs "out") (zip_dir ex_tree))) [bs "sb"; bs "out"; bs "a"; bs "b"]
    = Some (NFile 384 (bs "2")).
Proof.
  split; [vm_compute; reflexivity|]. split; [vm_compute; reflexivity|].
  split; [vm_compute; reflexivity|]. vm_compute. repeat split.
Qed.

(** The exact round trip and the tar round trip are not vacuous. *)
Example C17_nonvacuous_exact_and_tar :
  let c0 := {| cwd := [bs "sb"]; umask := 0 |} in
  modes_plain ex_tree = true /\
  lookup (snd (unzip_entries c0 ex_fs (bs "out") (zip_dir ex_tree))) [bs "sb"; bs "out"] = Some (NDir 509) /\
  fst (untar ex_cfg ex_fs (bs "out") (tar_zip [] (zip_dir ex_tree))) = XOk /\
  lookup (snd (untar ex_cfg ex_fs (bs "out") (tar_zip [] (zip_dir ex_tree)))) [bs "sb"; bs "out"; bs "a-b"]
    = Some (NFile 420 (bs "1")) /\
  map e_name (tar_zip (bs "ctx") (zip_dir ex_tree)) = [bs "ctx"; bs "ctx/a"; bs "ctx/a/b"; bs "ctx/a-b"].
Proof. vm_compute. repeat split. Qed.
