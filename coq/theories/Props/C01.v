(** C01 — sniproxy: proxied byte streams are transparent in every tunnel
    mode.  Property theorems only; each is closed by a lemma of
    Sni/StreamProofs.v, Sni/StreamClose.v, Sni/StreamGen.v or
    Sni/HelloProofs.v, instantiated with the constants regenerated from /repo
    (Gen/StreamConsts.v, Gen/HelloConsts.v). *)
From Coq Require Import List NArith Bool.
From Verif Require Import Lib.Bytes Sni.Wire Sni.Hello Sni.HelloProofs Sni.Stream Sni.StreamProofs
  Sni.StreamClose Sni.ReadBuf Sni.ReadBufProofs Sni.ReadHold Sni.ReadHoldProofs Sni.PendingAge Sni.PendingAgeProofs Sni.TunnelCtx Sni.SideDeadline Sni.SideRead Sni.SideReadProofs Sni.StreamGen Gen.StreamConsts Gen.HelloConsts Gen.WireSchema Sni.WireGen.
Import ListNotations.
Local Open Scope N_scope.

(** ** Whole directions: all payloads, all splits, all schedules, both
    stream mechanisms (Siding and Siding+DialWithAddr share every stage) *)

(** What the application has read so far, followed by what is still in
    flight, is exactly what the client wrote, ClientHello first: nothing lost,
    duplicated, reordered or inserted.  With nothing left in flight the whole
    stream has arrived. *)
Theorem C01_to_app_transparent : forall m sc stream outs left,
  Forall (fun x => 0 < x) (sc_app sc) ->
  to_app m gen_hello_buf_size gen_side_chunk sc stream = (outs, left) ->
  concat outs ++ left = stream.
Proof.
  exact (fun m sc stream outs left =>
           to_app_transparent m gen_hello_buf_size gen_side_chunk sc stream outs left
             gen_hello_cap_ge5 gen_side_chunk_pos).
Qed.
Print Assumptions C01_to_app_transparent.

Theorem C01_to_client_transparent : forall m sc ws outs left,
  Forall (fun x => 0 < x) (sc_copy sc) ->
  to_client m gen_decode_alloc_max gen_max_read_size gen_side_chunk sc ws = (outs, left) ->
  concat outs ++ left = concat ws.
Proof.
  exact (fun m sc ws outs left =>
           to_client_transparent m gen_decode_alloc_max gen_max_read_size gen_side_chunk sc ws
             outs left gen_side_chunk_pos).
Qed.
Print Assumptions C01_to_client_transparent.

(** If both sides keep the connection open the whole stream arrives: when
    the proxy's copy loop and the final reader keep issuing Reads with
    non-empty buffers (as many Reads as there are bytes always suffice),
    nothing stays in flight - whatever the splits and schedules. *)
Theorem C01_to_app_complete : forall m sc stream,
  Forall (fun x => 0 < x) (sc_copy sc) -> Forall (fun x => 0 < x) (sc_app sc) ->
  (List.length stream <= List.length (sc_copy sc))%nat ->
  (List.length stream <= List.length (sc_app sc))%nat ->
  exists outs, to_app m gen_hello_buf_size gen_side_chunk sc stream = (outs, []) /\
               concat outs = stream.
Proof.
  exact (fun m sc stream =>
           to_app_complete m gen_hello_buf_size gen_side_chunk sc stream
             gen_hello_cap_ge5 gen_side_chunk_pos).
Qed.
Print Assumptions C01_to_app_complete.

Theorem C01_to_client_complete : forall m sc ws,
  Forall (fun x => 0 < x) (sc_copy sc) -> Forall (fun old => old <> []) (sc_bufs sc) ->
  (List.length (concat ws) <= List.length (sc_copy sc))%nat ->
  (List.length (concat ws) + List.length ws <= List.length (sc_bufs sc))%nat ->
  exists outs,
    to_client m gen_decode_alloc_max gen_max_read_size gen_side_chunk sc ws = (outs, []) /\
    concat outs = concat ws.
Proof.
  exact (fun m sc ws =>
           to_client_complete m gen_decode_alloc_max gen_max_read_size gen_side_chunk sc ws
             gen_side_chunk_pos eq_refl).
Qed.
Print Assumptions C01_to_client_complete.

(** The stream received does not depend on the tunnel mode. *)
Theorem C01_mode_independent : forall sc1 sc2 stream o1 o2,
  Forall (fun x => 0 < x) (sc_app sc1) -> Forall (fun x => 0 < x) (sc_app sc2) ->
  to_app TLegacy gen_hello_buf_size gen_side_chunk sc1 stream = (o1, []) ->
  to_app TSide gen_hello_buf_size gen_side_chunk sc2 stream = (o2, []) ->
  concat o1 = concat o2 /\ concat o1 = stream.
Proof.
  exact (fun sc1 sc2 stream o1 o2 =>
           to_app_mode_independent gen_hello_buf_size gen_side_chunk sc1 sc2 stream o1 o2
             gen_hello_cap_ge5 gen_side_chunk_pos).
Qed.
Print Assumptions C01_mode_independent.

(** The first byte the application reads is the first byte of the hello. *)
Theorem C01_first_byte : forall m sc stream outs left x r,
  Forall (fun x => 0 < x) (sc_app sc) ->
  to_app m gen_hello_buf_size gen_side_chunk sc stream = (outs, left) ->
  concat outs = x :: r -> exists r', stream = x :: r'.
Proof.
  exact (fun m sc stream outs left x r =>
           to_app_first_byte m gen_hello_buf_size gen_side_chunk sc stream outs left x r
             gen_hello_cap_ge5 gen_side_chunk_pos).
Qed.
Print Assumptions C01_first_byte.

(** ** The stages *)

(** sideConn.Write: returns len(buf); the frames, in order, are buf cut into
    non-empty pieces of at most the chunk size, all but the last exactly it. *)
Theorem C01_side_write_frames : forall buf,
  exists fs,
    side_write gen_side_chunk buf = WDone (lenN buf) fs /\
    concat fs = buf /\
    Forall (frame_ok gen_side_chunk) fs /\
    Forall (fun f => lenN f = gen_side_chunk) (removelast fs).
Proof. exact (fun buf => side_write_spec gen_side_chunk buf gen_side_chunk_pos). Qed.
Print Assumptions C01_side_write_frames.

(** A Write that fails part-way - NextWriter, the message writer's Write
    after accepting any number of bytes, or its Close, at any frame: the call
    returns a non-nil error together with n (never a silent short count); n
    is exactly the number of bytes of the completed messages plus what the
    failing message accepted (for a failing Close: the whole message, whose
    delivery is then unknown), and those bytes are a prefix of the buffer.
    Zero-length buffers: no message, n = 0 ([C01_side_write_frames]). *)
Theorem C01_side_write_failure : forall buf fail_at how,
  match side_write_f gen_side_chunk buf fail_at how with
  | WOkF n fs => n = lenN buf /\ concat fs = buf
  | WErrF n fs part =>
      n <= lenN buf /\ concat fs ++ part = firstn (N.to_nat n) buf /\ n = lenN (concat fs ++ part)
  | WFuelF => False
  end.
Proof.
  exact (fun buf fa how => side_write_f_spec gen_side_chunk buf fa how gen_side_chunk_pos).
Qed.
Print Assumptions C01_side_write_failure.

(** sideConn.Read with a non-empty buffer, any state of the curReader
    machine, any behaviour of the message reader: data (non-empty, at most the
    buffer, the next bytes owed) or an end that is reported only when nothing
    is owed; never more than the buffer; the loop never runs out of fuel. *)
Theorem C01_side_read : forall m ks s got e s' ks',
  0 < m -> side_read m ks s = (got, e, s', ks') -> read_post m (owed s) got e s'.
Proof. exact side_read_spec. Qed.
Print Assumptions C01_side_read.

(** Writes, then anything (CloseWrite's text message, a close frame, a lost
    connection), read back with any buffer sizes: the bytes written before the
    end marker, in order, and the end only after all of them. *)
Theorem C01_side_roundtrip : forall ws tail ms ks outs e s',
  Forall (fun m => 0 < m) ms ->
  side_reads ms ks (mkS None (side_writes gen_side_chunk ws ++ tail)) = (outs, e, s') ->
  concat outs ++ owed_after e s' = concat ws ++ bin_prefix tail.
Proof.
  exact (fun ws tail ms ks outs e s' =>
           side_roundtrip gen_side_chunk ws tail ms ks outs e s' gen_side_chunk_pos).
Qed.
Print Assumptions C01_side_roundtrip.

(** tunnel.Read: the reply of handleRead always fits the caller's buffer, is
    decoded in place, and buf[:n] is exactly what was read from the pipe. *)
Theorem C01_tunnel_read_in_place : forall old p r,
  tunnel_read gen_decode_alloc_max gen_max_read_size old p = Some r ->
  exists data p', r = (Some data, p') /\
    pipe_read (N.min (lenN old) gen_max_read_size) p = Some (data, p') /\
    lenN data <= lenN old /\ lenN data <= gen_max_read_size.
Proof. exact (tunnel_read_spec gen_decode_alloc_max gen_max_read_size). Qed.
Print Assumptions C01_tunnel_read_in_place.

(** The legacy mode's chunks cross the wire unchanged (C13's codec). *)
Theorem C01_legacy_wire : forall id sess chunk cap,
  id < two64 -> sess < two64 -> lenN chunk < two63 ->
  fst (start_call gen_alloc_max gen_table
         (request_frame id 3 (enc_schema [KU64; KBytes] [VU64 sess; VBytes chunk])))
  = CReq id 3 write_request_name [VU64 sess; VBytes chunk] /\
  exists d,
    client_decode gen_alloc_max cap [KBytes; KErr]
      (reply_frame id 4 0 (enc_schema [KBytes; KErr] [VBytes chunk; VErr None]))
    = (HReply id 4, Some ([VBytes chunk; VErr None], d)) /\ err d = None.
Proof.
  exact (fun id sess chunk cap Hid Hs Hc =>
           conj (legacy_write_wire id sess chunk Hid Hs Hc) (legacy_read_wire cap id chunk Hid Hc)).
Qed.
Print Assumptions C01_legacy_wire.

(** ** Progress: with both sides open, bytes owed do arrive *)
Theorem C01_progress :
  (forall m ks s got e s' ks',
     0 < m -> owed s <> [] -> side_read m ks s = (got, e, s', ks') -> e = SNil /\ got <> []) /\
  (forall m w r, 0 < m -> w <> [] ->
     exists got p', pipe_read m (w :: r) = Some (got, p') /\ got <> []) /\
  (forall m b got e b',
     binv gen_hello_buf_size b -> 0 < m -> remaining b <> [] ->
     bread gen_hello_buf_size m b = (got, e, b') ->
     (List.length (remaining b') < List.length (remaining b))%nat /\ got <> []).
Proof.
  exact (conj side_read_progress (conj pipe_read_progress
          (fun m b got e b' Hinv =>
             bread_progress gen_hello_buf_size m b got e b'
               (N.lt_le_trans 0 5 _ eq_refl gen_hello_cap_ge5) Hinv))).
Qed.
Print Assumptions C01_progress.

(** ** Closing: the other side's pending and later reads end *)

(** With JoinConn's policy as regenerated from the source (a returning copy
    loop runs closeAll, which closes both connections): wherever the system
    can go no further after either side closed - even if nobody writes any
    more - the application's and the client's pending Reads and the Reads they
    issue afterwards have returned, both copy loops have ended and both
    connections are closed; until then some step is enabled; and no execution
    has more than eleven steps. *)
Theorem C01_close_ends_reads :
  (forall s, quiescent gen_close_policy s = true -> cc s = true \/ ac s = true ->
     ra s = true /\ ra2 s = true /\ rc s = true /\ rc2 s = true /\
     g1 s = true /\ g2 s = true /\ fp s = true /\ rp s = true) /\
  (forall s, cc s = true \/ ac s = true ->
     ra s = false \/ ra2 s = false \/ rc s = false \/ rc2 s = false ->
     exists r, In r read_rules /\ enabled CloseBoth r s = true) /\
  (forall p rs s s', run_rules p s rs = Some s' -> (List.length rs <= 11)%nat).
Proof.
  exact (conj (fun s => close_ends_reads gen_close_policy s gen_close_policy_both)
          (conj never_stuck run_length_bound)).
Qed.
Print Assumptions C01_close_ends_reads.

(** The dependency, explicit.  sideConn.Read forgets the end marker: once the
    websocket is closed no Read ever blocks, but while it stays open and
    silent a Read after the end marker blocks; so under a JoinConn that only
    passed the end marker on, the application's later Reads would be
    stranded.  The later-read clause of the property holds because, and only
    because, closeAll closes the dialled connection. *)
Theorem C01_later_reads_need_the_close :
  (forall m ks s got e s' ks',
     has_sticky (s_in s) = true -> side_read m ks s = (got, e, s', ks') ->
     e <> SBlock /\ has_sticky (s_in s') = true) /\
  (forall m ks r, side_read m ks (mkS None (MText :: r)) = ([], SEof, mkS None r, ks)) /\
  (forall m ks, side_read m ks (mkS None []) = ([], SBlock, mkS None [], ks)) /\
  (exists s,
     run_rules HalfClose cinit [EClientClose; G1ReadEnds; CopyEnd; AppReadEnds; ClientReadEnds;
                                ClientLaterReadEnds] = Some s /\
     quiescent HalfClose s = true /\ cc s = true /\ ra s = true /\ ra2 s = false).
Proof.
  exact (conj side_read_closed_never_blocks (conj text_marker_is_forgotten
          (conj later_read_blocks_while_open half_close_strands_later_reads))).
Qed.
Print Assumptions C01_later_reads_need_the_close.

(** ** sideConn.Read across message boundaries (side modes, both directions)

    Messages arrive as fragments: several per message, fragments and whole
    messages of zero length, and a connection that is lost in the middle of a
    message.  From every state of the curReader machine, with any non-empty
    buffer and any behaviour of the message reader: a Read returns the next
    bytes that have arrived (at least one, at most the buffer), or the end
    marker only when nothing before it is owed, or an error only after
    everything that had arrived was delivered (with it or before it), or it
    would block only when everything that arrived has been delivered. *)
Theorem C01_side_read_fragments : forall m ks s got e s' ks',
  0 < m -> side_read_f m ks s = (got, e, s', ks') -> read_post_f m (owed_f s) got e s'.
Proof. exact side_read_f_spec. Qed.
Print Assumptions C01_side_read_fragments.

(** Any sequence of buffer sizes over any sequence of such messages: what the
    Reads returned - including bytes returned together with an error - is
    what had arrived, in order, nothing lost, repeated or inserted. *)
Theorem C01_side_reads_fragments : forall ms ks s outs e s',
  Forall (fun m => 0 < m) ms ->
  side_reads_f ms ks s = (outs, e, s') ->
  concat outs ++ (match e with RNil => owed_f s' | _ => [] end) = owed_f s.
Proof. exact side_reads_f_spec. Qed.
Print Assumptions C01_side_reads_fragments.

(** A close in the middle of a message is never taken for the end of the
    stream: while the cut message is being read the result is data or an
    error, never io.EOF and never a block; once its fragments are exhausted
    every Read fails. *)
Theorem C01_cut_message_is_an_error : forall m q ks frs got e s' ks',
  0 < m ->
  (sr_loop q m ks frs false = (got, e, s', ks') -> e = RNil \/ e = RErrS) /\
  side_read_f m ks (mkR (Some ([], false)) q) = ([], RErrS, mkR (Some ([], false)) q, tl ks).
Proof.
  exact (fun m q ks frs got e s' ks' Hm =>
           conj (cut_never_eof m q ks frs got e s' ks' Hm) (cut_is_sticky m ks q)).
Qed.
Print Assumptions C01_cut_message_is_an_error.

(** ** Whose bytes a read reply carries (multiplexed tunnel, application -> client)

    Each read RPC is served by its own goroutine of the endpoint: obtain a
    buffer, conn.Read into it, return a response that points into the buffer;
    serveCall encodes the response later, under writeMu.  Any number of such
    handler threads (one per outstanding read of any session), any
    interleaving of their steps, any behaviour of a pool: with a fresh buffer
    per call, or a pooled one that is given back only after the encoding, the
    bytes encoded into the reply of call i are the bytes read for call i. *)
Theorem C01_read_reply_is_what_was_read : forall pol (data : nat -> bytes) sch i r,
  pol <> BPutBeforeEncode ->
  t_reply (th (run pol data init sch) i) = Some r -> r = data i.
Proof. exact (fun pol data sch i r H => reply_is_what_was_read pol data H sch i r). Qed.
Print Assumptions C01_read_reply_is_what_was_read.

(** ... and the skeleton emitted from the current handleRead / serveCall is
    the fresh-buffer one. *)
Theorem C01_read_reply_is_what_was_read_here : forall (data : nat -> bytes) sch i r,
  policy_of gen_read_buf = Some BFresh /\
  (t_reply (th (run BFresh data init sch) i) = Some r -> r = data i).
Proof.
  exact (fun data sch i r =>
           conj gen_read_buf_policy
                (reply_is_what_was_read BFresh data (fun H => match H with eq_refl => I end) sch i r)).
Qed.
Print Assumptions C01_read_reply_is_what_was_read_here.

(** A shared pooled buffer given back when the handler returns (seeded change
    C01-f): refuted - with two calls in flight the first reply carries the
    second call's bytes. *)
Theorem C01_pooled_read_buffer_refuted :
  let data := fun i : nat => match i with O => [10; 11; 12]%N | _ => [20; 21; 22]%N end in
  t_reply (th (run BPutBeforeEncode data init crossed_schedule) 0) = Some (data 1%nat) /\
  data 1%nat <> data 0%nat.
Proof. exact put_before_encode_crossed. Qed.
Print Assumptions C01_pooled_read_buffer_refuted.

(** ** Idle sessions do not starve an active one (multiplexed tunnel)

    Every open session keeps one read call outstanding, blocked in conn.Read
    while its application is silent.  The handlers of the current source hold
    nothing shared across that blocking call ([gen_read_held] = [], emitted
    from handleRead / handleWrite), so with ANY number of silent sessions a
    session whose application has written is answered by its own two steps. *)
Theorem C01_idle_sessions_never_starve_a_read : forall st i pc,
  hold_of gen_read_held = HoldNone /\
  (nth_error st i = Some (mkHS pc true) -> pc <= 1 ->
   exists st', (st' = hstep HoldNone st i \/ st' = hstep HoldNone (hstep HoldNone st i) i) /\
               nth_error st' i = Some (mkHS 2 true))%nat.
Proof. exact (fun st i pc => conj (proj1 gen_read_hold_none) (read_with_data_completes st i pc)). Qed.
Print Assumptions C01_idle_sessions_never_starve_a_read.

(** A bounded semaphore held across the blocking read (seeded change C01-h):
    refuted - [cap] silent sessions and one with data: no handler can move,
    the written bytes never leave although everything stays open; with one
    slot more the active session starts. *)
Theorem C01_idle_sessions_never_starve_a_read_refuted : forall cap i,
  (h_enabled (HoldSem cap) (starved cap) i = false /\
   nth_error (starved cap) cap = Some (mkHS 0 true)) /\
  h_enabled (HoldSem (S cap)) (repeat (mkHS 1 false) cap ++ [mkHS 0 true]) cap = true.
Proof. exact (fun cap i => conj (semaphore_starves cap i) (one_slot_free cap)). Qed.
Print Assumptions C01_idle_sessions_never_starve_a_read_refuted.

(** ** A pending read does not age (multiplexed tunnel)

    The application->client direction of a silent session is a read call that
    stays in the serve loop's pending table.  With the eviction rule emitted
    from the current source (only the entry under the id just handed out is
    looked up), for every history of sends and replies: a call that was sent
    and whose own reply has not been fetched is still pending after ANY number
    of newer calls - no step depends on the distance between ids. *)
Theorem C01_pending_call_does_not_age : forall before after id,
  evict_of gen_pending_evict_keys = EvictSameId /\
  (id = p_next (prun EvictSameId before) ->
   ~ In (PReply id) after ->
   In id (p_pending (prun EvictSameId (before ++ PSend :: after)))).
Proof.
  exact (fun before after id => conj gen_pending_evict_same_id (pending_until_own_reply before after id)).
Qed.
Print Assumptions C01_pending_call_does_not_age.

(** A windowed eviction (seeded change C01-i): refuted - the call with id 0 is
    sent, w+1 newer calls follow, its reply was never fetched: it is no longer
    pending, it was failed with errTooLong. *)
Theorem C01_pending_call_does_not_age_refuted : forall w,
  let s := prun (EvictWindow (S w)) (PSend :: repeat PSend (S w)) in
  ~ In 0%nat (p_pending s) /\ In 0%nat (p_evicted s).
Proof. exact window_evicts_old_call. Qed.
Print Assumptions C01_pending_call_does_not_age_refuted.

(** ** Delivery does not depend on the lifetime of the dial's context

    The context stored in a tunnel, as emitted from the current source, is its
    own (context.TODO()), and hostConn derives no timeout / cancellable
    context: whenever the dial's context ends, an RPC of the tunnel at any
    instant still delivers. *)
Theorem C01_delivery_independent_of_dial_ctx : forall dial_done t,
  origin_of gen_tunnel_ctx_origin = Some CtxOwn /\ gen_hostconn_ctx_derivations = [] /\
  rpc_delivers dial_done CtxOwn t = true.
Proof.
  exact (fun dial_done t => conj (proj1 gen_tunnel_ctx_own)
                                 (conj (proj2 gen_tunnel_ctx_own) (own_ctx_always_delivers dial_done t))).
Qed.
Print Assumptions C01_delivery_independent_of_dial_ctx.

(** A tunnel that keeps the dial's context (seeded change C01-k): refuted -
    from the instant the dial context is done no RPC delivers. *)
Theorem C01_delivery_independent_of_dial_ctx_refuted : forall d,
  rpc_delivers (Some d) CtxDial d = false /\ (0 < d -> rpc_delivers (Some d) CtxDial 0 = true).
Proof. exact dial_ctx_dies. Qed.
Print Assumptions C01_delivery_independent_of_dial_ctx_refuted.

(** ** A cleared write deadline is cleared (side connections)

    With the recorded deadline handed to the websocket unconditionally (emitted
    from sideConn.applyWriteDeadline), after any history of SetWriteDeadline
    calls that ends with the zero time the websocket has no deadline and a
    write at any later instant is not failed by an old one. *)
Theorem C01_cleared_write_deadline_is_cleared : forall sets t,
  gen_sideconn_deadline_unconditional = true /\
  ws_after_sets false (sets ++ [None]) = None /\
  write_ok (ws_after_sets false (sets ++ [None])) t = true.
Proof. exact (fun sets t => conj gen_sideconn_deadline_applied_unconditionally (cleared_deadline_is_cleared sets t)). Qed.
Print Assumptions C01_cleared_write_deadline_is_cleared.

(** Skipping the zero time (seeded change C01-l): refuted. *)
Theorem C01_cleared_write_deadline_is_cleared_refuted : forall d,
  ws_after_sets true [Some d; None] = Some d /\ write_ok (ws_after_sets true [Some d; None]) d = false.
Proof. exact skipped_clear_keeps_old_deadline. Qed.
Print Assumptions C01_cleared_write_deadline_is_cleared_refuted.

(** ** The code the models were written against is the code in the tree *)
Theorem C01_source_tie :
  0 < gen_side_chunk /\ gen_side_chunk <= gen_ws_write_buf /\
  copy_buf <= StreamConsts.gen_max_read_size /\ 5 <= gen_hello_buf_size /\
  gen_close_policy = CloseBoth /\
  rb_ownedb gen_read_buf = true /\
  (holds_nothingb gen_read_held = true /\ holds_nothingb gen_write_held = true) /\
  evict_of gen_pending_evict_keys = EvictSameId /\
  list_eqb String.eqb gen_rpc_int_literals known_rpc_int_literals = true /\
  StreamGen.src_diff gen_stream_src frozen_stream_src = [].
Proof.
  exact (conj gen_side_chunk_pos (conj gen_side_chunk_fits (conj gen_copy_fits_read_cap
          (conj gen_hello_cap_ge5 (conj gen_close_policy_both
            (conj gen_read_buf_owned (conj gen_read_holds_nothing_shared
              (conj gen_pending_evict_same_id (conj gen_rpc_int_literals_known gen_stream_src_frozen))))))))).
Qed.
Print Assumptions C01_source_tie.

(** * Non-vacuity *)

(** An empty message, a message of three fragments with empty ones between
    them, an empty message, then a message of which two fragments arrive
    before the connection is lost, read with buffers of 2, 3, 100, 1 bytes:
    every byte that arrived, in order, then an error - and again an error. *)
Example C01_nonvacuous_fragments :
  let script := [ GBin [] true; GBin [[1; 2]; []; [3]; []; [4; 5; 6]] true; GBin [[]] true;
                  GBin [[7; 8]; [9]] false; GBin [[99]] true ] in
  let '(outs, e, s') := side_reads_f [2; 3; 100; 1; 5; 5; 5; 5] [] (mkR None script) in
  outs = [[1; 2]; [3]; [4; 5; 6]; [7]; [8]; [9]; []] /\ e = RErrS /\
  fst (fst (fst (side_read_f 4096 [] s'))) = [] /\ snd (fst (fst (side_read_f 4096 [] s'))) = RErrS /\
  owed_f (mkR None script) = [1; 2; 3; 4; 5; 6; 7; 8; 9].
Proof. vm_compute. repeat split. Qed.

(** A read is sent, 300 newer calls pass and all of them are answered: it is
    still pending under the emitted rule and nothing was failed; under a
    256-wide window it was failed after 256 of them. *)
Example C01_nonvacuous_age :
  let evs := PSend :: flat_map (fun i => [PSend; PReply (S i)]) (seq 0 300) in
  In 0%nat (p_pending (prun (evict_of gen_pending_evict_keys) evs)) /\
  p_evicted (prun (evict_of gen_pending_evict_keys) evs) = [] /\
  p_evicted (prun (EvictWindow 256) evs) = [0%nat].
Proof. vm_compute. repeat split. left. reflexivity. Qed.

(** 64 silent sessions and a 65th with data: under the emitted policy the
    65th completes in two steps; under a 64-slot semaphore it cannot start;
    with 63 silent ones it can. *)
Example C01_nonvacuous_idle :
  let st := starved 64 in
  nth_error (hstep (hold_of gen_read_held) (hstep (hold_of gen_read_held) st 64) 64) 64 = Some (mkHS 2 true) /\
  h_enabled (HoldSem 64) st 64 = false /\
  h_enabled (HoldSem 64) (starved 63) 63 = true.
Proof. vm_compute. repeat split. Qed.

(** Three read calls in flight with a fresh buffer each, steps interleaved:
    every reply is its own call's data; the same schedule with a pooled buffer
    that is given back after the encoding. *)
Example C01_nonvacuous_read_buffers :
  let data := fun i : nat => [N.of_nat i; 7]%N in
  let sch := [(0, false); (1, false); (1, false); (0, false); (2, false); (1, false); (0, false);
              (2, false); (2, false); (0, false); (1, false); (2, false)]%nat in
  map (fun i => t_reply (th (run BFresh data init sch) i)) [0; 1; 2]%nat
    = [Some (data 0%nat); Some (data 1%nat); Some (data 2%nat)] /\
  map (fun i => t_reply (th (run BPutAfterEncode data init sch) i)) [0; 1; 2]%nat
    = [Some (data 0%nat); Some (data 1%nat); Some (data 2%nat)].
Proof. vm_compute. split; reflexivity. Qed.

(** 4097 bytes are sent as a full frame and a one-byte frame. *)
Example C01_nonvacuous_write :
  match side_write gen_side_chunk (rep 7 4097) with
  | WDone n fs => n = 4097 /\ map lenN fs = [4096; 1]
  | WFuel => False
  end.
Proof. vm_compute. split; reflexivity. Qed.

(** An empty message, data cut across two messages, a reader that returns
    one byte at a time and reports the end together with the last byte, and a
    text message: five bytes, then EOF, and nothing of what follows the end
    marker. *)
Example C01_nonvacuous_read :
  side_reads [2; 2; 2; 2; 2; 2] [(1, true); (1, true); (1, true); (1, true); (1, true); (1, true)]
    (mkS None [MBin []; MBin [1; 2; 3]; MBin [4; 5]; MText; MBin [9]])
  = ([[1]; [2]; [3]; [4]; [5]; []], SEof, mkS None [MBin [9]]).
Proof. reflexivity. Qed.

Definition ex_stream : bytes :=
  build_hello (mkHello 769 771 (rep 7 32) [] [4865] [0] (Some [ESni [(0, [97; 46; 98])]])) []
  ++ rep 5 9000.

(** The same stream through both mechanisms with hostile schedules: 1-byte
    TCP segments at first, small application buffers. *)
Example C01_nonvacuous_to_app :
  let sc := mkSched ([1; 1; 1; 2; 3] ++ rep 1460 20) true (rep 32768 8) [(100, false); (1, true)]
                    (rep 7 3 ++ rep 4096 20) [] in
  match to_app TLegacy gen_hello_buf_size gen_side_chunk sc ex_stream,
        to_app TSide gen_hello_buf_size gen_side_chunk sc ex_stream with
  | (o1, l1), (o2, l2) =>
      l1 = [] /\ l2 = [] /\ concat o1 = ex_stream /\ concat o2 = ex_stream /\
      map lenN o1 <> map lenN o2
  end.
Proof. vm_compute. repeat split; discriminate. Qed.

(** Why decoding in place matters: had the reply been put in a fresh buffer,
    the caller of tunnel.Read would have looked at stale bytes. *)
Example C01_nonvacuous_in_place :
  let old := [170; 170; 170; 170] in
  let data := [1; 2; 3] in
  firstn 3 (buffer_after old data (dec_place gen_decode_alloc_max 4 3)) = data /\
  firstn 3 (buffer_after old data PAlloc) <> data.
Proof. vm_compute. split; [reflexivity|discriminate]. Qed.

(** Client closes: a run of the close system to quiescence. *)
Example C01_nonvacuous_close :
  run_rules gen_close_policy cinit
    [EClientClose; G1ReadEnds; CopyEnd; AppReadEnds; AppLaterReadEnds; G2ReadEnds;
     ClientReadEnds; ClientLaterReadEnds]
  = Some (mkC true false true true true true true true true true true) /\
  quiescent gen_close_policy (mkC true false true true true true true true true true true) = true.
Proof. split; reflexivity. Qed.

(** After data and the end marker, with the connection then closed: data,
    EOF, and every later Read returns an error at once; with the connection
    left open the later Read would block. *)
Example C01_nonvacuous_later_reads :
  side_reads [8; 8; 8; 8] [] (mkS None [MBin [1; 2]; MText; MErr])
    = ([[1; 2]; []], SEof, mkS None [MErr]) /\
  side_read 8 [] (mkS None [MErr]) = ([], SErr, mkS None [MErr], []) /\
  side_reads [8; 8] [] (mkS None [MBin [1; 2]; MText]) = ([[1; 2]; []], SEof, mkS None []) /\
  side_read 8 [] (mkS None []) = ([], SBlock, mkS None [], []).
Proof. repeat split. Qed.

(** 10 000 bytes, the third frame's Close fails: n = 10 000 (all three frames
    counted), two complete messages; NextWriter failing at the third frame:
    n = 8192; a zero-length Write sends nothing. *)
Example C01_nonvacuous_write_failure :
  (match side_write_f gen_side_chunk (rep 7 10000) (Some 2%nat) FClose with
   | WErrF n fs part => n = 10000 /\ map lenN fs = [4096; 4096] /\ lenN part = 1808
   | _ => False end) /\
  (match side_write_f gen_side_chunk (rep 7 10000) (Some 2%nat) FNext with
   | WErrF n fs part => n = 8192 /\ part = []
   | _ => False end) /\
  side_write gen_side_chunk [] = WDone 0 [].
Proof. vm_compute. repeat split. Qed.

(** Zero-length Writes of the application in the legacy direction: each is
    taken by one Read that returns no bytes; the stream is unaffected. *)
Example C01_nonvacuous_zero_writes :
  to_client TLegacy gen_decode_alloc_max gen_max_read_size gen_side_chunk
    (mkSched [2; 2] false [] [] [] (repeat [170; 170; 170; 170] 6)) [[]; [1; 2; 3]; []; [4]]
  = ([[1; 2]; [3; 4]], []).
Proof. reflexivity. Qed.
