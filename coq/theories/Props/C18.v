(** C18 — content-addressed objects and checked streams never yield wrong
    bytes.  Property theorems only; each is closed by a lemma proved in
    Obj/StoreProofs.v, Obj/MemProofs.v, Obj/CheckReaderProofs.v or
    Obj/ObjGen.v.  The statements are over the objects the translator
    regenerated from /repo (Gen/ObjSkel.v): the statement skeleton of
    fsObjects.Create and commit, isValidKey's syntax, mem's copy flags; when
    the source changes they no longer typecheck against the proved lemmas.
    [D] is SHA-256 as a function from byte strings to digests. *)
From Coq Require Import List NArith ZArith Bool Lia.
From Verif Require Import Lib.Bytes Obj.Base Obj.CheckReader Obj.CheckReaderProofs
  Obj.Store Obj.StoreProofs Obj.StoreLive Obj.StoreMulti Obj.Mem Obj.MemProofs Obj.Round3 Obj.ObjGen Gen.ObjSkel.
Import ListNotations.
Local Open Scope N_scope.

(** The state reached by threads running [Create] on [inputs] (one reader
    script each) over an initial directory [objs0], after schedule [sched]
    (which thread moves, whether its system call fails). *)
Notation runs D objs0 inputs sched :=
  (run D true gen_fs_commit gen_key_len gen_key_ranges (init_sys gen_fs_create objs0 inputs) sched).

(** ** File-system store *)

(** Any number of threads, any interleaving, any failing system calls, any
    input readers: every object file holds bytes that hash to its name. *)
Theorem C18_fs_objects_hash_to_their_key : forall D objs0 inputs sched k c,
  wf_objs D objs0 ->
  lookup_key k (objs (sfs (runs D objs0 inputs sched))) = Some c -> Hk D c = k.
Proof. exact fs_objects_well_keyed. Qed.
Print Assumptions C18_fs_objects_hash_to_their_key.

(** Open at any moment: bytes that hash to the key asked for, or not-found. *)
Theorem C18_fs_open_matching_bytes_or_notfound : forall D objs0 inputs sched k,
  wf_objs D objs0 ->
  match fs_open gen_key_len gen_key_ranges (sfs (runs D objs0 inputs sched)) k with
  | OFound c => Hk D c = k /\ valid_key gen_key_len gen_key_ranges k = true
  | ONotFound => True
  end.
Proof. exact fs_open_sound. Qed.
Print Assumptions C18_fs_open_matching_bytes_or_notfound.

(** A call that returned: its temp file is gone and it does not hold the
    lock; a key is the hash of the complete input, which ended cleanly, and
    is present; an error or panic means the call never wrote an object. *)
Theorem C18_fs_create_result : forall D objs0 inputs sched tid t s0 r,
  wf_objs D objs0 ->
  nth_error (sthr (runs D objs0 inputs sched)) tid = Some t ->
  nth_error inputs tid = Some s0 ->
  res t = Some r ->
  lookup_nat tid (tmp (sfs (runs D objs0 inputs sched))) = None /\
  lock (sfs (runs D objs0 inputs sched)) <> Some tid /\
  match r with
  | ROk k =>
      drain s0 = (acc t, REof) /\ k = Hk D (acc t) /\
      exists c, lookup_key k (objs (sfs (runs D objs0 inputs sched))) = Some c /\ Hk D c = k
  | RErr e =>
      committed t = false /\ (forall x, e = EInput x -> snd (drain s0) = RFail x)
  | RPanic =>
      committed t = false /\ exists x, valid_key gen_key_len gen_key_ranges (Hk D x) = false
  end.
Proof. exact fs_create_result. Qed.
Print Assumptions C18_fs_create_result.

(** An input that fails part-way can only produce an error, and no object. *)
Theorem C18_fs_failing_input_is_error : forall D objs0 inputs sched tid t s0 r e,
  wf_objs D objs0 ->
  nth_error (sthr (runs D objs0 inputs sched)) tid = Some t ->
  nth_error inputs tid = Some s0 ->
  res t = Some r -> snd (drain s0) = RFail e ->
  (forall k, r <> ROk k) /\ committed t = false.
Proof. exact fs_input_failure_is_error. Qed.
Print Assumptions C18_fs_failing_input_is_error.

(** Every object is an initial one or the complete input of a call that
    committed it, and such a call can only return that key. *)
Theorem C18_fs_objects_provenance : forall D objs0 inputs sched k c,
  wf_objs D objs0 ->
  lookup_key k (objs (sfs (runs D objs0 inputs sched))) = Some c ->
  In (k, c) objs0 \/
  exists tid t s0, nth_error (sthr (runs D objs0 inputs sched)) tid = Some t /\
                   nth_error inputs tid = Some s0 /\
                   committed t = true /\ drain s0 = (c, REof) /\ k = Hk D c /\
                   (forall r, res t = Some r -> r = ROk k).
Proof. exact fs_objects_provenance. Qed.
Print Assumptions C18_fs_objects_provenance.

(** Objects are never changed or removed by anything that happens later. *)
Theorem C18_fs_objects_stable : forall D objs0 inputs sched more k c,
  wf_objs D objs0 ->
  lookup_key k (objs (sfs (runs D objs0 inputs sched))) = Some c ->
  lookup_key k (objs (sfs (runs D objs0 inputs (sched ++ more)))) = Some c.
Proof. exact fs_objects_stable. Qed.
Print Assumptions C18_fs_objects_stable.

(** When all calls have returned, tmp/ is empty and the lock is free. *)
Theorem C18_fs_no_temp_left : forall D objs0 inputs sched,
  wf_objs D objs0 ->
  all_done (runs D objs0 inputs sched) ->
  tmp (sfs (runs D objs0 inputs sched)) = [] /\ lock (sfs (runs D objs0 inputs sched)) = None.
Proof. exact fs_no_temp_left. Qed.
Print Assumptions C18_fs_no_temp_left.

(** At every moment each temp file belongs to a call that is still running. *)
Theorem C18_fs_temp_has_live_owner : forall D objs0 inputs sched j c,
  wf_objs D objs0 ->
  lookup_nat j (tmp (sfs (runs D objs0 inputs sched))) = Some c ->
  exists t, nth_error (sthr (runs D objs0 inputs sched)) j = Some t /\ res t = None.
Proof. exact fs_temp_has_live_owner. Qed.
Print Assumptions C18_fs_temp_has_live_owner.

(** While some call has not returned, some thread can take a step. *)
Theorem C18_fs_no_deadlock : forall D objs0 inputs sched,
  wf_objs D objs0 ->
  ~ all_done (runs D objs0 inputs sched) ->
  exists tid t, nth_error (sthr (runs D objs0 inputs sched)) tid = Some t /\
                tstep D true gen_fs_commit gen_key_len gen_key_ranges false
                      (sfs (runs D objs0 inputs sched)) tid t <> None.
Proof. exact fs_no_deadlock. Qed.
Print Assumptions C18_fs_no_deadlock.

(** Every effective step uses up a budget fixed by the inputs: in any
    schedule whatsoever there are at most [sum (calls of the reader + 13)]
    of them (no livelock, every call takes a bounded number of own steps). *)
Theorem C18_fs_work_bounded : forall D objs0 inputs sched,
  (work (runs D objs0 inputs sched) <= list_sum (map (fun s => length s + 13) inputs))%nat.
Proof. exact fs_work_bounded. Qed.
Print Assumptions C18_fs_work_bounded.

(** From every reachable state the schedule can be continued so that all
    calls return. *)
Theorem C18_fs_can_always_finish : forall D objs0 inputs sched,
  wf_objs D objs0 ->
  exists more, all_done (runs D objs0 inputs (sched ++ more)).
Proof. exact fs_can_always_finish. Qed.
Print Assumptions C18_fs_can_always_finish.

(** No spurious failure: when no system call fails, a returned call whose
    input ended cleanly with content [c] returned the key of [c], and the
    object is there. *)
Theorem C18_fs_clean_input_returns_key : forall D objs0 inputs sched tid t s0 c r,
  (forall x, is_bytes (D x) /\ length (D x) = 32%nat) ->
  wf_objs D objs0 -> fault_free sched ->
  nth_error (sthr (runs D objs0 inputs sched)) tid = Some t ->
  nth_error inputs tid = Some s0 ->
  drain s0 = (c, REof) ->
  res t = Some r ->
  r = ROk (Hk D c) /\ lookup_key (Hk D c) (objs (sfs (runs D objs0 inputs sched))) <> None.
Proof. exact fs_clean_input_returns_key. Qed.
Print Assumptions C18_fs_clean_input_returns_key.

(** Once all calls have returned, the keys present are the initial ones and
    those returned by successful calls, whatever the schedule was. *)
Theorem C18_fs_final_keys : forall D objs0 inputs sched k,
  wf_objs D objs0 ->
  all_done (runs D objs0 inputs sched) ->
  (lookup_key k (objs (sfs (runs D objs0 inputs sched))) <> None <->
   lookup_key k objs0 <> None \/
   exists tid t, nth_error (sthr (runs D objs0 inputs sched)) tid = Some t /\ res t = Some (ROk k)).
Proof. exact fs_final_keys. Qed.
Print Assumptions C18_fs_final_keys.

(** The hypothesis on the initial directory is decidable. *)
Theorem C18_wf_objs_decidable : forall D o, wf_objsb D o = true -> wf_objs D o.
Proof. exact wf_objsb_sound. Qed.
Print Assumptions C18_wf_objs_decidable.

(** With a 32-byte digest the "invalid key generated" panic is unreachable. *)
Theorem C18_fs_no_panic : forall D objs0 inputs sched tid t,
  (forall x, is_bytes (D x) /\ length (D x) = 32%nat) ->
  wf_objs D objs0 ->
  nth_error (sthr (runs D objs0 inputs sched)) tid = Some t ->
  res t <> Some RPanic.
Proof. exact fs_no_panic. Qed.
Print Assumptions C18_fs_no_panic.

Theorem C18_digest_key_is_valid : forall d,
  is_bytes d -> length d = 32%nat ->
  valid_key gen_key_len gen_key_ranges (hex_encode d) = true.
Proof. exact hex_key_valid. Qed.
Print Assumptions C18_digest_key_is_valid.

(** ** A store opened again on its directory (a restarted process)

    What any generation of calls leaves behind is a well-formed initial
    directory for the next store object: all of the above holds again, any
    number of times; and objects of an earlier generation are still there,
    unchanged, at every moment of a later one. *)
Theorem C18_fs_restart : forall D objs0 inputs sched,
  wf_objs D objs0 -> wf_objs D (objs (sfs (runs D objs0 inputs sched))).
Proof. exact fs_restart_wf. Qed.
Print Assumptions C18_fs_restart.

Theorem C18_fs_restart_keeps_objects : forall D objs0 in1 sched1 in2 sched2 k c,
  wf_objs D objs0 ->
  let gen1 := objs (sfs (runs D objs0 in1 sched1)) in
  lookup_key k gen1 = Some c ->
  lookup_key k (objs (sfs (runs D gen1 in2 sched2))) = Some c.
Proof. exact fs_restart_keeps_objects. Qed.
Print Assumptions C18_fs_restart_keeps_objects.

(** The input reader is consumed from where it stands: for a reader handed in
    at offset [k] of an underlying stream [whole] (a *bytes.Reader, *os.File,
    *io.SectionReader ... after a header was read), with no failing system
    call, the key returned is that of [skipn k whole] — what could be read
    from the current position — and that object is there. *)
Theorem C18_fs_create_from_current_position : forall D objs0 inputs sched tid t whole k r,
  (forall x, is_bytes (D x) /\ length (D x) = 32%nat) ->
  wf_objs D objs0 -> fault_free sched ->
  nth_error (sthr (runs D objs0 inputs sched)) tid = Some t ->
  nth_error inputs tid = Some (reader_at whole k) ->
  res t = Some r ->
  r = ROk (Hk D (skipn k whole)) /\
  lookup_key (Hk D (skipn k whole)) (objs (sfs (runs D objs0 inputs sched))) <> None.
Proof. exact fs_create_from_current_position. Qed.
Print Assumptions C18_fs_create_from_current_position.

(** A failing input is a failing input whatever error VALUE it fails with
    (io.ErrUnexpectedEOF of a truncated gzip / http / tar stream, a closed
    pipe, a deadline, a cancelled context, an error that merely looks like
    EOF): for every relabelling [g] of the error values of the script, a call
    whose input fails part-way never returns a key, never committed, and its
    temp file is gone. *)
Theorem C18_failed_input_any_error_value : forall D objs0 inputs sched tid t s0 g r e,
  wf_objs D objs0 ->
  nth_error (sthr (runs D objs0 inputs sched)) tid = Some t ->
  nth_error inputs tid = Some (relabel g s0) ->
  res t = Some r ->
  snd (drain s0) = RFail e ->
  (forall k, r <> ROk k) /\ committed t = false /\
  lookup_nat tid (tmp (sfs (runs D objs0 inputs sched))) = None.
Proof. exact fs_failed_input_any_error_value. Qed.
Print Assumptions C18_failed_input_any_error_value.

(** A string that is not a key — a key with a path suffix, a character just
    outside the ranges, 64 characters that spell a path — is never found,
    whatever lies in or beside the directory. *)
Theorem C18_fs_non_key_never_found : forall st k,
  valid_key gen_key_len gen_key_ranges k = false ->
  fs_open gen_key_len gen_key_ranges st k = ONotFound /\ fs_has gen_key_len gen_key_ranges st k = false.
Proof. exact (invalid_key_never_found gen_key_len gen_key_ranges). Qed.
Print Assumptions C18_fs_non_key_never_found.

(** A key is one plain file name (64 characters; no separator, dot, NUL or
    backslash): its file is a direct child of the store directory. *)
Theorem C18_key_is_a_plain_file_name : forall k,
  valid_key gen_key_len gen_key_ranges k = true ->
  length k = 64%nat /\ Forall (fun ch => ch <> 47 /\ ch <> 46 /\ ch <> 0 /\ ch <> 92) k.
Proof. exact valid_key_plain_name. Qed.
Print Assumptions C18_key_is_a_plain_file_name.

(** ** Several store objects on one directory, files already in tmp/,
    threads calling Open and Has

    [excl] arbitrary ([false]: Lock excludes nobody — an upper bound for any
    number of store objects, each with its own mutex, on the same directory);
    [g] and [og] arbitrary guards (any discipline that only makes creating or
    observing threads wait: one mutex per store object — [guard_stores] —,
    the read lock of Open/Has or no read lock at all); [tmp0] files already
    lying in tmp/ under names no call will pick.  The one fact about the
    file system used here is that os.Rename installs the complete temp file
    under the final name in one step (statement CkRemoveOrRename of the
    generated skeleton); see [C18_copy_commit_open_sees_prefix_refuted]. *)

Notation gruns D excl g objs0 tmp0 inputs sched :=
  (grun D excl gen_fs_commit gen_key_len gen_key_ranges g
        (init_sys_tmp gen_fs_create objs0 tmp0 inputs) sched).

Theorem C18_multi_objects_hash_to_their_key : forall D excl g objs0 tmp0 inputs sched k c,
  wf_objs D objs0 -> strays_ok (length inputs) tmp0 ->
  lookup_key k (objs (sfs (gruns D excl g objs0 tmp0 inputs sched))) = Some c -> Hk D c = k.
Proof. exact multi_objects_well_keyed. Qed.
Print Assumptions C18_multi_objects_hash_to_their_key.

Theorem C18_multi_create_result : forall D excl g objs0 tmp0 inputs sched tid t s0 r,
  wf_objs D objs0 -> strays_ok (length inputs) tmp0 ->
  nth_error (sthr (gruns D excl g objs0 tmp0 inputs sched)) tid = Some t ->
  nth_error inputs tid = Some s0 ->
  res t = Some r ->
  lookup_nat tid (tmp (sfs (gruns D excl g objs0 tmp0 inputs sched))) = None /\
  match r with
  | ROk k =>
      drain s0 = (acc t, REof) /\ k = Hk D (acc t) /\
      exists c, lookup_key k (objs (sfs (gruns D excl g objs0 tmp0 inputs sched))) = Some c /\ Hk D c = k
  | RErr e => committed t = false /\ (forall x, e = EInput x -> snd (drain s0) = RFail x)
  | RPanic => committed t = false /\ exists x, valid_key gen_key_len gen_key_ranges (Hk D x) = false
  end.
Proof. exact multi_create_result. Qed.
Print Assumptions C18_multi_create_result.

(** When all calls have returned, tmp/ holds exactly what was lying there
    before; and those files are never touched at any moment. *)
Theorem C18_multi_no_temp_left : forall D excl g objs0 tmp0 inputs sched j,
  wf_objs D objs0 -> strays_ok (length inputs) tmp0 ->
  all_done (gruns D excl g objs0 tmp0 inputs sched) ->
  lookup_nat j (tmp (sfs (gruns D excl g objs0 tmp0 inputs sched))) = lookup_nat j tmp0.
Proof. exact multi_no_temp_left. Qed.
Print Assumptions C18_multi_no_temp_left.

Theorem C18_multi_strays_untouched : forall D excl g objs0 tmp0 inputs sched j,
  wf_objs D objs0 -> strays_ok (length inputs) tmp0 ->
  (length inputs <= j)%nat ->
  lookup_nat j (tmp (sfs (gruns D excl g objs0 tmp0 inputs sched))) = lookup_nat j tmp0.
Proof. exact multi_strays_untouched. Qed.
Print Assumptions C18_multi_strays_untouched.

Theorem C18_multi_objects_provenance : forall D excl g objs0 tmp0 inputs sched k c,
  wf_objs D objs0 -> strays_ok (length inputs) tmp0 ->
  lookup_key k (objs (sfs (gruns D excl g objs0 tmp0 inputs sched))) = Some c ->
  In (k, c) objs0 \/
  exists tid s0, nth_error inputs tid = Some s0 /\ drain s0 = (c, REof) /\ k = Hk D c.
Proof. exact multi_objects_provenance. Qed.
Print Assumptions C18_multi_objects_provenance.

(** Open and Has from any number of threads at any moments: what Open
    returns hashes to the key asked for and is the complete content of an
    initial object or of some call's whole input, never a file in the making. *)
Theorem C18_open_has_threads_sound : forall D excl g og objs0 tmp0 inputs obs sched j o r,
  wf_objs D objs0 -> strays_ok (length inputs) tmp0 ->
  nth_error (mo (mrun D excl gen_fs_commit gen_key_len gen_key_ranges g og
                      (minit gen_fs_create objs0 tmp0 inputs obs) sched)) j = Some (o, Some r) ->
  obs_sound D objs0 inputs o r.
Proof. exact multi_observers_sound. Qed.
Print Assumptions C18_open_has_threads_sound.

(** ** In-memory and mapped stores *)

(** Any sequence of Put/Create/Get/Open/Has (directly or through the mapped
    store), interleaved with clients allocating slices and overwriting any
    slice they hold: stored slices stay unreachable for clients and hash to
    their keys; every result is sound for its operation. *)
Theorem C18_mem_store_sound : forall D ops st,
  mem_ok D st ->
  mem_ok D (fst (mem_run D gen_mem_put_copies gen_mem_get_copies st ops)) /\
  Forall2 (res_sound D) ops (snd (mem_run D gen_mem_put_copies gen_mem_get_copies st ops)).
Proof. exact mem_run_ok. Qed.
Print Assumptions C18_mem_store_sound.

Theorem C18_mem_failed_create_noop : forall D st s e,
  snd (drain s) = RFail e ->
  mem_step D gen_mem_put_copies gen_mem_get_copies st (MCreate s) = (st, MRErr e) /\
  mem_step D gen_mem_put_copies gen_mem_get_copies st (MpCreate s) = (st, MRErr e).
Proof. exact mem_failed_create_noop. Qed.
Print Assumptions C18_mem_failed_create_noop.

Theorem C18_mem_create_then_found : forall D st s c,
  drain s = (c, REof) ->
  let st1 := fst (mem_step D gen_mem_put_copies gen_mem_get_copies st (MCreate s)) in
  snd (mem_step D gen_mem_put_copies gen_mem_get_copies st (MCreate s)) = MRKey (HkM D c) /\
  snd (mem_step D gen_mem_put_copies gen_mem_get_copies st1 (MHas (HkM D c))) = MRBool true /\
  snd (mem_step D gen_mem_put_copies gen_mem_get_copies st1 (MOpen (HkM D c))) = MRBytes c.
Proof. exact mem_create_then_has. Qed.
Print Assumptions C18_mem_create_then_found.

(** The mapped store over ANY user-supplied Store, in every shape its
    results may take (zero result and error; NON-ZERO result and error): the
    store stays sound; bytes, a key or a Has answer reach the caller only from
    a call in which the Store reported no error, and are then right; with an
    error, the error alone comes back. *)
Theorem C18_mapped_user_store_sound : forall D st sh op,
  mem_ok D st ->
  mem_ok D (fst (mem_ustep D gen_mem_put_copies gen_mem_get_copies st sh op)) /\
  ures_sound D sh op (snd (mem_ustep D gen_mem_put_copies gen_mem_get_copies st sh op)).
Proof. exact (fun D st sh op H => conj (mem_ustep_ok D st sh op H) (mem_ustep_sound D st sh op H)). Qed.
Print Assumptions C18_mapped_user_store_sound.

Theorem C18_mapped_user_store_error_alone : forall D st k e,
  mem_ustep D gen_mem_put_copies gen_mem_get_copies st (UErr e) (MpOpen k) = (st, MRErr e) /\
  mem_ustep D gen_mem_put_copies gen_mem_get_copies st (UBoth e) (MpOpen k) = (st, MRErr e) /\
  mem_ustep D gen_mem_put_copies gen_mem_get_copies st (UErr e) (MpHas k) = (st, MRErr e) /\
  mem_ustep D gen_mem_put_copies gen_mem_get_copies st (UBoth e) (MpHas k) = (st, MRErr e).
Proof. exact mem_ustep_error_alone. Qed.
Print Assumptions C18_mapped_user_store_error_alone.

Theorem C18_mapped_user_store_create_error : forall D st s c e,
  drain s = (c, REof) ->
  mem_ustep D gen_mem_put_copies gen_mem_get_copies st (UErr e) (MpCreate s) = (st, MRErr e) /\
  snd (mem_ustep D gen_mem_put_copies gen_mem_get_copies st (UBoth e) (MpCreate s)) = MRErr e.
Proof. exact mem_ustep_create_error. Qed.
Print Assumptions C18_mapped_user_store_create_error.

(** The JSON helpers (objects/json.go): CreateJSON then ReadJSON gives the
    value back, and whatever ReadJSON decodes was decoded from bytes that
    hash to the key.  [enc] / [dec] stand for encoding/json. *)
Theorem C18_json_roundtrip : forall D V (enc : V -> option bytes) (dec : bytes -> option V) st v bs,
  enc v = Some bs -> dec bs = Some v ->
  snd (create_json D gen_mem_put_copies gen_mem_get_copies V enc st v) = MRKey (HkM D bs) /\
  read_json D gen_mem_put_copies gen_mem_get_copies V dec
            (fst (create_json D gen_mem_put_copies gen_mem_get_copies V enc st v)) (HkM D bs) = JVal V v.
Proof. exact (fun D V => @mem_json_roundtrip D V). Qed.
Print Assumptions C18_json_roundtrip.

Theorem C18_read_json_from_matching_bytes : forall D V (dec : bytes -> option V) st k v,
  mem_ok D st ->
  read_json D gen_mem_put_copies gen_mem_get_copies V dec st k = JVal V v ->
  exists c, HkM D c = k /\ dec c = Some v.
Proof. exact (fun D V => @mem_read_json_from_matching_bytes D V). Qed.
Print Assumptions C18_read_json_from_matching_bytes.

(** ** CheckReader

    The reader's byte count is Go's int64 ([wrap64] in the model).  [small b]:
    fewer than 2^63 bytes — every stream there will ever be; within that
    bound the count is exact and the declared-length check cannot be fooled
    (beyond it the count wraps: [wrap64_at_the_edge]). *)

(** For every script of the underlying reader (every chunking, both EOF
    styles, errors at any point): end of stream is reported exactly when the
    underlying stream ended cleanly, its bytes have the expected digest, and
    their number is the declared one if one was declared. *)
Theorem C18_check_reader_eof_iff : forall D want n s,
  small (fst (drain s)) ->
  (snd (cr_consume D (new_cr want n) s) = CEof <->
   snd (drain s) = REof /\ D (fst (drain s)) = want /\
   ((n < 0)%Z \/ lenZ (fst (drain s)) = n)).
Proof. exact check_reader_eof_iff. Qed.
Print Assumptions C18_check_reader_eof_iff.

Theorem C18_check_reader_every_call : forall D s r i,
  cr_ok r -> (lenZ (cr_acc r ++ delivered s) < two63Z)%Z ->
  nth_error (cr_trace D r s) i =
  match nth_error s i with
  | Some (chunk, st) =>
      Some (chunk, verdict D (cr_wantlen r) (cr_want r)
                     (cr_acc r ++ delivered (firstn (S i) s)) st)
  | None => None
  end.
Proof. exact cr_trace_spec. Qed.
Print Assumptions C18_check_reader_every_call.

(** A caller that stops reading early has been told nothing: a call reports
    end-of-stream only if the underlying reader did so on that very call and
    everything handed out up to and including it has the expected digest and
    length.  (A caller that reads exactly the declared number of bytes and
    never asks for more gets no verdict at all.) *)
Theorem C18_check_reader_eof_at_call : forall D want n s i c,
  small (delivered s) ->
  nth_error (cr_trace D (new_cr want n) s) i = Some (c, CEof) ->
  nth_error s i = Some (c, REof) /\
  D (delivered (firstn (S i) s)) = want /\
  ((n < 0)%Z \/ lenZ (delivered (firstn (S i) s)) = n).
Proof. exact check_reader_eof_at_call. Qed.
Print Assumptions C18_check_reader_eof_at_call.

Theorem C18_check_reader_transparent : forall D want n s,
  small (fst (drain s)) ->
  fst (cr_consume D (new_cr want n) s) = fst (drain s).
Proof. exact check_reader_transparent. Qed.
Print Assumptions C18_check_reader_transparent.

Theorem C18_check_reader_ends_in_eof_or_error : forall D want n s,
  small (fst (drain s)) ->
  snd (cr_consume D (new_cr want n) s) <> CNil.
Proof. exact check_reader_terminal. Qed.
Print Assumptions C18_check_reader_ends_in_eof_or_error.

Theorem C18_check_reader_passes_errors : forall D want n s e,
  small (fst (drain s)) ->
  snd (drain s) = RFail e -> snd (cr_consume D (new_cr want n) s) = CFail e.
Proof. exact check_reader_passes_errors. Qed.
Print Assumptions C18_check_reader_passes_errors.

(** With a declared length, every truncation and every extension (of fewer
    than 2^63 bytes) is an error, with no assumption about the hash. *)
Theorem C18_check_reader_wrong_length_is_error : forall D x s,
  small (fst (drain s)) ->
  snd (drain s) = REof ->
  length (fst (drain s)) <> length x ->
  snd (cr_consume D (new_cr (D x) (lenZ x)) s) = CBadLen.
Proof. exact check_reader_wrong_length_is_error. Qed.
Print Assumptions C18_check_reader_wrong_length_is_error.

(** Any other stream accepted as [x] is a collision of the hash. *)
Theorem C18_check_reader_wrong_bytes_need_collision : forall D x n s,
  small (fst (drain s)) ->
  (n < 0)%Z \/ n = lenZ x ->
  fst (drain s) <> x ->
  snd (cr_consume D (new_cr (D x) n) s) = CEof ->
  D (fst (drain s)) = D x /\ fst (drain s) <> x.
Proof. exact check_reader_wrong_bytes_is_error. Qed.
Print Assumptions C18_check_reader_wrong_bytes_need_collision.

Theorem C18_check_reader_accepts_genuine : forall D x n s,
  small x ->
  (n < 0)%Z \/ n = lenZ x ->
  drain s = (x, REof) ->
  cr_consume D (new_cr (D x) n) s = (x, CEof).
Proof. exact check_reader_accepts_genuine. Qed.
Print Assumptions C18_check_reader_accepts_genuine.

Theorem C18_check_reader_verdict_is_sticky : forall D want n s k i c st,
  small (delivered s) ->
  nth_error (cr_trace D (new_cr want n) (s ++ repeat ([], REof) k)) (length s + i) = Some (c, st) ->
  (i < k)%nat ->
  c = [] /\ st = verdict D (declared n) want (delivered s) REof.
Proof. exact check_reader_sticky. Qed.
Print Assumptions C18_check_reader_verdict_is_sticky.

(** Where the int64 count wraps: 2^63 - 1 is still exact, one more byte makes
    it negative, and 2^64 extra bytes are invisible to it. *)
Theorem C18_check_reader_count_wraps_only_at_2_63 :
  wrap64 (two63Z - 1) = (two63Z - 1)%Z /\ wrap64 two63Z = (- two63Z)%Z /\
  forall k, (0 <= k < two63Z)%Z -> wrap64 (k + 2 * two63Z) = k.
Proof. exact wrap64_at_the_edge. Qed.
Print Assumptions C18_check_reader_count_wraps_only_at_2_63.

Theorem C18_new_check_reader_of_hex : forall d n,
  is_bytes d -> length d = 32%nat ->
  new_check_reader (sha256_prefix ++ hex_encode d) n = NewOk (new_cr d n).
Proof. exact new_check_reader_of_hex. Qed.
Print Assumptions C18_new_check_reader_of_hex.

(** ** The source still has the shape the models were written against *)
Theorem C18_source_frozen :
  gen_fs_create = fs_create_skel /\ gen_fs_commit = fs_commit_skel /\
  gen_key_shape_ok = true /\ gen_key_len = std_key_len /\ gen_key_ranges = std_key_ranges /\
  valid_key gen_key_len gen_key_ranges gen_tmp_dir_name = false /\
  gen_mem_put_copies = true /\ gen_mem_get_copies = true /\
  gen_create_uses_reader_sequentially = [true; true; true] /\
  gen_create_reader_origin = std_reader_origin /\
  (gen_tmp_name_src = std_tmp_name_src /\ (16 <=? gen_tmp_name_bytes) = true /\ gen_tmp_in_dir = true) /\
  first_diff 0 frozen_texts = None.
Proof.
  exact (conj gen_fs_create_frozen (conj gen_fs_commit_frozen (conj gen_key_shape
        (conj gen_key_len_frozen (conj gen_key_ranges_frozen (conj gen_tmp_dir_not_a_key
        (conj gen_mem_put_copies_ok (conj gen_mem_get_copies_ok (conj gen_create_reader_sequential (conj gen_create_reader_unwrapped (conj gen_tmp_name_ok gen_texts_frozen))))))))))).
Qed.
Print Assumptions C18_source_frozen.

(** ** Non-vacuity: the hypotheses are met, and the runs are not trivial.
    [toyD] is a 32-byte "digest" good enough to execute the model. *)
Definition toyD (c : bytes) : bytes := firstn 32 (map (fun b => b mod 256) c ++ repeat 0 32).

Example C18_nonvacuous_wf : wf_objs toyD [] /\ mem_ok toyD mem_empty.
Proof. split; [intros k c H; discriminate|apply mem_empty_ok]. Qed.

(** the assumed law of the hash (32 bytes out) is satisfiable *)
Example C18_nonvacuous_digest : forall x, is_bytes (toyD x) /\ length (toyD x) = 32%nat.
Proof.
  intros x. unfold toyD. split.
  - apply is_bytes_firstn. apply is_bytes_app. split.
    + unfold is_bytes. apply Forall_forall. intros b Hb. apply in_map_iff in Hb.
      destruct Hb as (a & <- & _). unfold is_byte. apply N.mod_lt. discriminate.
    + unfold is_bytes. apply Forall_forall. intros b Hb. apply repeat_spec in Hb. subst b.
      unfold is_byte. reflexivity.
  - rewrite firstn_length, app_length, repeat_length. apply Nat.min_l.
    rewrite Nat.add_comm. apply Nat.le_add_r.
Qed.

Example C18_nonvacuous_fault_free : fault_free (repeat (0%nat, false) 14).
Proof. apply Forall_forall. intros e He. apply repeat_spec in He. now subst e. Qed.

(** Two calls with the same content and one whose input fails after two
    bytes, interleaved chunk by chunk: both good calls return the same key,
    one object exists, tmp/ is empty, the failing call left nothing. *)
Example C18_nonvacuous_run :
  let inputs := [ [([1; 2], RNil); ([3], REof)];
                  [([1], RNil); ([2; 3], RNil); ([], REof)];
                  [([7; 7], RNil); ([], RFail 5)] ] in
  let sched := [(0, false); (1, false); (2, false); (0, false); (1, false); (2, false)]%nat
               ++ flat_map (fun i => [(i, false)]) (flat_map (fun _ => [2; 1; 0]%nat) (repeat tt 20)) in
  let s := runs toyD [] inputs sched in
  map res (sthr s) = [Some (ROk (Hk toyD [1; 2; 3])); Some (ROk (Hk toyD [1; 2; 3]));
                      Some (RErr (EInput 5))] /\
  map fst (objs (sfs s)) = [Hk toyD [1; 2; 3]] /\
  tmp (sfs s) = [] /\ lock (sfs s) = None /\
  map committed (sthr s) = [true; false; false].
Proof. vm_compute. repeat split. Qed.

(** A failing rename (second entry of the schedule pair set to [true] at the
    rename step) is an error and leaves nothing behind. *)
Example C18_nonvacuous_os_fault :
  let s := runs toyD [] [[([9], REof)]]
             (repeat (0%nat, false) 9 ++ [(0%nat, true)] ++ repeat (0%nat, false) 4) in
  map res (sthr s) = [Some (RErr ERename)] /\ objs (sfs s) = [] /\ tmp (sfs s) = [] /\
  lock (sfs s) = None.
Proof. vm_compute. repeat split. Qed.

Example C18_nonvacuous_small : small [1; 2; 3] /\ small (delivered [([1], RNil); ([2; 3], REof)]).
Proof. split; reflexivity. Qed.

Example C18_nonvacuous_check_reader :
  cr_consume toyD (new_cr (toyD [1; 2; 3]) 3) [([1], RNil); ([2; 3], REof)] = ([1; 2; 3], CEof) /\
  cr_consume toyD (new_cr (toyD [1; 2; 3]) 3) [([1], RNil); ([2], REof)] = ([1; 2], CBadLen) /\
  cr_consume toyD (new_cr (toyD [1; 2; 3]) (-1)) [([1; 2; 4], RNil); ([], REof)] = ([1; 2; 4], CBadHash) /\
  cr_consume toyD (new_cr (toyD [1; 2; 3]) 3) [([1; 2; 3], RFail 4)] = ([1; 2; 3], CFail 4).
Proof. vm_compute. repeat split. Qed.

(** What the atomic rename is relied upon for.  A commit that copies the temp
    file to its final name in two writes instead of renaming it (skeleton
    [fs_commit_copy_skel], NOT the deployed code): an Open that does not wait
    for this store object's lock (no read lock, or a second store object on
    the directory) between the two writes gets a prefix, which does not hash
    to the key it asked for. *)
Example C18_copy_commit_open_sees_prefix_refuted :
  let k := Hk toyD [1; 2; 3; 4] in
  let s := mrun toyD true fs_commit_copy_skel gen_key_len gen_key_ranges
             (fun _ _ => true) (fun _ _ => true)
             (minit gen_fs_create [] [] [[([1; 2; 3; 4], REof)]] [OOpen k; OOpen k])
             (map ECreate (repeat (0%nat, false) 10) ++ [EObserve 0%nat]
              ++ map ECreate (repeat (0%nat, false) 5) ++ [EObserve 1%nat]) in
  map snd (mo s) = [Some (ORes (OFound [1; 2])); Some (ORes (OFound [1; 2; 3; 4]))] /\
  Hk toyD [1; 2] <> k /\
  map res (sthr (ms s)) = [Some (ROk k)].
Proof. vm_compute. repeat split. discriminate. Qed.

(** The same schedule with the deployed skeleton: the first Open finds
    nothing, the second the whole object. *)
Example C18_rename_commit_open_sees_nothing_or_all :
  let k := Hk toyD [1; 2; 3; 4] in
  let s := mrun toyD true gen_fs_commit gen_key_len gen_key_ranges
             (fun _ _ => true) (fun _ _ => true)
             (minit gen_fs_create [] [] [[([1; 2; 3; 4], REof)]] [OOpen k; OOpen k])
             (map ECreate (repeat (0%nat, false) 9) ++ [EObserve 0%nat]
              ++ map ECreate (repeat (0%nat, false) 5) ++ [EObserve 1%nat]) in
  map snd (mo s) = [Some (ORes ONotFound); Some (ORes (OFound [1; 2; 3; 4]))] /\
  map res (sthr (ms s)) = [Some (ROk k)].
Proof. vm_compute. repeat split. Qed.

(** Two store objects (threads 0 and 1 through the first, thread 2 through
    the second), equal contents, a file already in tmp/:
    one object, the stray untouched, nothing else left. *)
Example C18_nonvacuous_two_stores :
  let dom := fun i => match i with 2%nat => 1%nat | _ => 0%nat end in
  let inputs := [ [([5; 6], REof)]; [([5], RNil); ([6], REof)]; [([5; 6], RNil); ([], REof)] ] in
  let sched := flat_map (fun i => [(i, false)]) (flat_map (fun _ => [0; 2; 1]%nat) (repeat tt 20)) in
  let s := gruns toyD false (guard_stores dom) [] [(7%nat, [9; 9])] inputs sched in
  strays_ok (length inputs) [(7%nat, [9; 9])] /\
  map res (sthr s) = repeat (Some (ROk (Hk toyD [5; 6]))) 3 /\
  map fst (objs (sfs s)) = [Hk toyD [5; 6]] /\
  tmp (sfs s) = [(7%nat, [9; 9])].
Proof.
  split; [intros j Hj; do 3 (destruct j as [|j]; [reflexivity|]); cbn in Hj; lia|].
  vm_compute. repeat split.
Qed.

(** Restart, non-keys and the user Store are not vacuous: a second generation
    on what the first left; a key with a path suffix; a Store that hands out
    the bytes together with an error. *)
Example C18_nonvacuous_round3 :
  let k := Hk toyD [1; 2; 3] in
  let gen1 := objs (sfs (runs toyD [] [[([1; 2; 3], REof)]] (repeat (0%nat, false) 14))) in
  map fst gen1 = [k] /\
  map res (sthr (runs toyD gen1 [[([1; 2; 3], REof)]; [([4], REof)]]
                      (flat_map (fun _ => [(0%nat, false); (1%nat, false)]) (repeat tt 20))))
    = [Some (ROk k); Some (ROk (Hk toyD [4]))] /\
  valid_key gen_key_len gen_key_ranges (k ++ [47; 46; 46; 47] ++ k) = false /\
  valid_key gen_key_len gen_key_ranges k = true /\
  (let st1 := fst (mem_step toyD true true mem_empty (MpCreate [([7; 8], REof)])) in
   snd (mem_ustep toyD true true st1 UPlain (MpOpen (HkM toyD [7; 8]))) = MRBytes [7; 8] /\
   snd (mem_ustep toyD true true st1 (UBoth 5) (MpOpen (HkM toyD [7; 8]))) = MRErr 5).
Proof. vm_compute. repeat split. Qed.

(** What consuming the reader from its current position is relied upon for.
    A Create that rewinds seekable input to its ABSOLUTE start before staging
    ([reader_after_absolute_rewind], NOT the deployed code), given a reader
    standing at offset 1 of [9;1;2;3]: the key returned is that of the whole
    stream, Open of it yields a byte the caller never supplied, and the key
    of the content supplied ([1;2;3]) is absent — where the deployed skeleton
    returns and stores exactly that. *)
Example C18_absolute_rewind_refuted :
  let whole := [9; 1; 2; 3] in
  let sched := repeat (0%nat, false) 14 in
  let bad := runs toyD [] [reader_after_absolute_rewind whole 1] sched in
  let good := runs toyD [] [reader_at whole 1] sched in
  map res (sthr bad) = [Some (ROk (Hk toyD whole))] /\
  objs (sfs bad) = [(Hk toyD whole, whole)] /\
  lookup_key (Hk toyD [1; 2; 3]) (objs (sfs bad)) = None /\
  Hk toyD whole <> Hk toyD [1; 2; 3] /\
  map res (sthr good) = [Some (ROk (Hk toyD [1; 2; 3]))] /\
  objs (sfs good) = [(Hk toyD [1; 2; 3], [1; 2; 3])].
Proof. vm_compute. repeat split. discriminate. Qed.

(** What feeding the tee with the caller's own reader is relied upon for.  A
    wrapper that maps the error value 200 (io.ErrUnexpectedEOF in the harness's
    table) to end-of-stream ([eof_wrapper], NOT the deployed code): an input
    that delivers [1;2] and then fails with that value becomes an object and a
    key; with any other value, and with the deployed skeleton on the unwrapped
    script, it is an error and nothing is left. *)
Example C18_error_value_mapped_to_eof_refuted :
  let s0 := [([1; 2], RNil); ([], RFail 200)] in
  let sched := repeat (0%nat, false) 16 in
  let bad := runs toyD [] [eof_wrapper 200 s0] sched in
  let good := runs toyD [] [s0] sched in
  let other := runs toyD [] [eof_wrapper 200 (relabel (fun _ => 201) s0)] sched in
  map res (sthr bad) = [Some (ROk (Hk toyD [1; 2]))] /\ objs (sfs bad) = [(Hk toyD [1; 2], [1; 2])] /\
  map res (sthr good) = [Some (RErr (EInput 200))] /\ objs (sfs good) = [] /\ tmp (sfs good) = [] /\
  map res (sthr other) = [Some (RErr (EInput 201))] /\ objs (sfs other) = [].
Proof. vm_compute. repeat split. Qed.
