(** C19 — dags: cycle detection, closure, critical edges and layout are
    exact.  Property theorems only; each is closed by a lemma of
    Dag/Summary.v (proved in Dag/*Proofs.v) about the executable model
    Dag/Model.v that the correspondence runs evaluate against the real code.

    Every theorem holds for every finite directed graph [g] whose node map has
    distinct keys ([wf g]: a Go map) — self loops, duplicate list entries and
    edge targets that are not nodes included — and for every map iteration
    order ([perm_oracle sh]). *)
From Coq Require Import List NArith ZArith Bool Arith Permutation.
From Verif Require Import Dag.Model Dag.Facts Dag.KahnProofs Dag.PushProofs Dag.LayoutProofs Dag.Summary
     Dag.Ops Dag.OpsProofs Dag.RevLayout Dag.SeqLayout Gen.DagsSrc Dag.DagGen Dag.CircleLegacy.
Import ListNotations.

(** The checker accepts exactly the graphs all of whose edge targets are
    nodes and that have no cycle. *)
Theorem C19_check_iff : forall sh, perm_oracle sh -> forall g, wf g ->
  ((exists ls, check_dag sh g = VOk ls) <-> targets_exist g /\ acyclic g).
Proof. exact s_check_iff. Qed.
Print Assumptions C19_check_iff.

(** "missing node" is reported exactly when some target is not a node (and
    then no cycle is looked for), a cycle exactly when all targets exist and
    the graph is cyclic. *)
Theorem C19_missing_iff : forall sh, perm_oracle sh -> forall g, wf g ->
  (check_dag sh g = VMissing <-> ~ targets_exist g).
Proof. exact s_missing_iff. Qed.
Print Assumptions C19_missing_iff.

Theorem C19_circle_iff : forall sh, perm_oracle sh -> forall g, wf g ->
  ((exists c, check_dag sh g = VCircle c) <-> targets_exist g /\ ~ acyclic g).
Proof. exact s_circle_iff. Qed.
Print Assumptions C19_circle_iff.

(** makeLayers' panic("should find a circle") is unreachable and the model's
    fuel (layers: n rounds; circle search: n + n^2 dequeues) always suffices. *)
Theorem C19_check_total : forall sh, perm_oracle sh -> forall g, wf g ->
  check_dag sh g <> VPanic /\ check_dag sh g <> VFuel.
Proof. exact s_check_total. Qed.
Print Assumptions C19_check_total.

(** A reported cycle is a closed walk along edges and no closed walk of the
    graph is shorter (so it is a simple cycle of minimum length). *)
Theorem C19_circle_real_and_minimal : forall sh, perm_oracle sh -> forall g, wf g ->
  forall c, check_dag sh g = VCircle c ->
  closed_walk g c /\ forall c', closed_walk g c' -> length c <= length c'.
Proof. exact s_circle. Qed.
Print Assumptions C19_circle_real_and_minimal.

(** Whatever order the maps are iterated in, the verdict is of the same kind
    and a reported cycle has the same length. *)
Theorem C19_order_irrelevant : forall sh1 sh2 g, perm_oracle sh1 -> perm_oracle sh2 -> wf g ->
  match check_dag sh1 g, check_dag sh2 g with
  | VOk _, VOk _ => True
  | VMissing, VMissing => True
  | VCircle c1, VCircle c2 => length c1 = length c2
  | _, _ => False
  end.
Proof. exact s_order_irrelevant. Qed.
Print Assumptions C19_order_irrelevant.

(** Layers of an accepted graph: a partition of the nodes into non-empty
    layers; every predecessor of a node lies in a strictly lower layer; a
    node of layer k+1 has a predecessor in layer k and a node of layer 0 has
    none (each node sits in its lowest possible layer). *)
Theorem C19_layers : forall sh, perm_oracle sh -> forall g, wf g ->
  forall ls, check_dag sh g = VOk ls ->
  NoDup (concat ls) /\
  (forall v, In v (keys g) <-> exists i, i < length ls /\ In v (nth i ls [])) /\
  (forall i v u, In v (nth i ls []) -> edge g u v -> exists j, j < i /\ In u (nth j ls [])) /\
  (forall k v, In v (nth (S k) ls []) -> exists u, edge g u v /\ In u (nth k ls [])) /\
  (forall v, In v (nth 0 ls []) -> forall u, ~ edge g u v) /\
  (forall l, In l ls -> l <> []).
Proof. exact s_layers. Qed.
Print Assumptions C19_layers.

(** The layers do not depend on the iteration order (hence Nlayer is the
    number of nodes on a longest path). *)
Theorem C19_layers_unique : forall sh1 sh2 g, perm_oracle sh1 -> perm_oracle sh2 -> wf g ->
  forall l1 l2, check_dag sh1 g = VOk l1 -> check_dag sh2 g = VOk l2 ->
  length l1 = length l2 /\ forall i v, In v (nth i l1 []) <-> In v (nth i l2 []).
Proof. exact s_layers_unique. Qed.
Print Assumptions C19_layers_unique.

(** AllIns / AllOuts are exactly reachability by a path of length >= 1. *)
Theorem C19_closure_is_reachability : forall sh, perm_oracle sh -> forall g, wf g ->
  forall m, new_map sh g = MOk m ->
  m_g m = g /\
  (forall u v, In u (sget (m_ai m) v) <-> path g u v) /\
  (forall u v, In v (sget (m_ao m) u) <-> path g u v).
Proof. exact s_closure. Qed.
Print Assumptions C19_closure_is_reachability.

(** CritOuts / CritIns are exactly the transitive reduction: the edges that
    no path of length >= 2 bridges. *)
Theorem C19_crit_is_reduction : forall sh, perm_oracle sh -> forall g, wf g ->
  forall m, new_map sh g = MOk m ->
  forall u v,
  (In v (m_crit_outs m u) <-> edge g u v /\ ~ exists w, path g u w /\ path g w v) /\
  (In u (m_crit_ins m v) <-> edge g u v /\ ~ exists w, path g u w /\ path g w v).
Proof. exact s_crit. Qed.
Print Assumptions C19_crit_is_reduction.

(** The sort orders, reserved slots and snapNearBy arms of the CURRENT source
    (regenerated by gen/dags.go on every run) satisfy the decidable predicate
    the layout theorems need. *)
Theorem C19_source_params_ok : params_ok gen_params = true.
Proof. exact gen_params_ok. Qed.
Print Assumptions C19_source_params_ok.

(** pushTight terminates without its panic, keeps every edge (critical or
    not) strictly increasing in layer and every node below Nlayer. *)
Theorem C19_push_keeps_order : forall sh, perm_oracle sh -> forall g, wf g ->
  forall m, new_map sh g = MOk m ->
  exists L, push_tight gen_params m = POk L /\
    (forall u v, edge g u v -> lget L u < lget L v) /\
    (forall v, In v (keys g) -> lget L v < m_nlayer m).
Proof. exact (s_push gen_params). Qed.
Print Assumptions C19_push_keeps_order.

(** LayoutMap returns (no panic, findY's search always ends); every node gets
    a coordinate inside width x height; no two nodes share a coordinate; every
    edge goes strictly left to right. *)
Theorem C19_layout : forall sh, perm_oracle sh -> forall g, wf g ->
  forall m, new_map sh g = MOk m ->
  exists v, layout_map gen_params m = VwOk v /\
    v_width v = m_nlayer m /\
    map fst (v_nodes v) = keys g /\
    (forall k, In k (keys g) -> vx v k < v_width v /\ (0 <= vy v k < v_height v)%Z) /\
    (forall a b, In a (keys g) -> In b (keys g) -> a <> b -> (vx v a, vy v a) <> (vx v b, vy v b)) /\
    (forall u w, edge g u w -> vx v u < vx v w).
Proof. exact (s_layout gen_params gen_params_ok). Qed.
Print Assumptions C19_layout.

(** ... and for any other sort orders, reserved slots and snap rules that
    satisfy [params_ok]. *)
Theorem C19_layout_any_params : forall P, params_ok P = true ->
  forall sh, perm_oracle sh -> forall g, wf g ->
  forall m, new_map sh g = MOk m ->
  exists v, layout_map P m = VwOk v /\
    v_width v = m_nlayer m /\
    map fst (v_nodes v) = keys g /\
    (forall k, In k (keys g) -> vx v k < v_width v /\ (0 <= vy v k < v_height v)%Z) /\
    (forall a b, In a (keys g) -> In b (keys g) -> a <> b -> (vx v a, vy v a) <> (vx v b, vy v b)) /\
    (forall u w, edge g u w -> vx v u < vx v w).
Proof. exact s_layout. Qed.
Print Assumptions C19_layout_any_params.

(** TopoSort (Map.SortedNodes before pushing) lists every node once, each
    after all of its predecessors. *)
Theorem C19_topo_sort : forall sh, perm_oracle sh -> forall g, wf g ->
  forall m, new_map sh g = MOk m ->
  Permutation (sorted_nodes gen_params m (m_lay0 m)) (keys g) /\
  forall l1 v l2 u, sorted_nodes gen_params m (m_lay0 m) = l1 ++ v :: l2 -> edge g u v -> In u l1.
Proof. exact (s_topo gen_params gen_layer_first). Qed.
Print Assumptions C19_topo_sort.

(** Graph.Reverse reverses every edge with its multiplicity; reversing twice
    gives every edge list back (sorted, as Reverse sorts), and the node set
    back plus the targets that were not nodes. *)
Theorem C19_reverse_edges : forall sh, perm_oracle sh -> forall g, wf g ->
  forall u v, count_occ N.eq_dec (adj (rev_graph sh g) v) u = count_occ N.eq_dec (adj g u) v.
Proof. exact s_reverse_edges. Qed.
Print Assumptions C19_reverse_edges.

Theorem C19_reverse_twice : forall sh, perm_oracle sh -> forall g, wf g ->
  (forall u, adj (rev_graph sh (rev_graph sh g)) u = sort_names (adj g u)) /\
  (forall k, In k (keys (rev_graph sh (rev_graph sh g))) <-> In k (keys g) \/ exists u, edge g u k) /\
  wf (rev_graph sh (rev_graph sh g)).
Proof. exact s_reverse_twice. Qed.
Print Assumptions C19_reverse_twice.

(** * Non-vacuity: the hypotheses hold of the oracles the correspondence runs
      use and of concrete graphs, and the conclusions are not trivially true. *)

Example oracle_id : perm_oracle sh_id.
Proof. exact sh_id_oracle. Qed.
Example oracle_rev : perm_oracle sh_rev.
Proof. exact sh_rev_oracle. Qed.

Local Open Scope N_scope.

Definition ex_dag : graph := [(0, [1; 2; 3]); (1, [3]); (2, [3]); (3, [])].
Definition ex_two : graph := [(0, [1]); (1, [0]); (2, [3]); (3, [2])].
Definition ex_cyc : graph := [(0, [1]); (1, [2]); (2, [0; 3]); (3, [2])].
Definition ex_dang : graph := [(0, [1; 7]); (1, [])].
Definition ex_push : graph := [(0, [1]); (1, [2]); (2, []); (3, [2])].

Ltac nodup := repeat constructor; simpl; intuition discriminate.

Example ex_dag_wf : wf ex_dag.
Proof. unfold wf. nodup. Qed.

Example ex_dag_accepted : check_dag sh_id ex_dag = VOk [[0]; [1; 2]; [3]].
Proof. vm_compute. reflexivity. Qed.

(** so the right-hand side of C19_check_iff is inhabited *)
Example ex_dag_acyclic : targets_exist ex_dag /\ acyclic ex_dag.
Proof.
  apply (C19_check_iff sh_id oracle_id ex_dag ex_dag_wf). eexists. exact ex_dag_accepted.
Qed.

Example ex_dag_layout :
  match new_map sh_id ex_dag with
  | MOk m => layout_map deployed_params m =
             VwOk (mkV [(0, (0%nat, 0%Z)); (1, (1%nat, 0%Z)); (2, (1%nat, 2%Z)); (3, (2%nat, 1%Z))] 3 3)
             /\ map (m_crit_outs m) [0; 1; 2; 3] = [[1; 2]; [3]; [3]; []]
             /\ sget (m_ai m) 3 = [0; 1; 2]
  | MErr _ => False
  end.
Proof. vm_compute. repeat split. Qed.

(** a graph in which pushTight really moves a node (3 goes from layer 0 to 1) *)
Example ex_push_moves :
  match new_map sh_id ex_push with
  | MOk m => lget (m_lay0 m) 3 = 0%nat /\
             exists L, push_tight deployed_params m = POk L /\ lget L 3 = 1%nat
  | MErr _ => False
  end.
Proof. vm_compute. split; [reflexivity|]. eexists. split; reflexivity. Qed.

(** cyclic graphs: the shortest cycle is reported, not the first one met *)
Example ex_cyc_min : check_dag sh_id ex_cyc = VCircle [2; 3].
Proof. vm_compute. reflexivity. Qed.

Example ex_cyc_has_longer : closed_walk ex_cyc [0; 1; 2].
Proof. vm_compute. tauto. Qed.

(** the iteration order changes which cycle is reported, not its length *)
Example ex_two_orders :
  check_dag sh_id ex_two = VCircle [0; 1] /\ check_dag sh_rev ex_two = VCircle [2; 3].
Proof. vm_compute. split; reflexivity. Qed.

(** dangling target: rejected; reversing twice makes the target a node *)
Example ex_dang_missing : check_dag sh_id ex_dang = VMissing /\ ~ targets_exist ex_dang.
Proof.
  split; [vm_compute; reflexivity|].
  apply (C19_missing_iff sh_id oracle_id ex_dang); [unfold wf; nodup | vm_compute; reflexivity].
Qed.

Example ex_dang_reverse :
  rev_graph sh_id (rev_graph sh_id ex_dang) = [(0, [1; 7]); (1, []); (7, [])].
Proof. vm_compute. reflexivity. Qed.

(** the defect repaired by 9ad6097, exhibited on the legacy model: within the
    budget of n + n^2 dequeues that C19_check_total proves sufficient for the
    repaired search on every graph, the legacy search does not finish on a
    20-node graph *)
Example legacy_search_refuted :
  min_circle_legacy (blow 9) (circle_fuel (blow 9)) = SFuel /\
  min_circle sh_id (blow 9) = SFound [9; 10; 11; 12; 13; 14; 15; 16; 17; 18; 19].
Proof. split; [exact blow9_legacy_refuted | exact blow9_fixed]. Qed.

(** parameters that violate [params_ok] (the node's own slot is not reserved)
    really break the layout: two nodes land on one coordinate *)
Example bad_params_collide :
  let P := mkP (p_by_layer deployed_params) (p_by_ncrit deployed_params) [(-1)%Z; 1%Z]
               (p_snap deployed_params) in
  params_ok P = false /\
  match new_map sh_id [(0, []); (1, [])] with
  | MOk m => match layout_map P m with
             | VwOk v => (vx v 0, vy v 0) = (vx v 1, vy v 1)
             | _ => False
             end
  | MErr _ => False
  end.
Proof. vm_compute. split; reflexivity. Qed.

(** * Round 3: the derived-graph entry points (graph.go Remove / SubGraph /
      Rename, closure.go Closure) *)

(** Remove(x): the edges that touch neither end. *)
Theorem C19_remove_edges : forall g x u v,
  edge (g_remove g x) u v <-> u <> x /\ v <> x /\ edge g u v.
Proof. exact remove_edge. Qed.
Print Assumptions C19_remove_edges.

(** SubGraph(f): the edges between nodes the filter accepts (a name that is
    not a node never survives, so the result has no dangling target). *)
Theorem C19_subgraph_edges : forall f g u v,
  edge (g_subgraph f g) u v <-> f u = true /\ In v (keys g) /\ f v = true /\ edge g u v.
Proof. exact subgraph_edge. Qed.
Print Assumptions C19_subgraph_edges.

(** The checker's verdict carries over: every SubGraph of a graph without
    cycles is accepted, every Remove of an accepted graph is accepted, and a
    cycle reported after a Remove is a cycle of the graph itself. *)
Theorem C19_subgraph_accepted : forall sh, perm_oracle sh -> forall f g,
  wf g -> acyclic g -> exists ls, check_dag sh (g_subgraph f g) = VOk ls.
Proof. exact subgraph_accepted. Qed.
Print Assumptions C19_subgraph_accepted.

Theorem C19_remove_accepted : forall sh, perm_oracle sh -> forall g x,
  wf g -> (exists ls, check_dag sh g = VOk ls) -> exists ls, check_dag sh (g_remove g x) = VOk ls.
Proof. exact remove_accepted. Qed.
Print Assumptions C19_remove_accepted.

Theorem C19_remove_circle : forall sh, perm_oracle sh -> forall g x c,
  wf g -> check_dag sh (g_remove g x) = VCircle c -> ~ acyclic g.
Proof. exact remove_circle. Qed.
Print Assumptions C19_remove_circle.

(** Rename: an error from the callback ends the call whatever else the
    callback returned; without one, "missing in keys" exactly for a dangling
    target; with an injective callback the edges are the images of the edges. *)
Theorem C19_rename_callback_error : forall rn err g k,
  In k (keys g) -> err k = true -> g_rename rn err g = RnErrF.
Proof. exact rename_callback_error. Qed.
Print Assumptions C19_rename_callback_error.

Theorem C19_rename_missing_iff : forall rn err g,
  wf g -> (forall k, In k (keys g) -> err k = false) ->
  (g_rename rn err g = RnMissing <-> ~ targets_exist g).
Proof. exact rename_missing_iff. Qed.
Print Assumptions C19_rename_missing_iff.

Theorem C19_rename_edges : forall rn err g g' u v,
  wf g -> g_rename rn err g = RnOk g' ->
  (forall a b, In a (keys g) -> In b (keys g) -> rn a = rn b -> a = b) ->
  In u (keys g) -> In v (keys g) ->
  (edge g' (rn u) (rn v) <-> edge g u v).
Proof. exact rename_edge_inj. Qed.
Print Assumptions C19_rename_edges.

(** Closure(m, nodes): the given nodes and every node that has a path to one
    of them and a path from one of them; for names that are nodes the
    result is a map of the induced sub-graph (the panic after NewMap is
    unreachable), for any other name Closure panics. *)
Theorem C19_closure_nodes : forall sh, perm_oracle sh -> forall g, wf g ->
  forall m, new_map sh g = MOk m -> forall nodes v,
  In v (closure_set m nodes) <->
  In v (keys g) /\
  (In v nodes \/ ((exists a, In a nodes /\ path g v a) /\ (exists b, In b nodes /\ path g b v))).
Proof. exact closure_set_spec. Qed.
Print Assumptions C19_closure_nodes.

Theorem C19_closure_total : forall sh, perm_oracle sh -> forall g, wf g ->
  forall m, new_map sh g = MOk m -> forall nodes,
  forallb (is_key g) nodes = true ->
  exists m', closure sh m nodes = Some (MOk m') /\ m_g m' = closure_graph m nodes.
Proof. exact closure_never_panics. Qed.
Print Assumptions C19_closure_total.

Theorem C19_closure_edges : forall m nodes u v,
  edge (closure_graph m nodes) u v <->
  In u (closure_set m nodes) /\ In v (closure_set m nodes) /\ edge (m_g m) u v.
Proof. exact closure_graph_edge. Qed.
Print Assumptions C19_closure_edges.

(** a -> b -> c -> d with the shortcut a -> d: what lies between a and d is
    everything; between b and b only b. *)
Example ex_ops_graph : graph := [(0, [1; 3]); (1, [2]); (2, [3]); (3, []); (4, [])]%N.
Example ex_closure :
  match new_map sh_id ex_ops_graph with
  | MOk m => closure_set m [0; 3]%N = [0; 1; 2; 3]%N /\ closure_set m [1]%N = [1]%N /\
             closure sh_id m [9]%N = None
  | MErr _ => False
  end.
Proof. vm_compute. repeat split; reflexivity. Qed.

Example ex_remove_subgraph :
  g_remove ex_ops_graph 1 = [(0, [3]); (2, [3]); (3, []); (4, [])]%N /\
  g_subgraph (fun k => negb (N.eqb k 2)) ex_ops_graph = [(0, [1; 3]); (1, []); (3, []); (4, [])]%N.
Proof. vm_compute. split; reflexivity. Qed.

(** RevLayout (lay the reversed graph out, mirror the view): for every
    accepted graph it returns a view in which every node lies inside
    width x height, no two nodes share a coordinate and every edge of the
    graph ITSELF goes strictly left to right. *)
Theorem C19_rev_layout : forall sh, perm_oracle sh -> forall g, wf g ->
  targets_exist g -> acyclic g ->
  exists v, rev_layout gen_params sh g = Some v /\
    (forall k, In k (keys g) -> (vx v k < v_width v)%nat /\ (0 <= vy v k < v_height v)%Z) /\
    (forall a b, In a (keys g) -> In b (keys g) -> a <> b -> (vx v a, vy v a) <> (vx v b, vy v b)) /\
    (forall u w, edge g u w -> (vx v u < vx v w)%nat).
Proof. exact (rev_layout_ok gen_params gen_params_ok). Qed.
Print Assumptions C19_rev_layout.

Example ex_rev_layout :
  match rev_layout gen_params sh_id ex_ops_graph with
  | Some v => (vx v 0%N < vx v 1%N)%nat /\ (vx v 1%N < vx v 2%N)%nat /\ (vx v 2%N < vx v 3%N)%nat /\ (vx v 0%N < vx v 3%N)%nat
  | None => False
  end.
Proof. vm_compute. repeat split; repeat constructor. Qed.

(** * Round 3: LayoutMap on a Map object that has been through other calls

    The layout depends only on the Map's current orientation ([m]: its
    graph, closure and critical sets) and on the layer numbers it currently
    holds; for ANY valid layer numbers (critical edges strictly increasing,
    below Nlayer: the Kahn layers after NewMap, the pushed layers after an
    earlier LayoutMap, the mirrored ones after Map.Reverse) the result is a
    layout of the current orientation, and the layer numbers left behind are
    valid again - so every layout in a call sequence NewMap / Reverse /
    LayoutMap / Layout / RevLayout is a layout. *)
Theorem C19_layout_from_any_valid_layers : forall m, accepted m -> forall L0, pinv m L0 ->
  exists v, layout_from gen_params m L0 = VwOk v /\
    v_width v = m_nlayer m /\
    map fst (v_nodes v) = keys (m_g m) /\
    (forall k, In k (keys (m_g m)) -> (vx v k < v_width v)%nat /\ (0 <= vy v k < v_height v)%Z) /\
    (forall a b, In a (keys (m_g m)) -> In b (keys (m_g m)) -> a <> b -> (vx v a, vy v a) <> (vx v b, vy v b)) /\
    (forall u w, edge (m_g m) u w -> (vx v u < vx v w)%nat) /\
    pinv m (map (fun k => (k, vx v k)) (keys (m_g m))).
Proof. exact (layout_from_ok gen_params gen_params_ok). Qed.
Print Assumptions C19_layout_from_any_valid_layers.

Theorem C19_layout_map_is_layout_from : forall m,
  layout_from gen_params m (m_lay0 m) = layout_map gen_params m.
Proof. exact (layout_from_lay0 gen_params). Qed.
Print Assumptions C19_layout_map_is_layout_from.

(** Map.Reverse keeps the layer numbers valid for the opposite orientation. *)
Theorem C19_reverse_keeps_layers_valid : forall (m m' : dmap) (L L' : lays),
  m_nlayer m' = m_nlayer m ->
  (forall v, In v (keys (m_g m')) -> In v (keys (m_g m))) ->
  (forall u v, In v (m_crit_outs m' u) -> In u (m_crit_outs m v) /\ In u (keys (m_g m')) /\ In v (keys (m_g m'))) ->
  (forall v, In v (keys (m_g m')) -> lget L' v = (m_nlayer m - 1 - lget L v)%nat) ->
  pinv m L -> pinv m' L'.
Proof. exact mirror_pinv. Qed.
Print Assumptions C19_reverse_keeps_layers_valid.

(** a -> b: NewMap, Reverse, LayoutMap draws b left of a (the reversed
    orientation), and a second Reverse + LayoutMap draws a left of b again. *)
Example ex_seq_reverse_layout :
  match new_map sh_id [(0, [1]); (1, [])]%N, new_map sh_id (rev_graph sh_id [(0, [1]); (1, [])]%N) with
  | MOk m, MOk mr =>
      match layout_from gen_params mr (mirror_lays (m_nlayer m) (m_lay0 m)) with
      | VwOk v => (vx v 1%N < vx v 0%N)%nat
      | _ => False
      end
  | _, _ => False
  end.
Proof. vm_compute. repeat constructor. Qed.

(** * Round 3 (seeded change C19-g): findY's probe needs no bound *)

(** The slot probe as it is in the source today: starts at the preferred
    row, steps outward by one, and has NO exit other than a return guarded by
    a test of the very row it returns. *)
Theorem C19_findY_skeleton_ok : fy_ok gen_findy = true.
Proof. exact gen_findy_ok. Qed.
Print Assumptions C19_findY_skeleton_ok.

(** For ANY set of taken rows (any layer width) the probe ends within
    [|taken| + 1] offsets and returns a row that is not taken. *)
Theorem C19_findY_probe_terminates_within_width : forall tak yavg,
  exists y, find_y (S (length tak)) tak yavg 0 = Some y /\ zmem y tak = false.
Proof. exact findY_probe_terminates_within_width. Qed.
Print Assumptions C19_findY_probe_terminates_within_width.

(** A probe that gives up after a fixed number of offsets and then hands out
    a row without consulting the taken map returns a taken row. *)
Theorem C19_bounded_probe_refuted :
  let tak := [0; 1; -1; 2]%Z in
  find_y_bounded 2 tak 0 0 = 2%Z /\ zmem 2 tak = true /\
  find_y (S (length tak)) tak 0 0 = Some (-2)%Z.
Proof. exact bounded_probe_refuted. Qed.
Print Assumptions C19_bounded_probe_refuted.

(** * Round 3 (seeded change C19-i): a *Graph has no hidden state *)

Theorem C19_graph_stateless : length gen_graph_fields = 1%nat /\ fst gen_reverse_fresh = true.
Proof. destruct gen_graph_stateless as [-> H]. split; [reflexivity | exact H]. Qed.
Print Assumptions C19_graph_stateless.

(** In any sequence of caller edits and Reverse calls on one graph, every
    Reverse answers the reverse of the content at that moment. *)
Theorem C19_reverse_of_current_content : forall sh ops g,
  run_gops sh g (ops ++ [GReverse]) =
  run_gops sh g ops ++ [rev_graph sh (fold_left (fun g o => match o with GEdit f => f g | GReverse => g end) ops g)].
Proof. exact reverse_of_current_content. Qed.
Print Assumptions C19_reverse_of_current_content.

Theorem C19_cached_reverse_refuted :
  let g0 := [(0, [1]); (1, [])]%N in
  let edit := GEdit (fun _ => [(0, []); (1, [0])]%N) in
  run_gops_cached sh_id g0 None [GReverse; edit; GReverse] = [[(0, []); (1, [0])]; [(0, []); (1, [0])]]%N /\
  run_gops sh_id g0 [GReverse; edit; GReverse] = [[(0, []); (1, [0])]; [(0, [1]); (1, [])]]%N.
Proof. exact cached_reverse_refuted. Qed.
Print Assumptions C19_cached_reverse_refuted.

(** * Round 3 (seeded change C19-j): no state shared between calls *)

Theorem C19_no_package_state : gen_package_vars = [].
Proof. exact gen_dags_no_package_state. Qed.
Print Assumptions C19_no_package_state.

(** The checker's answer is a function of the graph argument alone: two
    calls on the same graph agree on the verdict class and the cycle length,
    and a reported cycle walks the caller's own graph. *)
Theorem C19_answer_depends_on_graph_only : forall sh1 sh2 g,
  perm_oracle sh1 -> perm_oracle sh2 -> wf g ->
  match check_dag sh1 g, check_dag sh2 g with
  | VOk _, VOk _ => True
  | VMissing, VMissing => True
  | VCircle c1, VCircle c2 => length c1 = length c2 /\ closed_walk g c1 /\ closed_walk g c2
  | _, _ => False
  end.
Proof. exact answer_depends_on_graph_only. Qed.
Print Assumptions C19_answer_depends_on_graph_only.

Theorem C19_shared_queue_refuted :
  dequeue_shared [0; 1]%N [7; 8]%N 0 = Some 7%N /\
  ~ In 7%N (keys [(0, [1]); (1, [0])]%N) /\
  nth_error [0; 1]%N 0 = Some 0%N.
Proof. exact shared_queue_refuted. Qed.
Print Assumptions C19_shared_queue_refuted.
