(** C19 — placeholder while the pipeline is brought up. *)
From Coq Require Import List NArith.
From Verif Require Import Dag.Model.
Import ListNotations.

Theorem C19_tmp : forall g, length (keys g) = length g.
Proof. intros; apply map_length. Qed.
Print Assumptions C19_tmp.
