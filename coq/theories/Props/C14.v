(** C14 — sniproxy: SNI sniffing is exact and consumes nothing.
    Property theorems only; each is closed by a lemma of Sni/HelloProofs.v,
    instantiated with the peek-buffer size regenerated from
    sniproxy/tls_hello_conn.go (Gen/HelloConsts.v, obligations in
    Sni/HelloGen.v). *)
From Coq Require Import List NArith Bool.
From Verif Require Import Lib.Bytes Sni.Wire Sni.Hello Sni.HelloProofs Sni.Handover
  Sni.HandoverProofs Sni.HelloResult Sni.HelloResultProofs Sni.HelloDeadline Sni.HelloGen Gen.HelloConsts.
Import ListNotations.
Local Open Scope N_scope.

(** Every well-formed ClientHello that fits in one TLS record - any version,
    session id, cipher suites, any list of extensions in any order (known
    ones valid, unknown ones and padding arbitrary), with or without further
    handshake bytes in the record - followed by anything, delivered in any
    segmentation: HelloInfo reports exactly the host name and the ALPN list of
    the hello, pulls no more than the buffer size from the connection, and
    still owes the reader the whole stream. *)
Theorem C14_sniff_exact : forall h extra rest sched late,
  wf_hellob h = true ->
  lenN (hello_msg h ++ extra) <= max_plaintext ->
  let stream := build_hello h extra ++ rest in
  exists b',
    sniff gen_hello_buf_size (br_new (mkConn stream sched late))
      = Ok (SInfo (spec_name h) (spec_protos h), b') /\
    remaining b' = stream /\ binv gen_hello_buf_size b' /\
    b_pulled b' <= gen_hello_buf_size.
Proof.
  exact (fun h extra rest sched late Hwf Hlen =>
           sniff_exact gen_hello_buf_size h extra rest sched late Hwf Hlen gen_cap_ok).
Qed.
Print Assumptions C14_sniff_exact.

(** Any byte stream whatsoever, any segmentation: HelloInfo does not panic
    and does not run out of fuel, its result is a function of the bytes alone
    ([sniff_pure]), it pulls at most the buffer size, and any sequence of
    Reads afterwards returns the stream from its first byte, in order; read
    to the end, all of it. *)
Theorem C14_consumes_nothing : forall stream sched late ms,
  exists b1,
    sniff gen_hello_buf_size (br_new (mkConn stream sched late))
      = Ok (sniff_pure gen_hello_buf_size stream, b1) /\
    b_pulled b1 <= gen_hello_buf_size /\ binv gen_hello_buf_size b1 /\
    remaining b1 = stream /\
    forall chunks e b2,
      breads gen_hello_buf_size ms b1 = (chunks, e, b2) ->
      concat chunks ++ remaining b2 = stream /\
      (e <> None -> concat chunks = stream /\ e = Some REof).
Proof.
  exact (fun stream sched late ms =>
           sniff_then_reads gen_hello_buf_size stream sched late ms gen_cap_ge5).
Qed.
Print Assumptions C14_consumes_nothing.

(** A Read with a non-empty buffer returns at least one byte as long as bytes
    are owed, so the whole stream does arrive (an end of stream may be reported
    together with the last bytes when the connection does so). *)
Theorem C14_reads_progress : forall m b got e b',
  binv gen_hello_buf_size b -> 0 < m -> remaining b <> [] ->
  bread gen_hello_buf_size m b = (got, e, b') ->
  (List.length (remaining b') < List.length (remaining b))%nat /\ got <> [].
Proof.
  exact (fun m b got e b' Hinv =>
           bread_progress gen_hello_buf_size m b got e b'
             (N.lt_le_trans 0 5 _ eq_refl gen_cap_ge5) Hinv).
Qed.
Print Assumptions C14_reads_progress.

(** The hand-over from the peek buffer to the connection, first class: for
    every policy of TLSHelloConn.Read that loses nothing ([HoNever]: always
    through the bufio.Reader; [HoWhenDrained]: straight to the connection once
    the buffer is empty), any stream - a hello with any amount of data behind
    it in the same segments -, any segmentation, and **every sequence of caller
    buffer sizes** (1, 2, ..., 32768, anything): the Reads after HelloInfo
    return the stream from its first byte, in order, nothing dropped or
    repeated; what was returned plus what is still owed is always the stream;
    an error is the end of the stream after all of it. *)
Theorem C14_handover_all_read_sizes : forall pol stream sched late ms peeked,
  handover_transparentb pol = true ->
  exists b1,
    sniff gen_hello_buf_size (br_new (mkConn stream sched late))
      = Ok (sniff_pure gen_hello_buf_size stream, b1) /\
    remaining b1 = stream /\
    exists chunks e h2,
      hc_reads pol gen_hello_buf_size ms (hc_start peeked b1) = Some (chunks, e, h2) /\
      concat chunks ++ hc_owed h2 = stream /\
      (e <> None -> concat chunks = stream /\ e = Some REof).
Proof.
  exact (fun pol stream sched late ms peeked Hpol =>
           sniff_then_handover pol gen_hello_buf_size stream sched late ms peeked Hpol gen_cap_ge5).
Qed.
Print Assumptions C14_handover_all_read_sizes.

(** ... and the policy emitted from the current TLSHelloConn.Read is one of them. *)
Theorem C14_handover_here : forall stream sched late ms,
  exists b1,
    sniff gen_hello_buf_size (br_new (mkConn stream sched late))
      = Ok (sniff_pure gen_hello_buf_size stream, b1) /\
    remaining b1 = stream /\
    exists chunks e h2,
      hc_reads gen_read_handover gen_hello_buf_size ms (hc_start 0 b1) = Some (chunks, e, h2) /\
      concat chunks ++ hc_owed h2 = stream /\
      (e <> None -> concat chunks = stream /\ e = Some REof).
Proof.
  exact (fun stream sched late ms =>
           sniff_then_handover gen_read_handover gen_hello_buf_size stream sched late ms 0
             gen_read_handover_transparent gen_cap_ge5).
Qed.
Print Assumptions C14_handover_here.

(** Every Read with a non-empty caller buffer returns at least one byte while
    bytes are owed - under either policy, whether it is served from the peek
    buffer or from the connection. *)
Theorem C14_handover_progress : forall pol m h got e h',
  handover_transparentb pol = true ->
  binv gen_hello_buf_size (hc_br h) -> hc_direct h = false -> 0 < m -> hc_owed h <> [] ->
  hc_read pol gen_hello_buf_size m h = Some (got, e, h') ->
  (List.length (hc_owed h') < List.length (hc_owed h))%nat /\ got <> [].
Proof.
  exact (fun pol m h got e h' Hpol Hinv =>
           hc_read_progress pol gen_hello_buf_size m h got e h' Hpol
             (N.lt_le_trans 0 5 _ eq_refl gen_cap_ge5) Hinv).
Qed.
Print Assumptions C14_handover_progress.

(** Why the policy matters: releasing the reader once as many bytes as
    HelloInfo peeked were returned (seeded change C14-d) loses whatever the
    peek buffer holds behind the hello, as soon as a caller's Read ends with
    the last byte of the hello. *)
Theorem C14_handover_by_count_drops : forall b hello extra,
  hello <> [] -> extra <> [] -> b_buf b = hello ++ extra ->
  exists h',
    hc_read HoAfterCount gen_hello_buf_size (lenN hello) (hc_start (lenN hello) b)
      = Some (hello, None, h') /\
    hc_direct h' = true /\
    hc_owed h' = c_rest (b_conn b) /\
    hello ++ hc_owed h' <> remaining b.
Proof.
  exact (fun b hello extra =>
           handover_by_count_drops gen_hello_buf_size b hello extra
             (N.lt_le_trans 0 5 _ eq_refl gen_cap_ge5)).
Qed.
Print Assumptions C14_handover_by_count_drops.

(** Whose result it is.  The caller reads the returned *TLSHelloInfo later -
    hostConn's dialer reads hello.ServerName after other connections have
    been sniffed.  Any sequence of HelloInfo calls (any number of connections,
    in any order), every result held until after the last call: with the
    origin of the result emitted from the current source, each result still
    says what its own hello said. *)
Theorem C14_held_results_stable : forall xs : list hinfo,
  held_after gen_hello_result_origin xs = Some xs.
Proof.
  exact (fun xs => eq_trans (f_equal (fun o => held_after o xs) gen_hello_result_origin_eq)
                            (held_results_stable xs)).
Qed.
Print Assumptions C14_held_results_stable.

(** A result that lives in a pooled (or package-level) object: refuted - after
    a second HelloInfo the first result says what the second hello said
    (seeded change C14-g). *)
Theorem C14_pooled_result_refuted : forall a b : hinfo,
  held_after OPooled [a; b] = Some [b; b] /\ held_after OPackageLevel [a; b] = Some [b; b].
Proof. exact pooled_result_overwritten. Qed.
Print Assumptions C14_pooled_result_refuted.

(** The connection's read deadline is part of what sniffing must leave alone:
    with the deadline calls emitted from tls_hello_conn.go (none), after any
    sniff - hello in one read or split over several - a Read of the proxied
    stream at ANY later instant gets the bytes the connection has. *)
Theorem C14_sniff_leaves_no_deadline : forall t0 split t avail,
  read_at (deadline_after (dl_of gen_hello_deadline_calls) t0 split) t avail = RdBytes avail.
Proof.
  exact (fun t0 split t avail =>
           no_deadline_reads_always gen_hello_deadline_calls t0 split t avail gen_hello_no_deadline_calls).
Qed.
Print Assumptions C14_sniff_leaves_no_deadline.

(** A deadline set for the rest of a split hello and never cleared (seeded
    change C14-j): refuted - the Read d later times out; with the hello in one
    read nothing happens, which is why one-segment tests do not see it. *)
Theorem C14_sniff_leaves_no_deadline_refuted : forall d avail,
  read_at (deadline_after (DlSetAndLeave d) 0 true) d avail = RdTimeout /\
  read_at (deadline_after (DlSetAndLeave d) 0 false) d avail = RdBytes avail.
Proof. exact deadline_left_armed_times_out. Qed.
Print Assumptions C14_sniff_leaves_no_deadline_refuted.

(** Never a wrong name: what is reported is empty, or it is what the parse
    of the complete first record yields. *)
Theorem C14_never_wrong_name : forall s name protos,
  sniff_pure gen_hello_buf_size s = SInfo name protos ->
  (name = [] /\ protos = []) \/
  exists l1 l2 v1 v2 r,
    s = rec_handshake :: v1 :: v2 :: l1 :: l2 :: r /\
    header_len + (l1 * 256 + l2) <= lenN s /\
    header_len + (l1 * 256 + l2) <= gen_hello_buf_size /\
    tls_sink (firstn (N.to_nat (header_len + (l1 * 256 + l2))) s) = POk (name, protos).
Proof. exact (sniff_pure_name gen_hello_buf_size). Qed.
Print Assumptions C14_never_wrong_name.

(** A ClientHello fragmented over several records (which crypto/tls itself
    accepts) is outside "fits in one TLS record": HelloInfo sees the first
    record only.  Whatever the cut and whatever follows, the result is an
    error or the empty name - never a name. *)
Theorem C14_fragmented_hello : forall h k rest,
  0 < k -> k < lenN (hello_msg h) -> k < 65536 -> h_rec_vers h < 65536 ->
  lenN (hello_body h) < 16777216 ->
  match sniff_pure gen_hello_buf_size (frag_record h k ++ rest) with
  | SInfo name protos => name = [] /\ protos = []
  | SErr _ => True
  | SFuel => False
  end.
Proof. exact (sniff_pure_fragment gen_hello_buf_size). Qed.
Print Assumptions C14_fragmented_hello.

(** The parser's loops never exhaust their fuel. *)
Theorem C14_parse_total : forall s,
  sniff_pure gen_hello_buf_size s <> SFuel /\ tls_sink s <> PFuel.
Proof. exact (fun s => conj (sniff_pure_no_fuel gen_hello_buf_size s) (tls_sink_fuel s)). Qed.
Print Assumptions C14_parse_total.

(** The code the model was written against is the code in the tree. *)
Theorem C14_source_tie :
  header_len + max_plaintext <= gen_hello_buf_size /\
  16 <= gen_hello_buf_size /\
  gen_hello_header_len = header_len /\ gen_hello_handshake = rec_handshake /\
  handover_transparentb gen_read_handover = true /\
  origin_freshb gen_hello_result_origin = true /\
  hello_src_frozenb = true.
Proof.
  exact (conj gen_cap_ok (conj gen_cap_min
          (conj (proj1 gen_header_consts) (conj (proj2 gen_header_consts)
            (conj gen_read_handover_transparent (conj gen_hello_result_fresh gen_hello_src_frozen)))))).
Qed.
Print Assumptions C14_source_tie.

(** * Non-vacuity *)

Definition ex_name : bytes := [101; 120; 97; 109; 112; 108; 101; 46; 99; 111; 109]. (* example.com *)
Definition ex_h2 : bytes := [104; 50].
Definition ex_http11 : bytes := [104; 116; 116; 112; 47; 49; 46; 49].

(** A TLS 1.3-style hello with GREASE, SNI (host name plus an entry of another
    name type), supported_versions, key_share, ALPN, 12 000 bytes of padding
    and a pre_shared_key extension last. *)
Definition ex_hello : hello_spec :=
  mkHello 769 771 (rep 7 32) (rep 9 32) [4865; 4866; 49195; 255] [0]
    (Some [ EOther 2570 [];
            ESni [(1, [120]); (0, ex_name)];
            EOther 43 [4; 3; 4; 3; 3];
            EOther 51 [0; 6; 0; 29; 0; 2; 1; 2];
            EAlpn [ex_h2; ex_http11];
            EOther 21 (rep 0 12000);
            EOther 41 [0; 7; 0; 1; 65; 0; 0; 0; 0; 0; 3; 2; 1; 1] ]).

Example C14_nonvacuous_wf :
  wf_hellob ex_hello = true /\
  lenN (hello_msg ex_hello) <= max_plaintext /\
  12000 < lenN (build_hello ex_hello []) /\
  spec_name ex_hello = ex_name /\
  spec_protos ex_hello = [ex_h2; ex_http11].
Proof. vm_compute. repeat split; try reflexivity; discriminate. Qed.

(** The hello above, followed by three more bytes, arriving in segments of
    1, 2, 3, 1000, 1000, ... bytes. *)
Example C14_nonvacuous_run :
  exists b,
    sniff gen_hello_buf_size
      (br_new (mkConn (build_hello ex_hello [] ++ [23; 3; 3]) ([1; 2; 3] ++ rep 1000 20) true))
    = Ok (SInfo ex_name [ex_h2; ex_http11], b).
Proof. vm_compute. eexists. reflexivity. Qed.

(** The hand-over on a small hello with five bytes behind it in the same
    segment, read with caller buffers of hello-length, 2, 1, 32768 bytes:
    both transparent policies return everything; releasing by count returns
    the hello and then nothing. *)
Definition ex_small : hello_spec :=
  mkHello 769 771 (rep 7 32) [] [4865] [0] (Some [ESni [(0, ex_name)]]).

Example C14_nonvacuous_handover :
  let stream := build_hello ex_small [] ++ [23; 3; 3; 0; 9] in
  let n := lenN (build_hello ex_small []) in
  let run := fun pol =>
    match sniff gen_hello_buf_size (br_new (mkConn stream [] false)) with
    | Ok (_, b1) =>
        match hc_reads pol gen_hello_buf_size [n; 2; 1; 32768; 7] (hc_start n b1) with
        | Some (cs, e, _) => Some (map lenN cs, e)
        | None => None
        end
    | _ => None
    end in
  run HoNever = Some ([n; 2; 1; 2; 0], Some REof) /\
  run HoWhenDrained = Some ([n; 2; 1; 2; 0], Some REof) /\
  run HoAfterCount = Some ([n; 0], Some REof) /\
  handover_transparentb gen_read_handover = true.
Proof. vm_compute. repeat split. Qed.

(** Not TLS, a hello with two host names, a hello cut short. *)
Example C14_nonvacuous_bad :
  sniff_pure gen_hello_buf_size [71; 69; 84; 32; 47; 32] = SErr RNotTLS /\
  sniff_pure gen_hello_buf_size
    (build_hello (mkHello 769 771 (rep 7 32) [] [4865] [0]
                    (Some [ESni [(0, ex_name); (0, ex_h2)]])) []) = SInfo [] [] /\
  sniff_pure gen_hello_buf_size (firstn 100 (build_hello ex_hello [])) = SErr REof.
Proof. vm_compute. repeat split. Qed.

(** Record-layer versions 0x0300 and 0x0304 are accepted like any version
    below 0x1000 (crypto/tls ignores the record version of the first record);
    an SSLv2-style hello (first byte 0x80) is "not TLS"; the example hello cut
    after 100 bytes into two records gives the empty name. *)
Example C14_nonvacuous_versions :
  let h v := mkHello v 771 (rep 7 32) [] [4865] [0] (Some [ESni [(0, ex_name)]]) in
  wf_hellob (h 768) = true /\ wf_hellob (h 772) = true /\ wf_hellob (h 4096) = false /\
  sniff_pure gen_hello_buf_size (build_hello (h 768) []) = SInfo ex_name [] /\
  sniff_pure gen_hello_buf_size (build_hello (h 772) []) = SInfo ex_name [] /\
  sniff_pure gen_hello_buf_size (build_hello (h 4096) []) = SInfo [] [] /\
  sniff_pure gen_hello_buf_size [128; 46; 1; 0; 2; 0; 21; 0; 0; 0; 16] = SErr RNotTLS /\
  sniff_pure gen_hello_buf_size
    (frag_record ex_hello 100 ++ [22; 3; 1; 0; 5; 1; 2; 3; 4; 5]) = SInfo [] [].
Proof. vm_compute. repeat split. Qed.
