(** C05 — pisces key mapping and walk window — the code itself (semantic tie).  Property theorems only: each is
    closed by a lemma of the area's CodeRefine.v, which proves that the Go
    function bodies as gen/gotrans.go translates them on every run
    (Gen/Code*.v) compute the hand-written model on ALL inputs, and restates
    property theorems of Props/C05.v directly over the generated definitions.
    Kept apart from Props/C05.v so that a failing refinement lemma does not
    take the model-level theorems down with it. *)
From Coq Require Import List NArith ZArith Bool String.
From Verif Require Import Kv.KeyOrd Kv.AList Kv.Spec Kv.Mem Kv.Refine Lib.GoLib Gen.CodeKv Kv.CodeCands Kv.CodeRefine.
Import ListNotations.
Local Open Scope N_scope.

(** ** The code itself (semantic tie)

    [gen_pisces_kvMapKey] and [gen_pisces_partialKeys] are the Go bodies of
    kv_key.go / mem_kv.go as gen/gotrans.go translates them on every run
    (Gen/CodeKv.v).  They compute the model on ALL inputs, for every hash
    function; [None] of [partialKeys] is the slice-bounds panic. *)
Theorem C05_code_kvMapKey_is_model : forall (hk : key -> key) (k : key) (ordered : bool),
  kv_key_res (gen_pisces_kvMapKey hk k ordered) = map_key 255 ordered hk k.
Proof. exact gen_kvMapKey_is_model. Qed.
Print Assumptions C05_code_kvMapKey_is_model.

Theorem C05_code_partialKeys_is_model : forall (off n : N) (ks : list (list N)),
  lenN ks < two64 ->
  gen_pisces_partialKeys (Z.of_N off) (Z.of_N n) ks = partial_keys off n ks.
Proof. exact gen_partialKeys_is_model. Qed.
Print Assumptions C05_code_partialKeys_is_model.

Theorem C05_code_ordered_keys_verbatim : forall hk k,
  (lenN k <= 255 -> gen_pisces_kvMapKey hk k true = (k, None)) /\
  (255 < lenN k -> go_isnil (snd (gen_pisces_kvMapKey hk k true)) = false).
Proof. exact code_map_key_ordered. Qed.
Print Assumptions C05_code_ordered_keys_verbatim.

Theorem C05_code_unordered_any_key : forall hk k, gen_pisces_kvMapKey hk k false = (hk k, None).
Proof. exact code_map_key_hashed. Qed.
Print Assumptions C05_code_unordered_any_key.

Theorem C05_code_walk_window : forall (off n : N) (ks : list (list N)),
  lenN ks < two64 -> off + n < two64 ->
  gen_pisces_partialKeys (Z.of_N off) (Z.of_N n) ks = Some (window off n ks).
Proof. exact code_partial_keys_window. Qed.
Print Assumptions C05_code_walk_window.

