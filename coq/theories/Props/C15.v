(** C15 — sniproxy: one live endpoint per name; newest wins; callbacks pair
    up.  Property theorems only; each is closed by a lemma of
    Sni/RegistryProofs.v or Sni/RegistryGen.v.  They hold for every reachable
    state of the registry model (Sni/Registry.v): any number of connections,
    any interleaving of their steps. *)
From Coq Require Import List NArith ZArith Bool String.
From Verif Require Import Sni.SchedSkel Sni.Registry Sni.RegistryProofs Sni.RegistryGen Gen.ServerSkel.
From Verif Require Import Sni.RegistryKick Sni.RegistryKickProofs Sni.RegistryKey Sni.RegistryBracket.
From Verif Require Sni.RegistryCallbacks.
Import ListNotations.
Local Open Scope N_scope.

(** A name resolves to at most one connection (the registry is a map), and
    that connection is the most recently connected one under the name, and
    it has not ended. *)
Theorem C15_registered_is_newest_live : forall s n t,
  reachable s -> lookup_name s n = Some t ->
  newest s n = Some t /\
  exists th, get t (threads s) = Some th /\ th_name th = n /\ live (th_pc th) = true.
Proof. exact registered_is_newest_live. Qed.
Print Assumptions C15_registered_is_newest_live.

(** Newest wins: until the most recently connected one ends, the name
    resolves to it, whatever its predecessors do (end late, end early, be
    kicked while still connecting). *)
Theorem C15_newest_live_is_registered : forall s n t th,
  reachable s -> newest s n = Some t ->
  get t (threads s) = Some th -> th_name th = n -> live (th_pc th) = true ->
  lookup_name s n = Some t.
Proof. exact newest_live_is_registered. Qed.
Print Assumptions C15_newest_live_is_registered.

(** The end of an older connection never unregisters a newer one. *)
Theorem C15_old_end_keeps_new : forall s s' n t t',
  lookup_name s n = Some t -> t' <> t -> step s (AUnmap t') = Some s' ->
  lookup_name s' n = Some t.
Proof. exact old_end_keeps_new. Qed.
Print Assumptions C15_old_end_keeps_new.

(** An ended connection does not stay registered, under any name. *)
Theorem C15_ended_not_registered : forall s t th n,
  reachable s -> get t (threads s) = Some th -> live (th_pc th) = false ->
  lookup_name s n <> Some t.
Proof. exact ended_not_registered. Qed.
Print Assumptions C15_ended_not_registered.

(** Each connection's notifications are, at every moment, a prefix of
    [connect n s; disconnect n s] determined by how far it has got ... *)
Theorem C15_callbacks_pair : forall s t th,
  reachable s -> get t (threads s) = Some th ->
  proj t (log s) = expected_log t th.
Proof. exact callbacks_pair. Qed.
Print Assumptions C15_callbacks_pair.

(** ... and exactly that pair, same session value, once it has returned. *)
Theorem C15_callbacks_pair_finished : forall s t th,
  reachable s -> get t (threads s) = Some th -> th_pc th = P6 -> th_crashed th = false ->
  proj t (log s) =
    [Connect (th_name th) (th_sess th) t; Disconnect (th_name th) (th_sess th) t].
Proof. exact callbacks_pair_finished. Qed.
Print Assumptions C15_callbacks_pair_finished.

Theorem C15_no_stray_notification : forall s t,
  reachable s -> get t (threads s) = None -> proj t (log s) = [].
Proof. exact no_stray_notification. Qed.
Print Assumptions C15_no_stray_notification.

(** No connection ever waits for another inside the registry. *)
Theorem C15_next_action_enabled : forall s t th a,
  get t (threads s) = Some th -> th_crashed th = false -> next_action t th = Some a ->
  exists s', step s a = Some s'.
Proof. exact next_action_enabled. Qed.
Print Assumptions C15_next_action_enabled.

(** A connection whose callback / OnConnect panicked: no notification at
    all; its deferred unmap and Close still run, so it is not left
    registered.  A failed websocket upgrade changes nothing. *)
Theorem C15_crashed_is_silent : forall s t th,
  reachable s -> get t (threads s) = Some th -> th_crashed th = true ->
  proj t (log s) = [].
Proof. exact crashed_is_silent. Qed.
Print Assumptions C15_crashed_is_silent.

Theorem C15_crashed_still_unmaps : forall s t th,
  get t (threads s) = Some th -> th_pc th = P1 ->
  exists s1 s2 s3, step s (ACrash t) = Some s1 /\ step s1 (AUnmap t) = Some s2 /\
                   step s2 (AClose t) = Some s3 /\ lookup_name s3 (th_name th) <> Some t.
Proof. exact crashed_still_unmaps. Qed.
Print Assumptions C15_crashed_still_unmaps.

Theorem C15_failed_upgrade_is_noop : forall s t n, step s (AUpgradeFail t n) = Some s.
Proof. exact failed_upgrade_is_noop. Qed.
Print Assumptions C15_failed_upgrade_is_noop.

(** The tie to the source. *)
Theorem C15_source_shape :
  (endpoints_lockedb = true /\
   endpoints_users = ["Server.endpoint"; "Server.unmap"; "Server.upgrade"]%string) /\
  skel_is gen_server_skel "Server.endpoint" frozen_endpoint = true /\
  skel_is gen_server_skel "Server.unmap" frozen_unmap = true /\
  skel_is gen_server_skel "Server.upgrade" frozen_upgrade = true /\
  skel_is gen_server_skel "Server.ServeBackName" frozen_ServeBackName = true /\
  skel_is gen_server_skel "Server.ServeBack" frozen_ServeBack = true /\
  gen_server_blocking = [].
Proof.
  exact (conj gen_endpoints_locked (conj gen_endpoint_frozen (conj gen_unmap_frozen
        (conj gen_upgrade_frozen (conj gen_ServeBackName_frozen
        (conj gen_ServeBack_frozen gen_server_nonblocking)))))).
Qed.
Print Assumptions C15_source_shape.

(** ** The kick path: a kicked connection ends, whatever its peer does
    (Sni/RegistryKick.v: on top of a registry state, which peers are silent,
    which websockets have been closed on the server side, where each kicker
    goroutine is; whether the kicker closes the websocket is read off the
    source) *)

(** upgrade's goroutine calls old.Close(), which ends in an unconditional
    c.conn.Close(). *)
Theorem C15_kick_closes_connection :
  gen_kick_forces = true /\
  (gen_kick_calls = ["old.Close"] /\ gen_conn_closing_methods = ["old.Close"])%string.
Proof. exact (conj gen_kick_forces_close gen_kick_calls_Close). Qed.
Print Assumptions C15_kick_closes_connection.

(** The registry part of every history with silent peers, kickers and forced
    closes is a history of the registry model: all theorems above apply, in
    particular the pairing of the notifications. *)
Theorem C15_kick_histories_are_registry_histories : forall s,
  kreachable gen_kick_forces s -> reachable (k_reg s).
Proof. exact (kreachable_reg gen_kick_forces). Qed.
Print Assumptions C15_kick_histories_are_registry_histories.

(** upgrade starts a kicker for the connection it displaces ... *)
Theorem C15_upgrade_starts_kicker : forall s t n old s',
  get n (reg (k_reg s)) = Some old -> kstep gen_kick_forces s (KAct (AUpgrade t n)) = Some s' ->
  get old (k_kick s') = Some KWaiting.
Proof. exact (upgrade_starts_kicker gen_kick_forces). Qed.
Print Assumptions C15_upgrade_starts_kicker.

(** ... and a kicked connection that is still serving can stop serving after
    at most two steps of its kicker (the graceful part is over; the forced
    close) -- also when its peer is connected and never answers.  From there
    its deferred OnDisconnect, unmap and Close are always enabled
    ([next_action_enabled]) and it ends with exactly the pair of
    notifications ([C15_callbacks_pair_finished]). *)
Theorem C15_kicked_serving_can_end : forall s t th k,
  kreachable gen_kick_forces s -> get t (threads (k_reg s)) = Some th ->
  th_pc th = P2 -> th_crashed th = false -> get t (k_kick s) = Some k ->
  exists acts s1 s2, (List.length acts <= 2)%nat /\ kexec gen_kick_forces s acts = Some s1 /\
    k_reg s1 = k_reg s /\ kstep gen_kick_forces s1 (KAct (AServeEnd t)) = Some s2.
Proof. exact (kicked_serving_can_end gen_kick_forces gen_kick_forces_close). Qed.
Print Assumptions C15_kicked_serving_can_end.

(** The seeded change C15-f, kept as a counter-model: a kick that only asks
    for the graceful shutdown.  Connection 1 (name 7, silent peer) is kicked
    by connection 2; its kicker times out and finishes; the name resolves to
    2 -- and connection 1 is still serving, with its connect notification
    and without the disconnect, after every continuation. *)
Theorem C15_kick_without_force_refuted :
  exists s, kexec false kinit kick_history = Some s /\ never_ends s /\
    lookup_name (k_reg s) 7 = Some 2 /\ get 1 (k_kick s) = Some KFinished /\
    forall acts s', kexec false s acts = Some s' -> never_ends s'.
Proof. exact kick_without_force_refuted. Qed.
Print Assumptions C15_kick_without_force_refuted.

(** ** Nothing but upgrade and the connection's own deferred unmap writes the registry *)

(** The only functions that assign to or delete from the endpoints map are
    upgrade and unmap, and unmap is called in one place: deferred, in
    ServeBackName.  The front path (Server.dial, the proxy) reads only. *)
Theorem C15_registry_writers :
  (gen_registry_writers = ["Server.unmap"; "Server.upgrade"] /\
   gen_unmap_callers = [("Server.ServeBackName", "deferred")])%string.
Proof. exact gen_registry_writers_ok. Qed.
Print Assumptions C15_registry_writers.

(** The seeded change C15-g, kept as a counter-model: the front path unmaps a
    live endpoint whose dial answered with an error.  The resulting state --
    the name resolves to nothing while the most recently connected
    connection under it is serving, with its connect notification and no
    disconnect -- is not a state of the registry model. *)
Theorem C15_front_unmap_refuted :
  match exec init [AUpgrade 1 7; AConnect 1 5] with
  | Some s =>
      lookup_name s 7 = Some 1 /\
      let s' := front_unmap s 1 in
      lookup_name s' 7 = None /\ newest s' 7 = Some 1 /\
      (exists th, get 1 (threads s') = Some th /\ th_pc th = P2 /\ live (th_pc th) = true) /\
      proj 1 (log s') = [Connect 7 5 1] /\ ~ reachable s'
  | None => False
  end.
Proof. exact front_unmap_refuted. Qed.
Print Assumptions C15_front_unmap_refuted.

(** ** The registration bracket of ServeBackName (Sni/RegistryBracket.v) *)

(** In the source, no statement stands between the call of upgrade (with the
    error check of the failed upgrade) and the defer that calls unmap, in the
    one function that calls upgrade. *)
Theorem C15_register_unmap_adjacent :
  gen_register_bracket = [("Server.ServeBackName"%string, [])].
Proof. exact gen_register_unmap_adjacent. Qed.
Print Assumptions C15_register_unmap_adjacent.

(** Every way out of a function body of the shape
    pre; register; mid; defer unmap; post -- where nothing in pre registers
    and nothing in mid can leave the function -- on which the client was
    registered runs the unmap, whatever post is. *)
Theorem C15_registration_bracket : forall pre mid post,
  existsb is_register pre = false ->
  forallb falls_through mid = true ->
  bracket_ok (pre ++ BRegister :: mid ++ BDeferUnmap :: post) = true.
Proof. exact registration_bracket. Qed.
Print Assumptions C15_registration_bracket.

(** ... in particular for what the translator extracted from ServeBackName. *)
Theorem C15_ServeBackName_bracket : forall post,
  match gen_register_bracket with
  | [(_, between)] => bracket_ok (bracket_of between post) = true
  | _ => False
  end.
Proof. exact gen_ServeBackName_bracket. Qed.
Print Assumptions C15_ServeBackName_bracket.

(** The seeded change C15-j, kept as a counter-model: a probe that can return
    between the registration and the defer.  There is a way out on which the
    client is registered and the unmap does not run ... *)
Theorem C15_early_return_bracket_refuted :
  bracket_ok early_return_body = false /\ In (true, false) (exits early_return_body false false).
Proof. exact early_return_bracket_refuted. Qed.
Print Assumptions C15_early_return_bracket_refuted.

(** ... and in the registry model: connection 2 is mapped under name 7
    (kicking connection 1) and its thread ends without the unmap step.  The
    name resolves to an ended connection that has no notification at all;
    that is not a state of the model. *)
Theorem C15_early_return_refuted :
  match exec init [AUpgrade 1 7; AConnect 1 5; AUpgrade 2 7] with
  | Some s =>
      let s' := return_without_unmap s 2 in
      lookup_name s' 7 = Some 2 /\
      (exists th, get 2 (threads s') = Some th /\ th_pc th = P6 /\ live (th_pc th) = false) /\
      proj 2 (log s') = [] /\ ~ reachable s'
  | None => False
  end.
Proof. exact early_return_refuted. Qed.
Print Assumptions C15_early_return_refuted.

(** ** Notifications under every callback configuration (Sni/RegistryCallbacks.v) *)

(** In the source the deferred disconnect call is guarded by OnDisconnect
    being configured and by nothing else. *)
Theorem C15_disconnect_defer_guard :
  gen_disconnect_defer_guard = [("deferred", ["s.onDisconnect != nil"])]%string.
Proof. exact gen_disconnect_defer_guard_ok. Qed.
Print Assumptions C15_disconnect_defer_guard.

(** With that guard, for every configuration (hc: OnConnect configured, hd:
    OnDisconnect configured) and any connections that were accepted and have
    ended: exactly one disconnect per connection iff OnDisconnect is
    configured, exactly one connect per connection iff OnConnect is. *)
Theorem C15_callback_balance : forall hc hd conns,
  List.length (filter RegistryCallbacks.is_disconnect
                 (RegistryCallbacks.history RegistryCallbacks.source_guard hc hd conns))
    = (if hd then List.length conns else 0%nat) /\
  List.length (filter RegistryCallbacks.is_connect
                 (RegistryCallbacks.history RegistryCallbacks.source_guard hc hd conns))
    = (if hc then List.length conns else 0%nat).
Proof. exact RegistryCallbacks.callback_balance. Qed.
Print Assumptions C15_callback_balance.

(** The session of the disconnect is the one OnConnect returned, 0 without OnConnect. *)
Theorem C15_callback_sessions : forall hc hd n s,
  RegistryCallbacks.notifications RegistryCallbacks.source_guard hc hd n s =
    match hc, hd with
    | true, true => [RegistryCallbacks.NConnect n s; RegistryCallbacks.NDisconnect n s]
    | true, false => [RegistryCallbacks.NConnect n s]
    | false, true => [RegistryCallbacks.NDisconnect n 0%Z]
    | false, false => []
    end.
Proof. exact RegistryCallbacks.callback_sessions. Qed.
Print Assumptions C15_callback_sessions.

(** The seeded change C15-k, kept as a counter-model: the defer nested in the
    OnConnect condition changes nothing with both callbacks, with neither, or
    with OnConnect alone -- and with OnDisconnect alone three ended
    connections produce no notification at all. *)
Theorem C15_nested_disconnect_refuted :
  (forall n s, RegistryCallbacks.notifications RegistryCallbacks.nested_guard true true n s
               = RegistryCallbacks.notifications RegistryCallbacks.source_guard true true n s) /\
  (forall n s, RegistryCallbacks.notifications RegistryCallbacks.nested_guard false false n s
               = RegistryCallbacks.notifications RegistryCallbacks.source_guard false false n s) /\
  (forall n s, RegistryCallbacks.notifications RegistryCallbacks.nested_guard true false n s
               = RegistryCallbacks.notifications RegistryCallbacks.source_guard true false n s) /\
  RegistryCallbacks.history RegistryCallbacks.nested_guard false true [(7, 1%Z); (7, 2%Z); (8, 3%Z)] = [] /\
  RegistryCallbacks.history RegistryCallbacks.source_guard false true [(7, 1%Z); (7, 2%Z); (8, 3%Z)]
    = [RegistryCallbacks.NDisconnect 7 0; RegistryCallbacks.NDisconnect 7 0; RegistryCallbacks.NDisconnect 8 0].
Proof. exact RegistryCallbacks.nested_disconnect_refuted. Qed.
Print Assumptions C15_nested_disconnect_refuted.

(** ** The key of the registry is the name itself (Sni/RegistryKey.v) *)

(** Every access of the endpoints map -- lookup, the old-entry lookup, delete
    and store of upgrade, check and delete of unmap -- uses the name
    parameter itself as the key. *)
Theorem C15_registry_key_uniform :
  gen_registry_key_uniformb = true /\
  map fst gen_registry_keys =
    ["Server.endpoint"; "Server.unmap"; "Server.unmap"; "Server.upgrade"; "Server.upgrade"; "Server.upgrade"]%string.
Proof. exact (conj gen_registry_key_uniform gen_registry_key_sites). Qed.
Print Assumptions C15_registry_key_uniform.

(** Names that differ -- in the case of one letter, in a trailing dot or
    slash, in anything -- are independent: a step changes the entry of at
    most the name it works under. *)
Theorem C15_names_independent : forall s a s' n',
  step s a = Some s' -> action_name s a <> Some n' -> lookup_name s' n' = lookup_name s n'.
Proof. exact names_independent. Qed.
Print Assumptions C15_names_independent.

(** The seeded change C15-h, kept as a counter-model: lookup and upgrade
    under a folded key, unmap under the raw name.  A connection named
    "Tester-7" (8) is stored under "tester-7" (7); it ends on its own, its
    unmap finds nothing, and both spellings keep resolving to the ended
    connection; in the model of the source the name is free again. *)
Theorem C15_folded_key_refuted :
  match exec_folded fold87 init
          [AUpgrade 1 8; AConnect 1 5; AServeEnd 1; ADisconnect 1; AUnmap 1; AClose 1] with
  | Some s =>
      (exists th, get 1 (threads s) = Some th /\ th_pc th = P6) /\
      lookup_folded fold87 s 8 = Some 1 /\ lookup_folded fold87 s 7 = Some 1
  | None => False
  end /\
  match exec init [AUpgrade 1 8; AConnect 1 5; AServeEnd 1; ADisconnect 1; AUnmap 1; AClose 1] with
  | Some s => lookup_name s 8 = None /\ lookup_name s 7 = None
  | None => False
  end.
Proof. exact folded_key_refuted. Qed.
Print Assumptions C15_folded_key_refuted.

(** * Non-vacuity *)

(** Three generations under one name; the oldest ends last.  The name always
    resolves to the newest; the late unmaps of 1 and 2 change nothing; once 3
    has ended the name is free; every connection has its pair. *)
Definition ex_acts : list action :=
  [ AUpgrade 1 7; AConnect 1 100; AUpgrade 2 7; AConnect 2 101; AServeEnd 1;
    AUpgrade 3 7; AServeEnd 2; ADisconnect 2; AUnmap 2; AClose 2; AConnect 3 102;
    ADisconnect 1; AUnmap 1; AClose 1 ].

Example C15_ex_three_generations :
  match exec init ex_acts with
  | Some s =>
      lookup_name s 7 = Some 3 /\ newest s 7 = Some 3 /\
      proj 1 (log s) = [Connect 7 100 1; Disconnect 7 100 1] /\
      proj 2 (log s) = [Connect 7 101 2; Disconnect 7 101 2] /\
      proj 3 (log s) = [Connect 7 102 3] /\
      match exec s [AServeEnd 3; ADisconnect 3; AUnmap 3; AClose 3] with
      | Some s' => lookup_name s' 7 = None /\ newest s' 7 = Some 3
      | None => False
      end
  | None => False
  end.
Proof. vm_compute. repeat split. Qed.

(** A predecessor kicked while still connecting (before OnConnect) still
    produces its pair and never comes back into the registry. *)
Example C15_ex_kicked_while_connecting :
  match exec init [AUpgrade 1 7; AUpgrade 2 7; AConnect 2 5; AConnect 1 4; AServeEnd 1;
                   ADisconnect 1; AUnmap 1; AClose 1] with
  | Some s => lookup_name s 7 = Some 2 /\
              proj 1 (log s) = [Connect 7 4 1; Disconnect 7 4 1]
  | None => False
  end.
Proof. vm_compute. repeat split. Qed.

(** Steps out of order are not steps of the model. *)
Example C15_ex_order_enforced :
  exec init [AUpgrade 1 7; AUnmap 1] = None /\
  exec init [AUpgrade 1 7; AUpgrade 1 7] = None.
Proof. vm_compute. split; reflexivity. Qed.

(** A connection whose OnConnect panics while it is the registered one. *)
Example C15_ex_crash :
  match exec init [AUpgrade 1 7; AConnect 1 100; AUpgrade 2 7; ACrash 2; AUnmap 2; AClose 2] with
  | Some s => lookup_name s 7 = None /\ proj 2 (log s) = [] /\ proj 1 (log s) = [Connect 7 100 1]
  | None => False
  end.
Proof. vm_compute. repeat split. Qed.

(** The history of the counter-model with the kick as it is in the source:
    after the forced close connection 1 stops serving, runs its defers and
    has exactly its pair of notifications; the name resolves to 2. *)
Example C15_ex_silent_peer_kicked :
  match kexec gen_kick_forces kinit
          (kick_history ++ [KAct (AServeEnd 1); KAct (ADisconnect 1); KAct (AUnmap 1); KAct (AClose 1)]) with
  | Some s => proj 1 (log (k_reg s)) = [Connect 7 5 1; Disconnect 7 5 1] /\
              lookup_name (k_reg s) 7 = Some 2 /\ In 1 (k_closed s)
  | None => False
  end.
Proof. vm_compute. repeat split; auto. Qed.
