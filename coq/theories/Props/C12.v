(** C12 — caco3: names and patterns resolve exactly and inside the workspace.
    Property theorems only; each is closed by a lemma proved in Lib/Path.v,
    Caco/NamesProofs.v, Caco/FileSetProofs.v or Caco/NamesGen.v.  All
    statements quantify over arbitrary byte strings. *)
From Coq Require Import List NArith Bool String Permutation.
From Verif Require Import Lib.Path Lib.Utf8 Caco.Names Caco.NamesProofs Caco.Match Caco.MatchProofs Caco.FileSet Caco.FileSetProofs Caco.FileSetIgnore Caco.FileSetWalk Caco.FileSetSeq Caco.MatchComplete
  Caco.NamesGenDefs Caco.NamesGen Gen.CacoConsts.
From Verif Require Caco.LoadSessionGen.
Import ListNotations.
Local Open Scope N_scope.

(** ** Go's lexical path functions *)

Theorem C12_clean_idempotent : forall p, clean (clean p) = clean p.
Proof. exact clean_idem. Qed.
Print Assumptions C12_clean_idempotent.

(** A rooted clean path consists of real elements only: no "", ".", "..". *)
Theorem C12_clean_rooted_no_dotdot : forall p,
  is_rooted p = true ->
  clean p = slash :: join_slash (nsegs p) /\ forallb goodb (nsegs p) = true.
Proof. exact clean_rooted_segments. Qed.
Print Assumptions C12_clean_rooted_no_dotdot.

(** An unrooted clean path has ".." only as a leading run. *)
Theorem C12_clean_unrooted_shape : forall p,
  is_rooted p = false ->
  exists k ns, nsegs p = repeat_seg s_dotdot k ++ ns /\ forallb goodb ns = true.
Proof. exact clean_unrooted_segments. Qed.
Print Assumptions C12_clean_unrooted_shape.

(** ** Names *)

(** [makeRelPath(p, f)] for ALL strings: the elements [p] leads to from the
    root, then those [f] leads to from the root — so [f] cannot climb out of
    the package whatever "..", "/", "//" or "." it contains. *)
Theorem C12_rel_name_exact : forall p f,
  make_rel_path p f = join_slash (rsegs p ++ rsegs f) /\
  rel_segs (make_rel_path p f) = rsegs p ++ rsegs f /\
  forallb goodb (rsegs p ++ rsegs f) = true.
Proof.
  exact (fun p f => conj (make_rel_path_spec p f) (conj (make_rel_path_segs p f)
           (app_good _ _ (rsegs_good p) (rsegs_good f)))).
Qed.
Print Assumptions C12_rel_name_exact.

(** Resolved names are clean slash-separated relative paths. *)
Theorem C12_rel_name_clean : forall p f, clean_relb (make_rel_path p f) = true.
Proof. exact make_rel_path_clean. Qed.
Print Assumptions C12_rel_name_clean.

Theorem C12_rel_name_inside_package : forall p f,
  clean_relb p = true ->
  exists rest, rel_segs (make_rel_path p f) = rel_segs p ++ rest /\ forallb goodb rest = true.
Proof. exact make_rel_path_inside. Qed.
Print Assumptions C12_rel_name_inside_package.

(** Every package path the loader uses is such a resolved name — the
    repo-map keys of the WORKSPACE file through [makeRelPath("", key)], the
    sub-build directories through [makeRelPath(p, d)] (the resolver-call table
    of [C12_source_as_modelled]) — hence clean, whatever "..", "./" or "//" the
    key carries; the premise of [C12_rel_name_inside_package] is met. *)
Theorem C12_package_paths_are_clean : forall key p d,
  clean_relb (make_rel_path [] key) = true /\
  rel_segs (make_rel_path [] key) = rsegs key /\
  clean_relb (make_rel_path p d) = true.
Proof.
  exact (fun key p d => conj (make_rel_path_clean [] key)
           (conj (make_rel_path_segs [] key) (make_rel_path_clean p d))).
Qed.
Print Assumptions C12_package_paths_are_clean.

(** [makePath]: absolute names resolve from the workspace root, others from
    the package; clean either way. *)
Theorem C12_any_name_exact : forall p f,
  make_path p f = (if is_rooted f then join_slash (rsegs f) else join_slash (rsegs p ++ rsegs f)) /\
  clean_relb (make_path p f) = true.
Proof. exact (fun p f => conj (make_path_spec p f) (make_path_clean p f)). Qed.
Print Assumptions C12_any_name_exact.

(** [env.src] / [env.out] of a clean name stay beneath the directory, element
    for element, for every directory string. *)
Theorem C12_src_out_under_root : forall dir name,
  clean_relb name = true ->
  nsegs (dir_file_path dir [name]) = nsegs dir ++ rel_segs name /\
  (dir <> [] -> is_rooted (dir_file_path dir [name]) = is_rooted dir).
Proof. exact dir_file_path_under. Qed.
Print Assumptions C12_src_out_under_root.

(** End to end, for all strings a build file may use. *)
Theorem C12_resolved_rel_under_root : forall dir p f,
  nsegs (dir_file_path dir [make_rel_path p f]) = nsegs dir ++ rsegs p ++ rsegs f.
Proof. exact src_of_rel_path. Qed.
Print Assumptions C12_resolved_rel_under_root.

Theorem C12_resolved_any_under_root : forall dir p f,
  nsegs (dir_file_path dir [make_path p f]) =
  nsegs dir ++ (if is_rooted f then rsegs f else rsegs p ++ rsegs f).
Proof. exact src_of_path. Qed.
Print Assumptions C12_resolved_any_under_root.

(** The output names derived from a rule name ([.fileset], [.dockersum],
    [.tar.gz], as regenerated from the source) are clean names in the same
    directory. *)
Theorem C12_output_names_clean : forall fn sfx name,
  In (fn, sfx) gen_out_suffixes -> clean_relb name = true ->
  clean_relb (with_suffix name sfx) = true /\
  removelast (rel_segs (with_suffix name sfx)) = removelast (rel_segs name).
Proof. exact (fun fn sfx name H Hn => with_suffix_clean name sfx Hn (gen_suffix_good fn sfx H)). Qed.
Print Assumptions C12_output_names_clean.

(** ** File sets *)

(** The listing is exactly: explicitly named files, plus what each selection
    matches minus what is ignored; sorted, without duplicates; and every
    selection matched something. *)
Theorem C12_file_set_exact : forall sb tree p r name files,
  file_set gen_excl sb tree p r = FsOk name files ->
  name = make_rel_path p (r_name r) /\
  sortedb files = true /\
  (forall sel, In sel (r_select r) ->
     exists ms, ms <> [] /\ select_matches gen_excl sb tree p sel = SOk ms) /\
  forall f, In f files <->
    (exists e, In e (r_files r) /\ f = make_path p e) \/
    exists sel ms, In sel (r_select r) /\ select_matches gen_excl sb tree p sel = SOk ms /\
                   In f ms /\ ignored p r f = false.
Proof. exact (file_set_exact gen_excl). Qed.
Print Assumptions C12_file_set_exact.

(** A failing rule: some selection matched nothing, could not be listed, or
    is a malformed pattern ([filepath.Glob]'s ErrBadPattern). *)
Theorem C12_file_set_error : forall sb tree p r e,
  file_set gen_excl sb tree p r = FsErr e ->
  exists sel, In sel (r_select r) /\
    ((e = SelNoFiles sel /\ select_matches gen_excl sb tree p sel = SOk []) \/
     (e = SelListErr sel /\ select_matches gen_excl sb tree p sel = SListErr) \/
     (e = SelGlobErr sel /\ select_matches gen_excl sb tree p sel = SGlobErr)).
Proof. exact (file_set_error gen_excl). Qed.
Print Assumptions C12_file_set_error.

(** A name is ignored exactly when it lies under an ignored directory or
    matches an ignore pattern. *)
Theorem C12_ignored_exact : forall p r f,
  ignored p r f = true <->
  (exists i, In i (r_ignore r) /\ ends_with_slash i = true /\
             under_ignored_dir f (make_rel_path p i) = true) \/
  (exists i, In i (r_ignore r) /\ ends_with_slash i = false /\
             matches (make_rel_path p i) f = true).
Proof. exact ignored_spec. Qed.
Print Assumptions C12_ignored_exact.

(** A directory ignore covers exactly the names STRICTLY BENEATH that
    directory, element-wise: a sibling whose name merely starts with the
    directory's name is not covered. *)
Theorem C12_dir_ignore_is_segmentwise : forall p i x,
  x <> [] ->
  (under_ignored_dir x (make_rel_path p i) = true <->
   exists rest, rest <> [] /\ rel_segs x = (rsegs p ++ rsegs i) ++ rest).
Proof. exact dir_ignore_is_segmentwise. Qed.
Print Assumptions C12_dir_ignore_is_segmentwise.

(** Ignore entries are independent of one another (Caco/FileSetIgnore.v): a
    name is ignored exactly when one entry, taken ALONE, ignores it ... *)
Theorem C12_ignored_entrywise : forall p r name,
  ignored p r name = existsb (fun i => ignored p (only_ignore r i) name) (r_ignore r).
Proof. exact ignored_entrywise. Qed.
Print Assumptions C12_ignored_entrywise.

(** ... so a directory ignore covers every name beneath its directory
    whatever other entries the rule has (a directory whose name sorts between
    it and the files beneath it - gen.old/ next to gen/, a-b/ next to a/ -, a
    directory nested in it, the root) and wherever it stands among them; *)
Theorem C12_dir_ignore_independent_of_other_ignores : forall p r i name,
  In i (r_ignore r) -> ends_with_slash i = true ->
  beneath name (make_rel_path p i) = true ->
  ignored p r name = true.
Proof. exact dir_ignore_independent_of_other_ignores. Qed.
Print Assumptions C12_dir_ignore_independent_of_other_ignores.

(** further entries never take a name out again, a name that no entry alone
    ignores is not ignored, and the order of the entries does not matter. *)
Theorem C12_ignored_monotone : forall p r r' name,
  incl (r_ignore r) (r_ignore r') -> ignored p r name = true -> ignored p r' name = true.
Proof. exact ignored_monotone. Qed.
Print Assumptions C12_ignored_monotone.

Theorem C12_not_ignored_iff : forall p r name,
  ignored p r name = false <->
  forall i, In i (r_ignore r) -> ignored p (only_ignore r i) name = false.
Proof. exact not_ignored_iff. Qed.
Print Assumptions C12_not_ignored_iff.

Theorem C12_ignored_order_irrelevant : forall p r r' name,
  Permutation (r_ignore r) (r_ignore r') -> ignored p r name = ignored p r' name.
Proof. exact ignored_order_irrelevant. Qed.
Print Assumptions C12_ignored_order_irrelevant.

(** A lookup that sorts the ignored directories and tests only the
    predecessor of the name loses gen/a.go under [gen/; gen.old/], a/x under
    [a/; a-b/] and under the nested [a/; a/m/]. *)
Theorem C12_bsearch_dir_ignore_refuted :
  ignored_dirs_bsearch [] (ig_rule [bs "gen/"; bs "gen.old/"]) (bs "gen/a.go") = false /\
  ignored [] (ig_rule [bs "gen/"; bs "gen.old/"]) (bs "gen/a.go") = true /\
  ignored_dirs_bsearch [] (ig_rule [bs "gen/"]) (bs "gen/a.go") = true /\
  ignored_dirs_bsearch [] (ig_rule [bs "a-b/"; bs "a/"]) (bs "a/x") = false /\
  ignored [] (ig_rule [bs "a-b/"; bs "a/"]) (bs "a/x") = true /\
  ignored_dirs_bsearch [] (ig_rule [bs "a/"; bs "a/m/"]) (bs "a/x") = false /\
  ignored_dirs_bsearch [] (ig_rule [bs "a/"; bs "a/m/"]) (bs "a/b") = true /\
  ignored [] (ig_rule [bs "a/"; bs "a/m/"]) (bs "a/x") = true /\
  ignored (bs "pkg") (ig_rule [bs "gen.old/"; bs "gen/"]) (bs "pkg/gen/a.go") = true /\
  ignored (bs "pkg") (ig_rule [bs "gen.old/"; bs "gen/"]) (bs "pkg/gen.old/a.go") = true /\
  ignored (bs "pkg") (ig_rule [bs "gen.old/"; bs "gen/"]) (bs "pkg/generic/a.go") = false.
Proof. exact bsearch_dir_ignore_refuted. Qed.
Print Assumptions C12_bsearch_dir_ignore_refuted.

(** A file ignore entry (one that does not end in "/") ignores exactly what
    [path.Match] matches with it - every meta character of [path.Match]
    included, the backslash too. *)
Theorem C12_file_ignore_is_path_match : forall p r i name,
  ignored p (only_ignore r i) name =
  if ends_with_slash i then under_ignored_dir name (make_rel_path p i)
  else matches (make_rel_path p i) name.
Proof. exact ignored_only. Qed.
Print Assumptions C12_file_ignore_is_path_match.

(** Looking entries without '*', '?', '[' up as literal names instead: the
    escaped literals "a\.txt", "a\ b" no longer ignore a.txt, "a b", and the
    file literally called a\.txt is ignored although the pattern does not match
    it. *)
Theorem C12_escaped_ignore_is_a_pattern_refuted :
  ignored [] (ig_rule [bs "a\.txt"]) (bs "a.txt") = true /\
  ignored_exact_lookup [] (ig_rule [bs "a\.txt"]) (bs "a.txt") = false /\
  ignored [] (ig_rule [bs "a\ b"]) (bs "a b") = true /\
  ignored_exact_lookup [] (ig_rule [bs "a\ b"]) (bs "a b") = false /\
  ignored [] (ig_rule [bs "\[x\]"]) (bs "[x]") = true /\
  ignored [] (ig_rule [bs "a.txt\"]) (bs "a.txt") = false /\
  ignored [] (ig_rule [bs "a\.txt"]) (bs "a\.txt") = false /\
  ignored_exact_lookup [] (ig_rule [bs "a\.txt"]) (bs "a\.txt") = true /\
  ignored (bs "pkg") (ig_rule [bs "d/a\.txt"]) (bs "pkg/d/a.txt") = true.
Proof. exact escaped_ignore_is_a_pattern_refuted. Qed.
Print Assumptions C12_escaped_ignore_is_a_pattern_refuted.

(** The recursive listing, entry by entry (Caco/FileSetWalk.v): listed are
    the entries that are no real directories, lie beneath the root, are reached
    through real directories none of which is named like a skipped directory,
    and whose own base name is none of the skipped file names. *)
Theorem C12_recursive_listing_member : forall x sb tree R l f,
  root_walked x sb tree R -> list_all x sb tree R = Some l ->
  (In f l <-> exists e, In e tree /\ t_path e = f /\ listed x tree R e = true).
Proof. exact list_all_member. Qed.
Print Assumptions C12_recursive_listing_member.

(** A non-directory entry never prunes its siblings: a regular file or a
    symbolic link of ANY name (".git" - the gitdir pointer file of worktrees
    and submodules -, COPYING, tags, ...) under a path the tree did not have
    changes the listing by at most its own name, wherever it sorts. *)
Theorem C12_non_directory_never_prunes : forall x sb tree R e' l l' f,
  is_real_dir (t_kind e') = false -> find_entry tree (t_path e') = None ->
  root_walked x sb tree R ->
  list_all x sb tree R = Some l -> list_all x sb (e' :: tree) R = Some l' ->
  f <> t_path e' ->
  (In f l' <-> In f l).
Proof. exact non_directory_never_prunes. Qed.
Print Assumptions C12_non_directory_never_prunes.

(** A walk that prunes at any entry named ".git", directory or not, keeps
    only what sorts before it. *)
Theorem C12_git_file_prunes_siblings_refuted :
  list_all w_excl (bs "src") w_tree [] =
    Some [bs "-x"; bs ".git"; bs "a"; bs "d/a"; bs "d/.git"; bs "d/-x"; bs "COPYING/x"] /\
  list_all_pruning w_excl (bs "src") w_tree [] = Some [bs "-x"; bs ".git"] /\
  list_all w_excl (bs "src") w_tree (bs "d") = Some [bs "d/a"; bs "d/.git"; bs "d/-x"] /\
  list_all_pruning w_excl (bs "src") w_tree (bs "d") = Some [bs "d/.git"; bs "d/-x"].
Proof. exact git_file_prunes_siblings_refuted. Qed.
Print Assumptions C12_git_file_prunes_siblings_refuted.

(** Several file sets made with one env (all the rules of the build files of
    one Build): rule [k] of any sequence lists what it lists alone - a file
    set's listing is a function of the tree and its own patterns only
    (Caco/FileSetSeq.v). *)
Theorem C12_file_sets_seq_pointwise : forall x sb tree p rs k r,
  nth_error rs k = Some r ->
  nth_error (file_sets_seq x sb tree p rs) k = Some (file_set x sb tree p r).
Proof. exact file_sets_seq_pointwise. Qed.
Print Assumptions C12_file_sets_seq_pointwise.

(** Every request for a recursive listing walks ([ListPerCall]): read off the
    current source, the Builder's env holds no listing - its fields are the
    frozen ones and nothing but the workspace memo and the per-call hooks is
    ever written on it - and the selection loop of [newFileSet] has the frozen
    text (it calls the plain function [listAllFiles]). *)
Theorem C12_listings_per_call : forall x sb tree dirs c,
  LoadSessionGen.env_writes_frozenb = true /\ LoadSessionGen.env_layout_frozenb = true /\
  gen_src_select = model_src_select /\
  listings_seq ListPerCall x sb tree c dirs = map (list_all x sb tree) dirs.
Proof. exact gen_listings_per_call. Qed.
Print Assumptions C12_listings_per_call.

(** A listing kept per walked directory that serves sub-directories by
    filtering IN PLACE: the next request for the ancestor has lost the files
    sorting before the sub-directory. *)
Theorem C12_shared_listing_in_place_refuted :
  listings_seq ListSharedInPlace sq_excl (bs "src") sq_tree [] [bs "pkg"; bs "pkg/docs"; bs "pkg"] =
    [ Some [bs "pkg/a.txt"; bs "pkg/aa/x"; bs "pkg/docs/d1.txt"; bs "pkg/docs/d2.txt"; bs "pkg/zz/z.txt"];
      Some [bs "pkg/docs/d1.txt"; bs "pkg/docs/d2.txt"];
      Some [bs "pkg/docs/d1.txt"; bs "pkg/docs/d2.txt"; bs "pkg/docs/d1.txt"; bs "pkg/docs/d2.txt"; bs "pkg/zz/z.txt"] ] /\
  listings_seq ListPerCall sq_excl (bs "src") sq_tree [] [bs "pkg"; bs "pkg/docs"; bs "pkg"] =
    [ Some [bs "pkg/a.txt"; bs "pkg/aa/x"; bs "pkg/docs/d1.txt"; bs "pkg/docs/d2.txt"; bs "pkg/zz/z.txt"];
      Some [bs "pkg/docs/d1.txt"; bs "pkg/docs/d2.txt"];
      Some [bs "pkg/a.txt"; bs "pkg/aa/x"; bs "pkg/docs/d1.txt"; bs "pkg/docs/d2.txt"; bs "pkg/zz/z.txt"] ].
Proof. exact shared_listing_in_place_refuted. Qed.
Print Assumptions C12_shared_listing_in_place_refuted.

(** A build creates files under the workspace only: every file-creating
    call of package caco3 in the current source takes its path from
    [env.prepareOut] / the workspace's directories; none goes to a temporary
    directory (an [os.CreateTemp("", ...)] would be a new entry of the list). *)
Theorem C12_builds_create_inside_workspace : caco3_createsb = true.
Proof. exact gen_caco3_creates. Qed.
Print Assumptions C12_builds_create_inside_workspace.

(** ** Patterns: Go's path.Match in full *)

(** Matching is total (the recursion budget of the model always suffices)
    and [ErrBadPattern] depends on the pattern alone, never on the name. *)
Theorem C12_match_total : forall pat name, go_match pat name <> MFuel.
Proof. exact go_match_no_fuel. Qed.
Print Assumptions C12_match_total.

Theorem C12_bad_pattern_is_about_the_pattern : forall pat name,
  go_match pat name = MBad <-> well_formed pat = false.
Proof. exact go_match_bad_iff. Qed.
Print Assumptions C12_bad_pattern_is_about_the_pattern.

(** A malformed ignore pattern (logged by the code) ignores nothing. *)
Theorem C12_bad_ignore_matches_nothing : forall pat name,
  well_formed pat = false -> matches pat name = false.
Proof. exact matches_bad. Qed.
Print Assumptions C12_bad_ignore_matches_nothing.

(** What [Match] accepts is a match in the declarative reading of the
    pattern (chunks of one-rune items separated by '/'-free gaps). *)
Theorem C12_match_sound : forall pat name chunks,
  parse_pattern pat = POk chunks -> go_match pat name = MTrue -> dmatch chunks name = true.
Proof. exact go_match_sound. Qed.
Print Assumptions C12_match_sound.

(** The converse - the greedy chunk loop finds every declarative match - for
    patterns without character classes on names whose runes are single bytes,
    and for patterns of literals and '*' on any name (Caco/MatchComplete.v): a
    chunk of literals and '?' that fits at the first offset and again behind a
    gap free of '/' cannot contain a '/', so the next '*' can swallow the
    difference. *)
Theorem C12_match_complete_partial : forall pat name chunks,
  parse_pattern pat = POk chunks -> chunks_plain chunks = true ->
  (chunks_lits chunks = true \/ narrow name = true) ->
  dmatch chunks name = true -> go_match pat name = MTrue.
Proof. exact go_match_complete_partial. Qed.
Print Assumptions C12_match_complete_partial.

(** ... so for these [Match] decides the declarative reading. *)
Theorem C12_match_exact_partial : forall pat name chunks,
  parse_pattern pat = POk chunks -> chunks_plain chunks = true ->
  (chunks_lits chunks = true \/ narrow name = true) ->
  (go_match pat name = MTrue <-> dmatch chunks name = true).
Proof. exact go_match_exact_partial. Qed.
Print Assumptions C12_match_exact_partial.

(** The full statement is FALSE for Go's matcher, in two ways (both are what
    [path.Match] of the toolchain does; corpus cases of the match stream): a
    character class matches '/', which no later '*' can swallow, and '*' skips
    bytes where '?' takes runes. *)
Definition stmt_match_complete : Prop := forall pat name chunks,
  parse_pattern pat = POk chunks -> dmatch chunks name = true -> go_match pat name = MTrue.

Theorem C12_match_class_incomplete_refuted :
  let pat := bs "*[^a]*b" in let name := bs "x/b" in
  exists chunks, parse_pattern pat = POk chunks /\ dmatch chunks name = true /\
                 go_match pat name = MFalse.
Proof. exact match_class_incomplete_refuted. Qed.
Print Assumptions C12_match_class_incomplete_refuted.

Theorem C12_match_wide_rune_incomplete_refuted :
  let pat := bs "*??*X" in let name := [240; 144; 128; 128; 88]%N in
  exists chunks, parse_pattern pat = POk chunks /\ dmatch chunks name = true /\
                 go_match pat name = MFalse /\ chunks_plain chunks = true.
Proof. exact match_wide_rune_incomplete_refuted. Qed.
Print Assumptions C12_match_wide_rune_incomplete_refuted.

Theorem C12_match_complete_refuted : ~ stmt_match_complete.
Proof. exact stmt_match_complete_refuted. Qed.
Print Assumptions C12_match_complete_refuted.

(** '*' and '?' never match across a directory separator: a matched name has
    exactly the literal '/'s of the pattern, plus at most one per character
    class (Go's classes do match '/'). *)
Theorem C12_patterns_never_cross_slash : forall pat name chunks,
  parse_pattern pat = POk chunks -> go_match pat name = MTrue ->
  (chunks_slashes chunks <= count_slash name <= chunks_slashes chunks + chunks_classes chunks)%nat.
Proof. exact go_match_slashes. Qed.
Print Assumptions C12_patterns_never_cross_slash.

Theorem C12_classless_patterns_keep_depth : forall pat name chunks,
  parse_pattern pat = POk chunks -> chunks_classes chunks = 0%nat -> go_match pat name = MTrue ->
  count_slash name = chunks_slashes chunks.
Proof. exact go_match_same_depth. Qed.
Print Assumptions C12_classless_patterns_keep_depth.

Theorem C12_literal_pattern_is_equality : forall pat name,
  has_meta pat = false -> go_match pat name = if str_eqb pat name then MTrue else MFalse.
Proof. exact go_match_literal. Qed.
Print Assumptions C12_literal_pattern_is_equality.

(** [filepath.Match] (used by [filepath.Glob]) accepts exactly what
    [path.Match] accepts; it only reports fewer malformed patterns: on
    well-formed patterns the two agree. *)
Theorem C12_filepath_match_true : forall pat name,
  fp_match pat name = MTrue -> go_match pat name = MTrue.
Proof. exact fp_match_true_go. Qed.
Print Assumptions C12_filepath_match_true.

Theorem C12_filepath_match_agrees : forall pat name,
  well_formed pat = true -> fp_match pat name = go_match pat name.
Proof. exact fp_match_well_formed. Qed.
Print Assumptions C12_filepath_match_agrees.

(** '?' and a class take exactly one rune, however many bytes it has. *)
Theorem C12_qmark_takes_one_rune : forall r rest,
  valid_rune r = true -> r <> slash ->
  match_items [IAny] (encode_rune r ++ rest) = Some rest.
Proof. exact qmark_takes_one_rune. Qed.
Print Assumptions C12_qmark_takes_one_rune.

Theorem C12_class_takes_one_rune : forall neg rs r rest,
  valid_rune r = true ->
  match_items [IClass neg rs] (encode_rune r ++ rest) =
  if Bool.eqb (in_ranges r rs) neg then None else Some rest.
Proof. exact class_takes_one_rune. Qed.
Print Assumptions C12_class_takes_one_rune.

(** A glob selection is element-wise: every listed path has as many elements
    as the pattern and each is matched by its pattern element. *)
Theorem C12_glob_is_elementwise : forall tree segs_rev ms,
  nonempty_all segs_rev = true ->
  glob_rev tree segs_rev = Some ms ->
  forall m, In m ms ->
  exists names, m = join_slash names /\ nonempty_all names = true /\
                Forall2 (fun seg n => fp_matches seg n = true) (rev segs_rev) names.
Proof. exact glob_rev_elementwise. Qed.
Print Assumptions C12_glob_is_elementwise.

(** ** Symbolic links in the source tree *)

(** [listAllFiles] never descends a symbolic link: between the listing root
    and a listed path there are only real directories. (Links themselves are
    listed by name; nothing is read through them at this stage.) *)
Theorem C12_recursive_listing_never_follows_links : forall sb tree R l f,
  list_all gen_excl sb tree R = Some l -> In f l ->
  f = R \/
  forall q, In q (dirs_between f R) ->
    exists e, find_entry tree q = Some e /\ t_kind e = TDir.
Proof. exact (list_all_no_follow gen_excl). Qed.
Print Assumptions C12_recursive_listing_never_follows_links.

(** The same does NOT hold of glob selections, of the root of a recursive
    selection, or of explicitly named files: [filepath.Glob] stats
    directories through links and the kernel resolves the directory part of
    any name.  Kept as a statement; refuted by the example below (the open
    finding of known_findings/C12.json). *)
Definition stmt_selection_never_passes_a_link : Prop := forall sb tree p r name files f,
  file_set gen_excl sb tree p r = FsOk name files -> In f files ->
  forall q, In q (dirs_between f []) ->
    exists e, find_entry tree q = Some e /\ t_kind e = TDir.

(** ** The model is the current source *)

Theorem C12_source_as_modelled :
  gen_src_makeRelPath = model_src_makeRelPath /\
  gen_src_makePath = model_src_makePath /\
  gen_src_dirFilePath = model_src_dirFilePath /\
  gen_src_env_src = model_src_env_src /\
  gen_src_env_out = model_src_env_out /\
  gen_src_listAllFiles = model_src_listAllFiles /\
  gen_src_ignore = model_src_ignore /\
  gen_src_select = model_src_select /\
  gen_resolve_calls = model_resolve_calls /\
  gen_list_unknown = [].
Proof.
  exact (conj gen_makeRelPath_unchanged (conj gen_makePath_unchanged (conj gen_dirFilePath_unchanged
        (conj gen_env_src_unchanged (conj gen_env_out_unchanged (conj gen_listAllFiles_unchanged
        (conj gen_ignore_unchanged (conj gen_select_unchanged (conj gen_resolve_calls_unchanged
         gen_list_recognised))))))))).
Qed.
Print Assumptions C12_source_as_modelled.

(** ** Non-vacuity *)

Example C12_nonvacuous_names :
  make_rel_path (bs "pkg/sub") (bs "../../etc/passwd") = bs "pkg/sub/etc/passwd" /\
  make_rel_path (bs "pkg") (bs "a//b/./../c/") = bs "pkg/a/c" /\
  make_path (bs "pkg") (bs "/../x/y") = bs "x/y" /\
  make_rel_path [] [] = [] /\
  clean_relb (bs "pkg/sub") = true /\
  dir_file_path (bs "/w/src") [make_rel_path (bs "a") (bs "../..")] = bs "/w/src/a" /\
  make_rel_path [] (bs "../../outside") = bs "outside" /\
  make_rel_path (bs "../vendor/lib") (bs "x") = bs "vendor/lib/x" /\
  nsegs (bs "../s/./t/..") = [bs ".."; bs "s"].
Proof. vm_compute. repeat split. Qed.

Definition ex_tree : list tentry :=
  [ {| t_path := bs "dir"; t_kind := TDir |}; {| t_path := bs "dir/a.txt"; t_kind := TFile |};
    {| t_path := bs "dir2"; t_kind := TDir |}; {| t_path := bs "dir2/b.txt"; t_kind := TFile |};
    {| t_path := bs "dirfile"; t_kind := TFile |} ].

Example C12_nonvacuous_file_set :
  file_set gen_excl (bs "src") ex_tree []
    {| r_name := bs "fs"; r_files := [bs "/x/y"]; r_select := [bs "**"]; r_ignore := [bs "dir/"] |}
  = FsOk (bs "fs") [bs "dir2/b.txt"; bs "dirfile"; bs "x/y"] /\
  file_set gen_excl (bs "src") ex_tree []
    {| r_name := bs "fs"; r_files := []; r_select := [bs "dir*/*"]; r_ignore := [bs "*/a.*"] |}
  = FsOk (bs "fs") [bs "dir2/b.txt"] /\
  file_set gen_excl (bs "src") ex_tree []
    {| r_name := bs "fs"; r_files := []; r_select := [bs "nope/*"]; r_ignore := [] |}
  = FsErr (SelNoFiles (bs "nope/*")) /\
  file_set gen_excl (bs "src") ex_tree []
    {| r_name := bs "fs"; r_files := []; r_select := [bs "dir[2-"]; r_ignore := [] |}
  = FsErr (SelGlobErr (bs "dir[2-")) /\
  file_set gen_excl (bs "src") ex_tree []
    {| r_name := bs "fs"; r_files := []; r_select := [bs "dir[0-9]/?.txt"]; r_ignore := [bs "[" ] |}
  = FsOk (bs "fs") [bs "dir2/b.txt"].
Proof. vm_compute. repeat split. Qed.

(** The plain string-prefix test the code used before the repair does not
    satisfy the segment-wise statement: it covers a sibling. *)
Example C12_plain_prefix_refuted :
  has_prefix (bs "dir2/b.txt") (make_rel_path [] (bs "dir/")) = true /\
  under_ignored_dir (bs "dir2/b.txt") (make_rel_path [] (bs "dir/")) = false /\
  has_prefix (bs "dirfile") (make_rel_path [] (bs "dir/")) = true /\
  under_ignored_dir (bs "dirfile") (make_rel_path [] (bs "dir/")) = false /\
  under_ignored_dir (bs "dir/a.txt") (make_rel_path [] (bs "dir/")) = true.
Proof. vm_compute. repeat split. Qed.

(** Patterns: classes, escapes, multi-byte runes, bad patterns; and the Go
    quirk that a class can match '/'. *)
Example C12_nonvacuous_patterns :
  go_match (bs "a[b-d]*\*?") (bs "acxx*x") = MTrue /\
  go_match (bs "a[b-d]*\*?") (bs "ac/*x") = MFalse /\
  go_match (bs "[]a]") (bs "a") = MBad /\ go_match (bs "a[") (bs "zzz") = MBad /\
  go_match (bs "\") (bs "x") = MBad /\
  go_match (bs "?") [195; 169] = MTrue /\ go_match (bs "??") [195; 169] = MFalse /\
  go_match [91; 195; 160; 45; 195; 191; 93] [195; 169] = MTrue /\
  go_match (bs "[^a]") (bs "/") = MTrue /\
  go_match (bs "d[^a]x") (bs "d/x") = MTrue /\
  go_match (bs "*") (bs "d/x") = MFalse /\
  go_match (bs "a*[") (bs "b") = MBad /\ fp_match (bs "a*[") (bs "b") = MFalse /\
  fp_match (bs "a*[") (bs "ab") = MBad.
Proof. vm_compute. repeat split. Qed.

(** A source tree with [ld -> ../outside] (a directory outside the
    workspace, seen through the link as [ld/secret.txt]): the recursive
    listing stops at the link, a glob goes through it. *)
Definition ex_link_tree : list tentry :=
  [ {| t_path := bs "a.txt"; t_kind := TFile |}; {| t_path := bs "ld"; t_kind := TLinkDir |};
    {| t_path := bs "ld/secret.txt"; t_kind := TFile |}; {| t_path := bs "lo"; t_kind := TLinkFile |} ].

Example C12_selection_passes_a_link_refuted :
  file_set gen_excl (bs "src") ex_link_tree []
    {| r_name := bs "fs"; r_files := []; r_select := [bs "**"]; r_ignore := [] |}
  = FsOk (bs "fs") [bs "a.txt"; bs "ld"; bs "lo"] /\
  file_set gen_excl (bs "src") ex_link_tree []
    {| r_name := bs "fs"; r_files := []; r_select := [bs "ld/*"]; r_ignore := [] |}
  = FsOk (bs "fs") [bs "ld/secret.txt"] /\
  find_entry ex_link_tree (bs "ld") = Some {| t_path := bs "ld"; t_kind := TLinkDir |} /\
  dirs_between (bs "ld/secret.txt") [] = [bs "ld"].
Proof. vm_compute. repeat split. Qed.
