(** C09 — jsonx: accepted input is converted to valid JSON with the same
    meaning.  Property theorems only.

    [pf] is strconv.ParseFloat on an (unsigned) float token, [ff] is
    json.Marshal of the float64 it returned.  What is assumed of them is in
    the statements: [ff] writes a JSON number without a sign; where the
    meaning of a float is concerned, reading the written text gives the same
    float64 back (shortest round trip). *)
From Coq Require Import List NArith Bool String.
From Verif Require Import Lib.Utf8 Jsonx.Lex Jsonx.Tok Jsonx.GoStr Jsonx.Num Jsonx.NumProofs
  Jsonx.Parse Jsonx.Json Jsonx.Encode Jsonx.ParseProofs Jsonx.Term Jsonx.JsonProofs Jsonx.StrAgree
  Jsonx.Roundtrip Jsonx.PlainJson Jsonx.Grammar
  Jsonx.GenTypes Gen.JsonxConsts Gen.JsonxOwn Jsonx.Own Jsonx.ConstsGen.
Import ListNotations.
Local Open Scope N_scope.

(** Every syntax tree the encoder accepts is written as a text the RFC 8259
    reference parser reads, as the value the tree denotes ([denote]: bare
    and quoted keys, strings, signed integers and floats, nested objects and
    arrays, dotted identifier lists). *)
Theorem C09_encode_reads_back :
  forall (F : Type) (ff : F -> list N),
  (forall f, is_json_number (ff f) = true) -> (forall f r, ff f <> 45 :: r) ->
  forall v out, encode_value ff v = Some out -> json_parse out = Some (denote ff v).
Proof. exact (fun F ff H1 H2 => encode_json_parse ff H1 H2). Qed.
Print Assumptions C09_encode_reads_back.

(** ToJSON, for every input: if it reports success, there are no errors and
    the output is valid JSON denoting the parsed tree. *)
Theorem C09_to_json_valid :
  forall (F : Type) (pf : list N -> option F) (ff : F -> list N),
  (forall f, is_json_number (ff f) = true) -> (forall f r, ff f <> 45 :: r) ->
  forall input out errs, to_json pf ff input = Ok (Some out, errs) ->
  errs = [] /\ exists v, json_parse out = Some (denote ff v).
Proof. exact (fun F pf ff H1 H2 => to_json_valid ff H1 H2 pf). Qed.
Print Assumptions C09_to_json_valid.

(** Unmarshal: the text given to json.Unmarshal is never rejected by it, and
    on success it is the JSON of the parsed tree. *)
Theorem C09_unmarshal_never_invalid_json :
  forall (F : Type) (pf : list N -> option F) (ff : F -> list N),
  (forall f, is_json_number (ff f) = true) -> (forall f r, ff f <> 45 :: r) ->
  forall s t, unmarshal_stream pf ff s <> Some (UJsonErr t).
Proof. exact (fun F pf ff H1 H2 => unmarshal_stream_never_invalid ff H1 H2 pf). Qed.
Print Assumptions C09_unmarshal_never_invalid_json.

Theorem C09_unmarshal_ok_valid :
  forall (F : Type) (pf : list N -> option F) (ff : F -> list N),
  (forall f, is_json_number (ff f) = true) -> (forall f r, ff f <> 45 :: r) ->
  forall s t, unmarshal_stream pf ff s = Some (UOk t) ->
  exists v, json_parse t = Some (denote ff v).
Proof. exact (fun F pf ff H1 H2 => unmarshal_stream_ok ff H1 H2 pf). Qed.
Print Assumptions C09_unmarshal_ok_valid.

(** A Decoder used for several values (More / Decode / Decode ...): a call
    of Decode either hands json.Unmarshal a text that is valid JSON denoting
    the tree parsed for it, or returns a non-empty error list; it never gives
    json.Unmarshal a text that one rejects.  So every value of the stream
    read until More() is false (or the first error) is valid JSON with the
    meaning of its tree. *)
Theorem C09_decode_step_valid :
  forall (F : Type) (pf : list N -> option F) (ff : F -> list N),
  (forall f, is_json_number (ff f) = true) -> (forall f r, ff f <> 45 :: r) ->
  forall st r st', decode_step pf ff st = Some (r, st') ->
  match r with
  | DOk t => exists v, json_parse t = Some (denote ff v)
  | DJsonErr _ => False
  | DErrs es => es <> []
  end.
Proof. exact (fun F pf ff H1 H2 => decode_step_valid ff H1 H2 pf). Qed.
Print Assumptions C09_decode_step_valid.

Theorem C09_decode_stream_valid :
  forall (F : Type) (pf : list N -> option F) (ff : F -> list N),
  (forall f, is_json_number (ff f) = true) -> (forall f r, ff f <> 45 :: r) ->
  forall input vs fin, decode_all pf ff input = Ok (vs, fin) ->
  Forall (fun t => exists v, json_parse t = Some (denote ff v)) vs /\
  match fin with Some (DJsonErr _) | Some (DOk _) => False | _ => True end.
Proof. exact (fun F pf ff H1 H2 => decode_all_valid ff H1 H2 pf). Qed.
Print Assumptions C09_decode_stream_valid.

(** DecodeSeries with any TypeMaker [tm] (a type name is unknown, or comes
    with the predicate "encoding/json's strict decoding into the value made
    for it accepts this text" - encoding/json itself stays trusted): every
    entry returned carries valid JSON denoting the parsed entry, its type is
    known and its decoder accepted exactly that text; an unknown type or a
    rejected text (unknown field, type mismatch) makes the whole call fail. *)
Theorem C09_typed_series_valid :
  forall (F : Type) (pf : list N -> option F) (ff : F -> list N),
  (forall f, is_json_number (ff f) = true) -> (forall f r, ff f <> 45 :: r) ->
  forall tm input res errs, decode_series pf ff tm input = Ok (Some res, errs) ->
  errs = [] /\
  Forall (fun nt => exists v acc, json_parse (snd nt) = Some (denote ff v) /\
                                  tm (fst nt) = Some acc /\ acc (snd nt) = true) res.
Proof. exact (fun F pf ff H1 H2 => decode_series_valid ff H1 H2 pf). Qed.
Print Assumptions C09_typed_series_valid.

Theorem C09_typed_series_all_or_nothing :
  forall (F : Type) (pf : list N -> option F) (ff : F -> list N) tm s res,
  decode_series_stream pf ff tm s = Some (Some res, []) ->
  exists es st1, parse_series pf (parse_fuel (p_init s)) (p_init s) [] = Some (es, st1) /\
    p_errs st1 = [] /\ List.length res = List.length es /\
    Forall (fun e => exists acc t, tm (fst e) = Some acc /\ encode_value ff (snd e) = Some t /\ acc t = true) es.
Proof. exact (fun F pf ff => decode_series_all_or_nothing ff pf). Qed.
Print Assumptions C09_typed_series_all_or_nothing.

(** Integers: the emitted digits are a JSON number of exactly the value of
    the Go-style literal (hexadecimal, octal or decimal), also after a minus
    sign. *)
Theorem C09_integer_exact : forall lit d,
  int_json lit = Some d ->
  exists n, int_value lit = Some n /\ digits_val 10 dec_digit 0 d = Some n /\
            is_json_number d = true /\ is_json_number (45 :: d) = true.
Proof. exact int_json_exact. Qed.
Print Assumptions C09_integer_exact.

(** Floats: the emitted text is [ff] of the float64 the literal reads as;
    under the shortest-round-trip law of strconv, reading it gives that
    float64 back. *)
Theorem C09_float_same_value :
  forall (F : Type) (pf : list N -> option F) (ff : F -> list N),
  (forall g, pf (ff g) = Some g) ->
  forall lit f, pf lit = Some f ->
  encode_value ff (VFloat None lit (Some f)) = Some (ff f) /\ pf (ff f) = pf lit.
Proof.
  exact (fun F pf ff law lit f H => conj eq_refl (eq_trans (law f) (eq_sym H))).
Qed.
Print Assumptions C09_float_same_value.

(** Strings: json.Marshal's spelling of a Go string is read by the reference
    parser as that string, undecodable bytes as U+FFFD. *)
Theorem C09_string_reads_back : forall bs rest,
  exists body, json_quote bs ++ rest = 34 :: body /\
               jstr_go JN body = Some (utf8_decode bs, rest).
Proof. exact json_quote_read. Qed.
Print Assumptions C09_string_reads_back.

(** Strings of plain JSON: a literal that the reference JSON parser reads as
    [v] and that strconv.Unquote also accepts denotes the same string (the
    escapes the two syntaxes share mean the same; the others are rejected by
    one side). *)
Theorem C09_plain_json_strings_agree : forall body v bs,
  forallb valid_rune body = true ->
  jstr_go JN body = Some (v, []) -> go_unquote (34 :: body) = Some bs ->
  utf8_decode bs = v.
Proof. exact plain_json_strings_agree. Qed.
Print Assumptions C09_plain_json_strings_agree.

(** Bare keys and dotted identifiers are ASCII: they denote their own runes. *)
Theorem C09_identifier_denotes_itself : forall s t e rest,
  lex_ident s = LTok t e rest -> utf8_decode (utf8_encode (tlit t)) = tlit t.
Proof. exact (fun s t e rest H => ascii_roundtrip _ (ident_token_ascii s t e rest H)). Qed.
Print Assumptions C09_identifier_denotes_itself.

(** Trailing content: when Unmarshal accepts, the parser has consumed every
    token: after the value and at most one separator the cursor is the final
    EOF. *)
Theorem C09_trailing_reported :
  forall (F : Type) (pf : list N -> option F) (ff : F -> list N) s t,
  Forall (fun t => is_eof t = false) (sbody s) ->
  unmarshal_stream pf ff s = Some (UOk t) ->
  exists v st1,
    parse_value pf (parse_fuel (p_init s)) (p_init s) = Some (v, st1) /\
    let st2 := if p_see TSemi st1 then p_next st1 else st1 in
    rest st2 = [] /\ cur st2 = eof_tok (sfin s).
Proof. exact (fun F pf ff => unmarshal_stream_ok_consumed pf ff). Qed.
Print Assumptions C09_trailing_reported.

(** Plain JSON.  For every text of valid runes that the RFC 8259 reference
    parser reads as [j] and that ToJSON accepts, there are no errors and the
    emitted JSON is read by the reference parser as a value equal to [j]:
    same structure, member order and duplicates; strings and keys rune for
    rune; integers digit for digit; a float literal [u] possibly respelt as
    [ff f] with [pf u = Some f] ([jrel]). *)
Theorem C09_plain_json_same :
  forall (F : Type) (pf : list N -> option F) (ff : F -> list N),
  (forall f, is_json_number (ff f) = true) -> (forall f r, ff f <> 45 :: r) ->
  forall input j out errs,
    forallb valid_rune input = true ->
    json_parse input = Some j -> to_json pf ff input = Ok (Some out, errs) ->
    errs = [] /\ exists j', json_parse out = Some j' /\ jrel pf ff j j'.
Proof. exact (fun F pf ff H1 H2 => plain_json_same pf ff H1 H2). Qed.
Print Assumptions C09_plain_json_same.

(** Which plain JSON texts can be accepted at all: the text is the rendering
    of a derivation tree [t] with [okj t]: no line end between a value (or a
    key) and the "," ":" "]" "}" that follows it (JSONx turns such a line end
    into a separator); every string literal is also a Go string literal
    (no "\/", no surrogate escapes); every float literal is within the range
    of strconv.ParseFloat.  Everything else that is valid JSON is rejected
    for one of these three documented reasons. *)
Theorem C09_plain_json_accepted :
  forall (F : Type) (pf : list N -> option F) (ff : F -> list N) input j out errs,
    json_parse input = Some j -> to_json pf ff input = Ok (Some out, errs) ->
    exists w t w', input = w ++ core t ++ w' /\ jval t = j /\ okj pf t.
Proof. exact (fun F pf ff => plain_json_accepted pf ff). Qed.
Print Assumptions C09_plain_json_accepted.

(** The JSONx extensions, with every surface choice, at the level of the
    tokens the parser reads ([doc], [toks] in Jsonx/Grammar.v): bare or quoted
    keys, a trailing comma or none, "+" or "-" before an integer or float
    literal in Go syntax, any string literal Go can unquote (raw or escaped),
    dotted identifier lists, any nesting.  The parser reads the tokens of
    every well-formed document as the intended tree, records no error and
    stops right after the document ... *)
Theorem C09_documented_syntax_parses :
  forall (F : Type) (pf : list N -> option F) (fin : list ecode) d,
  okb pf d = true -> forall rest, nodot d rest ->
  PV pf (st_at fin (map (mkp []) (toks d) ++ rest)) (ast_of pf d, st_at fin rest).
Proof. exact (fun F pf fin => grammar_complete pf fin). Qed.
Print Assumptions C09_documented_syntax_parses.

(** ... and ToJSON accepts it, without error, and emits JSON that the
    reference parser reads as the DOCUMENTED value ([doc_value]: a key is its
    name whether bare or quoted, a trailing comma is nothing, "+" is dropped
    and "-" kept, an integer is the value of the Go-style literal in decimal,
    a float what json.Marshal writes for the float64 the literal reads as, a
    string its Go literal unquoted, a dotted list the array of its names). *)
Theorem C09_documented_syntax_accepted_with_its_value :
  forall (F : Type) (pf : list N -> option F) (ff : F -> list N),
  (forall f, is_json_number (ff f) = true) -> (forall f r, ff f <> 45 :: r) ->
  forall d, okb pf d = true -> ints_okb d = true ->
  exists out, to_json_stream pf ff (mkS (map (mkp []) (toks d)) []) = Some (Some out, []) /\
              json_parse out = Some (doc_value pf ff d).
Proof. exact (fun F pf ff H1 H2 => grammar_to_json pf ff H1 H2). Qed.
Print Assumptions C09_documented_syntax_accepted_with_its_value.

(** What is NOT proved: the same at the level of the TEXT, for every choice of
    white space, comments and line ends between the tokens.  [spell] writes
    the tokens of a document with a gap before each token and one at the end;
    a gap is white space and comments, and may contain a line end only where
    the separator inserter does not make a separator of it (after an opening
    bracket, a comma, a colon, a dot or a sign).  The proved parts are the
    token level above, the lexer theorems of C08 (tokens spell the input,
    comments are removed) and - for one particular spelling, the printer's -
    C07_roundtrip; for plain JSON texts, C09_plain_json_same.  The render
    stream of the check searches this statement for counterexamples on every
    run. *)
Definition gap_runes_ok (nl_allowed : bool) (g : list N) : Prop :=
  exists raw, jsonx_raw_tokens g = Ok raw /\
    Forall (fun te => snd te = [] /\
              (tty (fst te) = TComment \/ (nl_allowed = true /\ tty (fst te) = TEndl))) raw /\
    (nl_allowed = false -> Forall (fun te => ~ In 10 (tlit (fst te))) raw).

Definition opens_gap (t : tl) : bool :=
  ttype_eqb (fst t) TOperator &&
  existsb (list_N_eqb (snd t)) [[123]; [91]; [44]; [58]; [46]; [43]; [45]].

Fixpoint spell (prev : option tl) (ts : list tl) (gaps : list (list N)) : list N :=
  match ts, gaps with
  | t :: ts', g :: gaps' => g ++ snd t ++ spell (Some t) ts' gaps'
  | _, g :: _ => g
  | _, [] => []
  end.

Fixpoint gaps_ok (prev : option tl) (ts : list tl) (gaps : list (list N)) : Prop :=
  match ts, gaps with
  | t :: ts', g :: gaps' =>
      gap_runes_ok (match prev with Some p => opens_gap p | None => true end) g /\ gaps_ok (Some t) ts' gaps'
  | [], [g] => gap_runes_ok true g
  | _, _ => False
  end.

Definition stmt_documented_text_same : Prop :=
  forall (F : Type) (pf : list N -> option F) (ff : F -> list N),
  (forall f, is_json_number (ff f) = true) -> (forall f r, ff f <> 45 :: r) ->
  forall d gaps, okb pf d = true -> ints_okb d = true ->
  (* every token literal is what the lexer makes of its own spelling *)
  Forall (fun t : tl => jsonx_raw_tokens (snd t) = Ok [(mkTok (match fst t with TKeyword => TIdent | ty => ty end) (snd t), [])])
         (toks d) ->
  gaps_ok None (toks d) gaps ->
  exists out, to_json pf ff (spell None (toks d) gaps) = Ok (Some out, []) /\
              json_parse out = Some (doc_value pf ff d).

(** Ownership: the bytes ToJSON returns are the caller's.  For the allocation
    policy read from the source on this run (gen/jsonx_own.go: every []byte
    result is a buffer made in that call, there is no package-level buffer
    or pool), after ANY history of calls and of caller writes into results
    it was handed, what the caller reads from each result is what value
    semantics says ([spec]: independent values, each changed only by its
    owner); and the result of a call is the function of that call's input
    alone, until the caller overwrites that very result. *)
Theorem C09_results_owned_by_caller : forall (F : list N -> list N) h k,
  read (run F (policy_of gen_result_origins gen_pkg_buffers) h) k = nth_error (spec F h) k.
Proof. exact gen_results_owned. Qed.
Print Assumptions C09_results_owned_by_caller.

Theorem C09_result_function_of_its_input_only : forall (F : list N -> list N) h1 i h2,
  forallb (fun e => negb (writes_to (ncalls h1) e)) h2 = true ->
  read (run F (policy_of gen_result_origins gen_pkg_buffers) (h1 ++ ECall i :: h2)) (ncalls h1) = Some (F i).
Proof. exact gen_result_stable. Qed.
Print Assumptions C09_result_function_of_its_input_only.

(** ... whereas a buffer the implementation keeps (a package-level buffer, a
    sync.Pool) is overwritten by the next call while the first caller still
    holds it. *)
Theorem C09_pooled_buffer_refuted : forall (F : list N -> list N) a b, F a <> F b ->
  read (run F Pooled [ECall a; ECall b]) 0 = Some (F b) /\
  nth_error (spec F [ECall a; ECall b]) 0 = Some (F a) /\
  read (run F Pooled [ECall a; ECall b]) 0 <> nth_error (spec F [ECall a; ECall b]) 0.
Proof. exact pooled_refuted. Qed.
Print Assumptions C09_pooled_buffer_refuted.

Example C09_ownership_example :
  (* three calls; the caller scribbles over the first result after the second call *)
  let h := [ECall [1]; ECall [2]; EWrite 0 [9; 9]; ECall [3]]%N in
  map (read (run (fun i => i ++ i) Fresh h)) [0; 1; 2]%nat
  = [Some [9; 9]; Some [2; 2]; Some [3; 3]]%N /\
  map (read (run (fun i => i ++ i) Pooled h)) [0; 1; 2]%nat
  = [Some [3; 3]; Some [3; 3]; Some [3; 3]]%N.
Proof. vm_compute. split; reflexivity. Qed.

(** Non-vacuity. *)
Definition ftab (lit : list N) : option (list N) :=
  if list_N_eqb lit [49; 46; 53] then Some [49; 46; 53] else None.      (* "1.5" *)

Example C09_nonvacuous_hyps :
  (forall f : list N, ftab f = Some f -> is_json_number f = true) /\
  to_json ftab (fun t => t)
    (* {a:-1.5,"k":[0x1F,007,`r`],b.c} is not valid: use {a:-1.5,"k":[0x1F,007,`r`]} *)
    [123;97;58;45;49;46;53;44;34;107;34;58;91;48;120;49;70;44;48;48;55;44;96;114;96;93;125]
  = Ok (Some [123;34;97;34;58;45;49;46;53;44;34;107;34;58;91;51;49;44;55;44;34;114;34;93;125], []).
Proof.
  split.
  - intros f H. unfold ftab in H. destruct (list_N_eqb f [49; 46; 53]); [|discriminate].
    injection H as <-. reflexivity.
  - vm_compute. reflexivity.
Qed.

Example C09_signed_float : (* "-1.5" used to give "-null" *)
  to_json ftab (fun t => t) [45; 49; 46; 53] = Ok (Some [45; 49; 46; 53], []).
Proof. vm_compute. reflexivity. Qed.

Example C09_hex_octal : (* 0x1F -> 31, 007 -> 7, 08 -> error *)
  int_json [48; 120; 49; 70] = Some [51; 49] /\ int_json [48; 48; 55] = Some [55] /\
  int_json [48; 56] = None.
Proof. vm_compute. repeat split. Qed.

(* the literal a, backslash-u00e9, backslash-n, backslash-quote *)
Example C09_strings_agree_example :
  jstr_go JN [97; 92; 117; 48; 48; 101; 57; 92; 110; 92; 34; 34] = Some ([97; 233; 10; 34], []) /\
  go_unquote [34; 97; 92; 117; 48; 48; 101; 57; 92; 110; 92; 34; 34] = Some [97; 195; 169; 10; 34].
Proof. vm_compute. split; reflexivity. Qed.

(* { "a" : [1, -0, 2.5E+1, "x\u00e9"],
     "a" : null }   -- plain JSON with white space, a duplicate key, a line end after "," *)
Definition ftab2 (lit : list N) : option (list N) :=
  if list_N_eqb lit [50; 46; 53; 69; 43; 49] then Some [50; 53] else None.    (* 2.5E+1 -> 25 *)

Example C09_plain_json_example :
  let input := [123; 32; 34; 97; 34; 32; 58; 32; 91; 49; 44; 32; 45; 48; 44; 32; 50; 46; 53; 69; 43; 49; 44; 32;
                34; 120; 92; 117; 48; 48; 101; 57; 34; 93; 44; 10; 32; 34; 97; 34; 58; 110; 117; 108; 108; 32; 125; 10] in
  json_parse input
  = Some (JObj [([97], JArr [JNum [49]; JNum [45; 48]; JNum [50; 46; 53; 69; 43; 49]; JStr [120; 233]]);
                ([97], JNull)]) /\
  match to_json ftab2 (fun t => t) input with
  | Ok (Some out, []) => json_parse out
  | _ => None
  end
  = Some (JObj [([97], JArr [JNum [49]; JNum [45; 48]; JNum [50; 53]; JStr [120; 233]]); ([97], JNull)]).
Proof. vm_compute. split; reflexivity. Qed.

(* a line end between a value and the following "]" : rejected *)
Example C09_plain_json_rejected_example :
  json_parse [91; 49; 10; 93] = Some (JArr [JNum [49]]) /\
  to_json ftab2 (fun t => t) [91; 49; 10; 93] = Ok (None, [EExpectOp]).
Proof. vm_compute. split; reflexivity. Qed.

Example C09_trailing_example :
  unmarshal ftab (fun t => t) [49; 32; 50] = Ok UMore.       (* "1 2" *)
Proof. vm_compute. reflexivity. Qed.

(** An object with the members a : -1 , k (quoted) : [ +0x1F , x.y , ] , b : null ,
    and a trailing comma  -  bare and quoted keys,
    signs, a hexadecimal literal, a dotted list, trailing commas. *)
Definition ex_doc : doc :=
  DObj [ (DKBare [97], DInt (Some [45]) [49]);
         (DKQuoted [34; 107; 34], DList [DInt (Some [43]) [48; 120; 49; 70]; DIdents [120] [[121]]] true);
         (DKBare [98], DNull) ] true.

Example C09_documented_syntax_example :
  okb ftab ex_doc = true /\ ints_okb ex_doc = true /\
  doc_value ftab (fun t => t) ex_doc
  = JObj [([97], JNum [45; 49]); ([107], JArr [JNum [51; 49]; JArr [JStr [120]; JStr [121]]]); ([98], JNull)] /\
  to_json_stream ftab (fun t => t) (mkS (map (mkp []) (toks ex_doc)) [])
  = Some (Some [123;34;97;34;58;45;49;44;34;107;34;58;91;51;49;44;91;34;120;34;44;34;121;34;93;93;44;34;98;34;58;110;117;108;108;125], []).
Proof. vm_compute. repeat split. Qed.

