(** C13 — sniproxy wire codec: lossless round trip, total and bounded
    decoding.  Property theorems only; each is closed by a lemma proved in
    Sni/WireProofs.v or Sni/WireGen.v, instantiated with the objects the
    translator regenerated from /repo (Gen/WireSchema.v). *)
From Coq Require Import List NArith ZArith Bool String.
From Verif Require Import Lib.Bytes Sni.Wire Sni.WireProofs Sni.WireGen Sni.WireFrozen Gen.WireSchema
  Sni.WireChunks Sni.WireChunksProofs Sni.WireReader Sni.WireOwn Sni.WireOwnProofs.
Import ListNotations.
Local Open Scope N_scope.

(** Every schema (hence every message kind, present or future) round-trips,
    consuming exactly the bytes produced. *)
Theorem C13_schema_roundtrip : forall cap sch vs rest c al,
  Forall2 wf_value sch vs ->
  exists al',
    dec_schema gen_alloc_max cap sch (mkD (enc_schema sch vs ++ rest) c None al)
    = (vs, mkD rest (c + lenN (enc_schema sch vs)) None al').
Proof. exact (dec_schema_exact gen_alloc_max gen_alloc_max_ok). Qed.
Print Assumptions C13_schema_roundtrip.

(** What goes on the wire: bytes only (given byte payloads), and exactly the
    fixed part plus the payload per field - no padding, no hidden bytes. *)
Theorem C13_encoded_is_bytes : forall sch vs,
  Forall payload_is_bytes vs -> is_bytes (enc_schema sch vs).
Proof. exact enc_schema_is_bytes. Qed.
Print Assumptions C13_encoded_is_bytes.

Theorem C13_field_size : forall k v,
  wf_value k v -> lenN (enc_value k v) = wire_size k v.
Proof. exact enc_value_size. Qed.
Print Assumptions C13_field_size.

(** A body cut at any point is an error, never a value. *)
Theorem C13_schema_truncated : forall cap sch vs p c al,
  Forall2 wf_value sch vs -> strict_prefix p (enc_schema sch vs) ->
  err (snd (dec_schema gen_alloc_max cap sch (mkD p c None al))) = Some EEof.
Proof. exact (dec_schema_cut gen_alloc_max gen_alloc_max_ok). Qed.
Print Assumptions C13_schema_truncated.

(** Request frames through the server entry point, for the request table of
    the current source. *)
Theorem C13_request_roundtrip : forall id t name sch vs,
  id < two64 -> t < 256 ->
  gen_table t = Some (Some (name, sch)) ->
  Forall2 wf_value sch vs ->
  fst (start_call gen_alloc_max gen_table (request_frame id t (enc_schema sch vs)))
  = CReq id t name vs.
Proof. exact (start_call_roundtrip gen_alloc_max gen_alloc_max_ok gen_table). Qed.
Print Assumptions C13_request_roundtrip.

Theorem C13_request_truncated : forall id t name sch vs p,
  id < two64 -> t < 256 ->
  gen_table t = Some (Some (name, sch)) ->
  Forall2 wf_value sch vs ->
  strict_prefix p (request_frame id t (enc_schema sch vs)) ->
  fst (start_call gen_alloc_max gen_table p) = CErr EEof.
Proof. exact (start_call_cut gen_alloc_max gen_alloc_max_ok gen_table). Qed.
Print Assumptions C13_request_truncated.

Theorem C13_request_tail_reported : forall id t name sch vs extra,
  id < two64 -> t < 256 ->
  gen_table t = Some (Some (name, sch)) ->
  Forall2 wf_value sch vs -> extra <> [] ->
  fst (start_call gen_alloc_max gen_table
         (request_frame id t (enc_schema sch vs) ++ extra))
  = CErr (ETail (lenN extra)).
Proof. exact (start_call_tail gen_alloc_max gen_alloc_max_ok gen_table). Qed.
Print Assumptions C13_request_tail_reported.

(** Reply frames through the client's header parse and body decode, for any
    caller buffer size; bytes after the body do not alter the fields. *)
Theorem C13_reply_roundtrip : forall cap id t sch vs extra,
  id < two64 -> t < 256 ->
  Forall2 wf_value sch vs ->
  exists d,
    client_decode gen_alloc_max cap sch
      (reply_frame id t 0 (enc_schema sch vs) ++ extra)
    = (HReply id t, Some (vs, d)) /\ err d = None /\ inp d = extra.
Proof. exact (client_roundtrip gen_alloc_max gen_alloc_max_ok). Qed.
Print Assumptions C13_reply_roundtrip.

Theorem C13_reply_truncated : forall cap id t sch vs p,
  id < two64 -> t < 256 ->
  Forall2 wf_value sch vs ->
  strict_prefix p (reply_frame id t 0 (enc_schema sch vs)) ->
  match client_decode gen_alloc_max cap sch p with
  | (HShort _, None) => True
  | (HReply _ _, Some (_, d)) => err d = Some EEof
  | _ => False
  end.
Proof. exact (client_cut gen_alloc_max gen_alloc_max_ok). Qed.
Print Assumptions C13_reply_truncated.

(** Any byte string whatsoever: no panic, and memory in proportion to the
    bytes received. *)
Theorem C13_request_total_bounded : forall input,
  let r := start_call gen_alloc_max gen_table input in
  fst r <> CErr EPanic /\
  err (snd r) <> Some EPanic /\
  alloc (snd r) <= 4 * lenN input + (gen_alloc_max + 1024) * gen_max_fields.
Proof.
  exact (fun input => start_call_ok gen_alloc_max gen_alloc_max_ok gen_table
                        gen_max_fields input gen_table_bounded).
Qed.
Print Assumptions C13_request_total_bounded.

Theorem C13_reply_total_bounded : forall cap sch input,
  match client_decode gen_alloc_max cap sch input with
  | (_, Some (_, d)) =>
      err d <> Some EPanic /\
      alloc d <= 4 * lenN input
                 + (gen_alloc_max + 1024) * N.of_nat (List.length sch)
  | (_, None) => True
  end.
Proof. exact (client_decode_ok gen_alloc_max gen_alloc_max_ok). Qed.
Print Assumptions C13_reply_total_bounded.

(** A read size off the wire, however it reads as a signed number, cannot
    crash the endpoint nor make it allocate more than the cap. *)
Theorem C13_handle_read_safe : forall maxRead avail,
  match handle_read gen_max_read_size maxRead avail with
  | RPanic => False
  | RErrReply => (maxRead < 0)%Z
  | RRead size n =>
      size <= gen_max_read_size /\ n <= size /\ n <= avail /\
      (0 <= maxRead)%Z /\ size <= Z.to_N maxRead
  end.
Proof.
  exact (fun m a => handle_read_safe gen_max_read_size m a gen_max_read_size_ok).
Qed.
Print Assumptions C13_handle_read_safe.

Theorem C13_tunnel_read_fits : forall buflen replylen n,
  tunnel_read_result buflen replylen = Some n -> n <= buflen /\ n = replylen.
Proof. exact tunnel_read_fits. Qed.
Print Assumptions C13_tunnel_read_fits.

(** Layout and codes of the deployed protocol are unchanged in the current
    source (new kinds may only be appended). *)
Theorem C13_wire_frozen :
  gen_schemas_opt <> None /\
  codes_frozenb deployed_msg_codes gen_msg_codes = true /\
  codes_frozenb deployed_err_codes gen_err_codes = true /\
  layout_frozenb = true /\
  requests_frozenb = true /\
  pairing_okb = true /\
  deployed_pairing_frozenb = true /\
  src_diff gen_codec_src WireFrozen.frozen_codec_src = [].
Proof.
  exact (conj gen_enc_dec_agree (conj gen_msg_codes_frozen (conj gen_err_codes_frozen
        (conj gen_layout_frozen (conj gen_requests_frozen
        (conj gen_pairing_ok (conj gen_deployed_pairing_frozen gen_codec_src_frozen))))))).
Qed.
Print Assumptions C13_wire_frozen.

(** Non-vacuity: the hypotheses are met by concrete frames. *)
Example C13_nonvacuous_table :
  gen_table 9 = Some (Some ("dialSide2Request"%string, [KU64; KU64; KStr; KStr])) /\
  gen_table 3 = Some (Some ("writeRequest"%string, [KU64; KBytes])) /\
  gen_table 200 = None.
Proof. vm_compute. repeat split. Qed.

Example C13_nonvacuous_wf :
  Forall2 wf_value [KU64; KBytes] [VU64 18446744073709551615; VBytes [1; 2; 255]] /\
  Forall2 wf_value [KInt; KErr] [VInt (-1); VErr (Some (10%Z, [101; 111; 102]))] /\
  strict_prefix [1; 0] (enc_schema [KInt] [VInt 1]).
Proof.
  split; [|split].
  - repeat constructor.
  - repeat constructor; try discriminate.
  - exists [0;0;0;0;0;0]. split; [discriminate|reflexivity].
Qed.

(** * Round 3: the decoder reads from whatever reader it is handed *)

(** [decoder.read] (io.ReadFull) on a reader that delivers the remaining
    input in ANY pieces - short reads, zero-length reads, the last bytes
    together with io.EOF or before it - is [d_read] on the flat input: the
    first [n] bytes, or all of them and io.ErrUnexpectedEOF. *)
Theorem C13_read_any_delivery : forall (r : reader N) fuel n c a,
  (measure N r < fuel)%nat ->
  let '(b, r') := read_full N fuel (N.to_nat n) r in
  d_read n (mkD (flat N r) c None a) =
  (b, mkD (flat N r') (c + N.min n (lenN (flat N r)))
          (if n <=? lenN (flat N r) then None else Some EEof) a).
Proof. exact d_read_any_reader. Qed.
Print Assumptions C13_read_any_delivery.

(** [decoder.end()]'s counting loop (1-byte probe, then 1 KiB reads) on such
    a reader reports exactly the bytes left. *)
Theorem C13_end_any_delivery : forall (r : reader N) fuel c a,
  (measure N r < fuel)%nat ->
  d_end (mkD (flat N r) c None a) =
  let t := N.of_nat (end_count N fuel 1 1024 r) in
  mkD [] c (if t =? 0 then None else Some (ETail t)) a.
Proof. exact d_end_any_reader. Qed.
Print Assumptions C13_end_any_delivery.

(** Two readers holding the same bytes cannot be told apart by either
    access path. *)
Theorem C13_delivery_independent : forall (r1 r2 : reader N) min fuel buf big,
  flat N r1 = flat N r2 -> (measure N r1 < fuel)%nat -> (measure N r2 < fuel)%nat ->
  (0 < buf)%nat -> (0 < big)%nat ->
  fst (read_full N fuel min r1) = fst (read_full N fuel min r2) /\
  flat N (snd (read_full N fuel min r1)) = flat N (snd (read_full N fuel min r2)) /\
  end_count N fuel buf big r1 = end_count N fuel buf big r2.
Proof. exact (delivery_independent N). Qed.
Print Assumptions C13_delivery_independent.

(** The WHOLE decoder over a reader (Sni/WireReader.v: every function of
    Sni/Wire.v re-expressed over a [reader], [abs] = the flat state it stands
    for).  The server entry and the client-side decode, handed ANY reader,
    answer what the flat model answers on the bytes the reader holds: same
    result, same values, same error, same byte count, same tail count, same
    allocation bound.  All theorems of this file about [start_call] and
    [client_decode] therefore hold for every way of delivering the frame. *)
Theorem C13_start_call_any_reader : forall tbl (r : reader N),
  start_call gen_alloc_max tbl (flat N r) =
  (fst (rstart_call gen_alloc_max tbl r), abs (snd (rstart_call gen_alloc_max tbl r))).
Proof. exact (start_call_any_reader gen_alloc_max). Qed.
Print Assumptions C13_start_call_any_reader.

Theorem C13_client_decode_any_reader : forall cap sch (r : reader N),
  client_decode gen_alloc_max cap sch (flat N r) =
  match rclient_decode gen_alloc_max cap sch r with
  | (h, Some (vs, s)) => (h, Some (vs, abs s))
  | (h, None) => (h, None)
  end.
Proof. exact (client_decode_any_reader gen_alloc_max). Qed.
Print Assumptions C13_client_decode_any_reader.

(** Decoded values, error class, byte count and the tail count of
    [decoder.end()] do not depend on how the reader chunks the same bytes or
    on whether the last chunk comes together with io.EOF. *)
Theorem C13_decode_delivery_independent : forall cap sch (s1 s2 : rstate),
  abs s1 = abs s2 ->
  fst (rdec_schema gen_alloc_max cap sch s1) = fst (rdec_schema gen_alloc_max cap sch s2) /\
  abs (snd (rdec_schema gen_alloc_max cap sch s1)) = abs (snd (rdec_schema gen_alloc_max cap sch s2)) /\
  abs (rd_end (snd (rdec_schema gen_alloc_max cap sch s1))) =
  abs (rd_end (snd (rdec_schema gen_alloc_max cap sch s2))).
Proof. exact (schema_delivery_independent gen_alloc_max). Qed.
Print Assumptions C13_decode_delivery_independent.

Theorem C13_start_call_delivery_independent : forall tbl (r1 r2 : reader N),
  flat N r1 = flat N r2 ->
  fst (rstart_call gen_alloc_max tbl r1) = fst (rstart_call gen_alloc_max tbl r2) /\
  abs (snd (rstart_call gen_alloc_max tbl r1)) = abs (snd (rstart_call gen_alloc_max tbl r2)).
Proof. exact (start_call_delivery_independent gen_alloc_max). Qed.
Print Assumptions C13_start_call_delivery_independent.

(** Seeded change C13-f (the tail counted only when Read returns no EOF):
    a close request followed by one stray byte, delivered by a reader that
    hands out its last bytes together with io.EOF - the model over that
    reader still reports the tail. *)
Example C13_tail_with_eof_reported :
  fst (rstart_call gen_alloc_max gen_table
         (mkR N [request_frame 7 6 (enc_schema [KU64] [VU64 5]) ++ [9]] true))
  = CErr (ETail 1).
Proof. vm_compute. reflexivity. Qed.

Example C13_nonvacuous_reader :
  let r := mkR N [[1]; []; [2; 3]] true in
  fst (read_full N 10 2 r) = [1; 2] /\ flat N (snd (read_full N 10 2 r)) = [3] /\
  end_count N 10 1 1024 r = 3%nat /\
  fst (read_full N 10 5 r) = [1; 2; 3] /\ chunks N (snd (read_full N 10 5 r)) = [].
Proof. vm_compute. repeat split; reflexivity. Qed.

(** * Round 3 (seeded change C13-g): a decoded request owns its bytes *)

(** The server entry hands no buffer to a request object before decoding it
    (read off [startCall] / [newRequestMessage] by the translator). *)
Theorem C13_request_buffers_fresh : gen_write_buf = BufFresh /\ gen_request_buffer_presets = [].
Proof. exact gen_write_buf_fresh. Qed.
Print Assumptions C13_request_buffers_fresh.

(** Hence what the holder of a decoded request sees does not depend on the
    frames decoded afterwards on the same endpoint - ANY later frames:
    well-formed, truncated, hostile. *)
Theorem C13_held_requests_independent : forall frames later,
  firstn (List.length frames) (held_view gen_alloc_max gen_table gen_write_buf (frames ++ later))
  = held_view gen_alloc_max gen_table gen_write_buf frames.
Proof. destruct gen_write_buf_fresh as [-> _]. exact (held_fresh_independent gen_alloc_max gen_table). Qed.
Print Assumptions C13_held_requests_independent.

Theorem C13_held_request_is_its_decode : forall frames i,
  nth_error (held_view gen_alloc_max gen_table gen_write_buf frames) i =
  option_map (decode1 gen_alloc_max gen_table) (nth_error frames i).
Proof. destruct gen_write_buf_fresh as [-> _]. exact (held_fresh_is_decode gen_alloc_max gen_table). Qed.
Print Assumptions C13_held_request_is_its_decode.

(** A payload buffer shared by the write requests of an endpoint: the
    holder of the first request reads bytes of the second. *)
Theorem C13_shared_write_buffer_refuted :
  held_view 65536 ex_tbl (BufShared 65536) [ex_write 0 1 [65; 65; 65; 65]; ex_write 1 2 [66; 66]]
  = [CReq 0 3 "writeRequest" [VU64 1; VBytes [66; 66; 65; 65]]; CReq 1 3 "writeRequest" [VU64 2; VBytes [66; 66]]] /\
  held_view 65536 ex_tbl BufFresh [ex_write 0 1 [65; 65; 65; 65]; ex_write 1 2 [66; 66]]
  = [CReq 0 3 "writeRequest" [VU64 1; VBytes [65; 65; 65; 65]]; CReq 1 3 "writeRequest" [VU64 2; VBytes [66; 66]]].
Proof. exact shared_write_buffer_refuted. Qed.
Print Assumptions C13_shared_write_buffer_refuted.

(** * Round 3 (seeded change C13-i): the websocket hands every frame to the decoder *)

(** What the package configures on its websockets (scanned by the
    translator): the 64 KiB buffers of upgrader and dialer, and nothing else -
    in particular no read limit, so a legal frame is decoded whatever the
    size of its fields. *)
Theorem C13_websocket_no_read_limit :
  ws_no_read_limit gen_ws_config = true /\ src_eqb gen_ws_config deployed_ws_config = true.
Proof. exact (conj gen_ws_no_read_limit gen_ws_config_frozen). Qed.
Print Assumptions C13_websocket_no_read_limit.
