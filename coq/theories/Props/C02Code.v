(** C02 — sniproxy name rejection — the code itself (semantic tie).  Property theorems only: each is
    closed by a lemma of the area's CodeRefine.v, which proves that the Go
    function bodies as gen/gotrans.go translates them on every run
    (Gen/Code*.v) compute the hand-written model on ALL inputs, and restates
    property theorems of Props/C02.v directly over the generated definitions.
    Kept apart from Props/C02.v so that a failing refinement lemma does not
    take the model-level theorems down with it. *)
From Coq Require Import List NArith Bool String.
From Verif Require Import Lib.Bytes Sni.Wire Sni.Route Sni.RouteProofs Lib.GoLib Gen.CodeSni Sni.CodeCands Sni.CodeRefine.
Import ListNotations.
Local Open Scope N_scope.

(** ** The code itself (semantic tie)

    [gen_sniproxy_isRejectedDomain] is the Go body of isRejectedDomain
    (proxy.go) as gen/gotrans.go translates it on every run (Gen/CodeSni.v),
    suffix list included; it computes the specification on ALL names, for
    every [net.ParseIP]. *)
Theorem C02_code_isRejectedDomain_is_model : forall (is_ip : bytes -> bool) (name : bytes),
  gen_sniproxy_isRejectedDomain is_ip name = is_rejected is_ip deployed_suffixes name.
Proof. exact gen_isRejectedDomain_is_model. Qed.
Print Assumptions C02_code_isRejectedDomain_is_model.

Theorem C02_code_rejected_names : forall (is_ip : bytes -> bool) name,
  (name = [] \/ is_ip name = true \/
   exists suf p, In suf deployed_suffixes /\ name = p ++ bytes_of_string suf) ->
  gen_sniproxy_isRejectedDomain is_ip name = true.
Proof. exact code_rejected_names. Qed.
Print Assumptions C02_code_rejected_names.

