(** C05 — pisces: every KV backend implements the same abstract map.
    Property theorems only; each is closed by a lemma of Kv/Refine.v,
    Kv/Facts.v or Kv/KvGen.v.  The SQL side is instantiated with the statement
    tables the translator regenerated from sqlite3_kv.go and psql_kv.go
    (Gen/KvSql.v); the memory side is the transcription Kv/Mem.v, tied to
    mem_kv.go by the correspondence run of every check. *)
From Coq Require Import List NArith Bool String.
From Verif Require Import Kv.KeyOrd Kv.AList Kv.Spec Kv.Mem Kv.Sql Kv.Refine Kv.Facts Kv.KvGen
  Kv.KvCorr Gen.KvSql.
From Verif Require Import Kv.Own Kv.OwnSkel Kv.OwnProofs Kv.Tables Kv.TablesProofs Kv.Hashed Gen.KvMemOwn.
From Verif Require Import Kv.Rows Gen.KvRows.
Import ListNotations.
Local Open Scope N_scope.

(** ** Refinement: all finite histories of KVOps calls, all keys, classes,
    values and callbacks; offsets and limits below 2^63. *)

Theorem C05_mem_refines_spec : forall ops,
  forallb bop_okb ops = true ->
  snd (run mem_step [] ops) = snd (run spec_step [] ops) /\
  abs (fst (run mem_step [] ops)) = fst (run spec_step [] ops).
Proof. exact mem_refines_spec. Qed.
Print Assumptions C05_mem_refines_spec.

Theorem C05_sqlite_refines_spec : forall ops,
  forallb bop_okb ops = true ->
  snd (run (sql_step gen_sqlite_methods) [] ops) = snd (run spec_step [] ops) /\
  abs (fst (run (sql_step gen_sqlite_methods) [] ops)) = fst (run spec_step [] ops).
Proof. exact gen_sqlite_refines_spec. Qed.
Print Assumptions C05_sqlite_refines_spec.

(** psql_kv.go: covered only through its generated statement table and the
    shared SQL model (PostgreSQL cannot run in the verification environment). *)
Theorem C05_psql_refines_spec : forall ops,
  forallb bop_okb ops = true ->
  snd (run (sql_step gen_psql_methods) [] ops) = snd (run spec_step [] ops) /\
  abs (fst (run (sql_step gen_psql_methods) [] ops)) = fst (run spec_step [] ops).
Proof. exact gen_psql_refines_spec. Qed.
Print Assumptions C05_psql_refines_spec.

Theorem C05_backends_agree : forall ops,
  forallb bop_okb ops = true ->
  snd (run mem_step [] ops) = snd (run (sql_step gen_sqlite_methods) [] ops) /\
  abs (fst (run mem_step [] ops)) = abs (fst (run (sql_step gen_sqlite_methods) [] ops)).
Proof. exact gen_backends_agree. Qed.
Print Assumptions C05_backends_agree.

(** The same through the KV wrapper (key mapping, JSON decoding of Get /
    Mutate / walks, ErrCancel -> nil, ErrUnordered), for any key-length
    limit, any hash and any JSON-validity predicate. *)
Theorem C05_kv_mem_refines_spec : forall maxlen ordered hk jv uops,
  forallb uop_okb uops = true ->
  snd (run (kv_step maxlen ordered hk jv mem_step) [] uops)
  = snd (run (kv_step maxlen ordered hk jv spec_step) [] uops) /\
  abs (fst (run (kv_step maxlen ordered hk jv mem_step) [] uops))
  = fst (run (kv_step maxlen ordered hk jv spec_step) [] uops).
Proof.
  exact (fun maxlen ordered hk jv uops =>
           kv_refines_spec maxlen ordered hk jv mem_step uops mem_step_refines).
Qed.
Print Assumptions C05_kv_mem_refines_spec.

Theorem C05_kv_sqlite_refines_spec : forall maxlen ordered hk jv uops,
  forallb uop_okb uops = true ->
  snd (run (kv_step maxlen ordered hk jv (sql_step gen_sqlite_methods)) [] uops)
  = snd (run (kv_step maxlen ordered hk jv spec_step) [] uops) /\
  abs (fst (run (kv_step maxlen ordered hk jv (sql_step gen_sqlite_methods)) [] uops))
  = fst (run (kv_step maxlen ordered hk jv spec_step) [] uops).
Proof.
  exact (fun maxlen ordered hk jv uops =>
           kv_refines_spec maxlen ordered hk jv _ uops gen_sqlite_step_refines).
Qed.
Print Assumptions C05_kv_sqlite_refines_spec.

(** The reference map is a canonical form: strictly key-sorted. *)
Theorem C05_spec_sorted : forall ops,
  sorted kltb (fst (run spec_step [] ops)).
Proof. exact (fun ops => run_spec_sorted ops [] I). Qed.
Print Assumptions C05_spec_sorted.

(** ** The clauses of the statement, on the reference map *)

Theorem C05_add_existing_fails : forall s k c v e,
  lookup k s = Some e -> spec_step s (BAdd k c v) = (s, RErr EExists).
Proof. exact add_existing_fails. Qed.
Print Assumptions C05_add_existing_fails.

Theorem C05_missing_not_found : forall s k,
  lookup k s = None ->
  (forall v, spec_step s (BSet k v) = (s, RErr ENotFound)) /\
  (forall c, spec_step s (BSetClass k c) = (s, RErr ENotFound)) /\
  spec_step s (BRemove k) = (s, RErr ENotFound) /\
  (forall f, spec_step s (BMutate k f) = (s, RErr ENotFound)) /\
  spec_step s (BGet k) = (s, RErr ENotFound) /\
  spec_step s (BHas k) = (s, RBool false).
Proof. exact missing_not_found. Qed.
Print Assumptions C05_missing_not_found.

Theorem C05_emplace_never_overwrites : forall s k c v e,
  lookup k s = Some e -> spec_step s (BEmplace k c v) = (s, RUnit).
Proof. exact emplace_never_overwrites. Qed.
Print Assumptions C05_emplace_never_overwrites.

Theorem C05_replace_upserts : forall s k c v,
  let s' := fst (spec_step s (BReplace k c v)) in
  snd (spec_step s (BReplace k c v)) = RUnit /\
  lookup k s' = Some (match lookup k s with Some (c0, _) => c0 | None => c end, v) /\
  forall k', k' <> k -> lookup k' s' = lookup k' s.
Proof. exact replace_upserts. Qed.
Print Assumptions C05_replace_upserts.

Theorem C05_append_upserts : forall s k v,
  let s' := fst (spec_step s (BAppend k v)) in
  snd (spec_step s (BAppend k v)) = RUnit /\
  lookup k s' = Some (match lookup k s with Some (c0, v0) => (c0, v0 ++ v) | None => ([], v) end) /\
  forall k', k' <> k -> lookup k' s' = lookup k' s.
Proof. exact append_upserts. Qed.
Print Assumptions C05_append_upserts.

Theorem C05_failed_mutate_noop : forall s k f c v e,
  @lookup entry k s = Some (c, v) -> f v = MFail e -> spec_step s (BMutate k f) = (s, RErr e).
Proof. exact failed_mutate_noop. Qed.
Print Assumptions C05_failed_mutate_noop.

Theorem C05_cancelled_mutate_noop : forall maxlen ordered hk jv s k mk c v f,
  map_key maxlen ordered hk k = Some mk -> @lookup entry mk s = Some (c, v) ->
  jv v = true -> f v = MFail ECancel ->
  kv_step maxlen ordered hk jv spec_step s (UMutate k f) = (s, RUnit).
Proof. exact kv_cancelled_mutate_noop. Qed.
Print Assumptions C05_cancelled_mutate_noop.

Theorem C05_count_has_get : forall s k,
  spec_step s BCount = (s, RCount (lenN s)) /\
  spec_step s (BHas k) = (s, RBool (match lookup k s with Some _ => true | None => false end)) /\
  spec_step s (BGet k) = (s, match lookup k s with Some (_, v) => RBytes v | None => RErr ENotFound end).
Proof. exact count_has_get. Qed.
Print Assumptions C05_count_has_get.

(** walks: exactly the live entries (of the class), in key order *)
Theorem C05_walk_items_exact : forall (s : table) c,
  sorted kltb s ->
  sorted kltb (filter (has_class c) s) /\
  forall k e, In (k, e) (filter (has_class c) s) <-> (lookup k s = Some e /\ fst e = c).
Proof. exact walk_items_exact. Qed.
Print Assumptions C05_walk_items_exact.

Theorem C05_walk_desc_sorted : forall s : table, sorted kltb s -> sorted kgtb (rev s).
Proof. exact walk_desc_sorted. Qed.
Print Assumptions C05_walk_desc_sorted.

Theorem C05_walk_window : forall (l : table) off n i,
  (i < N.to_nat n)%nat ->
  nth_error (window off n l) i = nth_error l (N.to_nat off + i).
Proof. exact (@window_nth (key * entry)). Qed.
Print Assumptions C05_walk_window.

(** the four walks of the reference map, by definition of [spec_step] *)
Theorem C05_walk_exact : forall s f c off n desc,
  spec_step s (BWalk f) = (s, walk_result f s) /\
  spec_step s (BWalkClass c f) = (s, walk_result f (filter (has_class c) s)) /\
  spec_step s (BWalkPartial off n desc f) = (s, walk_result f (window off n (dir desc s))) /\
  spec_step s (BWalkPartialClass c off n desc f)
  = (s, walk_result f (window off n (dir desc (filter (has_class c) s)))).
Proof. exact walk_exact. Qed.
Print Assumptions C05_walk_exact.

(** the window holds min(n, what is left after the offset) entries: no more
    than the limit, nothing beyond the end *)
Theorem C05_walk_window_length : forall (l : table) off n,
  List.length (window off n l)
  = Nat.min (N.to_nat (N.min n (lenN l))) (List.length l - N.to_nat (N.min off (lenN l))).
Proof. exact (@window_length (key * entry)). Qed.
Print Assumptions C05_walk_window_length.

(** what a backend shows to the callback is the list the reference map
    determines, whatever the callback is: a callback that keeps state between
    entries sees the same sequence on the memory and on the SQL backend *)
Theorem C05_backend_walks_exact : forall t f c off n desc,
  nodupk t -> off < two63 -> n < two63 ->
  (snd (mem_step t (BWalk f)) = walk_result f (abs t) /\
   snd (mem_step t (BWalkClass c f)) = walk_result f (filter (has_class c) (abs t)) /\
   snd (mem_step t (BWalkPartial off n desc f)) = walk_result f (window off n (dir desc (abs t))) /\
   snd (mem_step t (BWalkPartialClass c off n desc f))
   = walk_result f (window off n (dir desc (filter (has_class c) (abs t))))) /\
  (snd (sql_step gen_sqlite_methods t (BWalk f)) = walk_result f (abs t) /\
   snd (sql_step gen_sqlite_methods t (BWalkClass c f)) = walk_result f (filter (has_class c) (abs t)) /\
   snd (sql_step gen_sqlite_methods t (BWalkPartial off n desc f))
   = walk_result f (window off n (dir desc (abs t))) /\
   snd (sql_step gen_sqlite_methods t (BWalkPartialClass c off n desc f))
   = walk_result f (window off n (dir desc (filter (has_class c) (abs t))))).
Proof.
  exact (fun t f c off n desc Hn Ho Hl =>
    conj (backend_walks_exact mem_step t f c off n desc mem_step_refines Hn Ho Hl)
         (backend_walks_exact _ t f c off n desc gen_sqlite_step_refines Hn Ho Hl)).
Qed.
Print Assumptions C05_backend_walks_exact.

(** ** Keys *)

Theorem C05_ordered_keys_verbatim : forall hk k,
  lenN k <= gen_max_key_len -> map_key gen_max_key_len true hk k = Some k.
Proof. exact (ordered_keys_verbatim gen_max_key_len). Qed.
Print Assumptions C05_ordered_keys_verbatim.

Theorem C05_long_keys_rejected :
  forall hk jv (S : Type) (step : S -> bop -> S * result) s u k,
  uop_key u = Some k -> gen_max_key_len < lenN k ->
  kv_step gen_max_key_len true hk jv step s u = (s, RErr EKeyTooLong).
Proof. exact (long_keys_rejected gen_max_key_len). Qed.
Print Assumptions C05_long_keys_rejected.

Theorem C05_unordered_any_key : forall hk k,
  map_key gen_max_key_len false hk k = Some (hk k).
Proof. exact (unordered_any_key gen_max_key_len). Qed.
Print Assumptions C05_unordered_any_key.

(** An unordered store hands hashed keys to the backend.  For every history
    of keyed calls, Count and Clear whose keys the hash keeps apart it returns
    what the map keyed by the user's own keys returns - a map that accepts
    every key.  (Full walks visit the same entries in the order of the hashed
    keys, "the store's key order"; partial walks are refused.)  The premise
    is needed: [C05_colliding_keys_refuted]. *)
Theorem C05_unordered_is_user_key_map : forall maxlen hk jv K uops,
  (forall a b, In a K -> In b K -> hk a = hk b -> a = b) ->
  Forall (uop_in K) uops ->
  snd (run (kv_step maxlen false hk jv spec_step) [] uops)
  = snd (run (kv_step maxlen false (fun k => k) jv spec_step) [] uops).
Proof. exact unordered_is_user_key_map. Qed.
Print Assumptions C05_unordered_is_user_key_map.

(** The two panic sites of the memory walk (slice bounds in partialKeys, nil
    entry in walkKeys) are unreachable whenever offset + limit does not wrap
    around uint64 - in particular on the whole range of the statement, offsets
    and limits up to 2^63 - 1 ([bop_okb]) ... *)
Theorem C05_mem_never_panics : forall t o,
  nodupk t -> bop_nowrapb o = true ->
  (forall k f c v, o = BMutate k f -> lookup k t = Some (c, v) -> f v <> MFail EPanic) ->
  snd (mem_step t o) <> RErr EPanic.
Proof. exact mem_never_panics_nowrap. Qed.
Print Assumptions C05_mem_never_panics.

Theorem C05_statement_range_no_wrap : forall o, bop_okb o = true -> bop_nowrapb o = true.
Proof. exact bop_ok_nowrap. Qed.
Print Assumptions C05_statement_range_no_wrap.

(** ... and for uint64 values outside it the code does panic, exactly when
    the wrapped end index falls below the start index. *)
Theorem C05_mem_partial_panics_exactly : forall t off n desc f,
  off < two64 -> n < two64 -> nodupk t ->
  (snd (mem_step t (BWalkPartial off n desc f)) = RErr EPanic <->
   two64 <= off + n /\ N.min (off + n - two64) (lenN t) < N.min off (lenN t)).
Proof. exact mem_partial_panics_exactly. Qed.
Print Assumptions C05_mem_partial_panics_exactly.

Theorem C05_partial_keys_uint64 : forall off n ks,
  off < two64 -> n < two64 ->
  partial_keys off n ks =
  if off + n <? two64 then Some (window off n ks)
  else if N.min (off + n - two64) (lenN ks) <? N.min off (lenN ks) then None else Some [].
Proof.
  exact (fun off n ks Ho Hn =>
    match N.ltb_spec (off + n) two64 as r in BoolSpec _ _ b
      return partial_keys off n ks =
             if b then Some (window off n ks)
             else if N.min (off + n - two64) (lenN ks) <? N.min off (lenN ks) then None else Some []
    with
    | BoolSpecT _ H => partial_keys_nowrap off n ks H
    | BoolSpecF _ H => partial_keys_wrap off n ks Ho Hn H
    end).
Qed.
Print Assumptions C05_partial_keys_uint64.

(** ** Keys are limited in bytes; classes and values are not limited at all *)

Theorem C05_ordered_key_accepted_iff : forall hk k,
  map_key gen_max_key_len true hk k = Some k <-> lenN k <= gen_max_key_len.
Proof. exact (ordered_key_accepted_iff gen_max_key_len). Qed.
Print Assumptions C05_ordered_key_accepted_iff.

Theorem C05_key_limit_counts_bytes : forall hk (rune : bytes) (m : nat),
  map_key gen_max_key_len true hk (List.concat (repeat rune m))
  = if N.of_nat m * lenN rune <=? gen_max_key_len then Some (List.concat (repeat rune m)) else None.
Proof. exact (repeated_rune_key gen_max_key_len). Qed.
Print Assumptions C05_key_limit_counts_bytes.

Theorem C05_add_is_addclass_empty :
  forall maxlen ordered hk jv (S : Type) (step : S -> bop -> S * result) s k v,
  kv_step maxlen ordered hk jv step s (UAdd k v) = kv_step maxlen ordered hk jv step s (UAddClass k [] v).
Proof. exact add_is_addclass_empty. Qed.
Print Assumptions C05_add_is_addclass_empty.

Theorem C05_class_stored_verbatim : forall s k c v,
  lookup k s = None -> lookup k (fst (spec_step s (BAdd k c v))) = Some (c, v).
Proof. exact class_stored_verbatim. Qed.
Print Assumptions C05_class_stored_verbatim.

(** ** Values that are not JSON *)

Theorem C05_get_undecodable : forall maxlen ordered hk jv s k mk c v,
  map_key maxlen ordered hk k = Some mk -> @lookup entry mk s = Some (c, v) -> jv v = false ->
  kv_step maxlen ordered hk jv spec_step s (UGet k) = (s, RErr EDecode) /\
  kv_step maxlen ordered hk jv spec_step s (UGetBytes k) = (s, RBytes v).
Proof. exact kv_get_undecodable. Qed.
Print Assumptions C05_get_undecodable.

Theorem C05_mutate_undecodable_noop : forall maxlen ordered hk jv s k mk c v f,
  map_key maxlen ordered hk k = Some mk -> @lookup entry mk s = Some (c, v) ->
  jv v = false ->
  kv_step maxlen ordered hk jv spec_step s (UMutate k f) = (s, RErr EDecode).
Proof. exact kv_undecodable_mutate_noop. Qed.
Print Assumptions C05_mutate_undecodable_noop.

Theorem C05_setbytes_any_value : forall maxlen ordered hk jv s k mk c v0 v,
  map_key maxlen ordered hk k = Some mk -> @lookup entry mk s = Some (c, v0) ->
  snd (kv_step maxlen ordered hk jv spec_step s (USetBytes k v)) = RUnit /\
  lookup mk (fst (kv_step maxlen ordered hk jv spec_step s (USetBytes k v))) = Some (c, v).
Proof. exact kv_setbytes_any_value. Qed.
Print Assumptions C05_setbytes_any_value.

Theorem C05_walk_stops_at_undecodable : forall jv (a b : table) k c v,
  Forall (fun p => jv (snd (snd p)) = true) a -> jv v = false ->
  visit (do_walk jv WAll) (a ++ (k, (c, v)) :: b) = (map snd a, Some EDecode).
Proof. exact visit_stops_at_undecodable. Qed.
Print Assumptions C05_walk_stops_at_undecodable.

Theorem C05_walk_all_decodable : forall jv (a : table),
  Forall (fun p => jv (snd (snd p)) = true) a ->
  visit (do_walk jv WAll) a = (map snd a, None).
Proof. exact visit_all_decodable. Qed.
Print Assumptions C05_walk_all_decodable.

(** ** The contents are a function of the history of calls alone

    Go byte slices are references.  Kv/Own.v runs the memory backend over a
    heap of buffers and lets the caller, between any two calls, overwrite any
    buffer it passed in (SetBytes, AppendBytes, ...) or was given (GetBytes,
    the value shown to a Mutate function or a walk).  With the copy points of
    mem_entry.go as the translator extracts them, results and contents are
    those of the memory model on the history with the caller's writes erased
    - hence (C05_mem_refines_spec) those of the reference map. *)
Theorem C05_mem_contents_history_only : forall ops,
  run_okb (copies_of gen_mem_entry_skel) own_init ops = true ->
  cont (fst (own_run (copies_of gen_mem_entry_skel) own_init ops))
  = fst (run mem_step [] (erase_run (copies_of gen_mem_entry_skel) own_init ops)) /\
  snd (own_run (copies_of gen_mem_entry_skel) own_init ops)
  = snd (run mem_step [] (erase_run (copies_of gen_mem_entry_skel) own_init ops)).
Proof. exact gen_mem_contents_history_only. Qed.
Print Assumptions C05_mem_contents_history_only.

(** no buffer of the store is ever one the caller can write (so the store
    never writes into the caller's memory either: it only writes its own) *)
Theorem C05_mem_store_buffers_private : forall ops,
  run_okb (copies_of gen_mem_entry_skel) own_init ops = true ->
  let '(st, h, kn) := fst (own_run (copies_of gen_mem_entry_skel) own_init ops) in
  forall b, In b (bufs st) -> ~ In b kn.
Proof. exact gen_mem_store_buffers_private. Qed.
Print Assumptions C05_mem_store_buffers_private.

Theorem C05_mem_copy_points :
  copies_of gen_mem_entry_skel = all_copy /\ gen_mem_buf_outside = [].
Proof. exact (conj gen_mem_entry_copies gen_mem_buf_private). Qed.
Print Assumptions C05_mem_copy_points.

(** ** Several handles, several tables, the table life cycle (tables.go) *)

Theorem C05_tables_sqlite_refine_spec : forall maxlen hk jv hs slots ops,
  forallb lop_okb ops = true ->
  snd (run (l_step maxlen hk jv (sql_step gen_sqlite_methods) true hs) (init_state true slots) ops)
  = snd (run (l_step maxlen hk jv spec_step true hs) (init_state true slots) ops) /\
  srel (fst (run (l_step maxlen hk jv (sql_step gen_sqlite_methods) true hs) (init_state true slots) ops))
       (fst (run (l_step maxlen hk jv spec_step true hs) (init_state true slots) ops)).
Proof. exact gen_sqlite_tables_refine. Qed.
Print Assumptions C05_tables_sqlite_refine_spec.

Theorem C05_tables_mem_refine_spec : forall maxlen hk jv hs slots ops,
  forallb lop_okb ops = true ->
  snd (run (l_step maxlen hk jv mem_step false hs) (init_state false slots) ops)
  = snd (run (l_step maxlen hk jv spec_step false hs) (init_state false slots) ops) /\
  srel (fst (run (l_step maxlen hk jv mem_step false hs) (init_state false slots) ops))
       (fst (run (l_step maxlen hk jv spec_step false hs) (init_state false slots) ops)).
Proof.
  exact (fun maxlen hk jv hs slots ops =>
           tables_refine_spec maxlen hk jv mem_step false hs slots ops mem_step_refines).
Qed.
Print Assumptions C05_tables_mem_refine_spec.

(** a call through one handle leaves every other table as it was *)
Theorem C05_call_touches_own_table : forall maxlen hk jv bstep persistent hs s h u slot ordered x,
  nth_error hs h = Some (slot, ordered) -> x <> slot ->
  slot_get (fst (l_step maxlen hk jv bstep persistent hs s (LOp h u))) x = slot_get s x.
Proof. exact op_touches_own_slot. Qed.
Print Assumptions C05_call_touches_own_table.

(** in a history of calls on existing tables, the calls that go to one table -
    through whichever handles, ordered or hashing - see exactly one store *)
Theorem C05_table_is_one_store : forall maxlen hk jv bstep persistent hs x ops s t,
  forallb (is_lop hs) ops = true ->
  (forall y, (y < List.length s)%nat -> slot_get s y <> None) ->
  slot_get s x = Some t ->
  proj_results hs x ops (snd (run (l_step maxlen hk jv bstep persistent hs) s ops))
  = snd (run (flag_step maxlen hk jv bstep) t (proj_slot hs x ops)) /\
  slot_get (fst (run (l_step maxlen hk jv bstep persistent hs) s ops)) x
  = Some (fst (run (flag_step maxlen hk jv bstep) t (proj_slot hs x ops))).
Proof. exact slot_projection. Qed.
Print Assumptions C05_table_is_one_store.

(** a call on a table that does not exist changes nothing and reports an error *)
Theorem C05_call_on_missing_table : forall maxlen hk jv bstep persistent hs s h u slot ordered,
  nth_error hs h = Some (slot, ordered) -> slot_get s slot = None ->
  fst (l_step maxlen hk jv bstep persistent hs s (LOp h u)) = s /\
  exists e, snd (l_step maxlen hk jv bstep persistent hs s (LOp h u)) = RErr e.
Proof. exact op_on_dropped. Qed.
Print Assumptions C05_call_on_missing_table.

Theorem C05_create_missing_keeps_contents : forall maxlen hk jv bstep persistent hs s h slot ordered t,
  nth_error hs h = Some (slot, ordered) -> slot_get s slot = Some t ->
  l_step maxlen hk jv bstep persistent hs s (LLife h KMissing) = (s, RUnit).
Proof. exact create_missing_keeps. Qed.
Print Assumptions C05_create_missing_keeps_contents.

Theorem C05_create_existing_refused : forall maxlen hk jv bstep persistent hs s h slot ordered t,
  persistent = true ->
  nth_error hs h = Some (slot, ordered) -> slot_get s slot = Some t ->
  l_step maxlen hk jv bstep persistent hs s (LLife h KCreate) = (s, RErr EOther).
Proof. exact create_existing_refused. Qed.
Print Assumptions C05_create_existing_refused.

Theorem C05_destroy_create_empties : forall maxlen hk jv bstep persistent hs s h slot ordered t,
  persistent = true ->
  nth_error hs h = Some (slot, ordered) -> slot_get s slot = Some t ->
  let s1 := fst (l_step maxlen hk jv bstep persistent hs s (LLife h KDestroy)) in
  snd (l_step maxlen hk jv bstep persistent hs s (LLife h KDestroy)) = RUnit /\
  slot_get s1 slot = None /\
  snd (l_step maxlen hk jv bstep persistent hs s1 (LLife h KCreate)) = RUnit /\
  slot_get (fst (l_step maxlen hk jv bstep persistent hs s1 (LLife h KCreate))) slot = Some [].
Proof. exact destroy_create_empties. Qed.
Print Assumptions C05_destroy_create_empties.

(** ** A walk releases what it holds however it ends

    A SQL walk holds a result set on a pooled connection (SQLite: the SHARED
    lock) from its first row on.  Kv/Rows.v carries the number of result sets
    left open through the sequential model: a walk leaves one behind when the
    way it ended (rows exhausted / error or ErrCancel from Scan or the
    callback / panic of the callback) is not covered by a Close, and a write
    with something to commit is refused while one is open.  With the shape the
    translator reads off the walk* methods and sqlIterRows, nothing is ever
    left open, for every history and from every table: the model is the plain
    sequential one of the refinement theorems. *)
Theorem C05_walk_releases_on_every_exit : forall ops t,
  run (rows_step (shape_from gen_sqlite_walk_defer gen_iter_rows_skel) gen_sqlite_methods) (t, O) ops
  = ((fst (run (sql_step gen_sqlite_methods) t ops), O), snd (run (sql_step gen_sqlite_methods) t ops)).
Proof. exact gen_sqlite_walk_releases_on_every_exit. Qed.
Print Assumptions C05_walk_releases_on_every_exit.

Theorem C05_walks_release_shape :
  all_release (shape_from gen_sqlite_walk_defer gen_iter_rows_skel) = true /\
  all_release (shape_from gen_psql_walk_defer gen_iter_rows_skel) = true.
Proof. exact gen_walks_release. Qed.
Print Assumptions C05_walks_release_shape.

(** ** The source is the deployed one *)
Theorem C05_source_frozen :
  gen_sqlite_methods = deployed_methods /\
  gen_psql_methods = deployed_methods /\
  gen_sqlite_ops = deployed_ops /\
  gen_psql_ops = deployed_ops /\
  gen_max_key_len = 255 /\
  scheme_okb gen_sqlite_columns = true.
Proof.
  exact (conj gen_sqlite_methods_frozen (conj gen_psql_methods_frozen
        (conj gen_sqlite_ops_frozen (conj gen_psql_ops_frozen
        (conj gen_max_key_len_frozen gen_sqlite_scheme_ok))))).
Qed.
Print Assumptions C05_source_frozen.

(** ** Non-vacuity *)

Definition ex_k : key := [107].
Definition ex_c : cls := [99].
Definition always_ok : walkfn := fun _ _ _ => None.

(** a history meeting the hypothesis of the refinement theorems, with the
    values all three models compute on it *)
Example C05_nonvacuous_history :
  let ops := [BAdd ex_k ex_c [49]; BReplace ex_k [] [50]; BAdd [97] [] [51];
              BWalkClass ex_c always_ok; BWalkPartial 1 (two63 - 1) true always_ok;
              BMutate ex_k (fun _ => MFail ECancel); BGet ex_k; BCount] in
  forallb bop_okb ops = true /\
  snd (run spec_step [] ops)
  = [RUnit; RUnit; RUnit; RWalk [(ex_c, [50])] None; RWalk [([], [51])] None;
     RErr ECancel; RBytes [50]; RCount 2] /\
  snd (run mem_step [] ops) = snd (run spec_step [] ops) /\
  snd (run (sql_step gen_sqlite_methods) [] ops) = snd (run spec_step [] ops) /\
  fst (run spec_step [] ops) = [([97], ([], [51])); (ex_k, (ex_c, [50]))].
Proof. vm_compute. repeat split. Qed.

(** the code before the repair of memKV.replace does not satisfy the
    refinement statement: AddClass(k,"c",1); Replace(k,2); WalkClass("c") *)
Example C05_legacy_replace_refuted :
  let ops := [BAdd ex_k ex_c [49]; BReplace ex_k [] [50]; BWalkClass ex_c always_ok] in
  forallb bop_okb ops = true /\
  snd (run mem_step_legacy [] ops) <> snd (run spec_step [] ops).
Proof. split; [reflexivity|vm_compute; discriminate]. Qed.

(** 85 three-byte runes are 255 bytes (accepted), 86 are 258 bytes and 86
    runes (refused): the limit is not a count of characters *)
Example C05_nonvacuous_rune_keys :
  let zhong := [228; 184; 173] in
  map_key gen_max_key_len true (fun k => k) (List.concat (repeat zhong 85))
  = Some (List.concat (repeat zhong 85)) /\
  map_key gen_max_key_len true (fun k => k) (List.concat (repeat zhong 86)) = None.
Proof. vm_compute. split; reflexivity. Qed.

(** an undecodable value in the middle of a walk *)
Example C05_nonvacuous_undecodable :
  let ops := [UAdd [97] [49]; UAdd [98] [50]; UAdd [99] [51]; USetBytes [98] [123];
              UGet [98]; UGetBytes [98]; UWalk WAll; UWalkPartial 0 9 true WAll;
              UMutate [98] (fun _ => MSet [53]); UCount] in
  snd (run (kv_step gen_max_key_len true (fun k => k) Kv.KvCorr.json_ok spec_step) [] ops)
  = [RUnit; RUnit; RUnit; RUnit; RErr EDecode; RBytes [123]; RWalk [([], [49])] (Some EDecode);
     RWalk [([], [51])] (Some EDecode); RErr EDecode; RCount 3].
Proof. vm_compute. reflexivity. Qed.

(** window edges: at the top of the statement's range nothing wraps (and
    nothing is visited); [Offset: 1, N: MaxUint64] wraps and panics on the
    memory backend, and is refused by sqlite ("datatype mismatch") *)
Example C05_window_edges :
  let t := [([97], ([], [49])); ([98], ([], [50])); ([99], ([], [51]))] in
  let top := two63 - 1 in
  snd (mem_step t (BWalkPartial top top false always_ok)) = RWalk [] None /\
  snd (mem_step t (BWalkPartial 2 top true always_ok)) = RWalk [([], [49])] None /\
  snd (mem_step t (BWalkPartial 1 (two64 - 1) false always_ok)) = RErr EPanic /\
  snd (mem_step t (BWalkPartial 0 (two64 - 1) false always_ok))
  = RWalk [([], [49]); ([], [50]); ([], [51])] None /\
  snd (sql_step gen_sqlite_methods t (BWalkPartial 1 (two64 - 1) false always_ok)) = RErr EOther /\
  snd (sql_step gen_sqlite_methods t (BWalkPartial two63 0 false always_ok)) = RWalk [] None.
Proof. vm_compute. repeat split. Qed.

(** the key-length limit is met with equality at 255 and exceeded at 256 *)
Example C05_nonvacuous_keys :
  map_key gen_max_key_len true (fun k => k) (List.repeat 97 255) = Some (List.repeat 97 255) /\
  map_key gen_max_key_len true (fun k => k) (List.repeat 97 256) = None.
Proof. vm_compute. split; reflexivity. Qed.

(** without the copy in newMemEntry (bytes.NewBuffer(bs)) the contents depend
    on what the caller does with its buffer afterwards; likewise when bytes()
    hands out the buffer's storage *)
Example C05_adopting_new_entry_refuted :
  let ops := [CAlloc [49; 50]; HAppend [107] 0%nat; CWrite 0%nat [238; 238]; HGet [107]] in
  run_okb adopt_new own_init ops = true /\
  snd (own_run adopt_new own_init ops) = [RUnit; RBytes [238; 238]] /\
  snd (run mem_step [] (erase_run adopt_new own_init ops)) = [RUnit; RBytes [49; 50]].
Proof. exact adopting_new_entry_refuted. Qed.

Example C05_handing_out_storage_refuted :
  let ops := [CAlloc [49]; HAdd [107] [] 0%nat; HGet [107]; CWrite 1%nat [238]; HGet [107]] in
  run_okb hand_out own_init ops = true /\
  snd (own_run hand_out own_init ops) = [RUnit; RBytes [49]; RBytes [238]] /\
  snd (run mem_step [] (erase_run hand_out own_init ops)) = [RUnit; RBytes [49]; RBytes [49]].
Proof. exact handing_out_storage_refuted. Qed.

(** a history of the ownership theorem in which the caller recycles one
    scratch buffer for every call and overwrites what it was given *)
Example C05_nonvacuous_ownership :
  let ops := [CAlloc [49; 50]; HAppend [107] 0%nat; CWrite 0%nat [51]; HAppend [107] 0%nat;
              CWrite 0%nat [238]; HGet [107]; CWrite 2%nat [238; 238; 238]; HSet [107] 0%nat;
              CWrite 0%nat [52]; HMutate [107] (fun v => Some (v ++ [53])); HGet [107]; HCount] in
  run_okb (copies_of gen_mem_entry_skel) own_init ops = true /\
  snd (own_run (copies_of gen_mem_entry_skel) own_init ops)
  = [RUnit; RUnit; RBytes [49; 50; 51]; RUnit; RUnit; RBytes [238; 53]; RCount 1].
Proof. vm_compute. split; reflexivity. Qed.

(** two tables of one file, an ordered and a hashing handle on the first; the
    second is dropped and created again *)
Example C05_nonvacuous_tables :
  let hs := [(0, true); (0, false); (1, true)]%nat in
  let hkf := fun k : key => 104 :: k in
  let ops := [LOp 0 (UAdd ex_k [49]); LAll KMissing; LOp 0 (UAdd ex_k [49]); LOp 1 (UAdd ex_k [50]);
              LOp 2 (UAdd ex_k [51]); LOp 0 UCount; LOp 0 (UGet (104 :: ex_k)); LLife 2 KDestroy;
              LOp 2 (UGet ex_k); LOp 0 (UGet ex_k); LLife 2 KCreate; LOp 2 UCount; LAll KCreate] in
  forallb lop_okb ops = true /\
  snd (run (l_step gen_max_key_len hkf Kv.KvCorr.json_ok (sql_step gen_sqlite_methods) true hs)
           (init_state true 2) ops)
  = [RErr EOther; RUnit; RUnit; RUnit; RUnit; RCount 2; RBytes [50]; RUnit; RErr EOther; RBytes [49];
     RUnit; RCount 0; RErr EOther].
Proof. vm_compute. split; reflexivity. Qed.

Example C05_colliding_keys_refuted :
  let hk := fun _ : key => [0] in
  let uops := [UAdd [97] [49]; UAdd [98] [50]; UCount] in
  snd (run (kv_step 255 false hk (fun _ => true) spec_step) [] uops) = [RUnit; RErr EExists; RCount 1] /\
  snd (run (kv_step 255 false (fun k => k) (fun _ => true) spec_step) [] uops) = [RUnit; RUnit; RCount 2].
Proof. exact colliding_keys_refuted. Qed.

(** a history of the unordered-store theorem with a hash that is injective on
    the keys used (it prefixes a byte) *)
Example C05_nonvacuous_unordered :
  let hk := fun k : key => 104 :: k in
  let K := [[97]; [98]; List.repeat 97 300] in
  let uops := [UAdd [97] [49]; UAddClass [98] ex_c [50]; UAdd (List.repeat 97 300) [51]; UReplace [97] [52];
               UGet [97]; UMutate [98] (fun _ => MSet [53]); URemove (List.repeat 97 300); UCount] in
  Forall (uop_in K) uops /\
  (forall a b, In a K -> In b K -> hk a = hk b -> a = b) /\
  snd (run (kv_step gen_max_key_len false hk Kv.KvCorr.json_ok spec_step) [] uops)
  = [RUnit; RUnit; RUnit; RUnit; RBytes [52]; RUnit; RUnit; RCount 2].
Proof.
  split; [|split].
  - repeat (apply Forall_cons); try apply Forall_nil; cbn [uop_in In]; auto 10.
  - intros a b _ _ H. now injection H.
  - vm_compute. reflexivity.
Qed.

(** with a Close only at the end of sqlIterRows' loop (no deferred Close), a
    walk stopped by its callback leaves its result set open and the next write
    is refused, which the reference map does not do *)
Example C05_close_at_loop_end_only_refuted :
  let stop : walkfn := fun _ _ _ => Some ECancel in
  let ops := [BAdd [97] [] [49]; BWalk stop; BAdd [98] [] [50]; BGet [97]; BCount] in
  all_release loop_end_only = false /\
  snd (run (rows_step loop_end_only deployed_methods) ([], O) ops)
  = [RUnit; RWalk [] (Some ECancel); RErr EBusy; RBytes [49]; RCount 1] /\
  snd (run (sql_step deployed_methods) [] ops)
  = [RUnit; RWalk [] (Some ECancel); RUnit; RBytes [49]; RCount 2].
Proof. exact close_at_loop_end_only_refuted. Qed.
