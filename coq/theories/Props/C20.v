(** C20 — aries: requests reach only the longest matching route and the
    permitted tier.  Property theorems only; each is closed by a lemma proved
    under Aries/. *)
From Coq Require Import List NArith ZArith Bool Permutation.
From Verif Require Import Aries.Str Aries.Radix Aries.RadixProofs Aries.MuxProofs.
Import ListNotations.

(** The compressed trie built by ANY list of insertions, in the order given
    (duplicates and empty strings included): no panic, [add] answers [true]
    exactly for new non-empty strings, and every lookup returns the longest
    inserted string that is a prefix of the argument. *)
Theorem C20_radix_find_longest : forall ss,
  exists t bs, build ss = Some (t, bs) /\ bs = fresh_flags [] ss /\
    forall s, trie_find t s = (longest_prefix ss s, existsb (str_eqb s) ([] :: ss)).
Proof. exact radix_find_longest. Qed.
Print Assumptions C20_radix_find_longest.

(** [longest_prefix] is what its name says. *)
Theorem C20_longest_prefix_spec : forall ss s,
  let r := longest_prefix ss s in
  is_prefix r s /\ (r = [] \/ In r ss) /\
  forall w, In w ss -> is_prefix w s -> length w <= length r.
Proof. exact longest_prefix_best. Qed.
Print Assumptions C20_longest_prefix_spec.

(** The structural invariant is preserved by every [add], which never
    panics and registers exactly its argument. *)
Theorem C20_radix_inv : forall t path s, wf path t ->
  exists t' b, add t s = Some (t', b) /\ wf path t' /\
    (forall w, In w (contents t') <-> (w = s /\ s <> []) \/ In w (contents t)) /\
    (b = true <-> s <> [] /\ ~ In s (contents t)) /\ (b = false -> t' = t).
Proof.
  intros t path s W. destruct (add_correct t path s W) as (t' & b & E & W' & _ & C & B & S).
  exists t', b. auto.
Qed.
Print Assumptions C20_radix_inv.

(** Insertion order is irrelevant. *)
Theorem C20_radix_order_irrelevant : forall ss ss' t t' bs bs',
  Permutation ss ss' -> build ss = Some (t, bs) -> build ss' = Some (t', bs') ->
  forall s, trie_find t s = trie_find t' s.
Proof. exact radix_permutation. Qed.
Print Assumptions C20_radix_order_irrelevant.

(** The Mux, after any sequence of Prefix/Exact/Dir registrations, rejects
    exactly the duplicates and routes every path as the trie-free scan does:
    exact match, else longest registered prefix, else nothing. *)
Theorem C20_mux_route : forall ops,
  exists m, mux_run new_mux ops = Some (m, snd (ref_run (RMux [] []) ops)) /\
    forall path, mux_route m path = ref_route (fst (ref_run (RMux [] []) ops)) path.
Proof. exact mux_refines_scan. Qed.
Print Assumptions C20_mux_route.
