(** C20 — aries: requests reach only the longest matching route and the
    permitted tier.  Property theorems only; each is closed by a lemma proved
    under Aries/ (instantiated, where a skeleton or condition is involved,
    with the object the translator regenerated from /repo: Gen/AriesSkel.v
    via Aries/AriesGen.v). *)
From Coq Require Import List NArith ZArith Bool Permutation.
From Verif Require Import Aries.Str Aries.Radix Aries.RadixProofs Aries.MuxProofs
  Aries.SegTrie Aries.SegTrieProofs Aries.Router Aries.RouterProofs
  Aries.Tiers Aries.TiersProofs Aries.Entry Aries.EntryProofs Aries.CtxSeq Aries.CtxSeqProofs
  Aries.AriesGen Gen.AriesSkel Gen.AriesEntry.
Import ListNotations.
Local Open Scope N_scope.

(** * aries/trie.go — the compressed trie *)

(** The trie built by ANY list of insertions, in the order given (duplicates
    and empty strings included): no panic, [add] answers [true] exactly for
    new non-empty strings, and every lookup returns the longest inserted
    string that is a prefix of the argument, with the exact-hit flag. *)
Theorem C20_radix_find_longest : forall ss,
  exists t bs, build ss = Some (t, bs) /\ bs = fresh_flags [] ss /\
    forall s, trie_find t s = (longest_prefix ss s, existsb (str_eqb s) ([] :: ss)).
Proof. exact radix_find_longest. Qed.
Print Assumptions C20_radix_find_longest.

(** [longest_prefix] is what its name says. *)
Theorem C20_longest_prefix_spec : forall ss s,
  is_prefix (longest_prefix ss s) s /\
  (longest_prefix ss s = [] \/ In (longest_prefix ss s) ss) /\
  forall w, In w ss -> is_prefix w s -> (length w <= length (longest_prefix ss s))%nat.
Proof. exact longest_prefix_best. Qed.
Print Assumptions C20_longest_prefix_spec.

(** The structural invariant (stored prefix = concatenation of branches,
    child key = first byte of its non-empty branch, distinct keys) is
    preserved by every [add], which never panics, registers exactly its
    argument and reports a duplicate exactly when there is one. *)
Theorem C20_radix_inv : forall t path s, wf path t ->
  exists t' b, add t s = Some (t', b) /\ add_post path t s t' b.
Proof. exact add_correct. Qed.
Print Assumptions C20_radix_inv.

(** [find] on any well-formed trie: longest registered prefix. *)
Theorem C20_radix_find_inv : forall t s, wf [] t -> best (contents t) s (fst (trie_find t s)).
Proof. exact find_best. Qed.
Print Assumptions C20_radix_find_inv.

(** Insertion order is irrelevant. *)
Theorem C20_radix_order_irrelevant : forall ss ss' t t' bs bs',
  Permutation ss ss' -> build ss = Some (t, bs) -> build ss' = Some (t', bs') ->
  forall s, trie_find t s = trie_find t' s.
Proof. exact radix_permutation. Qed.
Print Assumptions C20_radix_order_irrelevant.

(** * aries/mux.go *)

(** After any sequence of Prefix/Exact/Dir registrations the Mux has
    refused exactly the duplicates and routes every path as the trie-free
    scan does. *)
Theorem C20_mux_route : forall ops,
  exists m, mux_run new_mux ops = Some (m, snd (ref_run (RMux [] []) ops)) /\
    forall path, mux_route m path = ref_route (fst (ref_run (RMux [] []) ops)) path.
Proof. exact mux_refines_scan. Qed.
Print Assumptions C20_mux_route.

(** The scan: exact match first, else the handler of the longest registered
    prefix, else nothing. *)
Theorem C20_mux_route_meaning : forall r path,
  (forall w, In w (keys (r_prefixes r)) -> w <> []) ->
  match ref_route r path with
  | Some f =>
      alookup path (r_exacts r) = Some f \/
      (alookup path (r_exacts r) = None /\
       exists w, is_prefix w path /\ alookup w (r_prefixes r) = Some f /\
         forall w', In w' (keys (r_prefixes r)) -> is_prefix w' path -> (length w' <= length w)%nat)
  | None =>
      alookup path (r_exacts r) = None /\
      forall w, In w (keys (r_prefixes r)) -> ~ is_prefix w path
  end.
Proof. exact ref_route_spec. Qed.
Print Assumptions C20_mux_route_meaning.

Theorem C20_mux_prefixes_nonempty : forall ops r,
  (forall w, In w (keys (r_prefixes r)) -> w <> []) ->
  forall w, In w (keys (r_prefixes (fst (ref_run r ops)))) -> w <> [].
Proof. exact ref_run_keys_nonempty. Qed.
Print Assumptions C20_mux_prefixes_nonempty.

(** Registration order of (distinct, non-empty) prefixes is irrelevant. *)
Theorem C20_mux_order_irrelevant : forall l l',
  NoDup (keys l) -> (forall w, In w (keys l) -> w <> []) -> Permutation l l' ->
  exists m m', mux_run new_mux (prefix_ops l) = Some (m, map (fun _ => true) l) /\
               mux_run new_mux (prefix_ops l') = Some (m', map (fun _ => true) l') /\
               forall path, mux_route m path = mux_route m' path.
Proof. exact mux_order_irrelevant. Qed.
Print Assumptions C20_mux_order_irrelevant.

(** * package trie — the segment trie *)

Theorem C20_segtrie_find_longest : forall adds,
  match ref_seg_run [] adds with
  | None => seg_run empty_snode adds = None
  | Some (t, oks) =>
      exists n, seg_run empty_snode adds = Some (n, oks) /\
        forall route, sfind route n = ref_seg_find t route
  end.
Proof. exact segtrie_find_longest. Qed.
Print Assumptions C20_segtrie_find_longest.

Theorem C20_segtrie_scan_meaning : forall t route,
  let '(j, v) := ref_seg_find t route in
  (j <= length route)%nat /\
  (forall i, (j < i <= length route)%nat -> rlookup (firstn i route) t = None) /\
  (rlookup (firstn j route) t = Some v \/
   (j = 0%nat /\ v = [] /\ forall i, (i <= length route)%nat -> rlookup (firstn i route) t = None)).
Proof. exact ref_seg_find_spec. Qed.
Print Assumptions C20_segtrie_scan_meaning.

(** * aries/router.go *)

(** After any sequence of registrations, for any request context, the
    Router (conditions as they are in the source today) answers exactly as
    the reference: index on an empty remainder; else the longest registered
    segment-wise prefix — a directory gets the remainder, a file only a
    complete match of a path without trailing slash — then the method check;
    otherwise default/miss.  Serve's own panic is unreachable. *)
Theorem C20_router_serve_spec : forall ops c,
  snd (router_run new_router ops) = snd (rref_run new_rref ops) /\
  router_serve_with gen_dispatch_cond gen_method_reject (fst (router_run new_router ops)) c =
  ref_router_serve (fst (rref_run new_rref ops)) c.
Proof. exact gen_router_serve_spec. Qed.
Print Assumptions C20_router_serve_spec.

Theorem C20_router_scan_meaning : forall (t : list (list str * rnode)) route,
  match rfind t route with
  | Some (j, v) =>
      (j <= length route)%nat /\ rlookup (firstn j route) t = Some v /\
      forall i, (j < i <= length route)%nat -> rlookup (firstn i route) t = None
  | None => forall i, (i <= length route)%nat -> rlookup (firstn i route) t = None
  end.
Proof. exact (@rfind_spec rnode). Qed.
Print Assumptions C20_router_scan_meaning.

Theorem C20_router_no_panic : forall R c,
  ref_router_serve R c <> OPanic /\ ref_router_serve R c <> OStuck.
Proof. exact ref_serve_not_stuck. Qed.
Print Assumptions C20_router_no_panic.

(** The handler sees exactly the remainder; it is empty iff the match was
    complete. *)
Theorem C20_router_remainder : forall c k, (k <= length (rel_route c))%nat ->
  rel_route (shift c k) = skipn k (rel_route c) /\
  rel_empty (shift c k) = (Nat.eqb k (length (rel_route c)) || rel_empty c)%bool.
Proof. exact router_remainder. Qed.
Print Assumptions C20_router_remainder.

(** Only the set of registered routes matters, not the order. *)
Theorem C20_router_order_irrelevant : forall R R' c,
  rr_index R = rr_index R' -> rr_miss R = rr_miss R' ->
  NoDup (map fst (rr_regs R)) -> Permutation (rr_regs R) (rr_regs R') ->
  ref_router_serve R c = ref_router_serve R' c.
Proof. exact router_order_irrelevant. Qed.
Print Assumptions C20_router_order_irrelevant.

(** Path splitting: segments are non-empty and slash-free, and the canonical
    path string determines them. *)
Theorem C20_route_canonical : forall p q,
  Forall good_seg (segs p) /\ (route_p (segs p) = route_p (segs q) -> segs p = segs q).
Proof. exact route_canonical. Qed.
Print Assumptions C20_route_canonical.

(** * aries/service_set.go *)

(** [Serve] (skeleton as in the source today), for every configuration,
    handler behaviour and incoming context: the user tier is only invoked
    with [c.User <> ""], the admin tier only when [isAdmin c]. *)
Theorem C20_tiers_gated : forall s c0,
  Forall (ev_ok s) (fst (run gen_default_admin gen_serve_auth_prog s gen_serve_prog c0)).
Proof. exact gen_serve_gated. Qed.
Print Assumptions C20_tiers_gated.

(** [ServeInternal]: the first guest/user/admin invocation sees an admin. *)
Theorem C20_internal_gated : forall s c0 t c,
  first_gated (fst (run gen_default_admin gen_serve_auth_prog s gen_serve_internal_prog c0))
    = Some (EServe t c) -> adm s c = true.
Proof. exact gen_serve_internal_gated. Qed.
Print Assumptions C20_internal_gated.

(** What [isAdmin] is. *)
Theorem C20_admin_default : forall s c,
  s_is_admin s = None -> adm s c = (negb (nil_str (i_user c)) && (0 <? i_level c)%Z)%bool.
Proof. exact adm_default. Qed.
Print Assumptions C20_admin_default.

Theorem C20_admin_custom : forall s c f, s_is_admin s = Some f -> adm s c = f c.
Proof. exact adm_custom. Qed.
Print Assumptions C20_admin_custom.

(** * aries/host_mux.go *)
Theorem C20_host_exact : forall sets h,
  host_serve (host_build sets) h =
  option_map snd (List.find (fun kv => str_eqb (fst kv) h) (rev sets)).
Proof. exact host_exact. Qed.
Print Assumptions C20_host_exact.

(** * Round 2 *)

(** ** The HTTP entry (aries/context.go NewContext, as in the source today) *)

(** The routed string is exactly URL.Path; the route is its canonical
    segment list (what [C20_route_canonical] and the Router theorems assume:
    non-empty, slash-free segments), position 0; "directory" means "URL.Path
    ends in a slash"; the host key is Req.Host, untouched. *)
Theorem C20_entry_routes_url_path : forall u method host,
  exists a, new_actx_with gen_ctx_path_src gen_ctx_route_src u method host = Some a /\
    a_path a = u_path u /\ a_host a = host /\
    c_routes (a_ctx a) = segs (u_path u) /\ Forall good_seg (c_routes (a_ctx a)) /\
    c_pos (a_ctx a) = 0%nat /\ c_isdir (a_ctx a) = path_is_dir (u_path u) /\
    c_method (a_ctx a) = method.
Proof. exact gen_new_actx_spec. Qed.
Print Assumptions C20_entry_routes_url_path.

(** RawPath, EscapedPath and the request URI play no role. *)
Theorem C20_entry_ignores_rawpath : forall u u' method host,
  u_path u = u_path u' ->
  new_actx_with gen_ctx_path_src gen_ctx_route_src u method host =
  new_actx_with gen_ctx_path_src gen_ctx_route_src u' method host.
Proof. exact gen_new_actx_ignores_raw. Qed.
Print Assumptions C20_entry_ignores_rawpath.

(** Leading, trailing and repeated slashes do not change the segments (the
    trailing one only the file/directory flag). *)
Theorem C20_segs_slashes : forall a b,
  segs (slash :: a) = segs a /\
  segs (a ++ [slash]) = segs a /\
  segs (a ++ slash :: slash :: b) = segs (a ++ slash :: b).
Proof. exact segs_slashes. Qed.
Print Assumptions C20_segs_slashes.

Theorem C20_segs_split : forall a b, segs (a ++ slash :: b) = segs a ++ segs b.
Proof. exact segs_app_slash. Qed.
Print Assumptions C20_segs_split.

(** In the (trusted, stream-checked) model of net/http's request parsing: a
    target without [%] is taken literally, and whatever the escapes were the
    segments aries routes on are slash-free (an escaped slash has become a
    separator). *)
Theorem C20_unescape_plain : forall s, ~ In percent s -> unescape s = Some s.
Proof. exact unescape_plain. Qed.
Print Assumptions C20_unescape_plain.

Theorem C20_entry_segments_canonical : forall r path host method,
  http_parse r = HReq path host ->
  exists a, new_actx (PUrl path [] [] []) method host = Some a /\
            Forall good_seg (c_routes (a_ctx a)) /\ c_routes (a_ctx a) = segs path.
Proof. exact parsed_segments_good. Qed.
Print Assumptions C20_entry_segments_canonical.

(** ** C.ErrCode (as in the source today): error class -> status *)
Theorem C20_errcode_status : forall e,
  status_with gen_errcode_table gen_errcode_default e =
  match e with
  | ENil => 200 | ENotFound => 404 | EInternal => 500
  | EUnauthorized => 403 | EInvalidArg => 400 | EOther => 500
  end.
Proof. exact gen_status_spec. Qed.
Print Assumptions C20_errcode_status.

(** ** ServeInternal with handlers that leave the identity alone *)

(** Every invocation of the guest, user and admin tiers sees an admin. *)
Theorem C20_internal_all_gated : forall s c0,
  frame_ok s ->
  all_gated_ok s (fst (run gen_default_admin gen_serve_auth_prog s gen_serve_internal_prog c0)).
Proof. exact gen_serve_internal_all_gated. Qed.
Print Assumptions C20_internal_all_gated.

(** The frame condition holds for handlers that do not touch the context. *)
Theorem C20_frame_keeps_ctx : forall s h, keeps_ctx h -> preserves_adm s h.
Proof. exact keeps_preserves. Qed.
Print Assumptions C20_frame_keeps_ctx.

(** ** Nil handlers, and the scope "register everything, then serve" *)

(** A nil handler (nil Service or nil Func) is refused at registration with
    the "function is nil" panic; Index(nil)/Default(nil) mean "none".  So no
    registered node, index or default can be a nil function, and together
    with [C20_router_no_panic] no request can panic inside the Router. *)
Theorem C20_router_nil_handler : forall r p dir m,
  gen_router_add_refuses_nil = true /\ gen_router_nil_index_is_none = true /\
  router_add_svc r p None dir m = None /\
  rt_index (set_index r None) = None /\ rt_miss (set_default r None) = None.
Proof. exact gen_router_nil_handler. Qed.
Print Assumptions C20_router_nil_handler.

(** Concurrent registration is not supported by the code (plain maps, no
    lock) and not used: the serving methods of Mux, Router, HostMux and both
    tries contain no write to the routing structures (so concurrent SERVING
    is read-only), and no package of the repository registers from inside a
    handler or a goroutine.  All theorems above are about a structure that is
    completely registered before it serves. *)
Theorem C20_scope_register_then_serve : gen_serving_writes = [] /\ gen_late_registrations = [].
Proof. exact gen_scope_register_then_serve. Qed.
Print Assumptions C20_scope_register_then_serve.

(** * Non-vacuity *)

Definition sA : str := [97].            (* "a" *)
Definition sAB : str := [97; 98].       (* "ab" *)
Definition sABC : str := [97; 98; 99].  (* "abc" *)
Definition sAC : str := [97; 99].       (* "ac" *)
Definition sABD : str := [97; 98; 100]. (* "abd" *)

(** Insertions that exercise all four branches of [add] (new child, exact
    node, node above, split), a duplicate and the empty string. *)
Example ex_radix :
  exists t, build [sABC; sAB; sAC; sA; sAB; []] = Some (t, [true; true; true; true; false; false]) /\
    trie_find t sABD = (sAB, false) /\ trie_find t sAC = (sAC, true) /\ wf [] t /\
    In sAB (contents t).
Proof.
  destruct (radix_find_longest [sABC; sAB; sAC; sA; sAB; []]) as (t & bs & E & Hb & F).
  exists t. split; [rewrite E, Hb; reflexivity|]. split; [rewrite F; reflexivity|].
  split; [rewrite F; reflexivity|].
  destruct (add_all_correct [sABC; sAB; sAC; sA; sAB; []] root [] wf_root) as (t' & bs' & E' & W & _ & C).
  { intros w. simpl. intuition congruence. }
  unfold build in E. rewrite E in E'. injection E' as <- <-. split; auto.
  apply C. simpl. auto.
Qed.

Example ex_mux :
  let ops := [OpPrefix sAB 1; OpPrefix sA 2; OpExact sABC 3; OpPrefix sAB 4; OpDir [47; 100; 47] 5] in
  exists m, mux_run new_mux ops = Some (m, [true; true; true; false; true]) /\
    mux_route m sABC = Some 3 /\ mux_route m sABD = Some 1 /\ mux_route m sAC = Some 2 /\
    mux_route m [47; 100] = Some 5 /\ mux_route m [47; 100; 47; 120] = Some 5 /\
    mux_route m [98] = None.
Proof. eexists. vm_compute. repeat split; reflexivity. Qed.

(** "/a" is a directory, "/a/b" a GET-only file. *)
Definition ex_router_ops : list router_op :=
  [ ROAdd [97; 47; 98] (Some 2) false [71; 69; 84]; ROAdd [47; 97; 47] (Some 1) true [];
    ROAdd [47; 47; 97] (Some 3) true []; ROAdd [] (Some 4) true []; RODefault (Some 9);
    ROAdd [99] None false []; ROIndex None ].

Example ex_router :
  let r := fst (router_run new_router ex_router_ops) in
  let get := [71; 69; 84] in
  snd (router_run new_router ex_router_ops) =
    [Some true; Some true; Some false; None; Some true; None; Some true] /\
  (* /a/b: the file, complete match *)
  (exists c', router_serve r (new_ctx [47; 97; 47; 98] get) = ONode 2 c' /\ rel c' = []) /\
  (* /a/b/ and /a/b/c: longest match is the file, not complete: default, not the directory /a *)
  (exists c', router_serve r (new_ctx [47; 97; 47; 98; 47] get) = ODefault 9 c') /\
  (exists c', router_serve r (new_ctx [47; 97; 47; 98; 47; 99] get) = ODefault 9 c') /\
  (* /a//c/d: the directory, with the remainder c/d *)
  (exists c', router_serve r (new_ctx [47; 97; 47; 47; 99; 47; 100] get) = ONode 1 c' /\
              rel c' = [99; 47; 100]) /\
  router_serve r (new_ctx [47; 97; 47; 98] [80]) = OBadMethod.
Proof. vm_compute. repeat split; eexists; split; reflexivity || reflexivity. Qed.

(** A signed-in non-admin: the user tier does run (the theorem is not
    vacuous), the admin tier does not. *)
Definition ex_sset (u : str) (l : Z) : sset :=
  SSet (Some (fun c => (c, HMiss), fun c => (Ident u l (i_path c), 0)))
       (Some (fun c => (c, HMiss))) (Some (fun c => (c, HMiss)))
       (Some (fun c => (c, HMiss))) (Some (fun c => (c, HRet 0))) None None.

Example ex_tiers_user :
  fst (serve (ex_sset [117] 0%Z) (Ident [] 0%Z [47])) =
    [ EServe TAuth (Ident [] 0 [47]); ESetup (Ident [] 0 [47]); EServe TResource (Ident [117] 0 [47]);
      EServe TGuest (Ident [117] 0 [47]); EServe TUser (Ident [117] 0 [47]) ] /\
  snd (serve (ex_sset [117] 0%Z) (Ident [] 0%Z [47])) = FMiss.
Proof. vm_compute. split; reflexivity. Qed.

Example ex_tiers_admin :
  In (EServe TAdmin (Ident [117] 1 [47])) (fst (serve (ex_sset [117] 1%Z) (Ident [] 0%Z [47]))) /\
  ~ In (EServe TUser (Ident [] 0 [47])) (fst (serve (ex_sset [] 0%Z) (Ident [] 0%Z [47]))).
Proof. vm_compute. split; [tauto | intuition discriminate]. Qed.

Example ex_internal :
  first_gated (fst (serve_internal (ex_sset [117] 1%Z) (Ident [] 0%Z [47; 120])))
    = Some (EServe TGuest (Ident [117] 1 [47; 120])) /\
  serve_internal (ex_sset [117] 0%Z) (Ident [] 0%Z [47; 120]) =
    ([EServe TAuth (Ident [] 0 [47; 120]); ESetup (Ident [] 0 [47; 120]);
      EServe TResource (Ident [117] 0 [47; 120]); ERedirect], FRet 0) /\
  snd (serve_internal (ex_sset [117] 0%Z) (Ident [] 0%Z [47])) = FNeedSignIn.
Proof. vm_compute. repeat split; reflexivity. Qed.

Example ex_host :
  host_serve (host_build [([104], 1); ([105], 2); ([104], 3)]) [104] = Some 3 /\
  host_serve (host_build [([104], 1)]) [72] = None.
Proof. vm_compute. split; reflexivity. Qed.

(** Round 2 examples. "GET /a%2Fb//c/": the escaped slash separates. *)
Example ex_entry_escape :
  http_parse (RawReq [71; 69; 84] [47; 97; 37; 50; 70; 98; 47; 47; 99; 47] (Some [104]) true)
    = HReq [47; 97; 47; 98; 47; 47; 99; 47] [104] /\
  segs [47; 97; 47; 98; 47; 47; 99; 47] = [[97]; [98]; [99]] /\
  path_is_dir [47; 97; 47; 98; 47; 47; 99; 47] = true.
Proof. vm_compute. repeat split; reflexivity. Qed.

(** A malformed escape, a missing Host on 1.1, "OPTIONS *", "CONNECT h:1",
    absolute-form: the handler is not reached / sees the absolute host. *)
Example ex_entry_forms :
  http_parse (RawReq [71; 69; 84] [47; 37; 122] (Some [104]) true) = HBad /\
  http_parse (RawReq [71; 69; 84] [47] None true) = HBad /\
  http_parse (RawReq [71; 69; 84] [47] None false) = HReq [47] [] /\
  http_parse (RawReq m_options [42] (Some [104]) true) = HOptionsStar /\
  http_parse (RawReq [71; 69; 84] [42] (Some [104]) true) = HReq [42] [104] /\
  http_parse (RawReq m_connect [104; 58; 49] (Some [120]) true) = HReq [] [104; 58; 49] /\
  http_parse (RawReq [71; 69; 84] (http_scheme ++ [104; 58; 49; 47; 97]) (Some [120]) true) = HReq [47; 97] [104; 58; 49].
Proof. vm_compute. repeat split; reflexivity. Qed.

(** An admin, handlers that keep the context: all three tiers run, each
    seeing the admin (the frame theorem is not vacuous). *)
Example ex_internal_all :
  frame_ok (ex_sset [117] 1%Z) /\
  fst (serve_internal (ex_sset [117] 1%Z) (Ident [] 0%Z [47; 120])) =
    [ EServe TAuth (Ident [] 0 [47; 120]); ESetup (Ident [] 0 [47; 120]);
      EServe TResource (Ident [117] 1 [47; 120]); EServe TGuest (Ident [117] 1 [47; 120]);
      EServe TUser (Ident [117] 1 [47; 120]); EServe TAdmin (Ident [117] 1 [47; 120]) ].
Proof.
  split; [|vm_compute; reflexivity].
  split; intros h [= <-]; apply keeps_preserves; intros c; reflexivity.
Qed.

(** * Round 3: one context through several routers (the tiers of a ServiceSet) *)

(** [Router.Serve] as regenerated from /repo: when it answers Miss, the
    routing position of the context is the one it was handed. *)
Theorem C20_router_miss_restores_context : forall le fuel rs i c,
  is_miss (fst (serve_ctx gen_dispatch_cond gen_method_reject le gen_router_wrap fuel rs i c)) = true ->
  snd (serve_ctx gen_dispatch_cond gen_method_reject le gen_router_wrap fuel rs i c) = c.
Proof. rewrite gen_router_wrap_ok. exact (serve_ctx_miss_restores gen_dispatch_cond gen_method_reject). Qed.
Print Assumptions C20_router_miss_restores_context.

(** Routers tried one after the other on the SAME context until one does
    not miss (directly, or as Auth / Resource / Guest / User / Admin of a
    ServiceSet): the leaves that ran and the final answer are those obtained
    when every router routes the request's own path, independently of the
    routers tried before it. *)
Theorem C20_router_sequence_routes_own_path : forall le fuel rs is c,
  let '(hs, f, _) := serve_seq gen_dispatch_cond gen_method_reject le gen_router_wrap fuel rs is c in
  (hs, f) = seq_ref gen_dispatch_cond gen_method_reject le fuel rs is c.
Proof. exact gen_serve_seq_is_ref. Qed.
Print Assumptions C20_router_sequence_routes_own_path.

(** Each leaf that ran is the one a single router of the sequence selects
    for the request's own context (to which [C20_router_serve_spec] applies). *)
Theorem C20_router_sequence_hits : forall le fuel rs is c t rl,
  In (t, rl) (fst (seq_ref gen_dispatch_cond gen_method_reject le fuel rs is c)) ->
  exists i, In i is /\ hit_of (nested gen_dispatch_cond gen_method_reject le fuel rs i c) = [(t, rl)].
Proof. exact (seq_ref_hits gen_dispatch_cond gen_method_reject). Qed.
Print Assumptions C20_router_sequence_hits.

(** The wrapper does not change what one [Serve] call answers. *)
Theorem C20_router_wrapper_same_answer : forall le fuel rs i c,
  fst (serve_ctx gen_dispatch_cond gen_method_reject le gen_router_wrap fuel rs i c)
  = nested gen_dispatch_cond gen_method_reject le fuel rs i c.
Proof.
  intros. apply serve_ctx_result. rewrite gen_router_wrap_ok. discriminate.
Qed.
Print Assumptions C20_router_wrapper_same_answer.

(** The code before the fix (no wrapper): GET /a/b, router 0 with the file
    "a", router 1 with the file "b" - the handler of "b" runs; the reference
    (and the deployed code) answer Miss without running anything. *)
Theorem C20_router_sequence_legacy_refuted :
  serve_seq dispatch_cond method_reject [] RWPlain 8 ex_rs [0; 1]%nat ex_ctx = ([(2%Z, [])], 0, []) /\
  seq_ref dispatch_cond method_reject [] 8 ex_rs [0; 1]%nat ex_ctx = ([], 1).
Proof. exact legacy_seq_refuted. Qed.
Print Assumptions C20_router_sequence_legacy_refuted.

Example ex_seq_deployed :
  serve_seq dispatch_cond method_reject [] RWRestoreOnMiss 8 ex_rs [0; 1]%nat ex_ctx
  = ([], 1, s_a ++ slash :: s_b).
Proof. exact deployed_seq_example. Qed.

(** A sequence in which the second router does serve: /b. *)
Example ex_seq_second_serves :
  serve_seq dispatch_cond method_reject [] RWRestoreOnMiss 8 ex_rs [0; 1]%nat (new_ctx (slash :: s_b) s_get)
  = ([(2%Z, [])], 0, []).
Proof. vm_compute. reflexivity. Qed.

(** * Round 3 (seeded change C20-g): handlers may write to what the context hands them *)

(** Every exported accessor of [C] with a slice or map result (read off the
    source by the translator) returns a freshly allocated value. *)
Theorem C20_ctx_accessors_fresh :
  forallb (fun na => acc_freshb (snd na)) gen_ctx_accessors = true.
Proof. exact gen_ctx_accessors_fresh. Qed.
Print Assumptions C20_ctx_accessors_fresh.

(** Hence: WHATEVER the handlers write to the RelRoute they were handed
    ([lw] arbitrary) and however far they shift the route before returning
    ([lsh] arbitrary), routers tried in a row on one context run the same
    leaves and give the same answer as with handlers that write nothing -
    dispatch stays a function of the request's own path. *)
Theorem C20_handler_writes_cannot_redirect : forall le lw lsh fuel rs is c,
  serve_seq_w gen_dispatch_cond gen_method_reject le (acc_of relroute_name gen_ctx_accessors) lw lsh RestoreEntry
              gen_router_wrap fuel rs is c
  = seq_ref gen_dispatch_cond gen_method_reject le fuel rs is c.
Proof.
  intros. rewrite gen_relroute_fresh, gen_router_wrap_ok. apply serve_seq_w_fresh.
Qed.
Print Assumptions C20_handler_writes_cannot_redirect.

(** An accessor that hands out the context's own slice: GET /docs/secret,
    the handler of the directory "docs" overwrites what it was handed with
    "index" and misses; the next router then runs the handler of
    "docs/index".  With the copy it answers Miss. *)
Theorem C20_alias_accessor_refuted :
  serve_seq_w dispatch_cond method_reject [(1, 1)] AccAlias ex_lw no_shift RestoreEntry RWRestoreOnMiss 8 ex_rs_w [0; 1]%nat ex_ctx_w
    = ([(1%Z, s_secret); (2%Z, [])], 0) /\
  serve_seq_w dispatch_cond method_reject [(1, 1)] AccFresh ex_lw no_shift RestoreEntry RWRestoreOnMiss 8 ex_rs_w [0; 1]%nat ex_ctx_w
    = ([(1%Z, s_secret)], 1).
Proof. exact alias_accessor_refuted. Qed.
Print Assumptions C20_alias_accessor_refuted.

(** * Round 3 (seeded change C20-i): Miss restores the position the router was ENTERED with *)

(** One [Serve] call with handlers that write and shift: same answer as
    without, and on Miss the context is exactly the one handed in - the
    handler's own [ShiftRoute] included. *)
Theorem C20_router_miss_restores_entry_position : forall le lw lsh fuel rs i c,
  fst (serve_ctx_w gen_dispatch_cond gen_method_reject le AccFresh lw lsh RestoreEntry RWRestoreOnMiss fuel rs i c)
    = nested gen_dispatch_cond gen_method_reject le fuel rs i c /\
  (is_miss (fst (serve_ctx_w gen_dispatch_cond gen_method_reject le AccFresh lw lsh RestoreEntry RWRestoreOnMiss fuel rs i c)) = true ->
   snd (serve_ctx_w gen_dispatch_cond gen_method_reject le AccFresh lw lsh RestoreEntry RWRestoreOnMiss fuel rs i c) = c).
Proof.
  intros. split; [apply serve_ctx_w_result | apply serve_ctx_w_miss_restores].
Qed.
Print Assumptions C20_router_miss_restores_entry_position.

(** Undoing only the router's own shift: GET /u/settings, the handler of
    the directory "u" shifts by one and declines, the next router runs the
    handler of "settings". *)
Theorem C20_undo_own_shift_refuted :
  serve_seq_w dispatch_cond method_reject [(1, 1)] AccFresh (fun _ => None) ex_lsh UndoOwnShift RWRestoreOnMiss 8
              ex_rs_sh [0; 1]%nat ex_ctx_sh
    = ([(1%Z, s_settings); (2%Z, [])], 0) /\
  serve_seq_w dispatch_cond method_reject [(1, 1)] AccFresh (fun _ => None) ex_lsh RestoreEntry RWRestoreOnMiss 8
              ex_rs_sh [0; 1]%nat ex_ctx_sh
    = ([(1%Z, s_settings)], 1).
Proof. exact undo_own_shift_refuted. Qed.
Print Assumptions C20_undo_own_shift_refuted.

(** * Round 3 (seeded change C20-l): depth is unbounded *)

Theorem C20_no_depth_bound_in_source : gen_aries_int_literals = [].
Proof. exact gen_aries_no_depth_bound. Qed.
Print Assumptions C20_no_depth_bound_in_source.

(** [C20_router_serve_spec] holds for routes and paths of any depth; at depth
    40: the file /a/a/.../a (40 segments) is served for exactly that path,
    and a request one segment longer misses. *)
Definition deep_path (n : nat) : str := concat (repeat (slash :: s_a) n).
Example ex_depth_40 :
  nested dispatch_cond method_reject [] 8 [CtxSeqProofs.ex_router (deep_path 40) 1] 0 (new_ctx (deep_path 40) s_get) = (1%Z, [], 0) /\
  nested dispatch_cond method_reject [] 8 [CtxSeqProofs.ex_router (deep_path 40) 1] 0 (new_ctx (deep_path 41) s_get) = ((-1)%Z, [], 1) /\
  length (c_routes (new_ctx (deep_path 41) s_get)) = 41%nat.
Proof. vm_compute. repeat split; reflexivity. Qed.
