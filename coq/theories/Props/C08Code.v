(** C08 — lexing: the code itself (semantic tie).  Property theorems only:
    each is closed by a lemma of Jsonx/CodeRefine.v, which proves that
    package lexing's [ErrorList.Add] and its lexer functions
    ([lexLineComment], [lexBlockComment], [LexRawString], [LexIdent],
    [LexNumber], [lexEscape] / [LexString]) as gen/gotrans.go translates them
    on every run (Gen/CodeLexing.v: every Go loop a Fixpoint on explicit fuel
    over the state of the abstract lexer, [x.Next()] after the end of input
    the Go panic) observe, on ALL inputs, what the token-level functions of
    the model Jsonx/Lex.v compute: literal, errors in order, remaining runes,
    panic site — and never run out of fuel.  Kept apart from Props/C08.v so
    that a failing refinement lemma does not take the model-level theorems
    down with it. *)
From Coq Require Import String.
From Coq Require Import List NArith ZArith Bool.
From Verif Require Import Lib.GoLib Jsonx.Lex Jsonx.Parse Gen.CodeLexing Jsonx.CodeCands Jsonx.CodeRefine.
Import ListNotations.
Local Open Scope Z_scope.

(** * ErrorList.Add (error_list.go): receiver fields as state *)

Theorem C08_code_ErrorList_Add_is_model : forall (errs : list go_err) (jail : bool) (e : go_err),
  gen_lexing_ErrorList_Add errs 20 jail false e =
  GoOk (if Nat.ltb (List.length errs) max_errs then errs ++ [e] else errs, true)%list.
Proof. exact gen_ErrorList_Add_is_model. Qed.
Print Assumptions C08_code_ErrorList_Add_is_model.

Theorem C08_code_add_is_p_add : forall (f : ecode -> go_err) (e : ecode) (st : pstate),
  gen_lexing_ErrorList_Add (map f (perrs st)) 20 (jail st) false (f e)
  = GoOk (map f (perrs (p_add e st)), jail (p_add e st)).
Proof. exact code_add_is_p_add. Qed.
Print Assumptions C08_code_add_is_p_add.

(** Whatever the cap and however full the list: a call that returns has set
    the jail flag (and a full list is left as it is). *)
Theorem C08_code_add_sets_jail_even_at_cap : forall (errs : list go_err) (max : Z) (jail : bool) (e : go_err),
  exists errs', gen_lexing_ErrorList_Add errs max jail false e = GoOk (errs', true) /\
                (go_len errs >= max -> errs' = errs).
Proof. exact code_add_sets_jail_even_at_cap. Qed.
Print Assumptions C08_code_add_sets_jail_even_at_cap.

(** * The lexer functions *)

Theorem C08_code_lexLineComment_is_model : forall s : list N,
  obs_of_gen (gen_lexing_lexLineComment (zs s) [47] []) = obs_of_model ty_code (lex_line_comment s).
Proof. exact gen_lexLineComment_is_model. Qed.
Print Assumptions C08_code_lexLineComment_is_model.

Theorem C08_code_lexBlockComment_is_model : forall s : list N,
  obs_of_gen (gen_lexing_lexBlockComment (zs s) [47] []) = obs_of_model ty_code (lex_block_comment s).
Proof. exact gen_lexBlockComment_is_model. Qed.
Print Assumptions C08_code_lexBlockComment_is_model.

Theorem C08_code_LexRawString_is_model : forall (s : list N) (t : Z),
  obs_of_gen (gen_lexing_LexRawString (zs s) [] [] t) = obs_of_model (fun _ => t) (lex_raw_string s).
Proof. exact gen_LexRawString_is_model. Qed.
Print Assumptions C08_code_LexRawString_is_model.

Theorem C08_code_LexIdent_is_model : forall (s : list N) (t : Z),
  obs_of_gen (gen_lexing_LexIdent (zs s) [] [] t) = obs_of_model (fun _ => t) (lex_ident s).
Proof. exact gen_LexIdent_is_model. Qed.
Print Assumptions C08_code_LexIdent_is_model.

Theorem C08_code_LexNumber_is_model : forall (s : list N) (ti tf : Z),
  obs_of_gen (gen_lexing_LexNumber (zs s) [] [] ti tf) =
  obs_of_model (fun t => match t with TFloat => tf | _ => ti end) (lex_number s).
Proof. exact gen_LexNumber_is_model. Qed.
Print Assumptions C08_code_LexNumber_is_model.

(** [LexString] for the double quote (with [lexEscape] translated and called
    through the lexer state); the character-literal check of the single quote
    is not in the model. *)
Theorem C08_code_LexString_is_model : forall (s : list N) (t : Z),
  obs_of_gen (gen_lexing_LexString (zs s) [] [] t 34) = obs_of_model (fun _ => t) (lex_string 34 s).
Proof. exact gen_LexString_is_model. Qed.
Print Assumptions C08_code_LexString_is_model.

(** * Property theorems read over the code *)

(** No generated lexer runs out of fuel or panics when entered on the rune
    its caller has seen: truncated or malformed input cannot hang or crash them. *)
Theorem C08_code_lexers_total : forall (s : list N) (t ti tf : Z),
  is_tok (obs_of_gen (gen_lexing_lexLineComment (zs (47%N :: s)) [47] [])) /\
  is_tok (obs_of_gen (gen_lexing_lexBlockComment (zs (42%N :: s)) [47] [])) /\
  is_tok (obs_of_gen (gen_lexing_LexRawString (zs (96%N :: s)) [] [] t)) /\
  is_tok (obs_of_gen (gen_lexing_LexString (zs (34%N :: s)) [] [] t 34)) /\
  (forall c, is_digit c = true -> is_tok (obs_of_gen (gen_lexing_LexNumber (zs (c :: s)) [] [] ti tf))) /\
  (forall c, is_ident_letter c = true -> is_tok (obs_of_gen (gen_lexing_LexIdent (zs (c :: s)) [] [] t))).
Proof. exact code_lexers_total. Qed.
Print Assumptions C08_code_lexers_total.

Theorem C08_code_unterminated_comment_reported : forall body,
  (forall l', fst (fst (block_go false body)) <> l' ++ [47%N])%list ->
  obs_errs (obs_of_gen (gen_lexing_lexBlockComment (zs (42%N :: body)) [47] [])) <> [].
Proof. exact code_unterminated_comment_reported. Qed.
Print Assumptions C08_code_unterminated_comment_reported.

Theorem C08_code_unterminated_string_reported : forall body t,
  (forall l', fst (fst (str_go 34 SNormal body)) <> l' ++ [34%N])%list ->
  obs_errs (obs_of_gen (gen_lexing_LexString (zs (34%N :: body)) [] [] t 34)) <> [].
Proof. exact code_unterminated_string_reported. Qed.
Print Assumptions C08_code_unterminated_string_reported.

(** Non-vacuity: "/*/" is not a closed comment, "/**/" is; "1e+" is a float
    with nothing after the sign. *)
Example C08_code_lexing_example :
  obs_of_gen (gen_lexing_lexBlockComment [42; 47] [47] []) = OTok (-2) [47; 42; 47] [EUnexpectedEOF] [] /\
  obs_of_gen (gen_lexing_lexBlockComment [42; 42; 47; 49] [47] []) = OTok (-2) [47; 42; 42; 47] [] [49] /\
  obs_of_gen (gen_lexing_LexNumber [49; 101; 43; 120] [] [] 12 13) = OTok 13 [49; 101; 43] [] [120] /\
  obs_of_gen (gen_lexing_LexString [34; 92; 120; 52; 34] [] [] 11 34) = OTok 11 [34; 92; 120; 52; 34] [EIllegalEscChar] [] /\
  gen_lexing_ErrorList_Add (repeat (GoErr "" "") 20) 20 false false (GoErr "c" "m") = GoOk (repeat (GoErr "" "") 20, true).
Proof. vm_compute. repeat split. Qed.
