(** C08 — jsonx/lexing: parsing terminates on every input, with a value or an
    error.  Property theorems only; each is closed by a lemma of
    Jsonx/LexProofs.v, ParseProofs.v, Term.v, TermLegacy.v or ConstsGen.v.
    [pf] is strconv.ParseFloat on a float token and [ff] json.Marshal of a
    float64: arbitrary functions, so the theorems hold whatever they return. *)
From Coq Require Import List NArith ZArith Bool String Sorted.
From Verif Require Import Lib.Utf8 Jsonx.Lex Jsonx.Tok Jsonx.GoStr Jsonx.Parse Jsonx.Json
  Jsonx.Encode Jsonx.Script Jsonx.LexProofs Jsonx.ParseProofs Jsonx.Term Jsonx.Balance Jsonx.Seen Jsonx.ScriptProofs
  Jsonx.Trunc Jsonx.Pos Jsonx.TermLegacy
  Jsonx.GenTypes Gen.JsonxConsts Jsonx.ConstsGen.
Import ListNotations.
Local Open Scope N_scope.

(** The lexers: every rune list (hence, after Go's UTF-8 decoding, every byte
    string) yields a finite token list, with no panic and within the fuel. *)
Theorem C08_jsonx_lexer_total : forall input : list N,
  exists toks, jsonx_raw_tokens input = Ok toks.
Proof. exact jsonx_raw_tokens_total. Qed.
Print Assumptions C08_jsonx_lexer_total.

Theorem C08_shell_lexer_total : forall input : list N,
  exists toks, shell_raw_tokens input = Ok toks.
Proof. exact shell_raw_tokens_total. Qed.
Print Assumptions C08_shell_lexer_total.

(** Each token is a non-empty piece of the input and nothing is skipped but
    white space. *)
Theorem C08_tokens_spell_input : forall input toks,
  jsonx_raw_tokens input = Ok toks -> spelled is_white toks input.
Proof. exact (fun input => lex_all_spelled lex_jsonx is_white lex_jsonx_takes _ input). Qed.
Print Assumptions C08_tokens_spell_input.

(** Positions.  The (line, column) a token carries - and with it every
    lexing error found in that token - is the position of its first rune in
    the input text: line 1 + the number of line feeds before it, column in
    runes from 1 after the last line feed ([adv_all start_pos pre] for the
    text [pre] before the token); positions grow strictly from token to
    token. *)
Theorem C08_token_positions : forall input toks,
  jsonx_raw_tokens input = Ok toks ->
  let ps := tok_positions is_white start_pos toks input in
  Forall2 (fun te p => exists pre rest, input = pre ++ tlit (fst te) ++ rest /\ p = adv_all start_pos pre)
          toks ps /\ Sorted pos_lt ps.
Proof. exact jsonx_token_positions. Qed.
Print Assumptions C08_token_positions.

Example C08_positions_example :
  match jsonx_raw_tokens [123; 10; 32; 97; 58; 233; 32; 49; 10; 125] with
  | Ok raw => tok_positions is_white start_pos raw [123; 10; 32; 97; 58; 233; 32; 49; 10; 125]
  | _ => []
  end = [(1, 1); (1, 2); (2, 2); (2, 3); (2, 4); (2, 6); (2, 7); (3, 1)]%N.
Proof. vm_compute. reflexivity. Qed.

(** The parser: fuel [2 * tokens + 8] is never exhausted, whatever the token
    stream (parseValue, and parseSeries with its SkipErrStmt recovery). *)
Theorem C08_parse_value_fuel_suffices : forall (F : Type) (pf : list N -> option F) st,
  exists v st', parse_value pf (parse_fuel st) st = Some (v, st').
Proof. exact (fun F pf => parse_value_fuel_suffices pf). Qed.
Print Assumptions C08_parse_value_fuel_suffices.

Theorem C08_parse_series_fuel_suffices : forall (F : Type) (pf : list N -> option F) st acc,
  exists es st', parse_series pf (parse_fuel st) st acc = Some (es, st') /\ p_see TEOF st' = true.
Proof. exact (fun F pf st acc => parse_series_ok pf (parse_fuel st) st acc (parse_fuel_enough st)). Qed.
Print Assumptions C08_parse_series_fuel_suffices.

(** The entry points, on every input: they return ([Ok], neither [Panic] nor
    [OutOfFuel]), with a value and no error, or no value and an error. *)
Theorem C08_to_json_total : forall (F : Type) (pf : list N -> option F) (ff : F -> list N) input,
  exists r, to_json pf ff input = Ok r /\ value_or_error r.
Proof. exact (fun F pf ff => to_json_total pf ff). Qed.
Print Assumptions C08_to_json_total.

Theorem C08_unmarshal_total : forall (F : Type) (pf : list N -> option F) (ff : F -> list N) input,
  exists r, unmarshal pf ff input = Ok r.
Proof. exact (fun F pf ff => unmarshal_total pf ff). Qed.
Print Assumptions C08_unmarshal_total.

Theorem C08_decode_series_total :
  forall (F : Type) (pf : list N -> option F) (ff : F -> list N) tm input,
  exists r, decode_series pf ff tm input = Ok r /\ value_or_error r.
Proof. exact (fun F pf ff => decode_series_total pf ff). Qed.
Print Assumptions C08_decode_series_total.

(** A Decoder used for several values: each Decode call returns (a value, or
    errors); a call that returns a value has consumed at least one token, so
    the loop "for dec.More() { dec.Decode(..) }" ends on every input - with
    More() false or with the first error. *)
Theorem C08_decode_step_total :
  forall (F : Type) (pf : list N -> option F) (ff : F -> list N) st,
  exists r, decode_step pf ff st = Some r.
Proof. exact (fun F pf ff => decode_step_total pf ff). Qed.
Print Assumptions C08_decode_step_total.

Theorem C08_decode_step_progress :
  forall (F : Type) (pf : list N -> option F) (ff : F -> list N) st t st',
  good st -> decode_step pf ff st = Some (DOk t, st') ->
  good st' /\ (msr st' < msr st)%nat.
Proof.
  exact (fun F pf ff st t st' Hg H =>
    conj (good_reach _ _ (decode_step_reach pf ff _ _ _ H) Hg) (decode_step_progress pf ff st t st' Hg H)).
Qed.
Print Assumptions C08_decode_step_progress.

Theorem C08_decode_stream_total :
  forall (F : Type) (pf : list N -> option F) (ff : F -> list N) input,
  exists r, decode_all pf ff input = Ok r.
Proof. exact (fun F pf ff => decode_all_total pf ff). Qed.
Print Assumptions C08_decode_stream_total.

(** ONE Decoder driven by ANY sequence of calls - More, Decode and
    DecodeSeries in any order and any number of times, also after calls that
    returned errors: every call returns (no panic, fuel never exhausted);
    every Decode hands the caller a value, or between 1 and 20 errors; every
    DecodeSeries a result without errors, or no result and between 1 and 20
    errors. *)
Theorem C08_decoder_any_call_sequence :
  forall (F : Type) (pf : list N -> option F) (ff : F -> list N) tm input ops,
  exists l, script pf ff tm input ops = Ok l /\ List.length l = List.length ops /\ Forall sres_seen l.
Proof. exact (fun F pf ff => script_total_seen pf ff). Qed.
Print Assumptions C08_decoder_any_call_sequence.

(** ... and a Decoder is not usable after a parse error: once the calls
    [ops1] have led to a state in which Parser.Errs() is not empty (a Decode
    returned the parser's errors, or a DecodeSeries failed on them), every
    later Decode returns errors and every later DecodeSeries fails - nothing
    in the Decoder ever empties an error list, and the lexer's list only
    grows. *)
Theorem C08_decoder_errors_sticky :
  forall (F : Type) (pf : list N -> option F) (ff : F -> list N) tm input ops1 ops2 raw l1 st1 l2 st2,
  jsonx_raw_tokens input = Ok raw ->
  run_script pf ff tm (p_init (parser_stream raw)) ops1 = Some (l1, st1) ->
  p_errs st1 <> [] ->
  run_script pf ff tm st1 ops2 = Some (l2, st2) ->
  script pf ff tm input (ops1 ++ ops2) = Ok (l1 ++ l2)%list /\ Forall sres_failed l2.
Proof. exact (fun F pf ff => script_errors_sticky pf ff). Qed.
Print Assumptions C08_decoder_errors_sticky.

(** DecodeSeries as the first call on a new Decoder is the entry point of the
    theorems above and below. *)
Theorem C08_series_on_new_decoder :
  forall (F : Type) (pf : list N -> option F) (ff : F -> list N) tm s,
  decode_series_stream pf ff tm s = option_map fst (decode_series_from pf ff tm (p_init s)).
Proof. exact (fun F pf ff => decode_series_stream_from pf ff). Qed.
Print Assumptions C08_series_on_new_decoder.

Theorem C08_shell_parse_total : forall input,
  exists r, shell_parse input = Ok r /\ value_or_error r.
Proof. exact shell_parse_total. Qed.
Print Assumptions C08_shell_parse_total.

(** Truncated input: a string, raw string or block comment that is not
    closed carries a lexing error ... *)
Theorem C08_unterminated_string_reported : forall q body,
  (forall l', fst (fst (str_go q SNormal body)) <> l' ++ [q]) ->
  snd (str_go q SNormal body) <> [].
Proof. exact unterminated_string_reported. Qed.
Print Assumptions C08_unterminated_string_reported.

Theorem C08_unterminated_raw_string_reported : forall body,
  (forall l', fst (fst (raw_go body)) <> l' ++ [96]) -> snd (raw_go body) <> [].
Proof. exact unterminated_raw_string_reported. Qed.
Print Assumptions C08_unterminated_raw_string_reported.

Theorem C08_unterminated_comment_reported : forall body,
  (forall l', fst (fst (block_go false body)) <> l' ++ [47]) ->
  snd (block_go false body) <> [].
Proof. exact unterminated_comment_reported. Qed.
Print Assumptions C08_unterminated_comment_reported.

(** ... and an input with a lexing error in ANY token, wherever it is, is
    accepted neither by Unmarshal nor by DecodeSeries. *)
Theorem C08_lex_error_rejected_unmarshal :
  forall (F : Type) (pf : list N -> option F) (ff : F -> list N) input raw t e txt,
  jsonx_raw_tokens input = Ok raw -> In (t, e) raw -> e <> [] ->
  unmarshal pf ff input <> Ok (UOk txt).
Proof. exact (fun F pf ff => lex_error_rejected_unmarshal pf ff). Qed.
Print Assumptions C08_lex_error_rejected_unmarshal.

Theorem C08_lex_error_rejected_series :
  forall (F : Type) (pf : list N -> option F) (ff : F -> list N) tm input raw t e res,
  jsonx_raw_tokens input = Ok raw -> In (t, e) raw -> e <> [] ->
  decode_series pf ff tm input <> Ok (Some res, []).
Proof. exact (fun F pf ff => lex_error_rejected_series pf ff). Qed.
Print Assumptions C08_lex_error_rejected_series.

(** End to end, read off the tokens of the whole input: a string token whose
    literal does not end with its closing quote, a raw string token that does
    not end with its back quote, a block comment that does not end with "*/"
    - which is what an input cut inside such a construct ends with - makes
    Unmarshal and DecodeSeries fail. *)
Theorem C08_truncated_rejected_unmarshal :
  forall (F : Type) (pf : list N -> option F) (ff : F -> list N) input raw t e txt,
  jsonx_raw_tokens input = Ok raw -> In (t, e) raw ->
  (tty t = TString /\ exists l, tlit t = 34 :: l /\ forall l', l <> l' ++ [34]) \/
  (tty t = TString /\ exists l, tlit t = 96 :: l /\ forall l', l <> l' ++ [96]) \/
  (tty t = TComment /\ exists l, tlit t = 47 :: 42 :: l /\ forall l', l <> l' ++ [47]) ->
  unmarshal pf ff input <> Ok (UOk txt).
Proof. exact (fun F pf ff => truncated_rejected_unmarshal pf ff). Qed.
Print Assumptions C08_truncated_rejected_unmarshal.

Theorem C08_truncated_rejected_series :
  forall (F : Type) (pf : list N -> option F) (ff : F -> list N) tm input raw t e res,
  jsonx_raw_tokens input = Ok raw -> In (t, e) raw ->
  (tty t = TString /\ exists l, tlit t = 34 :: l /\ forall l', l <> l' ++ [34]) \/
  (tty t = TString /\ exists l, tlit t = 96 :: l /\ forall l', l <> l' ++ [96]) \/
  (tty t = TComment /\ exists l, tlit t = 47 :: 42 :: l /\ forall l', l <> l' ++ [47]) ->
  decode_series pf ff tm input <> Ok (Some res, []).
Proof. exact (fun F pf ff => truncated_rejected_series pf ff). Qed.
Print Assumptions C08_truncated_rejected_series.

(** strtoken.Parse: a lexing error in any token - an unterminated quote in
    particular - makes the call fail with at least one error. *)
Theorem C08_shell_lex_error_rejected : forall input raw t e,
  shell_raw_tokens input = Ok raw -> In (t, e) raw -> e <> [] ->
  exists e0 es, shell_parse input = Ok (None, e0 :: es).
Proof. exact shell_lex_error_rejected. Qed.
Print Assumptions C08_shell_lex_error_rejected.

Theorem C08_shell_unterminated_quote_rejected : forall input raw t e l,
  shell_raw_tokens input = Ok raw -> In (t, e) raw ->
  tty t = TString -> tlit t = 34 :: l -> (forall l', l <> l' ++ [34]) ->
  exists e0 es, shell_parse input = Ok (None, e0 :: es).
Proof. exact shell_unterminated_quote_rejected. Qed.
Print Assumptions C08_shell_unterminated_quote_rejected.

(** For every BYTE string - Go's decoding (an undecodable byte is U+FFFD)
    comes first - every entry point returns: ToJSON, Unmarshal, DecodeSeries,
    one Decoder under any sequence of calls, strtoken.Parse. *)
Theorem C08_every_byte_string :
  forall (F : Type) (pf : list N -> option F) (ff : F -> list N) (bytes : list N) tm ops,
  (exists r, to_json pf ff (utf8_decode bytes) = Ok r /\ value_or_error r) /\
  (exists r, unmarshal pf ff (utf8_decode bytes) = Ok r) /\
  (exists r, decode_series pf ff tm (utf8_decode bytes) = Ok r /\ value_or_error r) /\
  (exists l, script pf ff tm (utf8_decode bytes) ops = Ok l /\ List.length l = List.length ops /\ Forall sres_seen l) /\
  (exists r, shell_parse (utf8_decode bytes) = Ok r /\ value_or_error r).
Proof. exact (fun F pf ff => every_byte_string pf ff). Qed.
Print Assumptions C08_every_byte_string.

(** ... and a document in which a bracket is left open (more "{" "[" than
    "}" "]" among the tokens the parser receives), or closed once too often,
    is accepted neither by Unmarshal nor by DecodeSeries. *)
Theorem C08_unbalanced_rejected_unmarshal :
  forall (F : Type) (pf : list N -> option F) (ff : F -> list N) input t,
  unmarshal pf ff input = Ok (UOk t) ->
  exists raw, jsonx_raw_tokens input = Ok raw /\ bal (sbody (parser_stream raw)) = 0%Z.
Proof. exact (fun F pf ff => unmarshal_ok_balanced pf ff). Qed.
Print Assumptions C08_unbalanced_rejected_unmarshal.

Theorem C08_unbalanced_rejected_series :
  forall (F : Type) (pf : list N -> option F) (ff : F -> list N) tm input res,
  decode_series pf ff tm input = Ok (Some res, []) ->
  exists raw, jsonx_raw_tokens input = Ok raw /\ bal (sbody (parser_stream raw)) = 0%Z.
Proof. exact (fun F pf ff => decode_series_ok_balanced pf ff). Qed.
Print Assumptions C08_unbalanced_rejected_series.

(** What the caller sees of the error handling, for every entry point and
    every input.  The list of errors returned is not empty and holds at most
    20 errors (the cap of lexing.ErrorList), however many errors the input
    has; a result comes with no error. *)
Theorem C08_to_json_caller_sees :
  forall (F : Type) (pf : list N -> option F) (ff : F -> list N) input r,
  to_json pf ff input = Ok r ->
  ((exists out, r = (Some out, [])) \/ (exists e es, r = (None, e :: es))) /\ (List.length (snd r) <= 20)%nat.
Proof. exact (fun F pf ff => to_json_seen pf ff). Qed.
Print Assumptions C08_to_json_caller_sees.

Theorem C08_decode_series_caller_sees :
  forall (F : Type) (pf : list N -> option F) (ff : F -> list N) tm input r,
  decode_series pf ff tm input = Ok r ->
  ((exists res, r = (Some res, [])) \/ (exists e es, r = (None, e :: es))) /\ (List.length (snd r) <= 20)%nat.
Proof. exact (fun F pf ff => decode_series_seen pf ff). Qed.
Print Assumptions C08_decode_series_caller_sees.

Theorem C08_decode_caller_sees :
  forall (F : Type) (pf : list N -> option F) (ff : F -> list N) input vs es,
  decode_all pf ff input = Ok (vs, Some (DErrs es)) -> es <> [] /\ (List.length es <= 20)%nat.
Proof. exact (fun F pf ff => decode_all_seen pf ff). Qed.
Print Assumptions C08_decode_caller_sees.

(** Unmarshal is one Decode, then More, then the look at the errors found
    while reading up to the end; it returns the first error of the list. *)
Theorem C08_unmarshal_is_one_decode :
  forall (F : Type) (pf : list N -> option F) (ff : F -> list N) s r,
  unmarshal_stream pf ff s = Some r ->
  exists d st', decode_step pf ff (p_init s) = Some (d, st') /\
    match d with
    | DErrs (e :: _) => r = UErr e
    | DErrs [] => False
    | DJsonErr t => r = UJsonErr t
    | DOk t => r = if more st' then UMore else
                   match p_errs st' with [] => UOk t | e :: _ => UErr e end
    end.
Proof. exact (fun F pf ff => unmarshal_is_decode_step pf ff). Qed.
Print Assumptions C08_unmarshal_is_one_decode.

(** strtoken.Parse: lexing errors are capped; the errors for strings that
    strconv.Unquote rejects are a plain slice, one per token at most. *)
Theorem C08_shell_parse_caller_sees : forall input r,
  shell_parse input = Ok r ->
  ((exists ss, r = (Some ss, [])) \/ (exists e es, r = (None, e :: es))) /\
  exists raw, shell_raw_tokens input = Ok raw /\
    (all_lex_errs raw <> [] -> snd r = all_lex_errs raw /\ (List.length (snd r) <= 20)%nat) /\
    (all_lex_errs raw = [] -> (List.length (snd r) <= List.length raw)%nat).
Proof. exact shell_parse_seen. Qed.
Print Assumptions C08_shell_parse_caller_sees.

(** Acceptance is impossible once any error was recorded: when an entry
    point returns a result, the parser state it ends in has an empty error
    list, the lexer's list is empty up to the token it stopped at, and no
    sequence of parser operations containing an ErrorList.Add leads to that
    state ([reach]: Next / Add / BailOut steps). *)
Theorem C08_to_json_accept_no_error_recorded :
  forall (F : Type) (pf : list N -> option F) (ff : F -> list N) s out errs,
  to_json_stream pf ff s = Some (Some out, errs) ->
  exists v st1, parse_value pf (parse_fuel (p_init s)) (p_init s) = Some (v, st1) /\
    p_errs st1 = [] /\ forall e st, ~ reach (p_add e st) st1.
Proof. exact (fun F pf ff => to_json_stream_accept_clean pf ff). Qed.
Print Assumptions C08_to_json_accept_no_error_recorded.

Theorem C08_decode_accept_no_error_recorded :
  forall (F : Type) (pf : list N -> option F) (ff : F -> list N) st t st',
  decode_step pf ff st = Some (DOk t, st') ->
  exists v st1, parse_value pf (parse_fuel st) st = Some (v, st1) /\
    p_errs st1 = [] /\ (forall e st0, ~ reach (p_add e st0) st1) /\
    perrs st' = [] /\ (forall e st0, ~ reach (p_add e st0) st').
Proof. exact (fun F pf ff => decode_step_accept_clean pf ff). Qed.
Print Assumptions C08_decode_accept_no_error_recorded.

Theorem C08_unmarshal_accept_no_error_recorded :
  forall (F : Type) (pf : list N -> option F) (ff : F -> list N) s t,
  unmarshal_stream pf ff s = Some (UOk t) ->
  exists st', decode_step pf ff (p_init s) = Some (DOk t, st') /\
    more st' = false /\ p_errs st' = [] /\ forall e st, ~ reach (p_add e st) st'.
Proof. exact (fun F pf ff => unmarshal_stream_accept_clean pf ff). Qed.
Print Assumptions C08_unmarshal_accept_no_error_recorded.

Theorem C08_decode_series_accept_no_error_recorded :
  forall (F : Type) (pf : list N -> option F) (ff : F -> list N) tm s res errs,
  decode_series_stream pf ff tm s = Some (Some res, errs) ->
  exists es st1, parse_series pf (parse_fuel (p_init s)) (p_init s) [] = Some (es, st1) /\
    p_errs st1 = [] /\ (forall e st, ~ reach (p_add e st) st1) /\
    fold_left (series_entry ff tm) es ([], []) = ([], res).
Proof. exact (fun F pf ff => decode_series_stream_accept_clean pf ff). Qed.
Print Assumptions C08_decode_series_accept_no_error_recorded.

(** The loop SkipErrStmt had before the repair cannot leave EOF with any
    amount of fuel (the hang of DecodeSeries("x {")). *)
Theorem C08_legacy_skip_refuted : forall fuel r c fin,
  ttype_eqb (pty c) TSemi = false ->
  forallb (fun t => negb (ttype_eqb (pty t) TSemi)) r = true ->
  legacy_skip_loop fuel c r fin = None.
Proof. exact legacy_skip_refuted. Qed.
Print Assumptions C08_legacy_skip_refuted.

(** The error list (at most 20 errors kept): a full list drops the error but
    the parser still enters error state, and that is what lets the recovery
    after a bad entry consume a token whatever the list holds ... *)
Theorem C08_full_error_list_still_jails : forall e st,
  (max_errs <= List.length (perrs st))%nat ->
  perrs (p_add e st) = perrs st /\ jail (p_add e st) = true.
Proof. exact p_add_full_drops. Qed.
Print Assumptions C08_full_error_list_still_jails.

Theorem C08_recovery_progress_any_error_count : forall e st,
  is_eof (cur st) = false -> (msr (snd (skip_err_stmt (p_add e st))) < msr st)%nat.
Proof. exact recovery_after_add_progress. Qed.
Print Assumptions C08_recovery_progress_any_error_count.

(** ... whereas an Add that returns for a full list BEFORE setting the flag
    makes the series loop spin on a bad entry, for every amount of fuel. *)
Theorem C08_capfirst_add_refuted : forall fuel st,
  (max_errs <= List.length (perrs st))%nat -> jail st = false ->
  p_see TEOF st = false -> pty (cur st) <> TString -> pty (cur st) <> TIdent ->
  series_badname_loop fuel st = None.
Proof. exact capfirst_add_spins. Qed.
Print Assumptions C08_capfirst_add_refuted.

(** The source read on this run has the loop condition, the error cap, the
    rune classes and the token tables the model is built on. *)
Theorem C08_source_agrees_with_model :
  skip_cond_ok gen_skip_cond = true /\
  gen_skip_body = ["p.Next()"%string] /\
  gen_max_errs = Some (N.of_nat max_errs) /\
  sets_jail_always gen_add_skeleton = true /\ capped_append gen_add_skeleton = true /\
  same_set (disjuncts gen_is_white) [GRuneIs 32; GRuneIs 9; GRuneIs 13] = true /\
  same_set (disjuncts gen_exp_sign_cond) (GCall "IsDigit" :: map GRuneIs exp_signs) = true.
Proof.
  exact (conj gen_skip_cond_terminates (conj gen_skip_body_agree (conj gen_max_errs_agree
        (conj gen_add_sets_jail_before_cap_return (conj gen_add_capped
        (conj gen_is_white_agree gen_exp_sign_agree)))))).
Qed.
Print Assumptions C08_source_agrees_with_model.

(** Non-vacuity. *)

(** "x {" — the input that never returned — now ends with errors. *)
Example C08_x_brace :
  decode_series (fun _ => @None N) (fun _ => []) (fun _ => Some (fun _ => true)) [120; 32; 123]
  = Ok (None, [EExpectObjectEntry]).
Proof. vm_compute. reflexivity. Qed.

(** An unterminated string: the hypothesis of the rejection theorem holds. *)
Example C08_unterminated_example :
  exists raw t e, jsonx_raw_tokens [123; 97; 58; 34; 97] = Ok raw /\ In (t, e) raw /\ e <> [] /\
  unmarshal (fun _ => @None N) (fun _ => []) [123; 97; 58; 34; 97] = Ok (UErr EUnexpectedEOF).
Proof.
  eexists _, _, _. split; [vm_compute; reflexivity|].
  split; [right; right; right; left; reflexivity|]. split; [discriminate|vm_compute; reflexivity].
Qed.

(** The five runes { a : double-quote x, an input cut inside a string: the
    last token is a string that does not end with a quote; the hypothesis of
    the end-to-end theorem holds. *)
Example C08_truncated_example :
  exists raw t e, jsonx_raw_tokens [123; 97; 58; 34; 120] = Ok raw /\ In (t, e) raw /\
    tty t = TString /\ tlit t = [34; 120] /\ (forall l', [120] <> l' ++ [34]).
Proof.
  eexists _, _, _. split; [vm_compute; reflexivity|].
  split; [right; right; right; left; reflexivity|]. repeat split.
  intros l' H. assert (Hl : List.last [120] 0 = List.last (l' ++ [34]) 0) by now rewrite <- H.
  rewrite last_last in Hl. discriminate.
Qed.

(** The comment that used to be dropped: "1;/*". *)
Example C08_trailing_comment_example :
  unmarshal (fun _ => @None N) (fun _ => []) [49; 59; 47; 42] = Ok (UErr EUnexpectedEOF).
Proof. vm_compute. reflexivity. Qed.

(** Three values from one Decoder, then More() is false; and a stream whose
    third value is cut. *)
Example C08_stream_example :
  decode_all (fun _ => @None N) (fun _ => []) [49; 32; 123; 97; 58; 49; 125; 10; 91; 93; 59]
  = Ok ([[49]; [123; 34; 97; 34; 58; 49; 125]; [91; 93]], None).
Proof. vm_compute. reflexivity. Qed.

Example C08_stream_cut_example :
  decode_all (fun _ => @None N) (fun _ => []) [49; 32; 123; 97; 58; 49; 125; 10; 91]
  = Ok ([[49]; [123; 34; 97; 34; 58; 49; 125]], Some (DErrs [EExpectOperand])).
Proof. vm_compute. reflexivity. Qed.

(** A typed series: the second entry's text is rejected by the strict
    decoding of its type, so the call fails with jsonx.marshalJSON. *)
Example C08_typed_series_example :
  decode_series (fun _ => @None N) (fun _ => [])
    (fun n => if list_N_eqb n [120] then Some (fun t => negb (list_N_eqb t [91; 49; 44; 50; 93])) else None)
    [120; 32; 123; 97; 58; 49; 125; 10; 120; 32; 91; 49; 44; 50; 93; 10]
  = Ok (None, [EMarshalJSON]).
Proof. vm_compute. reflexivity. Qed.

(** A series file that parses: fuel, values and no errors. *)
Example C08_series_example :
  decode_series (fun _ => @None N) (fun _ => []) (fun _ => Some (fun _ => true))
    [120; 32; 123; 97; 58; 49; 125; 10; 121; 32; 91; 49; 44; 50; 93; 10]
  = Ok (Some [([120], [123; 34; 97; 34; 58; 49; 125]); ([121], [91; 49; 44; 50; 93])], []).
Proof. vm_compute. reflexivity. Qed.

(** "{a:[1,2}" : balance 1, rejected. *)
Example C08_unbalanced_example :
  match jsonx_raw_tokens [123; 97; 58; 91; 49; 44; 50; 125] with
  | Ok raw => bal (sbody (parser_stream raw))
  | _ => 0%Z
  end = 1%Z /\
  unmarshal (fun _ => @None N) (fun _ => []) [123; 97; 58; 91; 49; 44; 50; 125]
  = Ok (UErr EExpectOp).
Proof. vm_compute. split; reflexivity. Qed.

(** One Decoder: a header value, then the series, then a Decode at the end of
    the input (errors), after which nothing succeeds any more. *)
Example C08_script_example :
  script (fun _ => @None N) (fun _ => []) (fun _ => Some (fun _ => true))
    [49; 10; 120; 32; 91; 50; 93; 10]                                   (* "1\nx [2]\n" *)
    [OpMore; OpDecode; OpSeries; OpMore; OpDecode; OpSeries]
  = Ok [RMore true; RDec (DOk [49]); RSer (Some [([120], [91; 50; 93])], []); RMore false;
        RDec (DErrs [EExpectOperand]); RSer (None, [EExpectOperand])].
Proof. vm_compute. reflexivity. Qed.

(** Twenty-one entries that do not start with a type name: 20 errors kept. *)
Fixpoint rep_list (n : nat) (l : list N) : list N :=
  match n with O => [] | S k => l ++ rep_list k l end.

Example C08_many_errors_example :
  match decode_series (fun _ => @None N) (fun _ => []) (fun _ => Some (fun _ => true))
          (rep_list 21 [49; 32; 123; 125; 10]) with       (* "1 {}\n" x 21 *)
  | Ok (None, errs) => List.length errs
  | _ => 0%nat
  end = 20%nat.
Proof. vm_compute. reflexivity. Qed.

Example C08_legacy_example :
  legacy_skip_loop 1000 (eof_tok []) [] [] = None.
Proof. apply legacy_skip_stuck_at_eof. Qed.
