(** C12 — caco3 names — the code itself (semantic tie).  Property theorems only: each is
    closed by a lemma of the area's CodeRefine.v, which proves that the Go
    function bodies as gen/gotrans.go translates them on every run
    (Gen/Code*.v) compute the hand-written model on ALL inputs, and restates
    property theorems of Props/C12.v directly over the generated definitions.
    Kept apart from Props/C12.v so that a failing refinement lemma does not
    take the model-level theorems down with it. *)
From Coq Require Import List NArith Bool String.
From Verif Require Import Lib.Path Lib.GoLib Caco.Names Caco.NamesProofs Gen.CodeCaco Caco.CodeCands Caco.CodeRefine.
Import ListNotations.
Local Open Scope N_scope.

(** ** The code itself (semantic tie)

    [gen_caco3_makeRelPath] / [gen_caco3_makePath] are the Go bodies of
    caco3/build_path.go as gen/gotrans.go translates them on every run
    (Gen/CodeCaco.v); they compute the model on ALL inputs, so the name
    theorems hold of the code as it is written now. *)
Theorem C12_code_makeRelPath_is_model : forall p f, gen_caco3_makeRelPath p f = make_rel_path p f.
Proof. exact gen_makeRelPath_is_model. Qed.
Print Assumptions C12_code_makeRelPath_is_model.

Theorem C12_code_makePath_is_model : forall p f, gen_caco3_makePath p f = make_path p f.
Proof. exact gen_makePath_is_model. Qed.
Print Assumptions C12_code_makePath_is_model.

Theorem C12_code_rel_name_exact : forall p f,
  gen_caco3_makeRelPath p f = join_slash (rsegs p ++ rsegs f) /\
  rel_segs (gen_caco3_makeRelPath p f) = rsegs p ++ rsegs f /\
  forallb goodb (rsegs p ++ rsegs f) = true.
Proof. exact code_rel_name_exact. Qed.
Print Assumptions C12_code_rel_name_exact.

(** No "..", "." or empty element, and inside the package [p]. *)
Theorem C12_code_rel_path_stays_inside : forall p f,
  clean_relb (gen_caco3_makeRelPath p f) = true /\
  (clean_relb p = true ->
   exists rest, rel_segs (gen_caco3_makeRelPath p f) = rel_segs p ++ rest /\ forallb goodb rest = true).
Proof. exact code_rel_path_stays_inside. Qed.
Print Assumptions C12_code_rel_path_stays_inside.

Theorem C12_code_any_name_exact : forall p f,
  gen_caco3_makePath p f
    = (if is_rooted f then join_slash (rsegs f) else join_slash (rsegs p ++ rsegs f)) /\
  clean_relb (gen_caco3_makePath p f) = true.
Proof. exact code_any_name_exact. Qed.
Print Assumptions C12_code_any_name_exact.

