(** C03 — sniproxy RPC: every call gets its own reply, at most once.
    Property theorems only; each is closed by a lemma of Sni/RpcProofs.v or
    Sni/RpcGen.v, instantiated with the constants regenerated from /repo
    (decodeAllocMax) and ids modulo 2^64 (uint64).  The model they speak about
    (Sni/Rpc.v) is the one the harness's histories are replayed on
    (Sni/RpcCorr.v). *)
From Coq Require Import List NArith ZArith Bool String Permutation.
From Verif Require Import Lib.Bytes Sni.Wire Sni.WireProofs Sni.WireGen Gen.WireSchema.
From Verif Require Import Sni.RpcCtx Sni.RpcCtxProofs Sni.RpcShut Sni.WireCaller.
From Verif Require Sni.WireCut.
From Verif Require Import Sni.SchedSkel Sni.Rpc Sni.RpcProofs Sni.RpcGen Sni.RpcFine Gen.TransportSkel.
Import ListNotations.
Local Open Scope N_scope.

Notation run := (Rpc.run gen_alloc_max two64).
Notation step := (Rpc.step gen_alloc_max two64).

Lemma two64_pos : 0 < two64.
Proof. reflexivity. Qed.

(** Any history in which every call object is handed to the transport once:
    each call completes at most once ... *)
Theorem C03_complete_at_most_once : forall tr,
  wf_trace tr -> NoDup (map fst (log (run tr))).
Proof. exact (complete_at_most_once gen_alloc_max two64). Qed.
Print Assumptions C03_complete_at_most_once.

(** ... and no [done()] ever runs twice (a "close of closed channel" panic). *)
Theorem C03_never_double_close : forall tr,
  wf_trace tr -> panicked (run tr) = false.
Proof. exact (never_double_close gen_alloc_max two64). Qed.
Print Assumptions C03_never_double_close.

(** A successful result is the decoded body of a frame that came after the
    call's request was written to the wire, carries the id the call was sent
    under and the call's own type, and a zero error byte.  In particular a
    call whose request was never sent cannot succeed, and no reply to another
    id can ever be delivered to it, whatever the order of replies. *)
Theorem C03_success_is_own_reply : forall tr k vs,
  In (k, ROk vs) (log (run tr)) -> own_reply gen_alloc_max two64 tr k vs.
Proof. exact (success_is_own_reply gen_alloc_max two64). Qed.
Print Assumptions C03_success_is_own_reply.

(** The id a call is sent under is the number of calls serve had taken
    before it, modulo 2^64. *)
Theorem C03_id_is_call_count : forall tr,
  running (run tr) = true -> next_id (run tr) = count_calls tr mod two64.
Proof. exact (next_id_counts gen_alloc_max gen_alloc_max_ok two64 two64_pos). Qed.
Print Assumptions C03_id_is_call_count.

(** Every frame other than one with a non-zero error byte or the reply to a
    shutdown call leaves serve running and touches at most the call it is
    addressed to: every other table entry and every other caller's status is
    unchanged, in every state. *)
Theorem C03_frame_local : forall s f,
  running s = true -> frame_fatal gen_alloc_max s f = false ->
  let s' := step s (EReply f) in
  running s' = true /\ next_id s' = next_id s /\ shut s' = shut s /\ sig s' = sig s /\
  (forall j, frame_id f <> Some j -> lookup j (pending s') = lookup j (pending s)) /\
  (forall k, addressee s f <> Some k -> status s' k = status s k) /\
  (forall k, addressee s f = Some k -> completed k s = false -> panicked s' = panicked s).
Proof. exact (nonfatal_frame_local gen_alloc_max two64). Qed.
Print Assumptions C03_frame_local.

(** Short frames, frames with an unknown or already-answered id, a
    mismatched type or a body that does not decode are all of that kind. *)
Theorem C03_bad_frame_nonfatal : forall s f,
  bad_frame gen_alloc_max s f -> frame_fatal gen_alloc_max s f = false.
Proof. exact (bad_frame_nonfatal gen_alloc_max). Qed.
Print Assumptions C03_bad_frame_nonfatal.

(** A reply cut short at any byte is such a bad frame; it is either ignored
    or fails exactly the call it answers with a decode error. *)
Theorem C03_truncated_reply : forall s id c sch vs f,
  lookup id (pending s) = Some c -> pc_sch c = Some sch ->
  id < two64 -> pc_typ c < 256 -> pc_typ c <> msg_shutdown_hint ->
  Forall2 wf_value sch vs ->
  strict_prefix f (reply_frame id (pc_typ c) 0 (enc_schema sch vs)) ->
  bad_frame gen_alloc_max s f /\
  (step s (EReply f) = s \/
   running s = true /\
   step s (EReply f) =
     complete (pc_caller c) (RErr (CDecode EEof))
       (set_pending (remove id (pending s)) s)).
Proof. exact (truncated_reply_is_bad gen_alloc_max gen_alloc_max_ok two64 two64_pos). Qed.
Print Assumptions C03_truncated_reply.

(** Once a frame addressed to an id has been handled, the id is unknown
    again: a duplicate reply finds nothing to complete. *)
Theorem C03_answered_id_forgotten : forall s f id typ d,
  running s = true -> parse_reply_header f = (HReply id typ, d) ->
  typ <> msg_shutdown_hint ->
  lookup id (pending (step s (EReply f))) = None.
Proof. exact (answered_id_forgotten gen_alloc_max two64). Qed.
Print Assumptions C03_answered_id_forgotten.

(** No input makes the reply decoder panic inside the reader. *)
Theorem C03_no_decode_panic : forall tr k,
  ~ In (k, RErr (CDecode EPanic)) (log (run tr)).
Proof. exact (no_decode_panic gen_alloc_max gen_alloc_max_ok two64). Qed.
Print Assumptions C03_no_decode_panic.

(** A call still in the table has not been completed. *)
Theorem C03_pending_not_completed : forall tr i c,
  wf_trace tr -> lookup i (pending (run tr)) = Some c ->
  status (run tr) (pc_caller c) = None.
Proof. exact (pending_not_completed gen_alloc_max two64). Qed.
Print Assumptions C03_pending_not_completed.

(** With a peer that answers the request -- at any later time, in any order
    relative to the other replies, with any other frames in between as long
    as serve keeps running and the id is not reused -- the call completes,
    with exactly the fields the peer encoded (extra trailing bytes are
    ignored). *)
Theorem C03_answered_call_completes : forall pre c mid vs extra post,
  let i := next_id (run pre) in
  let tr := pre ++ ECall c true :: mid ++
            EReply (reply_frame i (pc_typ c) 0 (reply_body c vs) ++ extra) :: post in
  wf_trace tr ->
  shut (run pre) = false ->
  running (run (pre ++ ECall c true :: mid)) = true ->
  Forall (fun e => targets i e = false) mid ->
  count_calls mid + 1 <= two64 ->
  two64 <= two64 -> pc_typ c < 256 -> pc_typ c <> msg_shutdown_hint ->
  reply_wf c vs ->
  status (run tr) (pc_caller c) = Some (ROk vs).
Proof. exact (answered_call_completes gen_alloc_max gen_alloc_max_ok two64 two64_pos). Qed.
Print Assumptions C03_answered_call_completes.

(** Any number of outstanding calls (none of them a shutdown), the peer
    answering each of them, the replies arriving in ANY order: every call
    completes with exactly the fields encoded for it. *)
Theorem C03_any_reply_order : forall cs vss frames,
  NoDup (map pc_caller cs) ->
  N.of_nat (List.length cs) <= two64 ->
  Forall ordinary cs -> Forall2 reply_wf cs vss ->
  Permutation frames (good_replies 0 cs vss) ->
  forall j c vs, nth_error cs j = Some c -> nth_error vss j = Some vs ->
  status (run (map (fun c => ECall c true) cs ++ map EReply frames)) (pc_caller c)
  = Some (ROk vs).
Proof.
  exact (any_reply_order gen_alloc_max gen_alloc_max_ok two64 two64_pos (N.le_refl two64)).
Qed.
Print Assumptions C03_any_reply_order.

(** The window between the send of a request and its recording in [pending]
    (Sni/RpcFine.v splits [ECall] and [EReply] accordingly): a fine-grained
    execution computes exactly the coarse model's state on its projected
    history ... *)
Theorem C03_fine_refines : forall tr s,
  fexec gen_alloc_max two64 finit tr = Some s ->
  coarse s = run (project None [] tr).
Proof. exact (fine_refines gen_alloc_max two64). Qed.
Print Assumptions C03_fine_refines.

(** ... and whenever serve looks a reply up, every call whose request has
    been written to the wire is already recorded: a fast peer's reply is
    never discarded as "unknown id" because it overtook the bookkeeping. *)
Theorem C03_reply_never_before_pending : forall tr s s',
  fexec gen_alloc_max two64 finit tr = Some s ->
  fstep gen_alloc_max two64 s FServe = Some s' ->
  forall k, In k (sent s) -> In k (stored s).
Proof. exact (reply_never_before_pending gen_alloc_max two64). Qed.
Print Assumptions C03_reply_never_before_pending.

(** The window is real (the reply can sit at the reader with its fetch
    request queued while the call is not yet recorded); it just cannot be
    serviced before the store, and then yields the coarse [ECall; EReply]. *)
Theorem C03_early_reply_waits : forall c f,
  exists s, fexec gen_alloc_max two64 finit [FSend c; FArrive f] = Some s /\
            fstep gen_alloc_max two64 s FServe = None /\
            exists s1 s2, fstep gen_alloc_max two64 s FStore = Some s1 /\
              fstep gen_alloc_max two64 s1 FServe = Some s2 /\
              coarse s2 = run [ECall c true; EReply f].
Proof. exact (early_reply_waits gen_alloc_max two64). Qed.
Print Assumptions C03_early_reply_waits.

(** ** Contexts that end (Sni/RpcCtx.v: the queue of calls explicit, "the
    caller gives up" an event that may come at any point of a call's life;
    what giving up does to the transport is read off the source) *)

(** The source now: [transport.call] and [asyncCall] return on ctx.Done()
    and do nothing else; only the reader asks serve to look a call up, under
    the id of the frame; only serve writes the id of an exchange. *)
Theorem C03_giveup_is_silent :
  gen_giveup_shape = GuSilent /\
  gen_ctx_done_arms = [ ("transport.asyncCall", ["0 return ctx.Err()"]);
                        ("transport.call", ["0 return ctx.Err()"]) ]%string /\
  gen_pendingFetch_makers = [("transport.handleMessage", "id")]%string /\
  gen_exchange_id_writers = [("transport.serve", "c.id = id")]%string.
Proof.
  exact (conj gen_giveup_silent (conj gen_ctx_done_arms_return_only
        (conj gen_fetch_only_by_reader gen_id_written_by_serve_only))).
Qed.
Print Assumptions C03_giveup_is_silent.

(** When the context of call A ends -- before its exchange is queued, in
    the queue, after serve has taken, sent and recorded it, after the peer
    has answered -- the transport does not change: no entry of the table of
    pending calls (A's own or any other call's), not the id counter, not
    the queue, not what any call has completed with. *)
Theorem C03_giveup_changes_nothing : forall s a,
  x_st (xstep gen_alloc_max two64 gen_giveup_shape s (XGiveUp a)) = x_st s /\
  x_queue (xstep gen_alloc_max two64 gen_giveup_shape s (XGiveUp a)) = x_queue s /\
  x_ids (xstep gen_alloc_max two64 gen_giveup_shape s (XGiveUp a)) = x_ids s.
Proof.
  exact (eq_ind_r (fun sh => forall s a,
           x_st (xstep gen_alloc_max two64 sh s (XGiveUp a)) = x_st s /\
           x_queue (xstep gen_alloc_max two64 sh s (XGiveUp a)) = x_queue s /\
           x_ids (xstep gen_alloc_max two64 sh s (XGiveUp a)) = x_ids s)
         (giveup_silent_transport_unchanged gen_alloc_max two64) gen_giveup_silent).
Qed.
Print Assumptions C03_giveup_changes_nothing.

(** Every other caller B gets back exactly what it got before ... *)
Theorem C03_giveup_local : forall s a b,
  a <> b -> xview (xstep gen_alloc_max two64 GuSilent s (XGiveUp a)) b = xview s b.
Proof. exact (giveup_silent_local gen_alloc_max two64). Qed.
Print Assumptions C03_giveup_local.

(** ... and A itself gets ctx.Err(), unless its call had completed already. *)
Theorem C03_giveup_own : forall s k,
  (status (x_st s) k = None -> xview (xstep gen_alloc_max two64 GuSilent s (XGiveUp k)) k = VCtx) /\
  (status (x_st s) k <> None -> xview (xstep gen_alloc_max two64 GuSilent s (XGiveUp k)) k = xview s k).
Proof. exact (giveup_silent_own gen_alloc_max two64). Qed.
Print Assumptions C03_giveup_own.

(** For every interleaving of enqueues, takes, replies, losses and give-ups
    the transport is in the state the model of Sni/Rpc.v computes on the
    history with the give-ups erased: every theorem above holds for
    histories in which contexts end anywhere. *)
Theorem C03_giveups_invisible : forall tr,
  x_st (xrun gen_alloc_max two64 GuSilent tr) = run (RpcCtx.project [] tr).
Proof. exact (silent_refines gen_alloc_max two64). Qed.
Print Assumptions C03_giveups_invisible.

(** The seeded change C03-e, kept as a counter-model: a give-up that asks
    serve to drop pending[ex.id] with ex.id read from the exchange.  A call
    whose context ends in the queue still carries id 0 and evicts the first
    call of the transport: the peer's reply to it is discarded, and nothing
    that happens afterwards completes it with a reply. *)
Theorem C03_giveup_stale_id_refuted :
  status (x_st (xrun gen_alloc_max two64 GuSilent eviction_history)) 10 = Some (ROk [VBytes [65]]) /\
  xview (xrun gen_alloc_max two64 GuSilent eviction_history) 11 = VCtx /\
  let s := xrun gen_alloc_max two64 GuFetchField eviction_history in
  status (x_st s) 10 = None /\ running (x_st s) = true /\ pending (x_st s) = [(1, ctx_hello 11)] /\
  forall tr, Forall (fun e => ~ enqueues 10 e) tr ->
    forall vs, status (x_st (xrun_from gen_alloc_max two64 GuFetchField s tr)) 10 <> Some (ROk vs).
Proof. exact fetch_field_refuted. Qed.
Print Assumptions C03_giveup_stale_id_refuted.

(** ** A call taken off the queue after the shutdown request (Sni/RpcShut.v) *)

(** serve completes it with errAlreadyShutdown, exactly then, and leaves the
    table of pending calls alone: the call is not recorded (so nothing can
    complete it a second time), nobody else's entry changes, the transport
    keeps running. *)
Theorem C03_rejected_call_local : forall s c ok,
  running s = true -> shut s = true -> completed (pc_caller c) s = false ->
  let s' := step s (ECall c ok) in
  pending s' = pending s /\ running s' = true /\ shut s' = true /\ panicked s' = panicked s /\
  log s' = (log s ++ [(pc_caller c, RErr CShutdown)])%list.
Proof. exact (rejected_call_local gen_alloc_max two64). Qed.
Print Assumptions C03_rejected_call_local.

(** In the source that is a matter of control flow: on the path serve takes
    with shutdownCalled set -- an unlabelled break resolved to the construct
    it leaves -- the call is completed once and neither tr.send nor the
    pending table occurs. *)
Theorem C03_rejected_call_not_sent : rejected_path_ok gen_rejected_call_path = true.
Proof. exact gen_rejected_call_not_sent. Qed.
Print Assumptions C03_rejected_call_not_sent.

(** The seeded change C03-g, kept as a counter-model: the break leaves only
    an inner switch, the rejected call is sent and recorded.  A call that
    reached the queue behind the shutdown request is completed twice when
    the transport winds down (a second close of its done channel: the process
    dies); the source as it is completes every call of that history once. *)
Theorem C03_rejected_call_fallthrough_refuted :
  rejected_path_ok seeded_rejected_path = false /\
  wf_trace behind_history /\
  panicked (run_ft gen_alloc_max two64 behind_history) = true /\
  panicked (run behind_history) = false /\
  log (run behind_history) = [(11, RErr CShutdown); (20, RErr CExit); (10, RErr CExit)].
Proof. exact fallthrough_refuted. Qed.
Print Assumptions C03_rejected_call_fallthrough_refuted.

(** ** Caller memory: a reply is decoded into the caller's buffer and nowhere else
    (Sni/WireCaller.v) *)

(** tunnel.Read(buf) hands buf to the reader goroutine as the decode target
    of the reply.  decoder.bytes decodes in place only when the length
    prefix is at most len(buf) -- the limit of the source: frozen codec source
    [gen_codec_src_frozen] and the code refinement of decoder.bytes (C13) --,
    so whatever the peer sends (a reply shorter than, as long as or longer
    than the buffer, also longer than len and within cap; truncated; any
    length prefix) nothing behind len(buf) in the caller's array changes: the
    reply to call A cannot reach the result of call B next to it. *)
Theorem C03_reply_decoder_writes_within_len : forall window behind d,
  skipn (List.length window) (caller_array_after (lenN window) window behind d) = behind.
Proof. exact reply_decoder_writes_within_len. Qed.
Print Assumptions C03_reply_decoder_writes_within_len.

(** The limit cap(buf) of the seeded change C03-h, kept as a counter-model: a
    well-formed reply of 4 bytes into a 2-byte window of capacity 5
    overwrites two bytes of what lies behind the window. *)
Theorem C03_reply_decoder_cap_limit_refuted :
  let window := [0; 0] in let behind := [9; 9; 9] in
  let reply_field := [4;0;0;0;0;0;0;0; 1; 2; 3; 4] in
  caller_array_after 5 window behind (init reply_field) = [1; 2; 3; 4; 9] /\
  skipn 2 (caller_array_after 5 window behind (init reply_field)) <> behind /\
  caller_array_after (lenN window) window behind (init reply_field) = [0; 0; 9; 9; 9].
Proof. exact reply_decoder_cap_limit_refuted. Qed.
Print Assumptions C03_reply_decoder_cap_limit_refuted.

(** ** How the bytes of a reply are cut does not matter (Sni/WireCut.v)

    The frame reader hands a frame out in pieces (websocket fragments, the
    network connection's reads).  With the header fetched by a full read --
    which is what the source does: handleMessage makes no read of its own on
    the frame reader, and every read of the decoder is a full read -- what
    happens to a frame (dropped as a small packet, or header and body handed
    on to look the call up, decode and complete it) is a function of the
    frame's bytes alone. *)
Theorem C03_delivery_independent_of_chunking :
  forall R (k : list N -> list N -> R) small (cs cs' : WireCut.chunks),
  List.concat cs = List.concat cs' ->
  WireCut.handle WireCut.read_full k small cs = WireCut.handle WireCut.read_full k small cs'.
Proof. exact WireCut.delivery_independent_of_chunking. Qed.
Print Assumptions C03_delivery_independent_of_chunking.

(** A frame with a complete header is never dropped as a small packet. *)
Theorem C03_complete_frame_not_dropped : forall R (k : list N -> list N -> R) small (cs : WireCut.chunks),
  (WireCut.header_len <= List.length (List.concat cs))%nat ->
  WireCut.handle WireCut.read_full k small cs
  = k (firstn WireCut.header_len (List.concat cs)) (skipn WireCut.header_len (List.concat cs)).
Proof. exact WireCut.complete_frame_not_dropped. Qed.
Print Assumptions C03_complete_frame_not_dropped.

Theorem C03_frame_reads_are_full :
  (gen_handleMessage_direct_reads = [] /\ gen_handleMessage_drains = ["io.Copy(io.Discard, r)"%string]) /\
  gen_decoder_reads =
    [ ("decoder.read", "io.ReadFull", "once");
      ("decoder.rest", "io.ReadAll", "once");
      ("decoder.bytes", "io.CopyN", "once");
      ("decoder.end", "d.r.Read", "in a loop until EOF or error") ]%string.
Proof. exact (conj gen_handleMessage_no_direct_reads gen_decoder_reads_full). Qed.
Print Assumptions C03_frame_reads_are_full.

(** The seeded change C03-j, kept as a counter-model: the header fetched
    with ONE Read.  The same reply is delivered when it comes in one piece
    and dropped -- the call never completes -- when its first fragment has
    nine bytes or the connection hands out seven bytes per read; the full
    read delivers it every time. *)
Theorem C03_single_read_header_refuted :
  let r := WireCut.reply_1 in
  let ok := Some (firstn 10 r, skipn 10 r) in
  WireCut.handle WireCut.read_once WireCut.delivered None [r] = ok /\
  WireCut.handle WireCut.read_once WireCut.delivered None [firstn 9 r; skipn 9 r] = None /\
  WireCut.handle WireCut.read_once WireCut.delivered None
    [firstn 7 r; firstn 7 (skipn 7 r); skipn 14 r] = None /\
  WireCut.handle WireCut.read_full WireCut.delivered None [firstn 9 r; skipn 9 r] = ok /\
  WireCut.handle WireCut.read_full WireCut.delivered None
    [firstn 7 r; firstn 7 (skipn 7 r); skipn 14 r] = ok.
Proof. exact WireCut.single_read_header_refuted. Qed.
Print Assumptions C03_single_read_header_refuted.

(** The tie to the source: the functions the model was written against have
    the frozen statement skeletons, [pending] is owned by [serve], the type
    codes are the ones the model uses. *)
Theorem C03_source_shape :
  (gen_pending_local_to_serve = true /\ gen_pending_refs = ["transport.serve"%string]) /\
  skel_is gen_transport_skel "transport.serve" frozen_serve = true /\
  skel_is gen_transport_skel "transport.handleMessage" frozen_handleMessage = true /\
  skel_is gen_transport_skel "transport.serveRead" frozen_serveRead = true /\
  skel_is gen_transport_skel "newCallExchange" frozen_newCallExchange = true /\
  skel_is gen_transport_skel "transport.send" frozen_send = true /\
  (assoc_str "msgShutdown" gen_msg_codes = Some msg_shutdown /\
   assoc_str "msgShutdownHint" gen_msg_codes = Some msg_shutdown_hint) /\
  no_hint_calls = true.
Proof.
  exact (conj gen_pending_owned_by_serve (conj gen_serve_frozen (conj gen_handleMessage_frozen
        (conj gen_serveRead_frozen (conj gen_newCallExchange_frozen (conj gen_send_frozen
        (conj gen_transport_codes gen_no_hint_calls))))))).
Qed.
Print Assumptions C03_source_shape.

(** * Non-vacuity *)

Local Open Scope string_scope.

Definition hello_sch : option schema := assoc_str "helloResponse" gen_schemas.
Definition hello (k : N) : pcall := mkCall k 1 hello_sch 0.
Definition hello_reply (id : N) (msg : bytes) : bytes :=
  reply_frame id 1 0 (enc_schema [KStr] [VBytes msg]).

(** Three concurrent calls, replies in reverse order, a duplicate, a frame
    for an id never issued, a mistyped frame and a truncated one in between:
    each caller gets its own payload; the mistyped frame drops call 3
    without completing it; the truncated one fails call 4 only. *)
Example C03_ex_out_of_order :
  let tr := [ ECall (hello 10) true; ECall (hello 11) true; ECall (hello 12) true;
              ECall (hello 13) true; ECall (hello 14) true;
              EReply (hello_reply 2 [99]); EReply (hello_reply 2 [98]);
              EReply (hello_reply 77 [97]);
              EReply (reply_frame 3 4 0 []);
              EReply (firstn 12 (hello_reply 4 [1;2;3]));
              EReply (hello_reply 1 [66]); EReply [1;2;3];
              EReply (hello_reply 0 [65]) ] in
  wf_trace tr /\
  log (run tr) =
    [ (12, ROk [VBytes [99]]); (14, RErr (CDecode EEof));
      (11, ROk [VBytes [66]]); (10, ROk [VBytes [65]]) ] /\
  pending (run tr) = [] /\ running (run tr) = true /\ panicked (run tr) = false.
Proof. vm_compute. repeat split; repeat constructor; cbn; intuition discriminate. Qed.

(** A failed write completes that call with an error (never with success)
    and fails what was pending; an error byte fails everything pending. *)
Example C03_ex_send_failure :
  log (run [ECall (hello 1) true; ECall (hello 2) false; ECall (hello 3) true])
  = [(2, RErr CSend); (1, RErr CExit)] /\
  log (run [ECall (hello 1) true; ECall (hello 2) true; EReply (reply_frame 0 1 2 [])])
  = [(2, RErr CExit); (1, RErr CExit)].
Proof. vm_compute. split; reflexivity. Qed.

(** Id wrap-around, shown with ids modulo 2: the third call takes id 0 again
    and the call that still held it completes with errTooLong, once. *)
Example C03_ex_wraparound :
  let r := Rpc.run gen_alloc_max 2
             [ECall (hello 1) true; ECall (hello 2) true; ECall (hello 3) true;
              EReply (hello_reply 0 [7])] in
  log r = [(1, RErr CTooLong); (3, ROk [VBytes [7]])] /\
  map fst (pending r) = [1].
Proof. vm_compute. split; reflexivity. Qed.

(** The hypotheses of [C03_answered_call_completes] hold on a concrete
    history (two other calls and a garbage frame between request and reply). *)
Example C03_ex_answered_hyps :
  let pre := [ECall (hello 1) true] in
  let c := hello 2 in
  let mid := [ECall (hello 3) true; EReply [0;0;0]; EReply (hello_reply 0 [5])] in
  shut (run pre) = false /\
  running (run (pre ++ ECall c true :: mid)) = true /\
  forallb (fun e => negb (targets (next_id (run pre)) e)) mid = true /\
  reply_wf c [VBytes [104; 105]] /\
  wf_traceb (pre ++ ECall c true :: mid ++
             [EReply (reply_frame 1 1 0 (reply_body c [VBytes [104;105]]))]) = true.
Proof.
  cbv zeta.
  split; [vm_compute; reflexivity|]. split; [vm_compute; reflexivity|].
  split; [vm_compute; reflexivity|]. split; [|vm_compute; reflexivity].
  unfold reply_wf. replace (pc_sch (hello 2)) with (Some [KStr]) by (vm_compute; reflexivity).
  constructor; [reflexivity|constructor].
Qed.

(** The hypotheses of [C03_any_reply_order] on three calls answered in the
    order 2, 0, 1. *)
Example C03_ex_reply_order_hyps :
  let cs := [hello 10; mkCall 11 4 (assoc_str "readResponse" gen_schemas) 16; hello 12] in
  let vss := [[VBytes [97]]; [VBytes [1;2;3]; VErr None]; [VBytes [99]]] in
  nodupb (map pc_caller cs) = true /\
  Forall ordinary cs /\
  Permutation [good_reply 2 (hello 12) [VBytes [99]]; good_reply 0 (hello 10) [VBytes [97]];
               good_reply 1 (mkCall 11 4 (assoc_str "readResponse" gen_schemas) 16) [VBytes [1;2;3]; VErr None]]
              (good_replies 0 cs vss).
Proof.
  cbv zeta. split; [vm_compute; reflexivity|]. split.
  - repeat constructor; try discriminate.
  - cbn [good_replies N.add]. eapply perm_trans; [apply perm_swap|].
    eapply perm_trans; [apply perm_skip, perm_swap|]. apply Permutation_refl.
Qed.

(** Contexts ending at every point of a call's life while the first call of
    the transport is held by the peer: issued with a finished context and
    never queued (12), finished context but queued and sent all the same
    (13), ended in the queue (14), ended while pending (15), ended after the
    answer (16: no effect).  Call 10 gets its own reply in the end. *)
Example C03_ex_contexts_end_everywhere :
  let tr := [ XEnqueue (ctx_hello 10); XTake true;
              XGiveUp 12;
              XEnqueue (ctx_hello 13); XGiveUp 13; XTake true;
              XEnqueue (ctx_hello 14); XGiveUp 14; XTake true;
              XEnqueue (ctx_hello 15); XTake true; XGiveUp 15;
              XEnqueue (ctx_hello 16); XTake true; XOther (EReply (ctx_hello_reply 4 [7])); XGiveUp 16;
              XOther (EReply (ctx_hello_reply 2 [9]));
              XOther (EReply (ctx_hello_reply 0 [65])) ] in
  let s := xrun gen_alloc_max two64 gen_giveup_shape tr in
  map (xview s) [10; 12; 13; 14; 15; 16] =
    [VResult (ROk [VBytes [65]]); VCtx; VCtx; VCtx; VCtx; VResult (ROk [VBytes [7]])] /\
  map fst (pending (x_st s)) = [3; 1] /\ panicked (x_st s) = false.
Proof. vm_compute. repeat split. Qed.
