(** C16 — placeholder while the pipeline is brought up. *)
From Coq Require Import List NArith ZArith Bool.
From Verif Require Import Lib.Bytes Lib.Codec Cred.Sign Cred.Jwt Cred.PassCode Cred.CredGen.
Import ListNotations.

Theorem C16_hex_canonical : forall s bs,
  hex_decode_canon s = Some bs <-> is_bytes bs /\ s = hex_encode bs.
Proof. exact hex_canon_iff. Qed.
Print Assumptions C16_hex_canonical.
