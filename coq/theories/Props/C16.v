(** C16 — credentials verify only when genuine, unexpired and unused.

    Property theorems only; each is closed by a lemma proved in
    Lib/Codec.v, Cred/SignProofs.v, Cred/JwtProofs.v, Cred/PassCodeProofs.v
    or Cred/CredGen.v.  The models are the ones the harness is compared with
    (Cred/CredCorr.v).

    HMAC-SHA256 is any function [mac] with 32-byte outputs; SHA-256, RSA
    verification, key parsing and the JSON parsers are arbitrary functions.
    Cryptographic idealisations appear only as named premises:
    [second_preimage_free mac k d] (no other data has the MAC of [d] under [k])
    and [no_forgery mac k issued bs] (the presented blob carries no valid MAC for
    a payload that was never signed).  Both are satisfiable together with the
    length law (see the Examples at the end). *)
From Coq Require Import List NArith ZArith Bool String Lia.
From Verif Require Import Lib.Bytes Lib.Codec Cred.Sign Cred.Jwt Cred.PassCode
  Cred.SignProofs Cred.JwtProofs Cred.PassCodeProofs Cred.UsageProofs Cred.Own Cred.OwnProofs Cred.CredGen Gen.CredConsts.
Import ListNotations.
Local Open Scope Z_scope.

Definition mac_len_law {K} (mac : K -> bytes -> bytes) : Prop :=
  forall k d, List.length (mac k d) = mac_size.
Definition mac_bytes_law {K} (mac : K -> bytes -> bytes) : Prop :=
  forall k d, is_bytes (mac k d).

(** * Encodings: only the canonical text decodes *)

Theorem C16_hex_canonical : forall s bs,
  hex_decode_canon s = Some bs <-> is_bytes bs /\ s = hex_encode bs.
Proof. exact hex_canon_iff. Qed.
Print Assumptions C16_hex_canonical.

(** What Go's case-insensitive decoder accepts in addition: the letter-case variants. *)
Theorem C16_hex_lenient_is_case_variants : forall s bs,
  hex_decode s = Some bs -> hex_encode bs = map lower s.
Proof. exact hex_decode_lower. Qed.
Print Assumptions C16_hex_lenient_is_case_variants.

Theorem C16_base64url_canonical : forall s bs,
  b64_decode_canon s = Some bs <-> is_bytes bs /\ s = b64_encode bs.
Proof. exact b64_canon_iff. Qed.
Print Assumptions C16_base64url_canonical.

(** * Signed blobs *)

Theorem C16_blob_verifies_iff : forall K (mac : K -> bytes -> bytes), mac_len_law mac ->
  forall k bs d, check mac k bs = Some d <-> bs = sign mac k d.
Proof. exact @check_iff. Qed.
Print Assumptions C16_blob_verifies_iff.

Theorem C16_blob_only_issued : forall K (mac : K -> bytes -> bytes) k issued bs d,
  no_forgery mac k issued bs -> check mac k bs = Some d ->
  In d issued /\ In bs (map (sign mac k) issued).
Proof. exact @only_issued_verify. Qed.
Print Assumptions C16_blob_only_issued.

(** Every blob other than the issued one, whatever the edit. *)
Theorem C16_blob_mutant_rejected : forall K (mac : K -> bytes -> bytes) k d bs,
  no_forgery mac k [d] bs -> bs <> sign mac k d -> check mac k bs = None.
Proof. exact @mutant_rejected. Qed.
Print Assumptions C16_blob_mutant_rejected.

(** Any one byte changed (so any bit flipped) anywhere in an issued blob. *)
Theorem C16_blob_byte_change_rejected : forall K (mac : K -> bytes -> bytes), mac_len_law mac ->
  forall k d i b,
  SignProofs.second_preimage_free mac k d ->
  (i < List.length (sign mac k d))%nat -> nth i (sign mac k d) 0%N <> b ->
  check mac k (upd i b (sign mac k d)) = None.
Proof. exact @byte_change_rejected. Qed.
Print Assumptions C16_blob_byte_change_rejected.

Theorem C16_blob_truncated_below_mac_rejected : forall K (mac : K -> bytes -> bytes), mac_len_law mac ->
  forall k bs, (List.length bs < mac_size)%nat -> check mac k bs = None.
Proof. exact @check_short. Qed.
Print Assumptions C16_blob_truncated_below_mac_rejected.

Theorem C16_blob_other_key : forall K (mac : K -> bytes -> bytes), mac_len_law mac ->
  forall k k' d, check mac k' (sign mac k d) = None <-> mac k' d <> mac k d.
Proof. exact @other_key_iff. Qed.
Print Assumptions C16_blob_other_key.

(** * Hex tokens *)

Theorem C16_hex_verifies_iff : forall K (mac : K -> bytes -> bytes),
  mac_len_law mac -> mac_bytes_law mac ->
  forall k s d, check_hex mac k s = Some d <-> is_bytes d /\ s = sign_hex mac k d.
Proof. exact @check_hex_iff. Qed.
Print Assumptions C16_hex_verifies_iff.

Theorem C16_hex_token_unique : forall K (mac : K -> bytes -> bytes),
  mac_len_law mac -> mac_bytes_law mac ->
  forall k s s' d, check_hex mac k s = Some d -> check_hex mac k s' = Some d -> s' = s.
Proof. exact @hex_token_unique. Qed.
Print Assumptions C16_hex_token_unique.

Theorem C16_hex_char_change_rejected : forall K (mac : K -> bytes -> bytes),
  mac_len_law mac -> mac_bytes_law mac ->
  forall k d i c,
  SignProofs.second_preimage_free mac k d -> is_bytes d ->
  (i < List.length (sign_hex mac k d))%nat -> nth i (sign_hex mac k d) 0%N <> c ->
  check_hex mac k (upd i c (sign_hex mac k d)) = None.
Proof. exact @hex_char_change_rejected. Qed.
Print Assumptions C16_hex_char_change_rejected.

Theorem C16_hex_only_issued : forall K (mac : K -> bytes -> bytes),
  mac_len_law mac -> mac_bytes_law mac ->
  forall k issued s d,
  (forall bs, hex_decode s = Some bs -> no_forgery mac k issued bs) ->
  check_hex mac k s = Some d -> In d issued /\ In s (map (sign_hex mac k) issued).
Proof. exact @hex_only_issued_verify. Qed.
Print Assumptions C16_hex_only_issued.

Theorem C16_hex_mutant_rejected : forall K (mac : K -> bytes -> bytes),
  mac_len_law mac -> mac_bytes_law mac ->
  forall k d s,
  (forall bs, hex_decode s = Some bs -> no_forgery mac k [d] bs) ->
  s <> sign_hex mac k d -> check_hex mac k s = None.
Proof. exact @hex_mutant_rejected. Qed.
Print Assumptions C16_hex_mutant_rejected.

(** * Sessions *)

Theorem C16_session_window : forall K (mac : K -> bytes -> bytes),
  mac_len_law mac -> mac_bytes_law mac ->
  forall k maxttl t0 ttl d now,
  is_bytes d -> is_int64 (t0 + eff_ttl maxttl ttl) ->
  let '(tok, e) := sess_new mac k maxttl t0 ttl d in
  e = t0 + eff_ttl maxttl ttl /\
  sess_check mac k now tok = if now <? e then Some (d, clamp_dur (e - now)) else None.
Proof. exact @session_window. Qed.
Print Assumptions C16_session_window.

Theorem C16_session_rejected_from_expiry : forall K (mac : K -> bytes -> bytes),
  mac_len_law mac -> mac_bytes_law mac ->
  forall k maxttl t0 ttl d now,
  is_bytes d -> is_int64 (t0 + eff_ttl maxttl ttl) ->
  t0 + eff_ttl maxttl ttl <= now ->
  sess_check mac k now (fst (sess_new mac k maxttl t0 ttl d)) = None.
Proof. exact @session_rejected_from_expiry. Qed.
Print Assumptions C16_session_rejected_from_expiry.

Theorem C16_session_ttl_capped : forall maxttl ttl,
  eff_ttl maxttl ttl <= maxttl /\
  (0 < maxttl -> 0 < eff_ttl maxttl ttl) /\
  (0 < ttl <= maxttl -> eff_ttl maxttl ttl = ttl).
Proof.
  exact (fun m t => conj (eff_ttl_capped m t) (conj (eff_ttl_positive m t) (eff_ttl_honoured m t))).
Qed.
Print Assumptions C16_session_ttl_capped.

Theorem C16_session_check_iff : forall K (mac : K -> bytes -> bytes),
  mac_len_law mac -> mac_bytes_law mac ->
  forall k now s d left,
  sess_check mac k now s = Some (d, left) <->
  exists e, is_int64 e /\ is_bytes d /\ s = sign_hex mac k (le64 (u64_of_int e) ++ d)
            /\ now < e /\ left = clamp_dur (e - now).
Proof. exact @sess_check_iff. Qed.
Print Assumptions C16_session_check_iff.

(** [Sessions.NeedRefresh] as the gate reports it. *)
Theorem C16_session_refresh_advice : forall K (mac : K -> bytes -> bytes),
  mac_len_law mac -> mac_bytes_law mac ->
  forall k maxttl t0 ttl d now,
  is_bytes d -> is_int64 (t0 + eff_ttl maxttl ttl) -> 0 < maxttl <= max_dur ->
  t0 <= now < t0 + eff_ttl maxttl ttl ->
  exists left,
    sess_check mac k now (fst (sess_new mac k maxttl t0 ttl d)) = Some (d, left) /\
    left = t0 + eff_ttl maxttl ttl - now /\
    (need_refresh maxttl left = true <-> t0 + eff_ttl maxttl ttl - now < maxttl / 5).
Proof. exact @session_refresh_advice. Qed.
Print Assumptions C16_session_refresh_advice.

(** * Signed challenges *)

Theorem C16_challenge_check_iff : forall K (mac : K -> bytes -> bytes), mac_len_law mac -> mac_bytes_law mac ->
  forall chal_time k w now bs,
  challenge_check mac chal_time k w now bs = None <->
  exists d, bs = sign mac k d /\ chal_instant chal_time d <= now <= chal_instant chal_time d + w.
Proof. exact @challenge_check_iff. Qed.
Print Assumptions C16_challenge_check_iff.

Theorem C16_challenge_only_issued : forall K (mac : K -> bytes -> bytes), mac_len_law mac -> mac_bytes_law mac ->
  forall chal_time k w now issued bs,
  no_forgery mac k issued bs -> challenge_check mac chal_time k w now bs = None ->
  exists d, In d issued /\ bs = sign mac k d /\
            chal_instant chal_time d <= now <= chal_instant chal_time d + w.
Proof. exact @challenge_only_issued. Qed.
Print Assumptions C16_challenge_only_issued.

Theorem C16_challenge_without_time_rejected : forall K (mac : K -> bytes -> bytes), mac_len_law mac -> mac_bytes_law mac ->
  forall chal_time k w now d,
  chal_time d = None -> is_int64 now -> is_int64 w ->
  challenge_check mac chal_time k w now (sign mac k d) <> None.
Proof. exact @challenge_without_time_rejected. Qed.
Print Assumptions C16_challenge_without_time_rejected.

(** * Time tokens *)

Theorem C16_time_token_open_window : forall K (mac : K -> bytes -> bytes),
  mac_len_law mac -> mac_bytes_law mac ->
  forall k w now t0, is_int64 t0 ->
  ts_check mac k w now (ts_token mac k t0) = true <-> now - Z.abs w < t0 < now + Z.abs w.
Proof. exact @time_token_open_window. Qed.
Print Assumptions C16_time_token_open_window.

Theorem C16_time_token_check_iff : forall K (mac : K -> bytes -> bytes),
  mac_len_law mac -> mac_bytes_law mac ->
  forall k w now s,
  ts_check mac k w now s = true <->
  exists t, is_int64 t /\ s = ts_token mac k t /\ now - Z.abs w < t < now + Z.abs w.
Proof. exact @ts_check_iff. Qed.
Print Assumptions C16_time_token_check_iff.

Theorem C16_rsa_time_block : forall PK (H : bytes -> bytes) (rsa_verify : PK -> bytes -> bytes -> bool)
  pk w now data hash sig,
  rsa_time_check H rsa_verify pk w now data hash sig = None <->
  (ts_len <= List.length data)%nat /\
  now - Z.abs w < int_of_u64 (de64 data) < now + Z.abs w /\
  H data = hash /\ rsa_verify pk hash sig = true.
Proof. exact @rsa_time_accept_iff. Qed.
Print Assumptions C16_rsa_time_block.

(** * JWT, shared secret (HS256) *)

Theorem C16_jwt_decode_iff : forall parse_header parse_claims tok t,
  decode parse_header parse_claims b64_decode_canon tok = JOk t <->
  exists hb cb,
    is_bytes hb /\ is_bytes cb /\ is_bytes (t_sig t) /\
    tok = jwt_text hb cb ++ dot :: b64_encode (t_sig t) /\
    parse_header hb = Some (t_header t) /\ parse_claims cb = Some (t_claims t) /\
    t_payload t = jwt_text hb cb.
Proof. exact decode_ok_iff. Qed.
Print Assumptions C16_jwt_decode_iff.

(** No second spelling: the signed text and the signature bytes a token
    decodes to determine its text (HS256 and RS256 alike). *)
Theorem C16_jwt_text_determined : forall parse_header parse_claims tok tok' t t',
  decode parse_header parse_claims b64_decode_canon tok = JOk t ->
  decode parse_header parse_claims b64_decode_canon tok' = JOk t' ->
  t_payload t = t_payload t' -> t_sig t = t_sig t' -> tok = tok'.
Proof. exact decode_injective. Qed.
Print Assumptions C16_jwt_text_determined.

Theorem C16_jwt_hs_verify_iff : forall K (mac : K -> bytes -> bytes) parse_header parse_claims,
  mac_bytes_law mac ->
  forall k pin now tok t,
  hs_verify mac parse_header parse_claims b64_decode_canon k pin now tok = JOk t <->
  exists hb cb,
    is_bytes hb /\ is_bytes cb /\
    tok = jwt_sign mac k hb cb /\
    parse_header hb = Some (t_header t) /\ check_header (t_header t) pin = None /\
    parse_claims cb = Some (t_claims t) /\ check_time (t_claims t) now = None /\
    t_payload t = jwt_text hb cb /\ t_sig t = mac k (jwt_text hb cb).
Proof. exact @hs_verify_iff. Qed.
Print Assumptions C16_jwt_hs_verify_iff.

(** Whatever JSON the header and claims segments hold. *)
Theorem C16_jwt_signed_bytes_and_parsed_semantics :
  forall K (mac : K -> bytes -> bytes) parse_header parse_claims, mac_bytes_law mac ->
  forall k pin now tok t,
  hs_verify mac parse_header parse_claims b64_decode_canon k pin now tok = JOk t ->
  exists hs cs hb cb,
    tok = hs ++ dot :: cs ++ dot :: b64_encode (mac k (hs ++ dot :: cs)) /\
    t_payload t = hs ++ dot :: cs /\ t_sig t = mac k (hs ++ dot :: cs) /\
    nosep dot hs /\ nosep dot cs /\
    b64_decode_canon hs = Some hb /\ parse_header hb = Some (t_header t) /\
    b64_decode_canon cs = Some cb /\ parse_claims cb = Some (t_claims t) /\
    check_header (t_header t) pin = None /\ check_time (t_claims t) now = None.
Proof. exact @hs_signed_bytes_and_parsed_semantics. Qed.
Print Assumptions C16_jwt_signed_bytes_and_parsed_semantics.

Theorem C16_jwt_hs_token_unique : forall K (mac : K -> bytes -> bytes) parse_header parse_claims,
  mac_bytes_law mac ->
  forall k pin now now' tok tok' t t',
  hs_verify mac parse_header parse_claims b64_decode_canon k pin now tok = JOk t ->
  hs_verify mac parse_header parse_claims b64_decode_canon k pin now' tok' = JOk t' ->
  t_payload t = t_payload t' -> tok = tok'.
Proof. exact @hs_token_unique. Qed.
Print Assumptions C16_jwt_hs_token_unique.

(** The issued first two segments with any other third segment (an appended
    line break, other unused bits, padding, ...). *)
Theorem C16_jwt_hs_other_signature_text_rejected :
  forall K (mac : K -> bytes -> bytes) parse_header parse_claims, mac_bytes_law mac ->
  forall k pin now now' p s s' t,
  nosep dot s -> nosep dot s' -> s' <> s ->
  hs_verify mac parse_header parse_claims b64_decode_canon k pin now (p ++ dot :: s) = JOk t ->
  is_err (hs_verify mac parse_header parse_claims b64_decode_canon k pin now' (p ++ dot :: s')).
Proof. exact @hs_other_signature_text_rejected. Qed.
Print Assumptions C16_jwt_hs_other_signature_text_rejected.

(** Every text other than the issued token, whatever the edit. *)
Theorem C16_jwt_hs_mutant_rejected :
  forall K (mac : K -> bytes -> bytes) parse_header parse_claims, mac_bytes_law mac ->
  forall k pin now p0 tok,
  jwt_no_forgery mac k [p0] tok -> tok <> p0 ++ dot :: b64_encode (mac k p0) ->
  is_err (hs_verify mac parse_header parse_claims b64_decode_canon k pin now tok).
Proof. exact @hs_mutant_rejected. Qed.
Print Assumptions C16_jwt_hs_mutant_rejected.

(** The issued signature under any other header/claims text. *)
Theorem C16_jwt_hs_other_payload_text_rejected :
  forall K (mac : K -> bytes -> bytes) parse_header parse_claims, mac_bytes_law mac ->
  forall k pin now now' tok tok' t t',
  JwtProofs.second_preimage_free mac k (t_payload t) ->
  hs_verify mac parse_header parse_claims b64_decode_canon k pin now tok = JOk t ->
  hs_verify mac parse_header parse_claims b64_decode_canon k pin now' tok' = JOk t' ->
  t_sig t' = t_sig t -> tok' = tok.
Proof. exact @hs_other_payload_text_rejected. Qed.
Print Assumptions C16_jwt_hs_other_payload_text_rejected.

Theorem C16_jwt_hs_other_key_rejected :
  forall K (mac : K -> bytes -> bytes) parse_header parse_claims, mac_bytes_law mac ->
  forall k k' pin now now' tok t,
  mac k' (t_payload t) <> mac k (t_payload t) ->
  hs_verify mac parse_header parse_claims b64_decode_canon k pin now tok = JOk t ->
  is_err (hs_verify mac parse_header parse_claims b64_decode_canon k' pin now' tok).
Proof. exact @hs_other_key_rejected. Qed.
Print Assumptions C16_jwt_hs_other_key_rejected.

(** * JWT time, claims, header *)

(** [check_time] models [time.Unix]'s int64 wrap and [Add]'s saturation
    explicitly; for claim times clear of the wrap ([unix_in_range]: |sec| <= 2^62,
    which every real token satisfies) it is the linear condition. *)
Theorem C16_jwt_time : forall c now,
  unix_in_range (c_iat c) -> unix_in_range (c_exp c) ->
  check_time c now = None <-> c_iat c * sec_ns - grace_ns < now <= c_exp c * sec_ns.
Proof. exact check_time_iff. Qed.
Print Assumptions C16_jwt_time.

Theorem C16_key_validity_window : forall M (k : @pubkey M) now,
  unix_in_range (pk_nvb k) -> unix_in_range (pk_nva k) ->
  key_valid k now = None <->
  (pk_nvb k <= 0 \/ pk_nvb k * sec_ns <= now) /\ now <= pk_nva k * sec_ns.
Proof. exact @key_valid_iff. Qed.
Print Assumptions C16_key_validity_window.

Theorem C16_jwt_claims_iff : forall c t,
  check_claims c t = None <->
  field_ok (c_iss t) (c_iss c) /\ field_ok (c_aud t) (c_aud c) /\ field_ok (c_typ t) (c_typ c) /\
  field_ok (c_sub t) (c_sub c) /\ scope_ok (c_scope t) (c_scope c).
Proof. exact check_claims_iff. Qed.
Print Assumptions C16_jwt_claims_iff.

Theorem C16_jwt_header_pinned : forall got want,
  check_header got want = None <->
  h_kid got = h_kid want /\ h_alg got = h_alg want /\ h_typ got = h_typ want.
Proof. exact check_header_iff. Qed.
Print Assumptions C16_jwt_header_pinned.

(** * JWT, identity key (RS256) *)

Theorem C16_rs256_key_checked :
  forall parse_header parse_claims M RK (parse_key : M -> option RK) rsa_verify
         (card : list (@pubkey M)) now tok t,
  rs_verify parse_header parse_claims b64_decode_canon parse_key rsa_verify card now tok = JOk t ->
  exists k rk pre post,
    decode parse_header parse_claims b64_decode_canon tok = JOk t /\
    h_alg (t_header t) = alg_rs256 /\
    card = pre ++ k :: post /\ Forall (fun k' => pk_id k' <> h_kid (t_header t)) pre /\
    pk_id k = h_kid (t_header t) /\ pk_type k = key_type_rsa /\
    key_valid k now = None /\
    parse_key (pk_mat k) = Some rk /\ rsa_verify rk (t_payload t) (t_sig t) = true /\
    check_time (t_claims t) now = None.
Proof. exact rs256_key_checked. Qed.
Print Assumptions C16_rs256_key_checked.

Theorem C16_rs256_unknown_key_rejected :
  forall parse_header parse_claims M RK (parse_key : M -> option RK) rsa_verify
         (card : list (@pubkey M)) now tok t,
  decode parse_header parse_claims b64_decode_canon tok = JOk t ->
  Forall (fun k' => pk_id k' <> h_kid (t_header t)) card ->
  is_err (rs_verify parse_header parse_claims b64_decode_canon parse_key rsa_verify card now tok).
Proof. exact rs256_unknown_key_rejected. Qed.
Print Assumptions C16_rs256_unknown_key_rejected.

(** In particular a token whose header has no key id (absent or empty) is
    rejected when no key is registered under the empty id: the lookup is exact,
    it never falls back to another key of the identity. *)
Theorem C16_rs256_empty_kid_rejected :
  forall parse_header parse_claims M RK (parse_key : M -> option RK) rsa_verify
         (card : list (@pubkey M)) now tok t,
  decode parse_header parse_claims b64_decode_canon tok = JOk t ->
  h_kid (t_header t) = [] ->
  Forall (fun k' => pk_id k' <> []) card ->
  is_err (rs_verify parse_header parse_claims b64_decode_canon parse_key rsa_verify card now tok).
Proof. exact rs256_empty_kid_rejected. Qed.
Print Assumptions C16_rs256_empty_kid_rejected.

Theorem C16_rs256_expired_key_rejected :
  forall parse_header parse_claims M RK (parse_key : M -> option RK) rsa_verify
         (card : list (@pubkey M)) now tok t k,
  decode parse_header parse_claims b64_decode_canon tok = JOk t ->
  find_key card (h_kid (t_header t)) = Some k ->
  unix_in_range (pk_nvb k) -> unix_in_range (pk_nva k) ->
  pk_nva k * sec_ns < now ->
  is_err (rs_verify parse_header parse_claims b64_decode_canon parse_key rsa_verify card now tok).
Proof.
  exact (fun ph pc M RK pk rv => @rs256_expired_key_rejected unit (fun _ _ => []) ph pc
           (fun _ _ => Forall_nil _) M RK pk rv).
Qed.
Print Assumptions C16_rs256_expired_key_rejected.

Theorem C16_self_token_sound :
  forall parse_header parse_claims M RK (parse_key : M -> option RK) rsa_verify
         (card : list (@pubkey M)) user host now tok t,
  self_verify parse_header parse_claims b64_decode_canon parse_key rsa_verify card user host now tok = JOk t ->
  rs_verify parse_header parse_claims b64_decode_canon parse_key rsa_verify card now tok = JOk t /\
  c_iss (t_claims t) = self_iss /\
  field_ok user (c_sub (t_claims t)) /\ field_ok host (c_aud (t_claims t)).
Proof. exact self_verify_sound. Qed.
Print Assumptions C16_self_token_sound.

(** * Signing side and token exchange *)

Theorem C16_core_sign_key_choice :
  forall M PM SK (parse_priv : PM -> option SK) (privs : list (bytes * PM)) (card : list (@pubkey M))
         req now id sk,
  core_pick parse_priv privs card req now = COk (id, sk) ->
  exists pm pub,
    In (id, pm) privs /\ parse_priv pm = Some sk /\
    (req = [] -> exists p0, (id, pm) = last privs p0) /\ (req <> [] -> id = req) /\
    find_key card id = Some pub /\ pk_type pub = key_type_rsa /\ key_valid pub now = None.
Proof. exact (fun M PM SK => @core_pick_sound M PM SK). Qed.
Print Assumptions C16_core_sign_key_choice.

(** The key chosen for signing at an instant passes all key checks of the
    verifier at that instant for the same card. *)
Theorem C16_core_sign_then_verifier :
  forall M RK (parse_key : M -> option RK) rsa_verify PM SK (parse_priv : PM -> option SK)
         (privs : list (bytes * PM)) (card : list (@pubkey M)) req now id sk t,
  core_pick parse_priv privs card req now = COk (id, sk) ->
  h_kid (t_header t) = id -> h_alg (t_header t) = alg_rs256 ->
  exists pub, find_key card id = Some pub /\
    rs_verifier parse_key rsa_verify card t now =
    match parse_key (pk_mat pub) with
    | None => Some EKeyParse
    | Some rk => if rsa_verify rk (t_payload t) (t_sig t) then None else Some EWrongSig
    end.
Proof. exact (fun M RK pk rv PM SK => @core_pick_then_verifier M RK pk rv PM SK). Qed.
Print Assumptions C16_core_sign_then_verifier.

Theorem C16_exchange_sound :
  forall parse_header parse_claims M RK (parse_key : M -> option RK) rsa_verify S (sess : Z -> bytes -> S)
         (card : list (@pubkey M)) issuer audience now tok user ttl s,
  exchange parse_header parse_claims b64_decode_canon parse_key rsa_verify sess
           card issuer audience now tok user ttl = inl s ->
  exists t,
    rs_verify parse_header parse_claims b64_decode_canon parse_key rsa_verify card now tok = JOk t /\
    field_ok issuer (c_iss (t_claims t)) /\ field_ok audience (c_aud (t_claims t)) /\
    field_ok user (c_sub (t_claims t)) /\ 0 < ttl /\ s = sess ttl user.
Proof. exact (fun ph pc M RK pk rv S => @exchange_sound ph pc M RK pk rv S). Qed.
Print Assumptions C16_exchange_sound.

(** * One-time passcodes *)

(** [short_history]: fewer than 2^63 events, so that the 64-bit attempt counter
    has not wrapped (see [C16_passcode_counter_and_window_edge_cases]). *)
Theorem C16_passcode_once_window_limit : forall expiry ops claim id t,
  let '(s, evs) := exec expiry init_state [] ops in
  short_history evs ->
  snd (step expiry s (PTry claim id t)) = 0%N -> accept_ok expiry evs claim t.
Proof. exact passcode_once_window_limit. Qed.
Print Assumptions C16_passcode_once_window_limit.

Theorem C16_passcode_reachable_accept : forall expiry s evs claim id t,
  reach expiry s evs -> short_history evs ->
  snd (step expiry s (PTry claim id t)) = 0%N -> accept_ok expiry evs claim t.
Proof. exact accepted_only_when_ok. Qed.
Print Assumptions C16_passcode_reachable_accept.

Theorem C16_passcode_rejected_after_ten_wrong : forall expiry s evs claim id t ti after,
  reach expiry s evs -> short_history evs -> since_issue evs = Some (ti, after) ->
  10 < Z.of_nat (List.length (filter counted after)) ->
  snd (step expiry s (PTry claim id t)) <> 0%N.
Proof. exact rejected_after_ten_wrong. Qed.
Print Assumptions C16_passcode_rejected_after_ten_wrong.

(** Concurrent callers: each operation is one KV Mutate, atomic by C06, so a
    concurrent execution is an interleaving ([merge]) of the callers' operations;
    the limit, the window and the single use hold for every interleaving (in
    particular for a re-issue racing with attempts). *)
Theorem C16_passcode_concurrent_callers : forall expiry (a b ops : list pop) claim id t,
  merge a b ops ->
  let '(s, evs) := exec expiry init_state [] ops in
  short_history evs ->
  snd (step expiry s (PTry claim id t)) = 0%N -> accept_ok expiry evs claim t.
Proof. exact concurrent_callers_atomic. Qed.
Print Assumptions C16_passcode_concurrent_callers.

(** A stored record that lacks its window (the code's nil Valid / Expire) never
    lets an attempt through. *)
Theorem C16_passcode_missing_window_never_accepted : forall claim c t,
  p_has_valid c = false \/ p_has_expire c = false -> checkPassCode claim (Some c) t <> 0%N.
Proof. exact missing_window_never_accepted. Qed.
Print Assumptions C16_passcode_missing_window_never_accepted.

(** What the correspondence runs ([run]) observes is the history the theorems speak about. *)
Theorem C16_passcode_run_is_exec : forall expiry ops s evs,
  snd (exec expiry s evs ops) = rev (combine ops (map fst (run expiry s ops))) ++ evs.
Proof. exact run_exec. Qed.
Print Assumptions C16_passcode_run_is_exec.

(** * Round 3: wrappers, "only what was issued" for every token kind, callers' parts, long-lived objects *)

(** [Sessions.CheckState] / [CheckJSON]: live sessions of their kind, nothing [Check] refuses. *)
Theorem C16_session_state_iff : forall K (mac : K -> bytes -> bytes),
  mac_len_law mac -> mac_bytes_law mac ->
  forall k now s,
  sess_check_state mac k now s = true <->
  exists e, is_int64 e /\ s = sign_hex mac k (le64 (u64_of_int e)) /\ now < e.
Proof. exact @sess_check_state_iff. Qed.
Print Assumptions C16_session_state_iff.

Theorem C16_session_state_window : forall K (mac : K -> bytes -> bytes),
  mac_len_law mac -> mac_bytes_law mac ->
  forall k maxttl t0 now, is_int64 (t0 + maxttl) ->
  sess_check_state mac k now (sess_new_state mac k maxttl t0) = (now <? t0 + maxttl).
Proof. exact @sess_state_window. Qed.
Print Assumptions C16_session_state_window.

Theorem C16_session_json_iff : forall K (mac : K -> bytes -> bytes),
  mac_len_law mac -> mac_bytes_law mac ->
  forall json_ok k now s,
  sess_check_json mac json_ok k now s = true <->
  exists e d, is_int64 e /\ is_bytes d /\ s = sign_hex mac k (le64 (u64_of_int e) ++ d) /\ now < e /\ json_ok d = true.
Proof. exact @sess_check_json_iff. Qed.
Print Assumptions C16_session_json_iff.

(** [authgate.Gate.CheckToken] with the caller's check callback. *)
Theorem C16_gate_valid_sound : forall K (mac : K -> bytes -> bytes),
  mac_len_law mac -> mac_bytes_law mac ->
  forall cb k maxttl now s i,
  gate_check_token mac cb k maxttl now s = Some i -> gi_valid i = true ->
  exists e lvl, is_int64 e /\ is_bytes (gi_user i) /\
    s = sign_hex mac k (le64 (u64_of_int e) ++ gi_user i) /\ now < e /\
    cb (gi_user i) = Some lvl /\ 0 <= lvl /\ gi_level i = lvl.
Proof. exact @gate_valid_sound. Qed.
Print Assumptions C16_gate_valid_sound.

Theorem C16_gate_refused_session_names_no_user : forall K (mac : K -> bytes -> bytes) k cb maxttl now s,
  sess_check mac k now s = None -> gate_check_token mac cb k maxttl now s = Some (mkGI false [] 0 false).
Proof. exact @gate_refused_session. Qed.
Print Assumptions C16_gate_refused_session_names_no_user.

Theorem C16_gate_callback_error_is_error : forall K (mac : K -> bytes -> bytes) cb k maxttl now s u left,
  sess_check mac k now s = Some (u, left) -> cb u = None -> gate_check_token mac cb k maxttl now s = None.
Proof. exact @gate_callback_error. Qed.
Print Assumptions C16_gate_callback_error_is_error.

Theorem C16_session_only_issued : forall K (mac : K -> bytes -> bytes),
  mac_len_law mac -> mac_bytes_law mac ->
  forall k issued now s d left,
  (forall bs, hex_decode s = Some bs -> no_forgery mac k issued bs) ->
  sess_check mac k now s = Some (d, left) ->
  exists e, is_int64 e /\ In (le64 (u64_of_int e) ++ d) issued /\
            s = sign_hex mac k (le64 (u64_of_int e) ++ d) /\ now < e.
Proof. exact @session_only_issued. Qed.
Print Assumptions C16_session_only_issued.

(** Every text other than the issued session, whatever the edit, at every instant, through every entry point. *)
Theorem C16_session_mutant_rejected : forall K (mac : K -> bytes -> bytes),
  mac_len_law mac -> mac_bytes_law mac ->
  forall json_ok k maxttl t0 ttl d now s,
  let tok := fst (sess_new mac k maxttl t0 ttl d) in
  (forall bs, hex_decode s = Some bs ->
              no_forgery mac k [le64 (u64_of_int (t0 + eff_ttl maxttl ttl)) ++ d] bs) ->
  s <> tok ->
  sess_check mac k now s = None /\ sess_check_state mac k now s = false /\ sess_check_json mac json_ok k now s = false.
Proof. exact @session_mutant_rejected. Qed.
Print Assumptions C16_session_mutant_rejected.

Theorem C16_time_token_only_issued : forall K (mac : K -> bytes -> bytes),
  mac_len_law mac -> mac_bytes_law mac ->
  forall k issued w now s,
  (forall bs, hex_decode s = Some bs -> no_forgery mac k issued bs) ->
  ts_check mac k w now s = true ->
  exists t, is_int64 t /\ In (le64 (u64_of_int t)) issued /\ s = ts_token mac k t /\ now - Z.abs w < t < now + Z.abs w.
Proof. exact @time_token_only_issued. Qed.
Print Assumptions C16_time_token_only_issued.

Theorem C16_time_token_mutant_rejected : forall K (mac : K -> bytes -> bytes),
  mac_len_law mac -> mac_bytes_law mac ->
  forall k t0 w now s,
  (forall bs, hex_decode s = Some bs -> no_forgery mac k [le64 (u64_of_int t0)] bs) ->
  s <> ts_token mac k t0 -> ts_check mac k w now s = false.
Proof. exact @time_token_mutant_rejected. Qed.
Print Assumptions C16_time_token_mutant_rejected.

(** RSA time blocks: an accepted block is, field for field, an issued one. *)
Theorem C16_rsa_time_only_issued : forall PK (H : bytes -> bytes) (rsa_verify : PK -> bytes -> bytes -> bool)
  pk issued w now data hash sig,
  (forall h s, rsa_verify pk h s = true -> In (h, s) issued) ->
  rsa_time_check H rsa_verify pk w now data hash sig = None ->
  In (hash, sig) issued /\ H data = hash /\ now - Z.abs w < int_of_u64 (de64 data) < now + Z.abs w.
Proof. exact @rsa_time_only_issued. Qed.
Print Assumptions C16_rsa_time_only_issued.

Theorem C16_rsa_time_block_is_the_issued_one :
  forall PK (H : bytes -> bytes) (rsa_verify : PK -> bytes -> bytes -> bool) pk d0 s0 w now data hash sig,
  (forall h s, rsa_verify pk h s = true -> In (h, s) [(H d0, s0)]) ->
  (forall d, H d = H d0 -> d = d0) ->
  rsa_time_check H rsa_verify pk w now data hash sig = None ->
  data = d0 /\ hash = H d0 /\ sig = s0.
Proof. exact @rsa_time_block_is_the_issued_one. Qed.
Print Assumptions C16_rsa_time_block_is_the_issued_one.

(** [DecodeAndVerify] with any verifier the caller supplies, or none. *)
Theorem C16_jwt_any_verifier_iff : forall parse_header parse_claims vres now tok t,
  any_verify parse_header parse_claims b64_decode_canon vres now tok = JOk t <->
  decode parse_header parse_claims b64_decode_canon tok = JOk t /\ vres = None /\ check_time (t_claims t) now = None.
Proof. exact any_verify_iff. Qed.
Print Assumptions C16_jwt_any_verifier_iff.

(** A card whose identity cannot be fetched (error, with or without a value) verifies nothing. *)
Theorem C16_rs256_fetch_failure_rejected :
  forall parse_header parse_claims M RK (parse_key : M -> option RK) rsa_verify user host now tok,
  jerr_of (self_verify_fetch parse_header parse_claims b64_decode_canon parse_key rsa_verify None user host now tok).
Proof. exact fetch_failure_rejected. Qed.
Print Assumptions C16_rs256_fetch_failure_rejected.

(** RS256: what verifies is, character for character, a token issued with the
    key its header names ([rsa_unforgeable]: the premise a signature is used for). *)
Theorem C16_rs256_only_issued :
  forall parse_header parse_claims M RK (parse_key : M -> option RK) rsa_verify
         (card : list (@pubkey M)) issued now tok t,
  (forall k rk, In k card -> parse_key (pk_mat k) = Some rk -> rsa_unforgeable rsa_verify rk issued) ->
  rs_verify parse_header parse_claims b64_decode_canon parse_key rsa_verify card now tok = JOk t ->
  In tok (map token_text issued).
Proof. exact rs256_only_issued. Qed.
Print Assumptions C16_rs256_only_issued.

Theorem C16_rs256_mutant_rejected :
  forall parse_header parse_claims M RK (parse_key : M -> option RK) rsa_verify
         (card : list (@pubkey M)) p0 s0 now tok,
  (forall k rk, In k card -> parse_key (pk_mat k) = Some rk -> rsa_unforgeable rsa_verify rk [(p0, s0)]) ->
  tok <> p0 ++ dot :: b64_encode s0 ->
  jerr_of (rs_verify parse_header parse_claims b64_decode_canon parse_key rsa_verify card now tok).
Proof. exact rs256_mutant_rejected. Qed.
Print Assumptions C16_rs256_mutant_rejected.

(** Who owns the bytes.  Histories of [Sign] / [Check] interleaved with the
    caller's writes to its own arrays (a recycled scratch buffer, a record
    signed field by field): with [Sign]'s result in memory of its own (what the
    source does: [gen_sign_result_fresh]), every token issued stays the token
    that was issued and verifies to the payload signed for it, and no call
    writes into the caller's arrays. *)
Theorem C16_sign_result_fresh : sign_result_fresh gen_result_origins = true.
Proof. exact gen_sign_result_fresh. Qed.
Print Assumptions C16_sign_result_fresh.

Theorem C16_tokens_stay_what_was_issued : forall K (mac : K -> bytes -> bytes) k, mac_len_law mac ->
  forall ops, ops_ok mac k true init_ostate ops = true ->
  let s := fst (own_run mac k true init_ostate ops) in
  Forall (fun tp => read (o_heap s) (fst tp) = sign mac k (snd tp) /\
                    check mac k (read (o_heap s) (fst tp)) = Some (snd tp)) (o_toks s).
Proof. exact @tokens_stay_what_was_issued. Qed.
Print Assumptions C16_tokens_stay_what_was_issued.

Theorem C16_check_returns_signed_payload : forall K (mac : K -> bytes -> bytes) k, mac_len_law mac ->
  forall s t ts p,
  OwnProofs.inv mac k s -> nth_error (o_toks s) t = Some (ts, p) ->
  snd (own_step mac k true s (OCheck t)) = Some (Some p) /\ read (o_heap s) ts = sign mac k p.
Proof. exact @check_returns_signed_payload. Qed.
Print Assumptions C16_check_returns_signed_payload.

Theorem C16_own_invariant_kept : forall K (mac : K -> bytes -> bytes) k, mac_len_law mac ->
  forall s o, OwnProofs.inv mac k s -> op_ok s o = true -> OwnProofs.inv mac k (fst (own_step mac k true s o)).
Proof. exact @step_inv. Qed.
Print Assumptions C16_own_invariant_kept.

Theorem C16_calls_leave_callers_memory : forall K (mac : K -> bytes -> bytes) k s o a,
  (forall x off v, o <> OWrite x off v) -> (a < List.length (o_heap s))%nat ->
  hget (o_heap (fst (own_step mac k true s o))) a = hget (o_heap s) a.
Proof. exact @calls_leave_arrays. Qed.
Print Assumptions C16_calls_leave_callers_memory.

(** The signer uses the WHOLE key it is given (what signer.New stores:
    [gen_signer_key_whole]): related keys - a shared prefix, one a prefix of the
    other - are different keys. *)
Theorem C16_signer_key_whole : signer_key_whole gen_signer_stored_key = true.
Proof. exact gen_signer_key_whole. Qed.
Print Assumptions C16_signer_key_whole.

Theorem C16_key_used_is_key : forall key, keep_all key = key.
Proof. exact key_used_is_key. Qed.
Print Assumptions C16_key_used_is_key.

Theorem C16_whole_key_other_key_rejected : forall (mac : bytes -> bytes -> bytes), mac_len_law mac ->
  forall key key' d,
  obj_check mac keep_all key' (obj_sign mac keep_all key d) = None <-> mac key' d <> mac key d.
Proof. exact whole_key_other_key_rejected. Qed.
Print Assumptions C16_whole_key_other_key_rejected.

(** One verifier, many tokens, a card that changes (keys added, removed, expired,
    replaced under the same id): every verification is a function of the token,
    the card in force at that moment and the clock. *)
Theorem C16_verify_depends_only_on_current_card :
  forall parse_header parse_claims M RK (parse_key : M -> option RK) rsa_verify (card : list (@pubkey M)) h,
  verifier_run parse_header parse_claims parse_key rsa_verify card h =
  map (fun v => rs_verify parse_header parse_claims b64_decode_canon parse_key rsa_verify (fst (fst v)) (snd (fst v)) (snd v))
      (verifications card h).
Proof. exact verify_depends_only_on_current_card. Qed.
Print Assumptions C16_verify_depends_only_on_current_card.

Theorem C16_history_accept_key_published_now :
  forall parse_header parse_claims M RK (parse_key : M -> option RK) rsa_verify (card : list (@pubkey M)) h c now tok t,
  In ((c, now, tok), JOk t)
     (combine (verifications card h) (verifier_run parse_header parse_claims parse_key rsa_verify card h)) ->
  exists k rk pre post,
    c = pre ++ k :: post /\ Forall (fun k' => pk_id k' <> h_kid (t_header t)) pre /\
    pk_id k = h_kid (t_header t) /\ pk_type k = key_type_rsa /\ key_valid k now = None /\
    parse_key (pk_mat k) = Some rk /\ rsa_verify rk (t_payload t) (t_sig t) = true.
Proof. exact history_accept_key_published_now. Qed.
Print Assumptions C16_history_accept_key_published_now.

(** One object, many calls: the objects hold configuration only (extracted
    fields and receiver writes), so a call's result in any history of calls on
    one object is that call's result alone. *)
Theorem C16_objects_stateless : objects_stateless gen_object_fields gen_receiver_writes.
Proof. exact gen_objects_stateless. Qed.
Print Assumptions C16_objects_stateless.

Theorem C16_object_history_pointwise : forall Cfg Call Res (do_call : Cfg -> Call -> Res) cfg calls i c r0,
  nth_error calls i = Some c -> nth i (run_history do_call cfg calls) r0 = do_call cfg c.
Proof. exact @history_pointwise. Qed.
Print Assumptions C16_object_history_pointwise.

Theorem C16_object_history_all : forall Cfg Call Res (do_call : Cfg -> Call -> Res) (P : Call -> Res -> Prop) cfg calls,
  (forall c, P c (do_call cfg c)) -> Forall2 P calls (run_history do_call cfg calls).
Proof. exact @history_all. Qed.
Print Assumptions C16_object_history_all.

(** * The source still has the shape the models were written against *)

Theorem C16_source_frozen :
  gen_timestamp_len = Z.of_nat ts_len /\
  gen_pass_max_tries = max_tries /\
  gen_pass_valid_buffer = valid_buffer /\
  gen_jwt_issue_shift = - grace_ns /\
  guards_diff gen_guards expected_guards = [].
Proof.
  exact (conj gen_timestamp_len_ok (conj gen_pass_max_tries_ok (conj gen_pass_valid_buffer_ok
        (conj gen_jwt_grace_ok gen_guards_frozen)))).
Qed.
Print Assumptions C16_source_frozen.

(** * Non-vacuity *)

(** A toy MAC meeting the length laws and, for the data [[1;2;3]] under key 7,
    the second-preimage premise; so the premises of the theorems above can
    hold together. *)
Definition toy_mac (k : N) (d : bytes) : bytes :=
  if beq_bytes d [1; 2; 3]%N then repeat (171 + k mod 2)%N 32 else repeat 0%N 32.

Example C16_toy_mac_laws :
  mac_len_law toy_mac /\ mac_bytes_law toy_mac /\
  SignProofs.second_preimage_free toy_mac 7%N [1; 2; 3]%N /\
  toy_mac 8%N [1; 2; 3]%N <> toy_mac 7%N [1; 2; 3]%N.
Proof.
  split; [|split; [|split]].
  - intros k d. unfold toy_mac. destruct (beq_bytes d _); apply repeat_length.
  - intros k d. unfold toy_mac, is_bytes.
    destruct (beq_bytes d _); apply Forall_forall; intros x I; apply repeat_spec in I; subst; unfold is_byte.
    + assert (k mod 2 < 2)%N by (apply N.mod_lt; discriminate).
      apply N.lt_le_trans with (171 + 2)%N; [now apply N.add_lt_mono_l|discriminate].
    + reflexivity.
  - intros d' N. unfold toy_mac. destruct (beq_bytes d' [1; 2; 3]%N) eqn:E.
    + apply beq_bytes_spec in E. contradiction.
    + vm_compute. discriminate.
  - vm_compute. discriminate.
Qed.

(** The no-forgery premise holds for a tampered blob that carries no valid
    MAC (here: first byte changed), and the blob is rejected. *)
Example C16_no_forgery_satisfiable :
  let bs := upd 0 9%N (sign toy_mac 7%N [1; 2; 3]%N) in
  no_forgery toy_mac 7%N [[1; 2; 3]%N] bs /\ bs <> sign toy_mac 7%N [1; 2; 3]%N /\
  check toy_mac 7%N bs = None.
Proof.
  cbv zeta. split; [|split; [vm_compute; discriminate|vm_compute; reflexivity]].
  intros d E. exfalso.
  assert (List.length d = 3%nat) as L.
  { apply (f_equal (@List.length N)) in E. rewrite app_length in E.
    rewrite (proj1 C16_toy_mac_laws) in E.
    assert (List.length (upd 0 9%N (sign toy_mac 7%N [1; 2; 3]%N)) = 35%nat) as L0 by (vm_compute; reflexivity).
    rewrite L0 in E. unfold mac_size in E. lia. }
  destruct d as [|a [|b [|c [|x r]]]]; try discriminate L.
  vm_compute in E. injection E as <- <- <- E.
  vm_compute in E. discriminate E.
Qed.

(** The issued token verifies; its upper-cased spelling verified before the
    repair (the model of the old code) and does not now. *)
Example C16_hex_defect_and_repair :
  let tok := sign_hex toy_mac 7%N [1; 2; 3]%N in
  let upper := map (fun c => if (97 <=? c)%N && (c <=? 102)%N then (c - 32)%N else c) tok in
  check_hex toy_mac 7%N tok = Some [1; 2; 3]%N /\
  upper <> tok /\
  check_hex_legacy toy_mac 7%N upper = Some [1; 2; 3]%N /\
  check_hex toy_mac 7%N upper = None.
Proof. vm_compute. repeat split; try reflexivity; discriminate. Qed.

(** Same for a JWT: the issued token plus a line break, and with the unused
    bits of the last signature character set, decoded before the repair. *)
Example C16_jwt_defect_and_repair :
  let ph := fun _ : bytes => Some (mkH alg_hs256 typ_jwt []) in
  let pc := fun _ : bytes => Some (mkC [] [] [] 100 0 [] []) in
  let pin := mkH alg_hs256 typ_jwt [] in
  let tok := jwt_sign toy_mac 7%N [123; 125]%N [1; 2; 3]%N in
  let is_ok r := match r with JOk _ => true | JErr _ => false end in
  is_ok (hs_verify toy_mac ph pc b64_decode_canon 7%N pin 5 tok) = true /\
  is_ok (hs_verify toy_mac ph pc b64_decode 7%N pin 5 (tok ++ [10]%N)) = true /\
  is_ok (hs_verify toy_mac ph pc b64_decode_canon 7%N pin 5 (tok ++ [10]%N)) = false /\
  is_ok (hs_verify toy_mac ph pc b64_decode 7%N pin 5 (removelast tok ++ [66]%N)) = true /\
  is_ok (hs_verify toy_mac ph pc b64_decode_canon 7%N pin 5 (removelast tok ++ [66]%N)) = false /\
  removelast tok ++ [66]%N <> tok /\
  is_ok (hs_verify toy_mac ph pc b64_decode_canon 7%N pin (101 * sec_ns) tok) = false.
Proof. vm_compute. repeat split; try reflexivity; discriminate. Qed.

(** Key lookup on a two-key card: the empty id and an unregistered id name no
    key (even though the last key would verify the signature); a registered id
    names its own key. *)
Example C16_key_lookup_exact :
  let card := [mkPK [102; 105]%N key_type_rsa alg_rs256 100 0 (true, false);
               mkPK [108; 97]%N key_type_rsa alg_rs256 100 0 (true, true)] in
  find_key card [] = None /\ find_key card [98]%N = None /\
  option_map (@pk_mat _) (find_key card [108; 97]%N) = Some (true, true) /\
  rs_verifier (fun m : bool * bool => if fst m then Some (snd m) else None) (fun rk _ _ => rk) card
    (mkT (mkH alg_rs256 typ_jwt []) (mkC [] [] [] 100 0 [] []) [] []) 5 = Some ENoKey /\
  rs_verifier (fun m : bool * bool => if fst m then Some (snd m) else None) (fun rk _ _ => rk) card
    (mkT (mkH alg_rs256 typ_jwt [108; 97]%N) (mkC [] [] [] 100 0 [] []) [] []) 5 = None.
Proof. vm_compute. repeat split. Qed.

(** Claim times at the int64 wrap: what the code (and the model) do there. *)
Example C16_jwt_time_wraps :
  check_time (mkC [] [] [] (Jwt.two63 - 1) 0 [] []) 1700000000000000000 = Some EExpired /\
  check_time (mkC [] [] [] 1800000000 (Jwt.two63 - 1) [] []) 1700000000000000000 = None /\
  check_time (mkC [] [] [] (Jwt.two63 - 1 - unix_to_internal) 0 [] []) 1700000000000000000 = None /\
  check_time (mkC [] [] [] (Jwt.two63 - unix_to_internal) 0 [] []) 1700000000000000000 = Some EExpired /\
  check_time (mkC [] [] [] 1800000000 (- Jwt.two63) [] []) 1700000000000000000 = None /\
  check_time (mkC [] [] [] (- Jwt.two63) (- Jwt.two63) [] []) 0 = Some EExpired.
Proof. exact check_time_wraps. Qed.

(** A challenge on the toy MAC: the window is closed at both ends. *)
Example C16_challenge_boundary :
  let ct := fun _ : bytes => Some 100 in
  let b := sign toy_mac 7%N [1; 2; 3]%N in
  challenge_check toy_mac ct 7%N 10 99 b = Some ChFuture /\
  challenge_check toy_mac ct 7%N 10 100 b = None /\
  challenge_check toy_mac ct 7%N 10 110 b = None /\
  challenge_check toy_mac ct 7%N 10 111 b = Some ChExpired /\
  challenge_check toy_mac (fun _ => None) 7%N 10 100 b = Some ChExpired /\
  need_refresh 1000 199 = true /\ need_refresh 1000 200 = false /\ need_refresh 0 5 = false.
Proof. vm_compute. repeat split. Qed.

(** Session and time-token boundaries on a concrete instance. *)
Example C16_session_boundary :
  let '(tok, e) := sess_new toy_mac 7%N 1000 5000 0 [65]%N in
  e = 6000 /\
  sess_check toy_mac 7%N 5999 tok = Some ([65]%N, 1) /\
  sess_check toy_mac 7%N 6000 tok = None /\
  ts_check toy_mac 7%N (-10) 109 (ts_token toy_mac 7%N 100) = true /\
  ts_check toy_mac 7%N (-10) 110 (ts_token toy_mac 7%N 100) = false /\
  ts_check toy_mac 7%N 10 90 (ts_token toy_mac 7%N 100) = false.
Proof. vm_compute. repeat split. Qed.

(** The passcode clauses on a concrete history, and the old code's model refuted. *)
Example C16_passcode_witness :
  snd (step 1000 (fst witness_run) (PTry 2 5 1100)) = 0%N /\
  accept_ok 1000 (snd witness_run) 2 1100 /\
  snd (step 1000 (fst witness_run) (PTry 2 5 1101)) = 7%N /\
  snd (step 1000 (fst (step 1000 (fst witness_run) (PTry 2 5 1100))) (PTry 2 6 1100)) = 5%N.
Proof. exact accept_ok_witness. Qed.

(** The dependency on atomic Mutate, the wrapping counter and the missing window, concretely. *)
Example C16_passcode_needs_atomic_mutate :
  let s := fst (step 1000 init_state (PNew 0)) in
  fst (racy_two_attempts 1000 s (PTry 1 7 5) (PTry 1 8 5)) = (0%N, 0%N) /\
  snd (step 1000 (fst (step 1000 s (PTry 1 7 5))) (PTry 1 8 5)) = 5%N.
Proof. exact without_atomic_mutate_a_code_is_used_twice. Qed.

Example C16_passcode_counter_and_window_edge_cases :
  let s := mkR false (Some (mkPC 1 true 0 true 100 false (two63 - 1))) None 1 in
  snd (step 1000 s (PTry 1 7 5)) = 0%N /\
  snd (step 1000 (mkR false (Some (mkPC 1 true 0 true 100 false 11)) None 1) (PTry 1 7 5)) = 4%N /\
  snd (step 1000 (mkR false (Some (mkPC 1 false 0 true 100 false 0)) None 1) (PTry 1 7 5)) = 9%N.
Proof. exact counter_wraps_at_two63. Qed.

Example C16_passcode_short_history_satisfiable : short_history (snd witness_run).
Proof. vm_compute. reflexivity. Qed.

Example C16_passcode_legacy_refuted :
  last (map fst (run_with false 600000000000 init_state fifteen_wrong_then_right)) 9%N = 0%N /\
  last (map fst (run 600000000000 init_state fifteen_wrong_then_right)) 9%N = 4%N.
Proof. exact legacy_model_refuted. Qed.

(** Round 3 non-vacuity: a state token on the toy MAC, a session with payload is
    not a state, JSON kinds; the RSA premise is satisfiable and bites. *)
Example C16_state_and_json_boundary :
  let st := sess_new_state toy_mac 7%N 1000 5000 in
  let '(tok, _) := sess_new toy_mac 7%N 1000 5000 0 [65]%N in
  sess_check_state toy_mac 7%N 5999 st = true /\
  sess_check_state toy_mac 7%N 6000 st = false /\
  sess_check_state toy_mac 7%N 5999 tok = false /\
  sess_check_json toy_mac (fun d => beq_bytes d [65]%N) 7%N 5999 tok = true /\
  sess_check_json toy_mac (fun d => beq_bytes d [65]%N) 7%N 6000 tok = false /\
  sess_check_json toy_mac (fun d => beq_bytes d [65]%N) 7%N 5999 st = false.
Proof. vm_compute. repeat split. Qed.

Definition toy_rsa (rk : N) (p s : bytes) : bool := (rk =? 3)%N && beq_bytes p [104; 46; 99]%N && beq_bytes s [9]%N.

Example C16_rsa_premise_satisfiable :
  rsa_unforgeable toy_rsa 3%N [([104; 46; 99]%N, [9]%N)] /\
  toy_rsa 3%N [104; 46; 99]%N [9]%N = true /\
  any_verify (fun _ => Some (mkH alg_rs256 typ_jwt [])) (fun _ => Some (mkC [] [] [] 100 0 [] [])) b64_decode_canon
             (Some EWrongSig) 5 (jwt_sign toy_mac 7%N [123; 125]%N [1; 2; 3]%N) = JErr EWrongSig /\
  (exists t, any_verify (fun _ => Some (mkH alg_rs256 typ_jwt [])) (fun _ => Some (mkC [] [] [] 100 0 [] [])) b64_decode_canon
             None 5 (jwt_sign toy_mac 7%N [123; 125]%N [1; 2; 3]%N) = JOk t).
Proof.
  split; [|split; [reflexivity|split; [vm_compute; reflexivity|vm_compute; eexists; reflexivity]]].
  intros p s E. unfold toy_rsa in E.
  apply andb_prop in E. destruct E as [E Es]. apply andb_prop in E. destruct E as [_ Ep].
  apply beq_bytes_spec in Ep, Es. subst. left. reflexivity.
Qed.

(** A verifier that remembers the parsed key of an id is refuted by a history:
    the card replaces the key published under id "m"; the token signed by the
    retired key is still accepted by the caching verifier, and refused by the
    model of the code (which consults the card every time). *)
Example C16_verifier_with_id_cache_refuted :
  let ph := fun _ : bytes => Some (mkH alg_rs256 typ_jwt [109]%N) in
  let pc := fun _ : bytes => Some (mkC [] [] [] 100 0 [] []) in
  let pk := fun m : N => Some m in
  let rv := fun (rk : N) (_ s : bytes) => beq_bytes s [rk] in
  let tok := jwt_text [123; 125]%N [1; 2; 3]%N ++ dot :: b64_encode [1]%N in
  let card1 := [mkPK [109]%N key_type_rsa alg_rs256 100 0 1%N] in
  let card2 := [mkPK [109]%N key_type_rsa alg_rs256 100 0 2%N] in
  let h := [VVerify 5 tok; VSetCard card2; VVerify 5 tok] in
  let is_ok r := match r with JOk _ => true | JErr _ => false end in
  map is_ok (verifier_run ph pc pk rv card1 h) = [true; false] /\
  map is_ok (cached_run ph pc pk rv [] card1 h) = [true; true].
Proof. vm_compute. split; reflexivity. Qed.

(** [Sign] as Go's [append] to its argument is refuted by a history: the caller
    signs a payload built in a scratch array with room behind it, writes the
    next payload over it and signs again; the token issued first now verifies
    to the second payload, and the MAC was written into the caller's array.
    With the result in memory of its own both tokens are what was issued. *)
Example C16_in_place_append_refuted :
  let a := [1; 2; 3]%N ++ repeat 238%N 40 in
  let h := [OAlloc a; OSign (mkS 0 0 3); OWrite 0 0 [4; 5; 6]%N; OSign (mkS 0 0 3); OCheck 0; OCheck 1] in
  ops_ok toy_mac 7%N false init_ostate h = true /\ ops_ok toy_mac 7%N true init_ostate h = true /\
  snd (own_run toy_mac 7%N false init_ostate h) = [None; None; None; None; Some (Some [4; 5; 6]%N); Some (Some [4; 5; 6]%N)] /\
  snd (own_run toy_mac 7%N true init_ostate h) = [None; None; None; None; Some (Some [1; 2; 3]%N); Some (Some [4; 5; 6]%N)] /\
  firstn 5 (skipn 3 (hget (o_heap (fst (own_run toy_mac 7%N false init_ostate [OAlloc a; OSign (mkS 0 0 3)]))) 0)) = repeat 172%N 5 /\
  hget (o_heap (fst (own_run toy_mac 7%N true init_ostate [OAlloc a; OSign (mkS 0 0 3)]))) 0 = a.
Proof. vm_compute. repeat split. Qed.

(** A constructor that keeps the first 32 bytes of the key is refuted: two keys
    that agree on 32 bytes and differ after them verify each other's blobs,
    for every MAC; with the whole key the toy MAC tells them apart. *)
Example C16_truncating_constructor_refuted :
  forall (mac : bytes -> bytes -> bytes), mac_len_law mac ->
  let m := repeat 77%N 32 in
  forall d, obj_check mac (keep_first 32) (m ++ [2]%N) (obj_sign mac (keep_first 32) (m ++ [1]%N) d) = Some d.
Proof. intros mac L m d. apply truncating_constructor_refuted; [exact L|reflexivity]. Qed.

Definition len_mac (k d : bytes) : bytes := repeat (N.of_nat (List.length k) + nth 32 k 0)%N 32.

Example C16_whole_key_tells_related_keys_apart :
  let m := repeat 77%N 32 in
  obj_check len_mac keep_all (m ++ [2]%N) (obj_sign len_mac keep_all (m ++ [1]%N) [5]%N) = None /\
  obj_check len_mac (keep_first 32) (m ++ [2]%N) (obj_sign len_mac (keep_first 32) (m ++ [1]%N) [5]%N) = Some [5]%N.
Proof. vm_compute. split; reflexivity. Qed.
