(** C04 — sniproxy: loss or shutdown of an endpoint never strands a caller.
    Property theorems only; each is closed by a lemma of
    Sni/ShutdownProofs.v or Sni/ShutdownGen.v.  The blocking model
    (Sni/Shutdown.v) is instantiated with [gen_cfg], the select arms read off
    the source on every run.

    What is proved is enabledness ("some arm is ready, and every own step
    moves forward") plus a bound on the caller's own steps; that an enabled
    goroutine eventually runs is Go's scheduler (DESIGN.md section 11). *)
From Coq Require Import List NArith Bool String Arith.
From Verif Require Import Sni.SchedSkel Sni.Shutdown Sni.ShutdownProofs Sni.ShutdownCfg Sni.ShutdownGen Gen.TransportSkel.
From Verif Require Import Sni.ShutdownEndpoint Sni.ShutdownEndpointProofs.
From Verif Require Import Sni.DialSkel Sni.ShutdownDial Sni.ShutdownDialProofs Sni.ShutdownDialGen Gen.DialSkel.
From Verif Require Sni.Mailbox Sni.MailboxProofs Sni.ShutdownSide.
From Verif Require Import Sni.ShutdownClose Sni.ShutdownCloseProofs Sni.ShutdownSideDial.
Import ListNotations.
Local Open Scope N_scope.

(** Once the serve loop has exited (serveDone closed), every caller of
    [transport.call] that has not returned -- dialling, reading, writing or
    closing a tunnelled connection, with whatever context, issued before or
    after the loss -- can take a step, in every state. *)
Theorem C04_no_stranded_caller : forall s c x,
  serve s = SDone -> getc c (callers s) = Some x -> finished x = false ->
  caller_enabled gen_cfg s c = true.
Proof. exact (no_stranded_caller gen_cfg gen_cfg_guarded). Qed.
Print Assumptions C04_no_stranded_caller.

(** Being enabled means an actual step of that caller exists. *)
Theorem C04_enabled_has_step : forall s c,
  caller_enabled gen_cfg s c = true ->
  exists a s', is_caller_step c a = true /\ step gen_cfg s a = Some s'.
Proof. exact (enabled_has_step gen_cfg). Qed.
Print Assumptions C04_enabled_has_step.

(** Bounded: along ANY execution from a state with serveDone closed, however
    the other threads are scheduled, a caller is at every point finished or
    enabled, and it has returned -- and closeAll has closed the front
    connection -- after at most 5 steps of its own. *)
Theorem C04_calls_return_bounded : forall acts s s' c x,
  serve s = SDone -> exec gen_cfg s acts = Some s' -> getc c (callers s) = Some x ->
  exists x', getc c (callers s') = Some x' /\
    (finished x' = true \/ caller_enabled gen_cfg s' c = true) /\
    (5 <= ShutdownProofs.count_own c acts -> finished x' = true)%nat.
Proof. exact (fun acts s s' c x => calls_return_bounded gen_cfg gen_cfg_guarded acts s s' c x). Qed.
Print Assumptions C04_calls_return_bounded.

(** Liveness proper, under the standard weak-fairness assumption on the
    scheduler (again and again the caller is finished, or not enabled, or
    takes a step): in every infinite schedule from a state with serveDone
    closed, every caller's call returns -- and closeAll closes the front
    connection.  Actions that are not enabled when scheduled are skipped. *)
Theorem C04_fair_caller_finishes : forall sched s0 c x,
  serve s0 = SDone -> getc c (callers s0) = Some x -> fair gen_cfg sched s0 c ->
  exists n, caller_finished (run_n gen_cfg sched s0 n) c = true.
Proof. exact (fair_caller_finishes gen_cfg gen_cfg_guarded). Qed.
Print Assumptions C04_fair_caller_finishes.

(** From the loss of the connection to serveDone: once the reader has posted
    its error (or serve has left its loop), at most three steps of serve
    itself, always enabled, close serveDone ... *)
Theorem C04_serve_exit_completes : forall s,
  (serve s = SRun -> readerr s = true) ->
  exists acts s', exec gen_cfg s acts = Some s' /\ serve s' = SDone /\ (List.length acts <= 3)%nat.
Proof. exact (serve_exit_completes gen_cfg). Qed.
Print Assumptions C04_serve_exit_completes.

(** ... and no other thread can take them away. *)
Theorem C04_serve_exit_stable : forall s a s',
  step gen_cfg s a = Some s' ->
  a <> AReadErrS -> a <> AFail -> a <> ACloseDone -> (forall ok, a <> ATake ok) ->
  serve s' = serve s /\ (readerr s = true -> readerr s' = true).
Proof. exact (serve_exit_stable gen_cfg). Qed.
Print Assumptions C04_serve_exit_stable.

(** The reader goroutine is not left inside handleMessage either. *)
Theorem C04_no_stranded_reader : forall s,
  serve s = SDone -> reader s <> RExit -> reader_enabled gen_cfg s = true.
Proof. exact (no_stranded_reader gen_cfg gen_cfg_guarded). Qed.
Print Assumptions C04_no_stranded_reader.

(** When serve has exited its table is empty and every call it ever took has
    been completed (failed), or is being completed by the reader, or had been
    dropped by a mistyped reply. *)
Theorem C04_serve_exit_fails_pending : forall s c,
  reachable gen_cfg s -> serve s = SDone ->
  pend s = [] /\
  (In c (taken s) -> In c (donec s) \/ reader_holds s c \/ In c (dropped s)).
Proof. exact (serve_exit_fails_pending gen_cfg). Qed.
Print Assumptions C04_serve_exit_fails_pending.

(** A call still sitting in the queue when serve exits is not lost: its
    caller is at its own wait select, which is enabled. *)
Theorem C04_queued_calls_not_lost : forall s c,
  reachable gen_cfg s -> serve s = SDone -> In c (queue s) ->
  exists x, getc c (callers s) = Some x /\ after_enqueue (c_pc x) = true /\
            (finished x = true \/ caller_enabled gen_cfg s c = true).
Proof. exact (fun s c => queued_calls_not_lost gen_cfg s c gen_cfg_guarded). Qed.
Print Assumptions C04_queued_calls_not_lost.

(** serveDone, once closed, stays closed. *)
Theorem C04_serve_done_stable : forall acts s s',
  exec gen_cfg s acts = Some s' -> serve s = SDone -> serve s' = SDone.
Proof. exact (exec_done_stable gen_cfg). Qed.
Print Assumptions C04_serve_done_stable.

(** Endpoint side: Accept, Close, sendAccept and the side-connection mailbox
    each wait behind an arm that becomes ready when the tunnel is gone, the
    endpoint is closed, or a timer fires. *)
Theorem C04_accept_close_return : forall closed,
  (closed "p.serveDone"%string = true -> select_ready closed (first_point "Endpoint.Accept") = true) /\
  (closed "p.closed"%string = true -> select_ready closed (first_point "Endpoint.Accept") = true) /\
  (closed "timer.C"%string = true -> select_ready closed (first_point "Endpoint.Close") = true) /\
  (closed "p.serveDone"%string = true -> select_ready closed (first_point "Endpoint.Close") = true) /\
  (closed "timer.C"%string = true -> select_ready closed (first_point "Endpoint.sendAccept") = true) /\
  (closed "p.closed"%string = true -> select_ready closed (first_point "Endpoint.sendAccept") = true) /\
  (closed "b.closed"%string = true -> select_ready closed (last_point "connMailBox.receive") = true) /\
  (closed "tr.serveDone"%string = true -> select_ready closed (first_point "transport.shutdown") = true).
Proof.
  intros closed.
  destruct gen_endpoint_guarded as (A1 & A2 & A3 & A4 & A5 & A6 & _ & A8 & _ & A10).
  split; [exact (closed_arm_ready closed _ _ A1)|].
  split; [exact (closed_arm_ready closed _ _ A2)|].
  split; [exact (closed_arm_ready closed _ _ A3)|].
  split; [exact (closed_arm_ready closed _ _ A4)|].
  split; [exact (closed_arm_ready closed _ _ A5)|].
  split; [exact (closed_arm_ready closed _ _ A6)|].
  split; [exact (closed_arm_ready closed _ _ A8)|].
  exact (closed_arm_ready closed _ _ A10).
Qed.
Print Assumptions C04_accept_close_return.

(** ** The endpoint side as threads (Sni/ShutdownEndpoint.v, arms read off the source) *)

(** Accept returns once the endpoint's serve loop has ended or the endpoint
    is closed. *)
Theorem C04_endpoint_accept_exits : forall s t x,
  gete t (ethreads s) = Some x -> e_kind x = KAccept -> e_pc x = ESelect ->
  sdone s = true \/ eclosed s = true -> eenabled gen_ecfg s t = true.
Proof. exact (accept_exits gen_ecfg gen_ecfg_guarded). Qed.
Print Assumptions C04_endpoint_accept_exits.

(** Close's graceful wait ends with the tunnel or with its timer; sendAccept
    with the endpoint being closed or with its timer; and the timer of a
    waiting Close / sendAccept can always fire, after which it is enabled. *)
Theorem C04_endpoint_close_exits : forall s t x,
  gete t (ethreads s) = Some x -> e_kind x = KClose -> e_pc x = ESelect ->
  sdone s = true \/ e_timer x = true -> eenabled gen_ecfg s t = true.
Proof. exact (close_exits gen_ecfg gen_ecfg_guarded). Qed.
Print Assumptions C04_endpoint_close_exits.

Theorem C04_endpoint_send_exits : forall s t x,
  gete t (ethreads s) = Some x -> e_kind x = KSend -> e_pc x = ESelect ->
  eclosed s = true \/ e_timer x = true -> eenabled gen_ecfg s t = true.
Proof. exact (send_exits gen_ecfg gen_ecfg_guarded). Qed.
Print Assumptions C04_endpoint_send_exits.

Theorem C04_endpoint_timer_fires : forall s t x,
  gete t (ethreads s) = Some x -> e_kind x <> KAccept -> e_pc x = ESelect ->
  exists s', estep gen_ecfg s (ETimer t) = Some s' /\ eenabled gen_ecfg s' t = true.
Proof. exact (timer_fires_then_enabled gen_ecfg gen_ecfg_guarded). Qed.
Print Assumptions C04_endpoint_timer_fires.

(** Every thread of the endpoint side has an exit once the tunnel is gone:
    it is enabled, or its own timer makes it so, or it waits (sync.Once) for
    another Close that itself has an exit. *)
Theorem C04_endpoint_threads_exit : forall s t x,
  ereachable gen_ecfg s -> sdone s = true ->
  gete t (ethreads s) = Some x -> efinished x = false ->
  can_exit gen_ecfg s t \/
  (e_pc x = EOnceWait /\ exists r, eonce s = ORunning r /\ r <> t /\ can_exit gen_ecfg s r).
Proof. exact (endpoint_threads_exit gen_ecfg gen_ecfg_guarded). Qed.
Print Assumptions C04_endpoint_threads_exit.

(** ... and it returns after at most 4 steps of its own, however the others
    are scheduled. *)
Theorem C04_endpoint_bounded_own_steps : forall acts s s' t x,
  eexec gen_ecfg s acts = Some s' -> gete t (ethreads s) = Some x ->
  exists x', gete t (ethreads s') = Some x' /\
    (emeasure x' + ShutdownEndpointProofs.count_own t acts <= emeasure x)%nat.
Proof. exact (ShutdownEndpointProofs.bounded_own_steps gen_ecfg). Qed.
Print Assumptions C04_endpoint_bounded_own_steps.

(** ** The endpoint's serve loop, connection set and dial handlers
    (Sni/ShutdownDial.v; sendAccept's arms, the capacity of the backlog and
    the exits of handleDial that close the connection are read off the source) *)

(** endpointServer.handleDial, executed symbolically statement by statement
    as the translator extracted it: every exit after a failed acceptConn and
    every exit after a failed conns.add leaves the connection closed; the
    exit that registered it in the connection set does not close it. *)
Theorem C04_dial_handler_closes_unregistered :
  dshape_of gen_handleDial = Some good_shape /\ shape_closes gen_dshape = true.
Proof. exact (conj gen_dshape_good gen_dshape_closes). Qed.
Print Assumptions C04_dial_handler_closes_unregistered.

(** Ownership, in every reachable state -- any number of dials, any
    interleaving of the handlers waiting in sendAccept, the serve loop's
    exit and the shutdown of the set, Accept calls, Endpoint.Close, reads,
    writes and closes from the peer: a connection that Accept has handed to
    the application (or that waits in the backlog) is closed, or its handler
    has not yet finished conns.add, or it is in the connection set and the
    set's cleanup has not passed it yet. *)
Theorem C04_dial_handed_owned : forall s h,
  dreachable gen_ecfg gen_dshape s -> In h (d_handed s) \/ In h (d_incoming s) ->
  In h (d_closed s) \/
  (exists x, getn h (d_handlers s) = Some x /\ (h_pc x = HAdd \/ h_pc x = HAddFailed)) \/
  (In h (d_set s) /\ (d_set_closed s = false \/ In h (d_snap s))).
Proof. exact (handed_owned gen_ecfg gen_dshape gen_dshape_closes). Qed.
Print Assumptions C04_dial_handed_owned.

(** Once cleanup() has run, the connection of a handler that has returned is closed. *)
Theorem C04_dial_finished_handler_closed : forall s h x,
  dreachable gen_ecfg gen_dshape s -> d_serve s = LWait \/ d_serve s = LDone ->
  getn h (d_handlers s) = Some x -> h_pc x = HDone -> In h (d_closed s).
Proof. exact (finished_handler_closed gen_ecfg gen_dshape gen_dshape_closes). Qed.
Print Assumptions C04_dial_finished_handler_closed.

(** When the endpoint's serve loop has returned (Endpoint.serveDone is
    closed), every connection Accept ever handed to the application is
    closed: its reads and writes end.  So is every connection still in the
    backlog, and every connection any dial handler created. *)
Theorem C04_dial_handed_connections_closed : forall s h,
  dreachable gen_ecfg gen_dshape s -> d_serve s = LDone ->
  In h (d_handed s) \/ In h (d_incoming s) -> In h (d_closed s).
Proof. exact (handed_closed_when_done gen_ecfg gen_dshape gen_dshape_closes). Qed.
Print Assumptions C04_dial_handed_connections_closed.

Theorem C04_dial_created_connections_closed : forall s h x,
  dreachable gen_ecfg gen_dshape s -> d_serve s = LDone ->
  getn h (d_handlers s) = Some x -> In h (d_closed s).
Proof. exact (created_closed_when_done gen_ecfg gen_dshape gen_dshape_closes). Qed.
Print Assumptions C04_dial_created_connections_closed.

(** And the serve loop does return.  Once it has left its loop (connection
    lost, kicked, shut down), as long as it has not returned one of the
    endpoint's own goroutines -- serve's deferred cleanup, a dial handler (if
    need be after its sendAccept timer), a read / write / close handler --
    can take a step: they never all wait for each other, or for the
    application to call Accept or Close, or for the peer ... *)
Theorem C04_dial_no_deadlock : forall s,
  dreachable gen_ecfg gen_dshape s -> d_serve s <> LRun -> d_serve s <> LDone ->
  exists a s', internal a = true /\ dstep gen_ecfg gen_dshape s a = Some s'.
Proof. exact (no_deadlock_reachable gen_ecfg gen_dshape gen_dshape_closes gen_send_timer). Qed.
Print Assumptions C04_dial_no_deadlock.

(** ... and along any execution, whatever else happens in between, they take
    at most [dmeasure] steps altogether. *)
Theorem C04_dial_internal_steps_bounded : forall acts s s',
  d_serve s <> LRun -> dexec gen_ecfg gen_dshape s acts = Some s' ->
  (dmeasure s' + count_internal acts <= dmeasure s)%nat /\ d_serve s' <> LRun.
Proof. exact (internal_steps_bounded gen_ecfg gen_dshape). Qed.
Print Assumptions C04_dial_internal_steps_bounded.

(** Together: from every reachable state in which the loop has been left,
    internal steps alone lead to serve having returned, and there every
    connection handed to the application is closed. *)
Theorem C04_dial_serve_returns : forall s,
  dreachable gen_ecfg gen_dshape s -> d_serve s <> LRun ->
  exists acts s', forallb internal acts = true /\ dexec gen_ecfg gen_dshape s acts = Some s' /\
                  d_serve s' = LDone /\
                  forall h, In h (d_handed s') \/ In h (d_incoming s') -> In h (d_closed s').
Proof. exact (serve_returns gen_ecfg gen_dshape gen_dshape_closes gen_send_timer). Qed.
Print Assumptions C04_dial_serve_returns.

(** The seeded change C04-e (handleDial without a close after a failed
    conns.add), kept as a counter-model: its statements yield the shape
    [seeded_shape], and with that shape there is a schedule -- backlog full,
    one dial waiting in sendAccept, the tunnel lost, the set shut down, the
    application accepting -- after which serve has returned, connection 11 is
    with the application and is never closed, whatever happens afterwards. *)
Theorem C04_dial_seeded_change_leaks :
  dshape_of seeded_handleDial = Some seeded_shape /\
  exists s, dexec gen_ecfg seeded_shape dinit leak_schedule = Some s /\
    d_serve s = LDone /\ In 11 (d_handed s) /\ ~ In 11 (d_closed s) /\
    forall acts s', dexec gen_ecfg seeded_shape s acts = Some s' -> ~ In 11 (d_closed s').
Proof. exact (conj seeded_shape_is seeded_leaks). Qed.
Print Assumptions C04_dial_seeded_change_leaks.

(** ** Side modes: the side connection of a dial that fails after the delivery
    (Sni/ShutdownSide.v over the mail-office model of Sni/Mailbox.v) *)

(** cleanUp takes its box out of the office's map ... *)
Theorem C04_side_cleanup_unmaps : forall o h o' v b,
  MailboxProofs.oinv o -> nth_error (Mailbox.o_boxes o) h = Some b ->
  Mailbox.step o (Mailbox.OCleanUp h) = (o', v) -> ShutdownSide.unmapped o' h.
Proof. exact ShutdownSide.cleanup_unmaps. Qed.
Print Assumptions C04_side_cleanup_unmaps.

(** ... and from then on no operation of anybody (other dials, side
    websockets arriving with any id and key, other cleanUps) changes what is
    in that box's channel: looking into it after office.remove is final. *)
Theorem C04_side_no_delivery_after_cleanup : forall ps o o' vs h,
  ShutdownSide.unmapped o h -> (h < List.length (Mailbox.o_boxes o))%nat ->
  (forall pc, ~ In (Mailbox.OReceive h pc) ps) ->
  Mailbox.run o ps = (o', vs) ->
  ShutdownSide.chan_of o' h = ShutdownSide.chan_of o h /\ ShutdownSide.unmapped o' h.
Proof. exact ShutdownSide.no_delivery_after_cleanup. Qed.
Print Assumptions C04_side_no_delivery_after_cleanup.

(** Dial's deferred discard (cleanUp, then the drain) closes a connection
    that was delivered and never received: Server.serveBackSide's wait ends. *)
Theorem C04_side_orphan_closed : forall s h tag,
  ShutdownSide.chan_of (ShutdownSide.s_office s) h = Some (Some tag) ->
  ShutdownSide.wait_enabled (ShutdownSide.sstep true s (Mailbox.OCleanUp h)) tag = true.
Proof. exact ShutdownSide.drained_orphan_closed. Qed.
Print Assumptions C04_side_orphan_closed.

(** The deferred cleanUp without the drain (the shape before the repair),
    kept as a counter-model: new box, delivery,
    the dial fails; the connection stays in a box nobody can reach and
    serveBackSide's wait is never enabled, whatever happens afterwards. *)
Theorem C04_side_old_cleanup_refuted :
  let s := ShutdownSide.srun false (ShutdownSide.mkS Mailbox.office_init []) ShutdownSide.failed_dial in
  ShutdownSide.chan_of (ShutdownSide.s_office s) 0 = Some (Some 7) /\
  ShutdownSide.unmapped (ShutdownSide.s_office s) 0 /\
  forall ps, (forall pc, ~ In (Mailbox.OReceive 0 pc) ps) ->
    ShutdownSide.chan_of (ShutdownSide.s_office (ShutdownSide.srun false s ps)) 0 = Some (Some 7) /\
    ShutdownSide.wait_enabled (ShutdownSide.srun false s ps) 7 = false.
Proof. exact ShutdownSide.old_cleanup_refuted. Qed.
Print Assumptions C04_side_old_cleanup_refuted.

(** ** Side modes: the handler's side dial is bounded whatever dialer the
    application supplied (Sni/ShutdownSideDial.v) *)

(** sideConn dials under a context with a deadline of its own. *)
Theorem C04_side_dial_has_deadline :
  gen_side_dial_bounded = true /\
  skel_is gen_transport_skel "endpointServer.sideConn" frozen_sideConn = true.
Proof. exact (conj gen_side_dial_has_deadline gen_sideConn_frozen). Qed.
Print Assumptions C04_side_dial_has_deadline.

(** Hence the side handler returns -- and serve's callWait.Wait() with it --
    without the proxy ever answering the upgrade request and whether or not
    the application's websocket dialer has a handshake time-out: its own
    timers and at most two steps of its own, from every state. *)
Theorem C04_side_handler_returns : forall user_timeout s,
  sd_pc s <> SFinished ->
  exists acts s', forallb (fun a => negb (needs_proxy a)) acts = true /\ (List.length acts <= 4)%nat /\
    sdexec gen_side_dial_bounded user_timeout s acts = Some s' /\ sd_pc s' = SFinished.
Proof.
  exact (eq_ind_r (fun b => forall user_timeout s, sd_pc s <> SFinished ->
           exists acts s', forallb (fun a => negb (needs_proxy a)) acts = true /\ (List.length acts <= 4)%nat /\
             sdexec b user_timeout s acts = Some s' /\ sd_pc s' = SFinished)
         side_handler_returns gen_side_dial_has_deadline).
Qed.
Print Assumptions C04_side_handler_returns.

(** The seeded change C04-i, kept as a counter-model: no deadline on the
    dial's context, an application dialer without a handshake time-out, a
    proxy that never answers: the handler is inside dialSide for ever. *)
Theorem C04_side_dial_unbounded_refuted :
  let s0 := mkSD SDial false false false false in
  forall acts s', ~ In SDAnswer acts -> sdexec false false s0 acts = Some s' ->
    sd_pc s' = SDial /\ sd_answered s' = false.
Proof. exact side_dial_unbounded_refuted. Qed.
Print Assumptions C04_side_dial_unbounded_refuted.

(** The tie of this part to the source. *)
Theorem C04_dial_source_shape :
  dshape_of gen_handleDial = Some good_shape /\
  sshape_of gen_handleDialSide2 = Some (mkSShape true false true) /\
  has_arm (ARecv "timer.C") (send_arms gen_ecfg) = true /\
  skel_is gen_transport_skel "connections.add" frozen_connsAdd = true /\
  skel_is gen_transport_skel "connections.get" frozen_connsGet = true /\
  skel_is gen_transport_skel "connections.remove" frozen_connsRemove = true /\
  skel_is gen_transport_skel "connections.shutdown" frozen_connsShutdown = true /\
  skel_is gen_transport_skel "endpointServer.cleanup" frozen_epsCleanup = true /\
  skel_is gen_transport_skel "endpointServer.serve" frozen_epsServe = true /\
  skel_is gen_transport_skel "endpointServer.findSession" frozen_findSession = true /\
  skel_is gen_transport_skel "endpointServer.handleClose" frozen_handleClose = true /\
  skel_is gen_transport_skel "newConnection" frozen_newConnection = true /\
  skel_is gen_transport_skel "connection.cleanup" frozen_connCleanup = true /\
  skel_is gen_transport_skel "connMailBox.cleanUp" frozen_mailboxCleanUp = true /\
  skel_is gen_transport_skel "connMailBox.discard" frozen_mailboxDiscard = true /\
  points_of "sideConn.wait" gen_transport_blocking = [[ARecv "ctx.Done()"; ARecv "c.closed"]]%string /\
  skel_is gen_transport_skel "Server.serveBackSide" frozen_serveBackSide = true.
Proof.
  exact (conj gen_dshape_good (conj gen_sshape_good (conj gen_send_timer (conj gen_connsAdd_frozen
        (conj gen_connsGet_frozen (conj gen_connsRemove_frozen (conj gen_connsShutdown_frozen
        (conj gen_epsCleanup_frozen (conj gen_epsServe_frozen (conj gen_findSession_frozen
        (conj gen_handleClose_frozen (conj gen_newConnection_frozen (conj gen_connCleanup_frozen
        (conj gen_mailboxCleanUp_frozen (conj gen_mailboxDiscard_frozen (conj gen_sideWait_arms gen_serveBackSide_frozen)))))))))))))))).
Qed.
Print Assumptions C04_dial_source_shape.

(** ** endpointClient.Close (kick, ServeBackName's defer) reaches c.conn.Close()
    within its time-out (Sni/ShutdownClose.v; the blocking points of
    transport.shutdown are read off the source) *)

(** Once the time-out has expired Close runs through to c.conn.Close() by its
    own steps alone, from every state: whether the endpoint's shutdown hint
    came first (the call is refused with errAlreadyShutdown) or not, whether
    the peer answers the shutdown request or is silent for ever. *)
Theorem C04_close_reaches_conn_close : forall n s,
  wf_pc gen_clpoints s -> l_ctx s = true -> l_pc s <> QDone -> (cl_measure gen_clpoints s <= n)%nat ->
  exists acts s', forallb cl_own acts = true /\ (List.length acts <= n)%nat /\
    clexec gen_clpoints s acts = Some s' /\ l_pc s' = QDone /\ l_conn_closed s' = true.
Proof. exact (close_reaches_conn_close gen_clpoints gen_shutdown_points_timed). Qed.
Print Assumptions C04_close_reaches_conn_close.

(** From the start, for each of the four combinations {hint first | not} x
    {peer answers | silent}: the time-out and at most (points + 2) steps. *)
Theorem C04_close_bounded_from_start : forall hint silent,
  exists acts s', (List.length acts <= List.length gen_clpoints + 3)%nat /\
    clexec gen_clpoints (clinit hint silent) acts = Some s' /\ l_pc s' = QDone /\ l_conn_closed s' = true.
Proof. exact (close_bounded_from_start gen_clpoints gen_shutdown_points_timed). Qed.
Print Assumptions C04_close_bounded_from_start.

(** The seeded change C04-h, kept as a counter-model: a bare [<-tr.serveDone]
    on the path of a refused call.  The hint came first, the peer is silent:
    Close waits there for ever and c.conn.Close() is never called. *)
Theorem C04_close_untimed_refuted :
  points_timed untimed_points = false /\
  exists s, clexec untimed_points (clinit true true) [QCallRet] = Some s /\ stuck_close s /\
    forall acts s', ~ In (QSkip 0) acts -> clexec untimed_points s acts = Some s' ->
      stuck_close s' /\ l_conn_closed s' = false.
Proof. exact close_untimed_refuted. Qed.
Print Assumptions C04_close_untimed_refuted.

Theorem C04_close_source_shape :
  points_timed gen_clpoints = true /\
  (points_of "endpointClient.Close" gen_transport_blocking = [] /\
   points_of "transport.startShutdown" gen_transport_blocking = [] /\
   gen_clpoints = [[ARecv "ctx.Done()"; ARecv "tr.serveDone"]])%string /\
  skel_is gen_transport_skel "endpointClient.Close" frozen_clientClose = true /\
  skel_is gen_transport_skel "transport.startShutdown" frozen_startShutdown = true.
Proof.
  exact (conj gen_shutdown_points_timed (conj gen_close_waits_nowhere_else
        (conj gen_clientClose_frozen gen_startShutdown_frozen))).
Qed.
Print Assumptions C04_close_source_shape.

(** The pinned tree's configuration, kept as a counter-model: serve exits,
    closeAll's tunnel.Close enqueues its call and is never enabled again, so
    the front connection is never closed; and a reply frame after a failed
    write leaves the reader goroutine waiting for ever. *)
Theorem C04_legacy_stranded :
  exists s, reachable legacy_cfg s /\ serve s = SDone /\
    forall s', reachable_from legacy_cfg s s' ->
      caller_enabled legacy_cfg s' 1 = false /\
      exists x, getc 1 (callers s') = Some x /\ c_pc x = CWait /\ c_closeall x = true.
Proof. exact legacy_stranded. Qed.
Print Assumptions C04_legacy_stranded.

Theorem C04_legacy_reader_stranded :
  exists s, reachable legacy_cfg s /\ serve s = SDone /\
            reader s = RRecv 7 true /\ reader_enabled legacy_cfg s = false.
Proof. exact legacy_reader_stranded. Qed.
Print Assumptions C04_legacy_reader_stranded.

(** Side modes: in the pinned tree's shape a side dial whose call has
    succeeded waits for ever for its side connection once the control
    connection is gone (unless the connection still arrives); with the
    current source it is covered by [C04_no_stranded_caller] (pc [CBox]). *)
Theorem C04_legacy_side_dial_stranded :
  exists s, reachable legacy_cfg s /\ stuck_box s 1 /\
    caller_enabled legacy_cfg s 1 = false /\
    forall a s', a <> ADeliver 1 -> step legacy_cfg s a = Some s' ->
      stuck_box s' 1 /\ caller_enabled legacy_cfg s' 1 = false.
Proof. exact legacy_side_dial_stranded. Qed.
Print Assumptions C04_legacy_side_dial_stranded.

(** The tie to the source. *)
Theorem C04_source_shape :
  guarded gen_cfg = true /\
  (enq_arms gen_cfg = [ARecv "ctx.Done()"; ARecv "tr.serveDone"; ASend "tr.calls"] /\
   wait_arms gen_cfg = [ARecv "ctx.Done()"; ARecv "done"; ARecv "tr.serveDone"] /\
   fsend_arms gen_cfg = [ASend "tr.pendingFetch"; ARecv "tr.serveDone"] /\
   frecv_arms gen_cfg = [ARecv "ch"; ARecv "tr.serveDone"] /\
   box_arms gen_cfg = [ARecv "ctx.Done()"; ARecv "b.closed"; ARecv "gone"; ARecv "b.ch"] /\
   calls_cap gen_cfg = 128 /\ fetch_cap gen_cfg = 5)%string /\
  skel_is gen_transport_skel "transport.asyncCall" frozen_asyncCall = true /\
  skel_is gen_transport_skel "transport.call" frozen_call = true /\
  skel_is gen_transport_skel "transport.shutdown" frozen_shutdown = true /\
  skel_is gen_transport_skel "transport.hasShutdown" frozen_hasShutdown = true /\
  skel_is gen_transport_skel "tunnel.Close" frozen_tunnelClose = true /\
  skel_is gen_transport_skel "endpointClient.Close" frozen_clientClose = true /\
  skel_is gen_transport_skel "JoinConn" frozen_JoinConn = true /\
  skel_is gen_transport_skel "Endpoint.Accept" frozen_Accept = true /\
  skel_is gen_transport_skel "Endpoint.Close" frozen_EndpointClose = true /\
  skel_is gen_transport_skel "Endpoint.sendAccept" frozen_sendAccept = true /\
  skel_is gen_transport_skel "connMailBox.receive" frozen_mailboxReceive = true /\
  skel_is gen_transport_skel "endpointClient.Dial" frozen_clientDial = true.
Proof.
  exact (conj gen_cfg_guarded (conj gen_cfg_arms (conj gen_asyncCall_frozen (conj gen_call_frozen
        (conj gen_shutdown_frozen (conj gen_hasShutdown_frozen (conj gen_tunnelClose_frozen
        (conj gen_clientClose_frozen (conj gen_JoinConn_frozen (conj gen_Accept_frozen
        (conj gen_EndpointClose_frozen (conj gen_sendAccept_frozen
        (conj gen_mailboxReceive_frozen gen_clientDial_frozen))))))))))))).
Qed.
Print Assumptions C04_source_shape.

(** * Non-vacuity *)

(** The very trace that strands closeAll in the pinned configuration ends,
    in the current one, with the call returned and the front connection
    closed. *)
Example C04_ex_same_trace_now_returns :
  match exec gen_cfg init
          [ANew 1 CtxNever false true false; AReaderStop; AReadErrS; AFail; ACloseDone;
           ACheck 1; AEnq 1 2; AWait 1 2; AFront 1] with
  | Some s => serve s = SDone /\ queue s = [1] /\
              getc 1 (callers s) = Some (mkCaller CtxNever CFront false true false)
  | None => False
  end.
Proof. vm_compute. repeat split. Qed.

(** Calls pending at the time of the loss are failed by serve's exit; a call
    enqueued in the window is in the queue, enabled, and returns. *)
Example C04_ex_loss_mid_call :
  match exec gen_cfg init
          [ANew 1 CtxNever false false false; ACheck 1; AEnq 1 2; ATake true;
           ANew 2 CtxNever false false false; ACheck 2;
           AReaderStop; AReadErrS; AFail; AEnq 2 2; ACloseDone] with
  | Some s => serve s = SDone /\ pend s = [] /\ donec s = [1] /\ queue s = [2] /\
              caller_enabled gen_cfg s 1 = true /\ caller_enabled gen_cfg s 2 = true /\
              (exists s', step gen_cfg s (AWait 2 2) = Some s' /\
                          getc 2 (callers s') = Some (mkCaller CtxNever CRet false false false))
  | None => False
  end.
Proof. vm_compute. repeat split. eexists. split; reflexivity. Qed.

(** A fair schedule exists: after the loss, closeAll's goroutine is simply
    scheduled for its four steps (and then for ever, to no effect). *)
Definition ex_s0 : state :=
  match exec gen_cfg init [ANew 1 CtxNever false true false; AReaderStop; AReadErrS; AFail; ACloseDone] with
  | Some s => s | None => init end.

Definition ex_sched (n : nat) : action :=
  match n with
  | 0%nat => ACheck 1 | 1%nat => AEnq 1 1 | 2%nat => AWait 1 2 | _ => AFront 1
  end.

Lemma ex_finished_stays k :
  getc 1 (callers (run_n gen_cfg ex_sched ex_s0 (4 + k))) = Some (mkCaller CtxNever CFront false true false).
Proof.
  induction k as [|k IH]; [vm_compute; reflexivity|].
  replace (4 + S k)%nat with (S (4 + k)) by (now rewrite Nat.add_succ_r).
  cbn [run_n]. unfold step_or_stay.
  change (ex_sched (4 + k)) with (AFront 1). cbn [step]. rewrite IH. cbn. exact IH.
Qed.

Example C04_ex_fair_schedule :
  serve ex_s0 = SDone /\ fair gen_cfg ex_sched ex_s0 1.
Proof.
  split; [vm_compute; reflexivity|].
  intros n. exists (4 + n)%nat. split; [apply Nat.le_add_l|]. left.
  unfold caller_finished. now rewrite ex_finished_stays.
Qed.

(** The side dial of the pinned counter-model, in the current configuration:
    after the loss it is enabled through the [gone] arm and returns. *)
Example C04_ex_side_dial_returns :
  match exec gen_cfg init
          [ANew 1 CtxNever false false true; ACheck 1; AEnq 1 2; ATake true;
           AFrame 1 true; ARSend 0; AFetch; ARDone; AWait 1 1;
           AReaderStop; AReadErrS; AFail; ACloseDone] with
  | Some s => getc 1 (callers s) = Some (mkCaller CtxNever CBox false false true) /\
              caller_enabled gen_cfg s 1 = true /\
              (exists s', step gen_cfg s (ABox 1 2) = Some s' /\
                          getc 1 (callers s') = Some (mkCaller CtxNever CRet false false true))
  | None => False
  end.
Proof. vm_compute. repeat split. eexists. split; reflexivity. Qed.

(** Endpoint side: Accept pending and a sendAccept with a full queue when the
    server drops the endpoint; then two concurrent Close calls. *)
Example C04_ex_endpoint_threads :
  match eexec gen_ecfg (mkEState false false false 10 OFree [])
          [ENew 1 KAccept; ENew 2 KSend; ETunnelGone; ENew 3 KClose; ENew 4 KClose; EOnce 3; EOnce 4] with
  | Some s =>
      eenabled gen_ecfg s 1 = true /\ eenabled gen_ecfg s 2 = false /\
      eenabled gen_ecfg s 3 = true /\ eenabled gen_ecfg s 4 = false /\
      match eexec gen_ecfg s [EArm 3 1; EFin 3; EWake 4; EArm 2 2; EArm 1 1] with
      | Some s' => forallb (fun tx => efinished (snd tx)) (ethreads s') = true
      | None => False
      end
  | None => False
  end.
Proof. vm_compute. repeat split. Qed.

(** The schedule that leaks a connection with the seeded change's shape, run
    with the shape of the current source: serve returns, the application
    holds eleven connections, all closed. *)
Example C04_ex_backlog_schedule_closes :
  match dexec gen_ecfg gen_dshape dinit leak_schedule with
  | Some s => d_serve s = LDone /\ List.length (d_handed s) = 11%nat /\
              forallb (fun h => memn h (d_closed s)) (d_handed s) = true
  | None => False
  end.
Proof. exact same_schedule_now_closes. Qed.

(** Reachable states of that model in which the hypotheses of the theorems
    above hold non-trivially: the loop left with a handler waiting in
    sendAccept behind a full backlog -- an internal step exists (its timer),
    and the measure bounds what is left. *)
Example C04_ex_dial_parked_state :
  match dexec gen_ecfg gen_dshape dinit
          ((map DDial [1;2;3;4;5;6;7;8;9;10;11] ++
            flat_map (fun h => [DArm h 1; DAddStep h; DExitOK h]) [1;2;3;4;5;6;7;8;9;10] ++ [DLoss])%list) with
  | Some s => d_serve s = LExiting /\ List.length (d_incoming s) = 10%nat /\
              dstep gen_ecfg gen_dshape s (DArm 11 1) = None /\
              dmeasure s = 18%nat
  | None => False
  end.
Proof. vm_compute. repeat split. Qed.

(** Side modes: the failed dial's history with cleanUp as it is now ends
    with the orphan closed; a dial that succeeds is not affected. *)
Example C04_ex_side_failed_dial_now_closed :
  ShutdownSide.wait_enabled (ShutdownSide.srun true (ShutdownSide.mkS Mailbox.office_init []) ShutdownSide.failed_dial) 7 = true /\
  ShutdownSide.chan_of (ShutdownSide.s_office (ShutdownSide.srun true (ShutdownSide.mkS Mailbox.office_init []) ShutdownSide.failed_dial)) 0 = Some None.
Proof. exact ShutdownSide.failed_dial_now_closed. Qed.
