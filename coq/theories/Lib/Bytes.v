(** Little-endian fixed-width integers over byte lists.  Bytes are [N]
    (values < 256 when [is_bytes] holds). *)
From Coq Require Import List NArith ZArith Lia Bool.
From Coq Require Import ZifyN ZifyNat ZifyBool.
Import ListNotations.
Local Open Scope N_scope.

Definition bytes := list N.

Definition is_byte (b : N) : Prop := b < 256.
Definition is_bytes (bs : bytes) : Prop := Forall is_byte bs.

Definition is_byteb (b : N) : bool := b <? 256.
Definition is_bytesb (bs : bytes) : bool := forallb is_byteb bs.

Lemma is_bytesb_spec bs : is_bytesb bs = true <-> is_bytes bs.
Proof.
  unfold is_bytesb, is_bytes. rewrite forallb_forall, Forall_forall.
  unfold is_byteb, is_byte. split; intros H x Hx; specialize (H x Hx); lia.
Qed.

Lemma is_bytes_app a b : is_bytes (a ++ b) <-> is_bytes a /\ is_bytes b.
Proof. unfold is_bytes. apply Forall_app. Qed.

Lemma is_bytes_firstn_skipn n bs : is_bytes bs -> is_bytes (firstn n bs) /\ is_bytes (skipn n bs).
Proof. intros H. apply is_bytes_app. now rewrite firstn_skipn. Qed.

Lemma is_bytes_firstn n bs : is_bytes bs -> is_bytes (firstn n bs).
Proof. intros H. now apply is_bytes_firstn_skipn. Qed.

Lemma is_bytes_skipn n bs : is_bytes bs -> is_bytes (skipn n bs).
Proof. intros H. now apply (is_bytes_firstn_skipn n). Qed.

(** [le_bytes k v]: the [k] low-order bytes of [v], least significant first. *)
Fixpoint le_bytes (k : nat) (v : N) : bytes :=
  match k with
  | O => []
  | S k' => (v mod 256) :: le_bytes k' (v / 256)
  end.

(** [de_bytes bs]: little-endian value of [bs]. *)
Fixpoint de_bytes (bs : bytes) : N :=
  match bs with
  | [] => 0
  | b :: r => b + 256 * de_bytes r
  end.

Lemma le_bytes_length k v : length (le_bytes k v) = k.
Proof. revert v; induction k as [|k IH]; intros v; simpl; [reflexivity|]. now rewrite IH. Qed.

Lemma le_bytes_is_bytes k v : is_bytes (le_bytes k v).
Proof.
  revert v; induction k as [|k IH]; intros v; simpl; constructor.
  - unfold is_byte. apply N.mod_lt. lia.
  - apply IH.
Qed.

Lemma de_le_bytes k v : de_bytes (le_bytes k v) = v mod (256 ^ N.of_nat k).
Proof.
  revert v; induction k as [|k IH]; intros v.
  - simpl. now rewrite N.mod_1_r.
  - cbn [le_bytes de_bytes]. rewrite IH.
    replace (N.of_nat (S k)) with (N.succ (N.of_nat k)) by lia.
    rewrite N.pow_succ_r by lia.
    set (p := 256 ^ N.of_nat k).
    assert (Hp : p <> 0) by (unfold p; apply N.pow_nonzero; lia).
    rewrite N.mod_mul_r by lia. lia.
Qed.

Lemma de_le_bytes_small k v : v < 256 ^ N.of_nat k -> de_bytes (le_bytes k v) = v.
Proof. intros H. rewrite de_le_bytes. now apply N.mod_small. Qed.

Lemma de_bytes_bound bs : is_bytes bs -> de_bytes bs < 256 ^ N.of_nat (length bs).
Proof.
  induction bs as [|b r IH]; intros H.
  - simpl. lia.
  - inversion H as [|? ? Hb Hr]; subst. specialize (IH Hr).
    cbn [de_bytes length].
    replace (N.of_nat (S (length r))) with (N.succ (N.of_nat (length r))) by lia.
    rewrite N.pow_succ_r by lia. unfold is_byte in Hb. lia.
Qed.

Lemma le_de_bytes bs : is_bytes bs -> le_bytes (length bs) (de_bytes bs) = bs.
Proof.
  induction bs as [|b r IH]; intros H; [reflexivity|].
  inversion H as [|? ? Hb Hr]; subst. unfold is_byte in Hb.
  cbn [length le_bytes de_bytes]. f_equal.
  - rewrite (N.mul_comm 256), N.mod_add by lia. now apply N.mod_small.
  - rewrite (N.mul_comm 256), N.div_add by lia.
    rewrite (N.div_small b) by lia. rewrite N.add_0_l. now apply IH.
Qed.

Definition two64 : N := 18446744073709551616.
Definition two63 : N := 9223372036854775808.

Lemma two64_pow : two64 = 256 ^ N.of_nat 8.
Proof. reflexivity. Qed.

Definition le64 (v : N) : bytes := le_bytes 8 v.
Definition de64 (bs : bytes) : N := de_bytes (firstn 8 bs).

Lemma le64_length v : length (le64 v) = 8%nat.
Proof. apply le_bytes_length. Qed.

Lemma le64_is_bytes v : is_bytes (le64 v).
Proof. apply le_bytes_is_bytes. Qed.

Lemma de64_le64_app v rest : v < two64 -> de64 (le64 v ++ rest) = v.
Proof.
  intros H. unfold de64, le64.
  rewrite firstn_app, le_bytes_length, Nat.sub_diag, firstn_O, app_nil_r.
  rewrite firstn_all2 by (rewrite le_bytes_length; lia).
  apply de_le_bytes_small. now rewrite <- two64_pow.
Qed.

Lemma de64_le64 v : v < two64 -> de64 (le64 v) = v.
Proof. intros H. rewrite <- (app_nil_r (le64 v)). now apply de64_le64_app. Qed.

Lemma de64_bound bs : is_bytes bs -> de64 bs < two64.
Proof.
  intros H. unfold de64.
  pose proof (de_bytes_bound (firstn 8 bs) (is_bytes_firstn 8 bs H)) as B.
  pose proof (firstn_le_length 8 bs) as L.
  eapply N.lt_le_trans; [exact B|]. rewrite two64_pow.
  apply N.pow_le_mono_r; lia.
Qed.

(** Two's-complement reading of a 64-bit word as Go's [int] (64-bit). *)
Local Open Scope Z_scope.
Definition int_of_u64 (n : N) : Z :=
  if (n <? two63)%N then Z.of_N n else Z.of_N n - Z.of_N two64.
Definition u64_of_int (z : Z) : N := Z.to_N (z mod Z.of_N two64).
Definition is_int64 (z : Z) : Prop := - Z.of_N two63 <= z < Z.of_N two63.

Ltac Zify.zify_post_hook ::= Z.div_mod_to_equations.

Lemma u64_of_int_bound z : (u64_of_int z < two64)%N.
Proof. unfold u64_of_int, two64. lia. Qed.

Lemma int_of_u64_of_int z : is_int64 z -> int_of_u64 (u64_of_int z) = z.
Proof.
  unfold is_int64, int_of_u64, u64_of_int, two63, two64. intros H.
  destruct (N.ltb_spec (Z.to_N (z mod Z.of_N 18446744073709551616)) 9223372036854775808); lia.
Qed.

Lemma u64_of_int_of_u64 n : (n < two64)%N -> u64_of_int (int_of_u64 n) = n.
Proof.
  unfold int_of_u64, u64_of_int, two63, two64. intros H.
  destruct (N.ltb_spec n 9223372036854775808); lia.
Qed.

Lemma int_of_u64_range n : (n < two64)%N -> is_int64 (int_of_u64 n).
Proof.
  unfold is_int64, int_of_u64, two63, two64. intros H.
  destruct (N.ltb_spec n 9223372036854775808); lia.
Qed.
