(** Go's lexical path functions on byte strings (unix): [path.Clean],
    [path.Join], [filepath.Join], [filepath.Dir], [filepath.Rel],
    [path.IsAbs], and the segment-level facts the containment proofs of C12
    and C17 rest on.  Bytes are [N]; a path is a [list N]; '/' = 47, '.' = 46.

    [clean] is written at the level of '/'-separated segments with an explicit
    stack, following the case analysis of Go's byte-level loop one to one
    (empty element, ".", "..", real element; "can backtrack" = the stack holds
    an element above the leading "../.." run).  The tie to the real functions
    is the correspondence stream "path" of C12/C17 (every short string over a
    small alphabet + random longer ones). *)
From Coq Require Import Ascii String.
From Coq Require Import List NArith Bool Lia.
Import ListNotations.
Local Open Scope N_scope.

Definition str := list N.
Definition slash : N := 47.
Definition dotc : N := 46.
Definition s_dot : str := [46].
Definition s_dotdot : str := [46; 46].
Definition s_slash : str := [47].

(** Byte string of a Coq string literal (for examples). *)
Definition bs (s : string) : str := map N_of_ascii (list_ascii_of_string s).

Fixpoint str_eqb (a b : str) : bool :=
  match a, b with
  | [], [] => true
  | x :: a', y :: b' => (x =? y) && str_eqb a' b'
  | _, _ => false
  end.

Definition is_empty (s : str) : bool := match s with [] => true | _ => false end.

Definition is_rooted (p : str) : bool :=
  match p with c :: _ => c =? slash | [] => false end.

(** [strings.HasPrefix] *)
Fixpoint has_prefix (s pre : str) {struct pre} : bool :=
  match pre, s with
  | [], _ => true
  | x :: pre', y :: s' => (x =? y) && has_prefix s' pre'
  | _ :: _, [] => false
  end.

(** [strings.TrimPrefix s "/"] *)
Definition trim_slash (s : str) : str :=
  match s with c :: r => if c =? slash then r else s | [] => [] end.

(** Byte-wise string order (Go's [<] on strings). *)
Fixpoint str_ltb (a b : str) : bool :=
  match a, b with
  | _, [] => false
  | [], _ :: _ => true
  | x :: a', y :: b' => (x <? y) || ((x =? y) && str_ltb a' b')
  end.


(** ** Splitting on '/' *)

Fixpoint split1 (s : str) : str * list str :=
  match s with
  | [] => ([], [])
  | c :: r =>
      let '(seg, segs) := split1 r in
      if c =? slash then ([], seg :: segs) else (c :: seg, segs)
  end.

(** [strings.Split s "/"]: n separators give n+1 segments. *)
Definition split_slash (s : str) : list str :=
  let '(a, l) := split1 s in a :: l.

(** [strings.Join l "/"] *)
Fixpoint join_slash (l : list str) : str :=
  match l with
  | [] => []
  | [a] => a
  | a :: r => a ++ slash :: join_slash r
  end.

Definition noslashb (s : str) : bool := forallb (fun c => negb (c =? slash)) s.

(** A real path element: not "", ".", "..". *)
Definition normalb (seg : str) : bool :=
  negb (is_empty seg) && negb (str_eqb seg s_dot) && negb (str_eqb seg s_dotdot).

(** A segment a clean path may contain besides a leading "..". *)
Definition goodb (seg : str) : bool := normalb seg && noslashb seg.

(** ** Clean *)

(** One element of the input against the output stack [st] (top first). *)
Definition clean_step (rooted : bool) (st : list str) (seg : str) : list str :=
  if is_empty seg then st
  else if str_eqb seg s_dot then st
  else if str_eqb seg s_dotdot then
    match st with
    | top :: rest =>
        if rooted then rest
        else if str_eqb top s_dotdot then seg :: st   (* at the ../.. prefix *)
        else rest
    | [] => if rooted then [] else [seg]
    end
  else seg :: st.

Definition norm_from (rooted : bool) (st : list str) (segs : list str) : list str :=
  fold_left (clean_step rooted) segs st.

Definition norm (rooted : bool) (segs : list str) : list str :=
  rev (norm_from rooted [] segs).

(** Canonical segments of a path. *)
Definition nsegs (p : str) : list str := norm (is_rooted p) (split_slash p).

Definition render (rooted : bool) (l : list str) : str :=
  if rooted then slash :: join_slash l
  else match l with [] => s_dot | _ => join_slash l end.

Definition clean (p : str) : str :=
  match p with
  | [] => s_dot
  | _ => render (is_rooted p) (nsegs p)
  end.

(** ** Join *)

(** [path.Join]: the buffer loop, then [Clean]; "" when every element is "". *)
Definition join_buf (elems : list str) : str :=
  fold_left (fun buf e =>
    if negb (is_empty buf) || negb (is_empty e) then
      (if negb (is_empty buf) then buf ++ [slash] else buf) ++ e
    else buf) elems [].

Definition path_join (elems : list str) : str :=
  if forallb is_empty elems then [] else clean (join_buf elems).

Fixpoint drop_empty (l : list str) : list str :=
  match l with
  | [] => []
  | a :: r => if is_empty a then drop_empty r else l
  end.

(** [filepath.Join] on unix: from the first non-empty element on,
    [Clean(strings.Join(elem[i:], "/"))]. *)
Definition filepath_join (elems : list str) : str :=
  match drop_empty elems with
  | [] => []
  | l => clean (join_slash l)
  end.

(** ** Dir *)

(** [path[:i+1]] with [i] the index of the last '/' (or -1). *)
Fixpoint upto_last_slash (s : str) : str :=
  match s with
  | [] => []
  | c :: r =>
      match upto_last_slash r with
      | [] => if c =? slash then [c] else []
      | u => c :: u
      end
  end.

Definition dir_of (p : str) : str := clean (upto_last_slash p).

(** ** Rel *)

Fixpoint strip_common (b t : list str) : list str * list str :=
  match b, t with
  | x :: b', y :: t' => if str_eqb x y then strip_common b' t' else (b, t)
  | _, _ => (b, t)
  end.

Fixpoint repeat_seg (s : str) (n : nat) : list str :=
  match n with O => [] | S n' => s :: repeat_seg s n' end.

(** Elements of the cleaned target as [Rel] walks them: only the base has
    "." turned into the empty path, so a target "." is one element ".". *)
Definition targ_segs (ct : str) : list str :=
  if str_eqb ct s_dot then [s_dot] else nsegs ct.

(** [filepath.Rel base targ] on unix; [None] = "can't make relative". *)
Definition filepath_rel (base targ : str) : option str :=
  let cb := clean base in
  let ct := clean targ in
  if str_eqb ct cb then Some s_dot
  else if negb (Bool.eqb (is_rooted cb) (is_rooted ct)) then None
  else
    let '(b', t') := strip_common (nsegs cb) (targ_segs ct) in
    match b' with
    | [] => Some (join_slash t')
    | x :: _ =>
        (* the next base element is "..": no way to name it from below *)
        if str_eqb x s_dotdot then None
        else Some (join_slash (repeat_seg s_dotdot (length b') ++ t'))
    end.

(** The containment test used by the repaired extractors:
    [rel, err := filepath.Rel(dir, p); err == nil && rel != ".." &&
     !strings.HasPrefix(rel, "../")]. *)
Definition in_dir (dir p : str) : bool :=
  match filepath_rel dir p with
  | None => false
  | Some r => negb (str_eqb r s_dotdot) && negb (has_prefix r (s_dotdot ++ [slash]))
  end.

(** ** Resolution against a working directory (no symbolic links) *)

(** Absolute position named by [p] when the working directory is [cwd]
    (a list of real elements from the root).  [None]: the empty path, which
    every system call rejects. *)
Definition resolve (cwd : list str) (p : str) : option (list str) :=
  match p with
  | [] => None
  | _ => Some (rev (norm_from true (if is_rooted p then [] else rev cwd) (split_slash p)))
  end.

(** * Facts *)

Lemma str_eqb_refl a : str_eqb a a = true.
Proof. induction a as [|x a IH]; cbn; [reflexivity|]. now rewrite N.eqb_refl, IH. Qed.

Lemma str_eqb_eq a b : str_eqb a b = true <-> a = b.
Proof.
  split.
  - revert b; induction a as [|x a IH]; intros [|y b]; cbn; try discriminate; [reflexivity|].
    intros H. apply andb_true_iff in H as [H1 H2]. apply N.eqb_eq in H1. subst.
    f_equal. now apply IH.
  - intros ->. apply str_eqb_refl.
Qed.

Lemma str_eqb_neq a b : str_eqb a b = false <-> a <> b.
Proof.
  split.
  - intros H E. apply str_eqb_eq in E. congruence.
  - intros H. destruct (str_eqb a b) eqn:E; [|reflexivity]. apply str_eqb_eq in E. contradiction.
Qed.

Lemma has_prefix_spec s pre : has_prefix s pre = true <-> exists r, s = pre ++ r.
Proof.
  revert s; induction pre as [|x pre IH]; intros s; cbn.
  - split; [intros _; now exists s|reflexivity].
  - destruct s as [|y s].
    + split; [discriminate|]. intros [r H]. discriminate.
    + rewrite andb_true_iff, N.eqb_eq, IH. split.
      * intros [-> [r ->]]. now exists r.
      * intros [r H]. injection H as -> ->. split; [reflexivity|now exists r].
Qed.

(** *** split / join *)

Lemma split_slash_nil : split_slash [] = [[]].
Proof. reflexivity. Qed.

Lemma split_slash_cons_slash r : split_slash (slash :: r) = [] :: split_slash r.
Proof. unfold split_slash. cbn. destruct (split1 r). reflexivity. Qed.

Lemma split_slash_cons_other c r :
  (c =? slash) = false ->
  split_slash (c :: r) =
  match split_slash r with a :: l => (c :: a) :: l | [] => [[c]] end.
Proof. intros H. unfold split_slash. cbn. destruct (split1 r). now rewrite H. Qed.

Lemma split_slash_nonempty s : split_slash s <> [].
Proof. unfold split_slash. destruct (split1 s). discriminate. Qed.

Lemma split_slash_app_slash a b :
  split_slash (a ++ slash :: b) = split_slash a ++ split_slash b.
Proof.
  induction a as [|c a IH]; cbn [app].
  - now rewrite split_slash_cons_slash.
  - destruct (c =? slash) eqn:E.
    + apply N.eqb_eq in E. subst c. rewrite !split_slash_cons_slash, IH. reflexivity.
    + rewrite !split_slash_cons_other by exact E. rewrite IH.
      destruct (split_slash a) as [|x l] eqn:Ea; [now apply split_slash_nonempty in Ea|].
      reflexivity.
Qed.

Lemma split_noslash s : noslashb s = true -> split_slash s = [s].
Proof.
  induction s as [|c s IH]; [reflexivity|]. cbn. intros H.
  apply andb_true_iff in H as [H1 H2]. apply negb_true_iff in H1.
  rewrite split_slash_cons_other by exact H1. now rewrite IH.
Qed.

Lemma join_split s : join_slash (split_slash s) = s.
Proof.
  induction s as [|c s IH]; [reflexivity|].
  destruct (c =? slash) eqn:E.
  - apply N.eqb_eq in E. subst c. rewrite split_slash_cons_slash.
    destruct (split_slash s) as [|x l] eqn:Es; [now apply split_slash_nonempty in Es|].
    cbn [join_slash app]. cbn [join_slash] in IH. now rewrite IH.
  - rewrite split_slash_cons_other by exact E.
    destruct (split_slash s) as [|x l] eqn:Es; [now apply split_slash_nonempty in Es|].
    destruct l as [|y l]; cbn [join_slash] in *; cbn [app]; now rewrite IH.
Qed.

Lemma split_join l :
  l <> [] -> forallb noslashb l = true -> split_slash (join_slash l) = l.
Proof.
  induction l as [|a l IH]; [congruence|]. intros _ H.
  cbn in H. apply andb_true_iff in H as [Ha Hl].
  destruct l as [|b l].
  - cbn. now apply split_noslash.
  - change (join_slash (a :: b :: l)) with (a ++ slash :: join_slash (b :: l)).
    rewrite split_slash_app_slash, split_noslash by exact Ha.
    rewrite IH; [reflexivity|discriminate|exact Hl].
Qed.

Lemma split_slash_noslash s : forallb noslashb (split_slash s) = true.
Proof.
  induction s as [|c s IH]; [reflexivity|].
  destruct (c =? slash) eqn:E.
  - apply N.eqb_eq in E. subst c. rewrite split_slash_cons_slash. exact IH.
  - rewrite split_slash_cons_other by exact E.
    destruct (split_slash s) as [|x l]; cbn in *; rewrite E; cbn; [reflexivity|exact IH].
Qed.

Lemma join_slash_app a b :
  a <> [] -> b <> [] -> join_slash (a ++ b) = join_slash a ++ slash :: join_slash b.
Proof.
  induction a as [|x a IH]; [congruence|]. intros _ Hb.
  destruct a as [|y a].
  - cbn [app join_slash]. destruct b; [congruence|reflexivity].
  - cbn [app join_slash] in *. rewrite IH by (discriminate || exact Hb).
    now rewrite <- app_assoc.
Qed.

(** *** the cleaning step *)

Lemma clean_step_empty r st : clean_step r st [] = st.
Proof. reflexivity. Qed.

Lemma clean_step_dot r st : clean_step r st s_dot = st.
Proof. reflexivity. Qed.

Lemma clean_step_normal r st seg : normalb seg = true -> clean_step r st seg = seg :: st.
Proof.
  unfold normalb, clean_step. intros H.
  apply andb_true_iff in H as [H H3]. apply andb_true_iff in H as [H1 H2].
  apply negb_true_iff in H1, H2, H3. now rewrite H1, H2, H3.
Qed.

Lemma normalb_not_dotdot seg : normalb seg = true -> str_eqb seg s_dotdot = false.
Proof.
  unfold normalb. intros H. apply andb_true_iff in H as [_ H]. now apply negb_true_iff in H.
Qed.

Lemma norm_from_app r st a b :
  norm_from r st (a ++ b) = norm_from r (norm_from r st a) b.
Proof. apply fold_left_app. Qed.

Lemma norm_from_normal r st l :
  forallb normalb l = true -> norm_from r st l = rev l ++ st.
Proof.
  revert st; induction l as [|x l IH]; intros st H; [reflexivity|].
  cbn in H. apply andb_true_iff in H as [Hx Hl].
  cbn [norm_from fold_left]. rewrite clean_step_normal by exact Hx.
  change (fold_left (clean_step r) l (x :: st)) with (norm_from r (x :: st) l).
  rewrite IH by exact Hl. cbn [rev]. now rewrite <- app_assoc.
Qed.

Lemma norm_app_normal r a b :
  forallb normalb b = true -> norm r (a ++ b) = norm r a ++ b.
Proof.
  intros H. unfold norm. rewrite norm_from_app, norm_from_normal by exact H.
  now rewrite rev_app_distr, rev_involutive.
Qed.

Lemma norm_from_skip_empty r st l : norm_from r st ([] :: l) = norm_from r st l.
Proof. reflexivity. Qed.

(** Rooted: the stack only ever holds real elements. *)
Lemma clean_step_rooted_normal st seg :
  forallb normalb st = true -> forallb normalb (clean_step true st seg) = true.
Proof.
  intros H. unfold clean_step.
  destruct (is_empty seg) eqn:E1; [exact H|].
  destruct (str_eqb seg s_dot) eqn:E2; [exact H|].
  destruct (str_eqb seg s_dotdot) eqn:E3.
  - destruct st as [|t rest]; [reflexivity|]. cbn in H. now apply andb_true_iff in H as [_ H].
  - cbn. rewrite H, andb_true_r. unfold normalb. now rewrite E1, E2, E3.
Qed.

Lemma norm_from_rooted_normal st l :
  forallb normalb st = true -> forallb normalb (norm_from true st l) = true.
Proof.
  revert st; induction l as [|x l IH]; intros st H; [exact H|].
  cbn [norm_from fold_left]. apply IH. now apply clean_step_rooted_normal.
Qed.

Lemma forallb_rev {A} (f : A -> bool) l : forallb f (rev l) = forallb f l.
Proof.
  induction l as [|x l IH]; [reflexivity|]. cbn. rewrite forallb_app, IH. cbn.
  rewrite andb_true_r. apply andb_comm.
Qed.

Lemma norm_rooted_normal l : forallb normalb (norm true l) = true.
Proof. unfold norm. rewrite forallb_rev. now apply norm_from_rooted_normal. Qed.

(** No slash is ever introduced. *)
Lemma clean_step_noslash r st seg :
  forallb noslashb st = true -> noslashb seg = true ->
  forallb noslashb (clean_step r st seg) = true.
Proof.
  intros H Hs. unfold clean_step.
  destruct (is_empty seg); [exact H|].
  destruct (str_eqb seg s_dot); [exact H|].
  destruct (str_eqb seg s_dotdot).
  - destruct st as [|t rest].
    + destruct r; [reflexivity|]. cbn. now rewrite Hs.
    + cbn in H. apply andb_true_iff in H as [Ht Hr].
      destruct r; [exact Hr|]. destruct (str_eqb t s_dotdot); [|exact Hr].
      cbn. now rewrite Hs, Ht, Hr.
  - cbn. now rewrite Hs, H.
Qed.

Lemma norm_from_noslash r st l :
  forallb noslashb st = true -> forallb noslashb l = true ->
  forallb noslashb (norm_from r st l) = true.
Proof.
  revert st; induction l as [|x l IH]; intros st H Hl; [exact H|].
  cbn in Hl. apply andb_true_iff in Hl as [Hx Hl].
  cbn [norm_from fold_left]. apply IH; [|exact Hl]. now apply clean_step_noslash.
Qed.

Lemma norm_noslash r l : forallb noslashb l = true -> forallb noslashb (norm r l) = true.
Proof. intros H. unfold norm. rewrite forallb_rev. now apply norm_from_noslash. Qed.

Lemma nsegs_noslash p : forallb noslashb (nsegs p) = true.
Proof. apply norm_noslash, split_slash_noslash. Qed.

(** Unrooted: the output is a run of ".." followed by real elements.  As a
    stack (top first): real elements above a run of "..". *)
Definition dd_stack (st : list str) : Prop :=
  exists ns k, st = ns ++ repeat_seg s_dotdot k /\ forallb normalb ns = true.

Lemma clean_step_unrooted_shape st seg : dd_stack st -> dd_stack (clean_step false st seg).
Proof.
  intros (ns & k & -> & Hn). unfold clean_step.
  destruct (is_empty seg) eqn:E1; [now exists ns, k|].
  destruct (str_eqb seg s_dot) eqn:E2; [now exists ns, k|].
  destruct (str_eqb seg s_dotdot) eqn:E3.
  - apply str_eqb_eq in E3. subst seg.
    destruct ns as [|t ns]; cbn [app].
    + destruct k as [|k]; cbn [repeat_seg].
      * exists [], 1%nat. split; reflexivity.
      * exists [], (S (S k)). split; reflexivity.
    + cbn in Hn. apply andb_true_iff in Hn as [Ht Hn].
      rewrite (normalb_not_dotdot t Ht). now exists ns, k.
  - exists (seg :: ns), k. split; [reflexivity|]. cbn. rewrite Hn, andb_true_r.
    unfold normalb. now rewrite E1, E2, E3.
Qed.

Lemma norm_from_unrooted_shape st l : dd_stack st -> dd_stack (norm_from false st l).
Proof.
  revert st; induction l as [|x l IH]; intros st H; [exact H|].
  cbn [norm_from fold_left]. apply IH. now apply clean_step_unrooted_shape.
Qed.

(** A clean segment list: what [norm r] produces. *)
Definition shaped (r : bool) (l : list str) : Prop :=
  if r then forallb normalb l = true
  else exists k ns, l = repeat_seg s_dotdot k ++ ns /\ forallb normalb ns = true.

Lemma rev_repeat_seg s k : rev (repeat_seg s k) = repeat_seg s k.
Proof.
  induction k as [|k IH]; [reflexivity|]. cbn. rewrite IH.
  clear IH. induction k as [|k IH]; [reflexivity|]. cbn. now rewrite IH.
Qed.

Lemma norm_shaped r l : shaped r (norm r l).
Proof.
  destruct r; cbn.
  - apply norm_rooted_normal.
  - unfold norm.
    destruct (norm_from_unrooted_shape [] l) as (ns & k & E & Hn).
    { exists [], 0%nat. split; reflexivity. }
    rewrite E. exists k, (rev ns). split.
    + now rewrite rev_app_distr, rev_repeat_seg.
    + now rewrite forallb_rev.
Qed.

Lemma norm_from_dotdots_unrooted k st0 :
  (exists j, st0 = repeat_seg s_dotdot j) ->
  norm_from false st0 (repeat_seg s_dotdot k) = repeat_seg s_dotdot k ++ st0.
Proof.
  revert st0; induction k as [|k IH]; intros st0 [j ->]; [reflexivity|].
  cbn [repeat_seg norm_from fold_left].
  assert (E : clean_step false (repeat_seg s_dotdot j) s_dotdot = repeat_seg s_dotdot (S j)).
  { destruct j; reflexivity. }
  rewrite E. change (fold_left (clean_step false) (repeat_seg s_dotdot k) (repeat_seg s_dotdot (S j)))
    with (norm_from false (repeat_seg s_dotdot (S j)) (repeat_seg s_dotdot k)).
  rewrite IH by (now exists (S j)).
  cbn [repeat_seg]. clear. induction k as [|k IH]; [reflexivity|].
  cbn [repeat_seg app]. f_equal. exact IH.
Qed.

(** Cleaning a clean list changes nothing. *)
Lemma norm_shaped_id r l : shaped r l -> norm r l = l.
Proof.
  destruct r; cbn.
  - intros H. unfold norm. rewrite norm_from_normal by exact H.
    now rewrite app_nil_r, rev_involutive.
  - intros (k & ns & -> & Hn). unfold norm.
    rewrite norm_from_app, norm_from_dotdots_unrooted by (now exists 0%nat).
    rewrite app_nil_r, norm_from_normal by exact Hn.
    now rewrite rev_app_distr, rev_involutive, rev_repeat_seg.
Qed.

Lemma norm_idem r l : norm r (norm r l) = norm r l.
Proof. apply norm_shaped_id, norm_shaped. Qed.

(** *** render / nsegs *)

Lemma is_rooted_join_unrooted x l :
  noslashb x = true -> is_empty x = false -> is_rooted (join_slash (x :: l)) = false.
Proof.
  intros Hn He. destruct x as [|c x]; [discriminate|].
  cbn in Hn. apply andb_true_iff in Hn as [Hc _]. apply negb_true_iff in Hc.
  destruct l; cbn; exact Hc.
Qed.

Lemma shaped_head_nonempty r x l : shaped r (x :: l) -> is_empty x = false.
Proof.
  destruct r; cbn.
  - intros H. apply andb_true_iff in H as [H _]. unfold normalb in H.
    destruct x; [discriminate|reflexivity].
  - intros (k & ns & E & Hn). destruct k as [|k]; cbn in E.
    + subst ns. cbn in Hn. apply andb_true_iff in Hn as [H _].
      destruct x; [discriminate|reflexivity].
    + injection E as -> _. reflexivity.
Qed.

Lemma render_rooted r l :
  shaped r l -> forallb noslashb l = true -> is_rooted (render r l) = r.
Proof.
  intros Hs Hn. destruct r; [reflexivity|]. cbn.
  destruct l as [|x l]; [reflexivity|].
  cbn in Hn. apply andb_true_iff in Hn as [Hx _].
  apply is_rooted_join_unrooted; [exact Hx|]. now apply (shaped_head_nonempty false x l).
Qed.

Lemma nsegs_render r l :
  shaped r l -> forallb noslashb l = true -> nsegs (render r l) = l.
Proof.
  intros Hs Hn. unfold nsegs. rewrite render_rooted by assumption.
  destruct r; cbn [render].
  - rewrite split_slash_cons_slash.
    destruct l as [|x l].
    + reflexivity.
    + rewrite split_join by (discriminate || exact Hn).
      unfold norm. rewrite norm_from_skip_empty. now apply (norm_shaped_id true).
  - destruct l as [|x l]; [reflexivity|].
    rewrite split_join by (discriminate || exact Hn). now apply (norm_shaped_id false).
Qed.

Lemma clean_render p : clean p = render (is_rooted p) (nsegs p).
Proof. destruct p; reflexivity. Qed.

Lemma nsegs_shaped p : shaped (is_rooted p) (nsegs p).
Proof. apply norm_shaped. Qed.

Lemma clean_is_rooted p : is_rooted (clean p) = is_rooted p.
Proof. rewrite clean_render. apply render_rooted; [apply nsegs_shaped|apply nsegs_noslash]. Qed.

Lemma nsegs_clean p : nsegs (clean p) = nsegs p.
Proof. rewrite clean_render. apply nsegs_render; [apply nsegs_shaped|apply nsegs_noslash]. Qed.

(** [Clean] is idempotent. *)
Theorem clean_idem p : clean (clean p) = clean p.
Proof.
  rewrite (clean_render (clean p)), clean_is_rooted, nsegs_clean. symmetry. apply clean_render.
Qed.

Lemma clean_nonempty p : clean p <> [].
Proof.
  rewrite clean_render.
  pose proof (nsegs_shaped p) as Hs. pose proof (nsegs_noslash p) as Hn.
  destruct (is_rooted p); cbn [render]; [discriminate|].
  destruct (nsegs p) as [|x l]; [discriminate|].
  assert (Hx : is_empty x = false) by (eapply shaped_head_nonempty; exact Hs).
  destruct x; [discriminate|]. destruct l; discriminate.
Qed.

(** A rooted clean path has only real elements: no "", ".", "..". *)
Theorem clean_rooted_segments p :
  is_rooted p = true ->
  clean p = slash :: join_slash (nsegs p) /\ forallb goodb (nsegs p) = true.
Proof.
  intros R. split.
  - rewrite clean_render, R. reflexivity.
  - pose proof (nsegs_shaped p) as Hs. rewrite R in Hs. cbn in Hs.
    pose proof (nsegs_noslash p) as Hn.
    unfold goodb. revert Hs Hn. generalize (nsegs p). intros l.
    induction l as [|x l IH]; [reflexivity|]. cbn. intros H1 H2.
    apply andb_true_iff in H1 as [-> H1]. apply andb_true_iff in H2 as [-> H2].
    cbn. now apply IH.
Qed.

(** An unrooted clean path: ".." only as a leading run. *)
Theorem clean_unrooted_segments p :
  is_rooted p = false ->
  exists k ns, nsegs p = repeat_seg s_dotdot k ++ ns /\ forallb goodb ns = true.
Proof.
  intros R. pose proof (nsegs_shaped p) as Hs. rewrite R in Hs. cbn in Hs.
  destruct Hs as (k & ns & E & Hn). exists k, ns. split; [exact E|].
  pose proof (nsegs_noslash p) as H. rewrite E, forallb_app in H.
  apply andb_true_iff in H as [_ H]. unfold goodb.
  revert Hn H. clear. induction ns as [|x l IH]; [reflexivity|]. cbn. intros H1 H2.
  apply andb_true_iff in H1 as [-> H1]. apply andb_true_iff in H2 as [-> H2].
  cbn. now apply IH.
Qed.

(** *** Joining *)

Lemma nsegs_app_slash_rooted a b :
  is_rooted a = true ->
  nsegs (a ++ slash :: b) = rev (norm_from true (rev (nsegs a)) (split_slash b)).
Proof.
  intros R. unfold nsegs.
  assert (R' : is_rooted (a ++ slash :: b) = true) by (destruct a; [discriminate|exact R]).
  rewrite R', R, split_slash_app_slash. unfold norm.
  now rewrite norm_from_app, rev_involutive.
Qed.

(** The containment lemma: appending real elements to a rooted path stays
    beneath it, element for element. *)
Lemma nsegs_rooted_append a l :
  is_rooted a = true -> forallb normalb l = true -> l <> [] -> forallb noslashb l = true ->
  nsegs (a ++ slash :: join_slash l) = nsegs a ++ l.
Proof.
  intros R Hl Hne Hn. rewrite nsegs_app_slash_rooted by exact R.
  rewrite split_join by assumption. rewrite norm_from_normal by exact Hl.
  now rewrite rev_app_distr, !rev_involutive.
Qed.

Lemma seg_cases x : x = [] \/ x = s_dot \/ x = s_dotdot \/ normalb x = true.
Proof.
  unfold normalb. destruct x as [|c x]; [now left|right]. cbn [is_empty negb andb].
  destruct (str_eqb (c :: x) s_dot) eqn:E1; [left; now apply str_eqb_eq|right].
  destruct (str_eqb (c :: x) s_dotdot) eqn:E2; [left; now apply str_eqb_eq|right]. reflexivity.
Qed.

Lemma clean_step_dotdot_unrooted_dd k :
  clean_step false (repeat_seg s_dotdot k) s_dotdot = s_dotdot :: repeat_seg s_dotdot k.
Proof. destruct k; reflexivity. Qed.

Lemma clean_step_dotdot_unrooted_normal t rest :
  normalb t = true -> clean_step false (t :: rest) s_dotdot = rest.
Proof. intros H. unfold clean_step. cbn. now rewrite (normalb_not_dotdot t H). Qed.

Lemma prenorm_step st S x :
  dd_stack S ->
  norm_from true st (rev (clean_step false S x)) = clean_step true (norm_from true st (rev S)) x.
Proof.
  intros (ns & k & -> & Hn).
  destruct (seg_cases x) as [->|[->|[->|Hx]]].
  - reflexivity.
  - reflexivity.
  - destruct ns as [|t ns]; cbn [app].
    + rewrite clean_step_dotdot_unrooted_dd. cbn [rev]. now rewrite norm_from_app.
    + cbn in Hn. apply andb_true_iff in Hn as [Ht Hn].
      rewrite clean_step_dotdot_unrooted_normal by exact Ht.
      cbn [rev]. rewrite norm_from_app. cbn [norm_from fold_left].
      now rewrite (clean_step_normal true _ t Ht).
  - rewrite !clean_step_normal by exact Hx. cbn [rev]. rewrite norm_from_app.
    cbn [norm_from fold_left]. now rewrite clean_step_normal by exact Hx.
Qed.

(** Pre-cleaning an unrooted suffix does not change where it leads from a
    rooted position. *)
Lemma norm_from_rooted_prenorm st segs :
  norm_from true st (norm false segs) = norm_from true st segs.
Proof.
  induction segs as [|x segs IH] using rev_ind; [reflexivity|].
  unfold norm in *. rewrite !norm_from_app. cbn [norm_from fold_left].
  change (fold_left (clean_step false) segs []) with (norm_from false [] segs).
  change (fold_left (clean_step true) segs st) with (norm_from true st segs).
  rewrite <- IH. apply prenorm_step. apply norm_from_unrooted_shape.
  exists [], 0%nat. split; reflexivity.
Qed.

Lemma resolve_via_nsegs cwd p :
  p <> [] ->
  resolve cwd p = Some (rev (norm_from true (if is_rooted p then [] else rev cwd) (nsegs p))).
Proof.
  intros Hp. unfold resolve. destruct p as [|c p']; [congruence|]. f_equal. f_equal.
  unfold nsegs. destruct (is_rooted (c :: p')) eqn:R.
  - rewrite (norm_from_normal true [] (norm true (split_slash (c :: p')))) by apply norm_rooted_normal.
    unfold norm. now rewrite rev_involutive, app_nil_r.
  - symmetry. apply norm_from_rooted_prenorm.
Qed.

Lemma resolve_clean cwd p : p <> [] -> resolve cwd (clean p) = resolve cwd p.
Proof.
  intros Hp. rewrite (resolve_via_nsegs cwd (clean p)) by apply clean_nonempty.
  rewrite (resolve_via_nsegs cwd p Hp), clean_is_rooted, nsegs_clean. reflexivity.
Qed.

Lemma resolve_shape cwd p k :
  forallb normalb cwd = true -> resolve cwd p = Some k -> forallb normalb k = true.
Proof.
  intros Hc. unfold resolve. destruct p as [|c p]; [discriminate|]. intros [= <-].
  rewrite forallb_rev. apply norm_from_rooted_normal.
  cbn [is_rooted]. destruct (c =? slash); [reflexivity|]. now rewrite forallb_rev.
Qed.

(** Prefix order on positions. *)
Fixpoint is_prefix (a b : list str) : bool :=
  match a, b with
  | [], _ => true
  | x :: a', y :: b' => str_eqb x y && is_prefix a' b'
  | _ :: _, [] => false
  end.

Lemma is_prefix_spec a b : is_prefix a b = true <-> exists r, b = a ++ r.
Proof.
  revert b; induction a as [|x a IH]; intros b; cbn.
  - split; [intros _; now exists b|reflexivity].
  - destruct b as [|y b].
    + split; [discriminate|]. intros [r H]. discriminate.
    + rewrite andb_true_iff, str_eqb_eq, IH. split.
      * intros [-> [r ->]]. now exists r.
      * intros [r H]. injection H as -> ->. split; [reflexivity|now exists r].
Qed.

Lemma is_prefix_refl a : is_prefix a a = true.
Proof. apply is_prefix_spec. exists []. now rewrite app_nil_r. Qed.

Lemma is_prefix_app a r : is_prefix a (a ++ r) = true.
Proof. apply is_prefix_spec. now exists r. Qed.

Lemma is_prefix_trans a b c : is_prefix a b = true -> is_prefix b c = true -> is_prefix a c = true.
Proof.
  rewrite !is_prefix_spec. intros [r ->] [s ->]. exists (r ++ s). now rewrite app_assoc.
Qed.

Definition comparable (a b : list str) : bool := is_prefix a b || is_prefix b a.

(** Two prefixes of one list are comparable. *)
Lemma prefixes_comparable a b c :
  is_prefix a c = true -> is_prefix b c = true -> comparable a b = true.
Proof.
  revert b c; induction a as [|x a IH]; intros b c Ha Hb; [reflexivity|].
  destruct b as [|y b]; [reflexivity|].
  destruct c as [|z c]; [discriminate|].
  cbn in Ha, Hb. apply andb_true_iff in Ha as [Hx Ha]. apply andb_true_iff in Hb as [Hy Hb].
  apply str_eqb_eq in Hx, Hy. subst.
  specialize (IH b c Ha Hb). unfold comparable in *. cbn. now rewrite str_eqb_refl.
Qed.

(** *** Dir *)

Lemma upto_last_slash_split s :
  exists last, noslashb last = true /\ s = upto_last_slash s ++ last /\
    (upto_last_slash s = [] \/ exists pre, upto_last_slash s = pre ++ [slash]).
Proof.
  induction s as [|c s (last & Hl & Hs & Hu)].
  - exists []. repeat split. now left.
  - cbn [upto_last_slash]. destruct (upto_last_slash s) as [|u0 u] eqn:Eu.
    + destruct (c =? slash) eqn:Ec.
      * apply N.eqb_eq in Ec. subst c. exists last. split; [exact Hl|]. split.
        -- cbn. now rewrite Hs at 1.
        -- right. now exists [].
      * exists (c :: last). split; [cbn; now rewrite Ec|]. split.
        -- cbn. now rewrite Hs at 1.
        -- now left.
    + exists last. split; [exact Hl|]. split.
      * cbn [app]. now rewrite Hs at 1.
      * right. destruct Hu as [Hu|[pre Hu]]; [discriminate|]. exists (c :: pre). cbn. now rewrite Hu.
Qed.

Lemma split_slash_snoc_slash pre : split_slash (pre ++ [slash]) = split_slash pre ++ [[]].
Proof. now rewrite split_slash_app_slash. Qed.

Lemma norm_from_snoc_empty r st l : norm_from r st (l ++ [[]]) = norm_from r st l.
Proof. now rewrite norm_from_app. Qed.

Lemma is_rooted_app a b : a <> [] -> is_rooted (a ++ b) = is_rooted a.
Proof. destruct a; [congruence|reflexivity]. Qed.

Lemma resolve_nonempty cwd p :
  p <> [] ->
  resolve cwd p = Some (rev (norm_from true (if is_rooted p then [] else rev cwd) (split_slash p))).
Proof. destruct p; [congruence|reflexivity]. Qed.

Lemma step_comparable S x : comparable (rev S) (rev (clean_step true S x)) = true.
Proof.
  unfold comparable. destruct (seg_cases x) as [->|[->|[->|Hx]]].
  - rewrite clean_step_empty, is_prefix_refl. reflexivity.
  - rewrite clean_step_dot, is_prefix_refl. reflexivity.
  - destruct S as [|t rest]; [reflexivity|].
    change (clean_step true (t :: rest) s_dotdot) with rest. cbn [rev].
    now rewrite is_prefix_app, orb_true_r.
  - rewrite clean_step_normal by exact Hx. cbn [rev]. now rewrite is_prefix_app.
Qed.

(** The directory of a path and the path itself never diverge: one position
    is an ancestor of (or equal to) the other. *)
Lemma resolve_dir_of_comparable cwd p k :
  resolve cwd p = Some k ->
  exists kd, resolve cwd (dir_of p) = Some kd /\ comparable kd k = true.
Proof.
  intros Hk. unfold dir_of.
  destruct (upto_last_slash_split p) as (last & Hl & Hs & Hu).
  destruct Hu as [Hu|[pre Hu]]; rewrite Hu in *.
  - (* no slash: Dir = "." *)
    cbn [app] in Hs. subst last.
    exists cwd. split.
    { unfold resolve. cbn. now rewrite rev_involutive. }
    unfold resolve in Hk. destruct p as [|c p']; [discriminate|]. injection Hk as <-.
    assert (R : (c =? slash) = false).
    { cbn in Hl. apply andb_true_iff in Hl as [Hc _]. now apply negb_true_iff in Hc. }
    rewrite R, split_noslash by exact Hl. cbn [norm_from fold_left].
    rewrite <- (rev_involutive cwd) at 1. apply step_comparable.
  - (* p = pre ++ "/" ++ last *)
    assert (Hune : pre ++ [slash] <> []) by (destruct pre; discriminate).
    rewrite resolve_clean by exact Hune.
    assert (R : is_rooted p = is_rooted (pre ++ [slash])).
    { rewrite Hs. apply is_rooted_app. exact Hune. }
    assert (Hp : p <> []) by (rewrite Hs; destruct pre; discriminate).
    rewrite (resolve_nonempty cwd p Hp) in Hk. injection Hk as <-.
    rewrite (resolve_nonempty cwd _ Hune).
    eexists. split; [reflexivity|]. rewrite R.
    set (st0 := if is_rooted (pre ++ [slash]) then [] else rev cwd).
    rewrite Hs. rewrite <- app_assoc. cbn [app].
    rewrite !split_slash_app_slash. change (split_slash []) with [@nil N].
    rewrite norm_from_snoc_empty, norm_from_app, (split_noslash last Hl).
    cbn [norm_from fold_left]. apply step_comparable.
Qed.

(** *** Join of a directory and a name *)

Lemma drop_empty_cons_nonempty a l : is_empty a = false -> drop_empty (a :: l) = a :: l.
Proof. intros H. cbn. now rewrite H. Qed.

Lemma filepath_join2 d n :
  filepath_join [d; n] =
  if is_empty d then (if is_empty n then [] else clean n) else clean (d ++ slash :: n).
Proof.
  unfold filepath_join. destruct d as [|c d]; cbn [drop_empty is_empty].
  - destruct n; reflexivity.
  - reflexivity.
Qed.

Lemma filepath_join_clean l : filepath_join l = [] \/ clean (filepath_join l) = filepath_join l.
Proof.
  unfold filepath_join. destruct (drop_empty l); [now left|right]. apply clean_idem.
Qed.

(** Resolving [Join(d, n)] = walking [n]'s elements from where [d] leads. *)
Lemma resolve_join cwd d n kd :
  resolve cwd d = Some kd ->
  resolve cwd (filepath_join [d; n]) = Some (rev (norm_from true (rev kd) (split_slash n))).
Proof.
  intros Hd. rewrite filepath_join2. destruct d as [|c d]; [discriminate|]. cbn [is_empty].
  rewrite resolve_clean by discriminate.
  unfold resolve in *. injection Hd as <-. cbn [app]. f_equal. f_equal.
  change (c :: d ++ slash :: n) with ((c :: d) ++ slash :: n).
  rewrite split_slash_app_slash, norm_from_app, rev_involutive. reflexivity.
Qed.

(** *** The containment test *)

Lemma strip_common_spec b t b' t' :
  strip_common b t = (b', t') ->
  exists c, b = c ++ b' /\ t = c ++ t'.
Proof.
  revert t; induction b as [|x b IH]; intros t H.
  - cbn in H. injection H as <- <-. now exists [].
  - destruct t as [|y t]; [cbn in H; injection H as <- <-; now exists []|].
    cbn in H. destruct (str_eqb x y) eqn:E.
    + apply str_eqb_eq in E. subst y. destruct (IH _ H) as (c & -> & ->). now exists (x :: c).
    + injection H as <- <-. now exists [].
Qed.

Lemma join_dotdot_head rest :
  str_eqb (join_slash (s_dotdot :: rest)) s_dotdot = true \/
  has_prefix (join_slash (s_dotdot :: rest)) (s_dotdot ++ [slash]) = true.
Proof. destruct rest; [left|right]; reflexivity. Qed.

Ltac dotdot_head_contra H :=
  cbn [length repeat_seg app] in H;
  match type of H with
  | context [join_slash (s_dotdot :: ?r)] =>
      destruct (join_dotdot_head r) as [A|A]; rewrite A in H;
      cbn [negb andb] in H; try rewrite andb_false_r in H; discriminate
  end.

(** What a passed containment test says, in segments: the target's clean
    elements are the directory's followed by real elements only. *)
Lemma shaped_head_not_dot r x l : shaped r (x :: l) -> str_eqb x s_dot = false.
Proof.
  destruct r; cbn.
  - intros H. apply andb_true_iff in H as [H _]. unfold normalb in H.
    apply andb_true_iff in H as [H _]. apply andb_true_iff in H as [_ H]. now apply negb_true_iff in H.
  - intros (k & ns & E & Hn). destruct k as [|k]; cbn in E.
    + subst ns. cbn in Hn. apply andb_true_iff in Hn as [H _]. unfold normalb in H.
      apply andb_true_iff in H as [H _]. apply andb_true_iff in H as [_ H]. now apply negb_true_iff in H.
    + injection E as -> _. reflexivity.
Qed.

Theorem in_dir_segments dir p :
  in_dir dir p = true ->
  is_rooted (clean p) = is_rooted (clean dir) /\
  exists rest, nsegs (clean p) = nsegs (clean dir) ++ rest /\ forallb normalb rest = true.
Proof.
  unfold in_dir, filepath_rel.
  destruct (str_eqb (clean p) (clean dir)) eqn:Eeq.
  { apply str_eqb_eq in Eeq. intros _. rewrite Eeq. split; [reflexivity|].
    exists []. now rewrite app_nil_r. }
  destruct (Bool.eqb (is_rooted (clean dir)) (is_rooted (clean p))) eqn:Er; cbn [negb]; [|discriminate].
  apply Bool.eqb_prop in Er.
  unfold targ_segs. destruct (str_eqb (clean p) s_dot) eqn:Edot.
  { (* the target is ".": every other directory is refused *)
    apply str_eqb_eq in Edot. intros H. exfalso.
    pose proof (nsegs_shaped (clean dir)) as Hs. rewrite Er, Edot in Hs. cbn [is_rooted s_dot N.eqb] in Hs.
    destruct (nsegs (clean dir)) as [|x l] eqn:En.
    - apply str_eqb_neq in Eeq. apply Eeq. rewrite Edot.
      rewrite <- (clean_idem dir), (clean_render (clean dir)), En, Er, Edot. reflexivity.
    - cbn [strip_common] in H. rewrite (shaped_head_not_dot false x l Hs) in H.
      destruct (str_eqb x s_dotdot); [discriminate|]. dotdot_head_contra H. }
  destruct (strip_common (nsegs (clean dir)) (nsegs (clean p))) as [b' t'] eqn:Es.
  destruct (strip_common_spec _ _ _ _ Es) as (c & Eb & Et).
  intros H. split; [now symmetry|].
  destruct b' as [|x b'].
  - rewrite app_nil_r in Eb. subst c. exists t'. split; [exact Et|].
    (* t' does not start with ".." *)
    pose proof (nsegs_shaped (clean p)) as Hs. rewrite Et in Hs.
    destruct (is_rooted (clean p)); cbn in Hs.
    + rewrite forallb_app in Hs. now apply andb_true_iff in Hs as [_ Hs].
    + destruct Hs as (k & ns & E & Hn).
      (* split the ".."-run / real elements decomposition at |nsegs dir| *)
      revert E. generalize (nsegs (clean dir)) as d. intros d. revert k.
      induction d as [|y d IH]; intros k E; cbn [app] in E.
      * destruct k as [|k]; cbn [repeat_seg app] in E; [now subst|].
        subst t'. exfalso. dotdot_head_contra H.
      * destruct k as [|k]; cbn [repeat_seg app] in E.
        -- subst ns.
           change (forallb normalb (y :: d ++ t')) with (normalb y && forallb normalb (d ++ t')) in Hn.
           apply andb_true_iff in Hn as [_ Hn]. rewrite forallb_app in Hn.
           now apply andb_true_iff in Hn as [_ Hn].
        -- injection E as _ E. now apply (IH k).
  - exfalso. destruct (str_eqb x s_dotdot); [discriminate|]. dotdot_head_contra H.
Qed.

(** A target that passes the test resolves beneath the directory. *)
Theorem in_dir_resolve cwd dir p kd k :
  in_dir dir p = true ->
  resolve cwd (clean dir) = Some kd -> resolve cwd (clean p) = Some k ->
  is_prefix kd k = true.
Proof.
  intros H Hd Hp. destruct (in_dir_segments dir p H) as (Hr & rest & E & Hn).
  rewrite resolve_via_nsegs in Hd, Hp by apply clean_nonempty.
  injection Hd as <-. injection Hp as <-. rewrite Hr, E.
  rewrite norm_from_app, (norm_from_normal true _ rest Hn), rev_app_distr, rev_involutive.
  apply is_prefix_app.
Qed.

(** *** Byte-wise order *)

Lemma str_ltb_irrefl a : str_ltb a a = false.
Proof.
  induction a as [|x a IH]; [reflexivity|]. cbn. rewrite N.ltb_irrefl, N.eqb_refl, IH. reflexivity.
Qed.

Lemma str_ltb_trans a b c : str_ltb a b = true -> str_ltb b c = true -> str_ltb a c = true.
Proof.
  revert b c; induction a as [|x a IH]; intros [|y b] [|z c]; cbn; try discriminate; try reflexivity.
  intros H1 H2.
  apply orb_true_iff in H1. apply orb_true_iff in H2. apply orb_true_iff.
  destruct H1 as [H1|H1], H2 as [H2|H2].
  - left. apply N.ltb_lt in H1, H2. apply N.ltb_lt. lia.
  - apply andb_true_iff in H2 as [E _]. apply N.eqb_eq in E. subst. now left.
  - apply andb_true_iff in H1 as [E _]. apply N.eqb_eq in E. subst. now left.
  - apply andb_true_iff in H1 as [E1 H1]. apply andb_true_iff in H2 as [E2 H2].
    apply N.eqb_eq in E1, E2. subst. right. rewrite N.eqb_refl. cbn. eapply IH; eassumption.
Qed.

Lemma str_trichotomy a b :
  str_ltb a b = false -> str_eqb a b = false -> str_ltb b a = true.
Proof.
  revert b; induction a as [|x a IH]; intros [|y b]; cbn; try discriminate; try reflexivity.
  intros H1 H2. apply orb_false_iff in H1 as [L H1].
  apply N.ltb_ge in L.
  destruct (x =? y) eqn:E.
  - apply N.eqb_eq in E. subst y. cbn in H1, H2. rewrite N.eqb_refl. cbn.
    rewrite (IH b H1 H2). apply orb_true_r.
  - apply N.eqb_neq in E. assert (Hlt : y < x) by lia. apply N.ltb_lt in Hlt. now rewrite Hlt.
Qed.


(** *** More on Dir, Join and the containment test (used by the round trip) *)

Lemma clean_eq_of_nsegs a b :
  is_rooted a = is_rooted b -> nsegs a = nsegs b -> clean a = clean b.
Proof. intros R E. now rewrite !clean_render, R, E. Qed.

(** The directory of a path, one cleaning step before the path itself. *)
Lemma resolve_dir_of_step cwd p k :
  resolve cwd p = Some k ->
  exists S, resolve cwd (dir_of p) = Some (rev S) /\
            k = rev (clean_step true S (last (split_slash p) [])).
Proof.
  intros Hk. unfold dir_of.
  destruct (upto_last_slash_split p) as (lst & Hl & Hs & Hu).
  destruct Hu as [Hu|[pre Hu]]; rewrite Hu in *.
  - cbn [app] in Hs. subst lst. exists (rev cwd). split.
    { unfold resolve. cbn. reflexivity. }
    unfold resolve in Hk. destruct p as [|c p']; [discriminate|]. injection Hk as <-.
    assert (R : (c =? slash) = false).
    { cbn in Hl. apply andb_true_iff in Hl as [Hc _]. now apply negb_true_iff in Hc. }
    cbn [is_rooted]. rewrite R, split_noslash by exact Hl. reflexivity.
  - assert (Hune : pre ++ [slash] <> []) by (destruct pre; discriminate).
    rewrite resolve_clean by exact Hune.
    assert (R : is_rooted p = is_rooted (pre ++ [slash])).
    { rewrite Hs. apply is_rooted_app. exact Hune. }
    assert (Hp : p <> []) by (rewrite Hs; destruct pre; discriminate).
    rewrite (resolve_nonempty cwd p Hp) in Hk. injection Hk as <-.
    rewrite (resolve_nonempty cwd _ Hune). rewrite R.
    set (st0 := if is_rooted (pre ++ [slash]) then [] else rev cwd).
    exists (norm_from true st0 (split_slash pre)). split.
    + now rewrite split_slash_snoc_slash, norm_from_snoc_empty.
    + rewrite Hs, <- app_assoc. cbn [app]. rewrite split_slash_app_slash.
      rewrite norm_from_app, (split_noslash lst Hl). cbn [norm_from fold_left].
      now rewrite last_last.
Qed.

Lemma resolve_dir_of_parent cwd p k x :
  resolve cwd p = Some (k ++ [x]) ->
  normalb (last (split_slash p) []) = true ->
  resolve cwd (dir_of p) = Some k.
Proof.
  intros Hk Hn. destruct (resolve_dir_of_step _ _ _ Hk) as (S & Hd & E).
  rewrite clean_step_normal in E by exact Hn. cbn [rev] in E.
  apply app_inj_tail in E as [E _]. now rewrite Hd, <- E.
Qed.

Lemma last_split_render r l :
  l <> [] -> forallb noslashb l = true -> shaped r l ->
  last (split_slash (render r l)) [] = last l [].
Proof.
  intros Hne Hn Hs. destruct r; cbn [render].
  - rewrite split_slash_cons_slash, split_join by assumption.
    destruct l; [congruence|reflexivity].
  - destruct l as [|x l]; [congruence|]. now rewrite split_join by (discriminate || assumption).
Qed.

Lemma strip_common_app a b : strip_common a (a ++ b) = ([], b).
Proof. induction a as [|x a IH]; cbn; [now destruct b|]. now rewrite str_eqb_refl. Qed.

Lemma join_good_not_dotdot k rest :
  goodb k = true -> forallb noslashb rest = true ->
  str_eqb (join_slash (k :: rest)) s_dotdot = false /\
  has_prefix (join_slash (k :: rest)) (s_dotdot ++ [slash]) = false.
Proof.
  intros Hk Hr. unfold goodb in Hk. apply andb_true_iff in Hk as [Hn Hs].
  assert (Hl : forallb noslashb (k :: rest) = true) by (cbn; now rewrite Hs, Hr).
  pose proof (split_join (k :: rest) ltac:(discriminate) Hl) as E.
  pose proof (normalb_not_dotdot k Hn) as Hd.
  split.
  - destruct (str_eqb (join_slash (k :: rest)) s_dotdot) eqn:Eq; [|reflexivity].
    apply str_eqb_eq in Eq. rewrite Eq in E. cbn in E. injection E as E _. subst k. discriminate.
  - destruct (has_prefix (join_slash (k :: rest)) (s_dotdot ++ [slash])) eqn:Eq; [|reflexivity].
    apply has_prefix_spec in Eq as [r Eq]. rewrite Eq in E.
    rewrite <- app_assoc in E. cbn [app] in E.
    change (46 :: 46 :: slash :: r) with (s_dotdot ++ slash :: r) in E.
    rewrite split_slash_app_slash in E. cbn in E. injection E as E _. subst k. discriminate.
Qed.

Lemma targ_segs_nonempty ct : nsegs ct <> [] -> targ_segs ct = nsegs ct.
Proof.
  intros H. unfold targ_segs. destruct (str_eqb ct s_dot) eqn:E; [|reflexivity].
  apply str_eqb_eq in E. subst ct. now cbn in H.
Qed.

(** Nothing that stays beneath is refused: an entry name made of real
    elements passes the containment test, for every destination string. *)
Theorem in_dir_join_good dir ks :
  forallb goodb ks = true ->
  in_dir dir (filepath_join [dir; join_slash ks]) = true.
Proof.
  intros Hk.
  assert (Hns : forallb noslashb ks = true /\ forallb normalb ks = true).
  { clear dir. induction ks as [|x l IH]; [now split|]. cbn in Hk. apply andb_true_iff in Hk as [Hx Hl].
    destruct (IH Hl) as [A B]. unfold goodb in Hx. apply andb_true_iff in Hx as [H1 H2].
    cbn. now rewrite H1, H2, A, B. }
  destruct Hns as [Hns Hnm].
  assert (Hfinal : forall t', t' = ks -> ks <> [] ->
            negb (str_eqb (join_slash t') s_dotdot) &&
            negb (has_prefix (join_slash t') (s_dotdot ++ [slash])) = true).
  { intros t' -> Hne. destruct ks as [|k rest]; [congruence|].
    cbn in Hk, Hns. apply andb_true_iff in Hk as [Hk0 _]. apply andb_true_iff in Hns as [_ Hr].
    destruct (join_good_not_dotdot k rest Hk0 Hr) as [A B]. now rewrite A, B. }
  unfold in_dir, filepath_rel. rewrite filepath_join2.
  destruct ks as [|k0 rest0] eqn:Eks.
  - (* the destination itself *)
    cbn [join_slash is_empty]. destruct dir as [|c dir']; cbn [is_empty].
    + reflexivity.
    + rewrite clean_idem.
      assert (E : clean ((c :: dir') ++ [slash]) = clean (c :: dir')).
      { apply clean_eq_of_nsegs; [now apply is_rooted_app|].
        unfold nsegs. rewrite is_rooted_app by discriminate.
        rewrite split_slash_snoc_slash. unfold norm. now rewrite norm_from_snoc_empty. }
      change (c :: dir' ++ [slash]) with ((c :: dir') ++ [slash]).
      rewrite E, str_eqb_refl. reflexivity.
  - rewrite <- Eks in *. assert (Hne : ks <> []) by (rewrite Eks; discriminate).
    assert (Hk0e : is_empty k0 = false).
    { rewrite Eks in Hk. cbn in Hk. apply andb_true_iff in Hk as [Hk0 _].
      unfold goodb, normalb in Hk0. destruct k0; [discriminate|reflexivity]. }
    assert (Hj : is_empty (join_slash ks) = false).
    { rewrite Eks. destruct k0; [discriminate|]. destruct rest0; reflexivity. }
    destruct dir as [|c dir']; cbn [is_empty].
    + rewrite Hj, clean_idem.
      assert (Ec : nsegs (clean (join_slash ks)) = ks /\ is_rooted (clean (join_slash ks)) = false).
      { rewrite nsegs_clean, clean_is_rooted.
        assert (R : is_rooted (join_slash ks) = false).
        { rewrite Eks. apply is_rooted_join_unrooted.
          - rewrite Eks in Hns. cbn in Hns. now apply andb_true_iff in Hns as [A _].
          - exact Hk0e. }
        split; [|exact R]. unfold nsegs. rewrite R, split_join by assumption.
        apply (norm_shaped_id false). exists 0%nat, ks. now split. }
      destruct Ec as [En Er].
      destruct (str_eqb (clean (join_slash ks)) (clean [])); [reflexivity|].
      rewrite Er. cbn [clean is_rooted s_dot N.eqb Bool.eqb negb].
      change (nsegs [46]) with (@nil str).
      rewrite targ_segs_nonempty by (rewrite En; exact Hne). rewrite En. cbn [strip_common].
      now apply Hfinal.
    + set (d := c :: dir').
      change (c :: dir' ++ slash :: join_slash ks) with (d ++ slash :: join_slash ks).
      rewrite clean_idem.
      assert (En : nsegs (clean (d ++ slash :: join_slash ks)) = nsegs (clean d) ++ ks).
      { rewrite !nsegs_clean. unfold nsegs. rewrite is_rooted_app by discriminate.
        rewrite split_slash_app_slash, split_join by assumption. now apply norm_app_normal. }
      assert (Er : is_rooted (clean (d ++ slash :: join_slash ks)) = is_rooted (clean d)).
      { rewrite !clean_is_rooted. now apply is_rooted_app. }
      destruct (str_eqb (clean (d ++ slash :: join_slash ks)) (clean d)); [reflexivity|].
      rewrite Er, Bool.eqb_reflx. cbn [negb].
      rewrite targ_segs_nonempty by (rewrite En; destruct (nsegs (clean d)); [exact Hne|discriminate]).
      rewrite En, strip_common_app.
      now apply Hfinal.
Qed.
