(** Text encodings of byte strings as Go's standard library implements them:
    [encoding/hex] (lower-case encoder, case-insensitive decoder) and
    [base64.RawURLEncoding] (no padding; the decoder skips CR and LF anywhere
    and, unless [Strict()], ignores the unused low bits of the last
    character).  Characters and bytes are [N].

    The [_canon] decoders are the ones a verifier should use for a token that
    it issued itself: decode, then require that re-encoding gives back the
    very text.  [*_canon_iff] shows they accept exactly the encoder's image. *)
From Coq Require Import List NArith ZArith Lia Bool.
From Coq Require Import ZifyN ZifyNat ZifyBool.
From Verif Require Import Lib.Bytes.
Import ListNotations.
Local Open Scope N_scope.
Ltac Zify.zify_post_hook ::= Z.div_mod_to_equations.

(** * Equality on byte strings *)

Fixpoint beq_bytes (a b : bytes) : bool :=
  match a, b with
  | [], [] => true
  | x :: a', y :: b' => (x =? y) && beq_bytes a' b'
  | _, _ => false
  end.

Lemma beq_bytes_spec a b : beq_bytes a b = true <-> a = b.
Proof.
  revert b; induction a as [|x a IH]; intros [|y b]; cbn [beq_bytes]; try (split; congruence).
  rewrite andb_true_iff, N.eqb_eq, IH. split; [intros [-> ->]; reflexivity|intros [= -> ->]; auto].
Qed.

Lemma beq_bytes_refl a : beq_bytes a a = true.
Proof. now apply beq_bytes_spec. Qed.

Lemma beq_bytes_neq a b : beq_bytes a b = false <-> a <> b.
Proof.
  split.
  - intros H E. apply beq_bytes_spec in E. congruence.
  - intros H. destruct (beq_bytes a b) eqn:E; [|reflexivity]. apply beq_bytes_spec in E. contradiction.
Qed.

(** A finite check lifted to all numbers below a bound. *)
Lemma forall_below (P : N -> bool) (n : nat) :
  forallb P (map N.of_nat (seq 0 n)) = true -> forall i, i < N.of_nat n -> P i = true.
Proof.
  intros H i Hi. rewrite forallb_forall in H. apply H.
  apply in_map_iff. exists (N.to_nat i). split; [lia|]. apply in_seq. lia.
Qed.

(** * Hexadecimal *)

Definition hex_digit (n : N) : N := if n <? 10 then 48 + n else 87 + n.

Fixpoint hex_encode (bs : bytes) : list N :=
  match bs with
  | [] => []
  | b :: r => hex_digit (b / 16) :: hex_digit (b mod 16) :: hex_encode r
  end.

(** [encoding/hex]'s reverse table: digits, a-f and A-F. *)
Definition hex_val (c : N) : option N :=
  if (48 <=? c) && (c <=? 57) then Some (c - 48)
  else if (97 <=? c) && (c <=? 102) then Some (c - 87)
  else if (65 <=? c) && (c <=? 70) then Some (c - 55)
  else None.

Definition hex_byte (x y : N) : N := 16 * x + y.

(** [hex.DecodeString]: any invalid character or an odd length is an error. *)
Fixpoint hex_decode (s : list N) : option bytes :=
  match s with
  | [] => Some []
  | [_] => None
  | a :: b :: r =>
      match hex_val a, hex_val b, hex_decode r with
      | Some x, Some y, Some t => Some (hex_byte x y :: t)
      | _, _, _ => None
      end
  end.

Definition hex_decode_canon (s : list N) : option bytes :=
  match hex_decode s with
  | Some bs => if beq_bytes (hex_encode bs) s then Some bs else None
  | None => None
  end.

Definition lower (c : N) : N := if (65 <=? c) && (c <=? 90) then c + 32 else c.

Lemma hex_val_digit n : n < 16 -> hex_val (hex_digit n) = Some n.
Proof.
  intros H.
  pose proof (forall_below (fun n => match hex_val (hex_digit n) with Some m => m =? n | None => false end) 16) as F.
  specialize (F eq_refl n H). cbv beta in F. revert F.
  destruct (hex_val (hex_digit n)) as [m|]; [|discriminate]. intros F. apply N.eqb_eq in F. now subst.
Qed.

Lemma hex_decode_encode bs : is_bytes bs -> hex_decode (hex_encode bs) = Some bs.
Proof.
  induction bs as [|b r IH]; intros H; [reflexivity|].
  inversion H as [|? ? Hb Hr]; subst. unfold is_byte in Hb.
  cbn [hex_encode hex_decode].
  rewrite !hex_val_digit by lia. rewrite (IH Hr).
  f_equal. f_equal. unfold hex_byte. lia.
Qed.

Lemma hex_val_bound c x : hex_val c = Some x -> x < 16.
Proof.
  unfold hex_val.
  destruct ((48 <=? c) && (c <=? 57)) eqn:A; [intros [= <-]; lia|].
  destruct ((97 <=? c) && (c <=? 102)) eqn:B; [intros [= <-]; lia|].
  destruct ((65 <=? c) && (c <=? 70)) eqn:C; [intros [= <-]; lia|discriminate].
Qed.

(** Strong induction two characters at a time. *)
Lemma list_ind2 {A} (P : list A -> Prop) :
  P [] -> (forall a, P [a]) -> (forall a b r, P r -> P (a :: b :: r)) -> forall l, P l.
Proof.
  intros H0 H1 H2.
  assert (forall l, P l /\ forall a, P (a :: l)) as H.
  { induction l as [|x l [IH1 IH2]]; split; auto. }
  intros l. apply H.
Qed.

Lemma hex_byte_bound x y : x < 16 -> y < 16 -> is_byte (hex_byte x y).
Proof. unfold is_byte, hex_byte. lia. Qed.

Lemma hex_decode_is_bytes s : forall bs, hex_decode s = Some bs -> is_bytes bs.
Proof.
  induction s as [|a|a b r IH] using list_ind2; intros bs; cbn [hex_decode].
  - intros [= <-]. constructor.
  - discriminate.
  - destruct (hex_val a) as [x|] eqn:Ea; [|discriminate].
    destruct (hex_val b) as [y|] eqn:Eb; [|discriminate].
    destruct (hex_decode r) as [t|]; [|discriminate].
    intros [= <-]. constructor; [|now apply IH].
    apply hex_val_bound in Ea, Eb. now apply hex_byte_bound.
Qed.

Lemma hex_decode_length s bs : hex_decode s = Some bs -> length s = (2 * length bs)%nat.
Proof.
  revert bs. induction s as [|a|a b r IH] using list_ind2; intros bs; cbn [hex_decode].
  - intros [= <-]. reflexivity.
  - discriminate.
  - destruct (hex_val a); [|discriminate]. destruct (hex_val b); [|discriminate].
    destruct (hex_decode r) as [t|]; [|discriminate].
    intros [= <-]. cbn [length]. rewrite (IH t eq_refl). lia.
Qed.

Theorem hex_canon_iff s bs :
  hex_decode_canon s = Some bs <-> is_bytes bs /\ s = hex_encode bs.
Proof.
  unfold hex_decode_canon. split.
  - destruct (hex_decode s) as [b'|] eqn:E; [|discriminate].
    destruct (beq_bytes (hex_encode b') s) eqn:Q; [|discriminate].
    intros [= <-]. apply beq_bytes_spec in Q. split; [now apply hex_decode_is_bytes in E|auto].
  - intros [H ->]. rewrite hex_decode_encode by assumption. now rewrite beq_bytes_refl.
Qed.

Lemma hex_encode_inj a b : is_bytes a -> is_bytes b -> hex_encode a = hex_encode b -> a = b.
Proof.
  intros Ha Hb E. apply hex_decode_encode in Ha, Hb. rewrite E in Ha. congruence.
Qed.

Lemma hex_encode_length bs : length (hex_encode bs) = (2 * length bs)%nat.
Proof. induction bs as [|b r IH]; cbn [hex_encode length]; lia. Qed.

Lemma hex_encode_app a b : hex_encode (a ++ b) = hex_encode a ++ hex_encode b.
Proof. induction a as [|x a IH]; cbn [app hex_encode]; [reflexivity|]. now rewrite IH. Qed.

Lemma hex_encode_firstn j : forall b, hex_encode (firstn j b) = firstn (2 * j) (hex_encode b).
Proof.
  induction j as [|j IH]; intros b; [reflexivity|].
  destruct b as [|x b]; [reflexivity|].
  replace (2 * S j)%nat with (S (S (2 * j))) by lia.
  cbn [firstn hex_encode]. now rewrite IH.
Qed.

Lemma hex_encode_skipn j : forall b, hex_encode (skipn j b) = skipn (2 * j) (hex_encode b).
Proof.
  induction j as [|j IH]; intros b; [reflexivity|].
  destruct b as [|x b]; [reflexivity|].
  replace (2 * S j)%nat with (S (S (2 * j))) by lia.
  cbn [skipn hex_encode]. now rewrite IH.
Qed.

(** The lenient decoder accepts exactly the letter-case variants of the
    canonical text: whatever decodes re-encodes to its lower-casing. *)
Lemma hex_digit_lower c x : hex_val c = Some x -> hex_digit x = lower c.
Proof.
  unfold hex_val, hex_digit, lower.
  destruct ((48 <=? c) && (c <=? 57)) eqn:A.
  { intros [= <-]. destruct (c - 48 <? 10) eqn:B; destruct ((65 <=? c) && (c <=? 90)) eqn:C; lia. }
  destruct ((97 <=? c) && (c <=? 102)) eqn:B.
  { intros [= <-]. destruct (c - 87 <? 10) eqn:D; destruct ((65 <=? c) && (c <=? 90)) eqn:C; lia. }
  destruct ((65 <=? c) && (c <=? 70)) eqn:C; [|discriminate].
  intros [= <-]. destruct (c - 55 <? 10) eqn:D; destruct ((65 <=? c) && (c <=? 90)) eqn:E; lia.
Qed.

Theorem hex_decode_lower s bs : hex_decode s = Some bs -> hex_encode bs = map lower s.
Proof.
  revert bs. induction s as [|a|a b r IH] using list_ind2; intros bs; cbn [hex_decode].
  - intros [= <-]. reflexivity.
  - discriminate.
  - destruct (hex_val a) as [x|] eqn:Ea; [|discriminate].
    destruct (hex_val b) as [y|] eqn:Eb; [|discriminate].
    destruct (hex_decode r) as [t|] eqn:Er; [|discriminate].
    intros [= <-]. cbn [hex_encode map].
    pose proof (hex_val_bound _ _ Ea). pose proof (hex_val_bound _ _ Eb).
    replace (hex_byte x y / 16) with x by (unfold hex_byte; lia).
    replace (hex_byte x y mod 16) with y by (unfold hex_byte; lia).
    rewrite (hex_digit_lower _ _ Ea), (hex_digit_lower _ _ Eb), (IH t eq_refl). reflexivity.
Qed.

(** * base64url without padding *)

Definition b64_char (i : N) : N :=
  if i <? 26 then 65 + i
  else if i <? 52 then 71 + i
  else if i <? 62 then i - 4
  else if i =? 62 then 45 else 95.

Definition b64_val (c : N) : option N :=
  if (65 <=? c) && (c <=? 90) then Some (c - 65)
  else if (97 <=? c) && (c <=? 122) then Some (c - 71)
  else if (48 <=? c) && (c <=? 57) then Some (c + 4)
  else if c =? 45 then Some 62
  else if c =? 95 then Some 63
  else None.

(** Six-bit groups of a byte string, most significant first. *)
Fixpoint b64_idx (bs : bytes) : list N :=
  match bs with
  | [] => []
  | [a] => [a / 4; (a mod 4) * 16]
  | [a; b] => [a / 4; (a mod 4) * 16 + b / 16; (b mod 16) * 4]
  | a :: b :: c :: r =>
      a / 4 :: (a mod 4) * 16 + b / 16 :: (b mod 16) * 4 + c / 64 :: c mod 64 :: b64_idx r
  end.

Definition b64_encode (bs : bytes) : list N := map b64_char (b64_idx bs).

Fixpoint b64_vals (s : list N) : option (list N) :=
  match s with
  | [] => Some []
  | c :: r =>
      match b64_val c, b64_vals r with
      | Some v, Some t => Some (v :: t)
      | _, _ => None
      end
  end.

(** Quanta of four groups; a last quantum of two or three groups carries
    unused low bits that [strict] requires to be zero; one group is an error. *)
Fixpoint b64_quanta (strict : bool) (v : list N) : option bytes :=
  match v with
  | [] => Some []
  | [_] => None
  | [x; y] => if strict && negb (y mod 16 =? 0) then None else Some [x * 4 + y / 16]
  | [x; y; w] =>
      if strict && negb (w mod 4 =? 0) then None
      else Some [x * 4 + y / 16; (y mod 16) * 16 + w / 4]
  | x :: y :: w :: u :: r =>
      match b64_quanta strict r with
      | Some t => Some (x * 4 + y / 16 :: (y mod 16) * 16 + w / 4 :: (w mod 4) * 64 + u :: t)
      | None => None
      end
  end.

Definition is_crlf (c : N) : bool := (c =? 10) || (c =? 13).

(** [RawURLEncoding.DecodeString] ([strict = false]) and
    [RawURLEncoding.Strict().DecodeString]: CR and LF are dropped wherever they
    occur, in both modes. *)
Definition b64_decode_gen (strict : bool) (s : list N) : option bytes :=
  match b64_vals (filter (fun c => negb (is_crlf c)) s) with
  | Some v => b64_quanta strict v
  | None => None
  end.

Definition b64_decode := b64_decode_gen false.
Definition b64_decode_strict := b64_decode_gen true.

Definition b64_decode_canon (s : list N) : option bytes :=
  match b64_decode s with
  | Some bs => if beq_bytes (b64_encode bs) s then Some bs else None
  | None => None
  end.

Lemma b64_val_char i : i < 64 -> b64_val (b64_char i) = Some i.
Proof.
  intros H.
  pose proof (forall_below (fun n => match b64_val (b64_char n) with Some m => m =? n | None => false end) 64) as F.
  specialize (F eq_refl i H). cbv beta in F. revert F.
  destruct (b64_val (b64_char i)) as [m|]; [|discriminate]. intros F. apply N.eqb_eq in F. now subst.
Qed.

Lemma b64_char_plain i : i < 64 ->
  is_crlf (b64_char i) = false /\ b64_char i <> 46 /\ b64_char i < 256.
Proof.
  intros H.
  pose proof (forall_below (fun n => negb (is_crlf (b64_char n)) && negb (b64_char n =? 46) && (b64_char n <? 256)) 64) as F.
  specialize (F eq_refl i H). cbv beta in F.
  apply andb_true_iff in F. destruct F as [F C]. apply andb_true_iff in F. destruct F as [A B].
  repeat split.
  - now destruct (is_crlf (b64_char i)).
  - lia.
  - lia.
Qed.

Definition idx_ok (l : list N) : Prop := Forall (fun i => i < 64) l.

Lemma list_ind3 {A} (P : list A -> Prop) :
  P [] -> (forall a, P [a]) -> (forall a b, P [a; b]) ->
  (forall a b c r, P r -> P (a :: b :: c :: r)) -> forall l, P l.
Proof.
  intros H0 H1 H2 H3.
  assert (forall l, P l /\ (forall a, P (a :: l)) /\ forall a b, P (a :: b :: l)) as H.
  { induction l as [|x l (IH1 & IH2 & IH3)]; repeat split; auto. }
  intros l. apply H.
Qed.

Lemma b64_idx_ok bs : is_bytes bs -> idx_ok (b64_idx bs).
Proof.
  unfold idx_ok. induction bs as [|a|a b|a b c r IH] using list_ind3; intros H; cbn [b64_idx].
  - constructor.
  - inversion H; subst. unfold is_byte in *. repeat constructor; lia.
  - inversion H as [|? ? Ha H']; subst. inversion H'; subst. unfold is_byte in *. repeat constructor; lia.
  - inversion H as [|? ? Ha H']; subst. inversion H' as [|? ? Hb H'']; subst.
    inversion H'' as [|? ? Hc Hr]; subst. unfold is_byte in *.
    repeat constructor; try lia. now apply IH.
Qed.

Lemma b64_vals_chars l : idx_ok l -> b64_vals (map b64_char l) = Some l.
Proof.
  induction 1 as [|i l Hi Hl IH]; [reflexivity|].
  cbn [map b64_vals]. now rewrite b64_val_char, IH.
Qed.

Lemma b64_filter_chars l :
  idx_ok l -> filter (fun c => negb (is_crlf c)) (map b64_char l) = map b64_char l.
Proof.
  induction 1 as [|i l Hi Hl IH]; [reflexivity|].
  cbn [map filter]. destruct (b64_char_plain i Hi) as (-> & _). cbn [negb]. now rewrite IH.
Qed.

Lemma b64_quanta_idx strict bs : is_bytes bs -> b64_quanta strict (b64_idx bs) = Some bs.
Proof.
  induction bs as [|a|a b|a b c r IH] using list_ind3; intros H; cbn [b64_idx b64_quanta].
  - reflexivity.
  - inversion H; subst. unfold is_byte in *.
    replace ((a mod 4 * 16) mod 16 =? 0) with true by lia.
    rewrite andb_false_r. f_equal. f_equal. lia.
  - inversion H as [|? ? Ha H']; subst. inversion H'; subst. unfold is_byte in *.
    replace ((b mod 16 * 4) mod 4 =? 0) with true by lia.
    rewrite andb_false_r. f_equal. f_equal; [lia|]. f_equal. lia.
  - inversion H as [|? ? Ha H']; subst. inversion H' as [|? ? Hb H'']; subst.
    inversion H'' as [|? ? Hc Hr]; subst. unfold is_byte in *.
    rewrite (IH Hr). f_equal. f_equal; [lia|]. f_equal; [lia|]. f_equal. lia.
Qed.

Theorem b64_decode_encode strict bs :
  is_bytes bs -> b64_decode_gen strict (b64_encode bs) = Some bs.
Proof.
  intros H. unfold b64_decode_gen, b64_encode.
  pose proof (b64_idx_ok bs H) as I.
  now rewrite b64_filter_chars, b64_vals_chars, b64_quanta_idx.
Qed.

Lemma b64_val_bound c v : b64_val c = Some v -> v < 64.
Proof.
  unfold b64_val.
  destruct ((65 <=? c) && (c <=? 90)) eqn:A; [intros [= <-]; lia|].
  destruct ((97 <=? c) && (c <=? 122)) eqn:B; [intros [= <-]; lia|].
  destruct ((48 <=? c) && (c <=? 57)) eqn:C; [intros [= <-]; lia|].
  destruct (c =? 45); [intros [= <-]; lia|].
  destruct (c =? 95); [intros [= <-]; lia|discriminate].
Qed.

Lemma b64_vals_ok s v : b64_vals s = Some v -> idx_ok v.
Proof.
  revert v. induction s as [|c r IH]; intros v; cbn [b64_vals].
  - intros [= <-]. constructor.
  - destruct (b64_val c) as [x|] eqn:E; [|discriminate].
    destruct (b64_vals r) as [t|]; [|discriminate].
    intros [= <-]. constructor; [now apply b64_val_bound in E|now apply IH].
Qed.

Lemma list_ind4 {A} (P : list A -> Prop) :
  P [] -> (forall a, P [a]) -> (forall a b, P [a; b]) -> (forall a b c, P [a; b; c]) ->
  (forall a b c d r, P r -> P (a :: b :: c :: d :: r)) -> forall l, P l.
Proof.
  intros H0 H1 H2 H3 H4.
  assert (forall l, P l /\ (forall a, P (a :: l)) /\ (forall a b, P (a :: b :: l))
                    /\ forall a b c, P (a :: b :: c :: l)) as H.
  { induction l as [|x l (IH1 & IH2 & IH3 & IH4)]; repeat split; auto. }
  intros l. apply H.
Qed.

Lemma b64_quanta_is_bytes strict v : idx_ok v -> forall bs, b64_quanta strict v = Some bs -> is_bytes bs.
Proof.
  unfold idx_ok. induction v as [|x|x y|x y w|x y w u r IH] using list_ind4; intros H bs; cbn [b64_quanta].
  - intros [= <-]. constructor.
  - discriminate.
  - inversion H as [|? ? Hx H']; subst. inversion H' as [|? ? Hy _]; subst.
    destruct (strict && negb (y mod 16 =? 0)); [discriminate|].
    intros [= <-]. repeat constructor. unfold is_byte. lia.
  - inversion H as [|? ? Hx H']; subst. inversion H' as [|? ? Hy H'']; subst.
    inversion H'' as [|? ? Hw _]; subst.
    destruct (strict && negb (w mod 4 =? 0)); [discriminate|].
    intros [= <-]. repeat constructor; unfold is_byte; lia.
  - inversion H as [|? ? Hx H']; subst. inversion H' as [|? ? Hy H'']; subst.
    inversion H'' as [|? ? Hw H3]; subst. inversion H3 as [|? ? Hu Hr]; subst.
    destruct (b64_quanta strict r) as [t|] eqn:E; [|discriminate].
    intros [= <-]. specialize (IH Hr t eq_refl).
    repeat constructor; try (unfold is_byte; lia). exact IH.
Qed.

Lemma b64_decode_is_bytes strict s bs : b64_decode_gen strict s = Some bs -> is_bytes bs.
Proof.
  unfold b64_decode_gen.
  destruct (b64_vals _) as [v|] eqn:E; [|discriminate].
  apply b64_quanta_is_bytes. now apply b64_vals_ok in E.
Qed.

Theorem b64_canon_iff s bs :
  b64_decode_canon s = Some bs <-> is_bytes bs /\ s = b64_encode bs.
Proof.
  unfold b64_decode_canon, b64_decode. split.
  - destruct (b64_decode_gen false s) as [b'|] eqn:E; [|discriminate].
    destruct (beq_bytes (b64_encode b') s) eqn:Q; [|discriminate].
    intros [= <-]. apply beq_bytes_spec in Q. split; [now apply b64_decode_is_bytes in E|auto].
  - intros [H ->]. rewrite b64_decode_encode by assumption. now rewrite beq_bytes_refl.
Qed.

Lemma b64_encode_inj a b : is_bytes a -> is_bytes b -> b64_encode a = b64_encode b -> a = b.
Proof.
  intros Ha Hb E. apply (b64_decode_encode false) in Ha, Hb. rewrite E in Ha. congruence.
Qed.

(** The encoder's output is plain text: no dot, no line break, bytes only. *)
Lemma b64_encode_plain bs : is_bytes bs ->
  Forall (fun c => c <> 46 /\ is_crlf c = false /\ c < 256) (b64_encode bs).
Proof.
  intros H. apply b64_idx_ok in H. unfold b64_encode.
  induction H as [|i l Hi Hl IH]; cbn [map]; constructor; [|exact IH].
  destruct (b64_char_plain i Hi) as (A & B & C). auto.
Qed.

(** What the strict mode of the library adds, and what it does not: a text
    accepted by the lenient decoder is accepted by the strict one iff the unused
    bits are zero; both still drop line breaks. *)
Lemma b64_strict_lenient s bs : b64_decode_strict s = Some bs -> b64_decode s = Some bs.
Proof.
  unfold b64_decode_strict, b64_decode, b64_decode_gen.
  destruct (b64_vals _) as [v|]; [|discriminate].
  revert bs. induction v as [|x|x y|x y w|x y w u r IH] using list_ind4; intros bs; cbn [b64_quanta]; auto.
  - cbn [andb]. destruct (negb (y mod 16 =? 0)); [discriminate|auto].
  - cbn [andb]. destruct (negb (w mod 4 =? 0)); [discriminate|auto].
  - destruct (b64_quanta true r) as [t|]; [|discriminate]. intros [= <-]. now rewrite (IH t eq_refl).
Qed.

Example b64_strict_still_skips_newline :
  b64_decode_strict [81; 81; 10] = Some [65] /\ b64_decode_canon [81; 81; 10] = None /\
  b64_decode [81; 82] = Some [65] /\ b64_decode_strict [81; 82] = None.
Proof. vm_compute. repeat split. Qed.
