(** A small interleaving semantics for calls made under a reader/writer lock
    (sync.RWMutex), and the reduction theorem: whatever the schedule, the
    results of the calls and the shared state are those of running the calls
    one after the other in the order in which they returned.

    Any number of threads; each runs a list of calls.  A call is a sequence
    of atomic micro-steps over a thread-local state and the shared state; it
    is made under the exclusive lock ([WCall]), under the shared lock
    ([RCall] - its steps cannot write the shared state, by type), or under no
    lock at all ([UCall], kept so that the hypothesis of the theorem is
    visibly necessary: see [Props/C06.v], lost update). *)
From Coq Require Import List Arith Bool Lia.
Import ListNotations.

Section Sched.
  Variables S L R : Type.

  Definition wstep := L -> S -> L * S.
  Definition rstep := L -> S -> L.

  Inductive call :=
  | WCall (steps : list wstep) (l0 : L) (res : L -> R)
  | RCall (steps : list rstep) (l0 : L) (res : L -> R)
  | UCall (steps : list wstep) (l0 : L) (res : L -> R).

  Inductive mode := MW | MR | MU.

  Definition lift (r : rstep) : wstep := fun l s => (r l s, s).

  Definition call_mode (c : call) : mode :=
    match c with WCall _ _ _ => MW | RCall _ _ _ => MR | UCall _ _ _ => MU end.
  Definition call_steps (c : call) : list wstep :=
    match c with
    | WCall st _ _ | UCall st _ _ => st
    | RCall st _ _ => map lift st
    end.
  Definition call_l0 (c : call) : L :=
    match c with WCall _ l _ | RCall _ l _ | UCall _ l _ => l end.
  Definition call_res (c : call) : L -> R :=
    match c with WCall _ _ r | RCall _ _ r | UCall _ _ r => r end.

  Fixpoint run_steps (st : list wstep) (l : L) (s : S) : L * S :=
    match st with
    | [] => (l, s)
    | f :: t => run_steps t (fst (f l s)) (snd (f l s))
    end.

  (** The call executed alone. *)
  Definition seq_call (c : call) (s : S) : S * R :=
    (snd (run_steps (call_steps c) (call_l0 c) s),
     call_res c (fst (run_steps (call_steps c) (call_l0 c) s))).

  Fixpoint seq_run (s : S) (cs : list call) : S * list R :=
    match cs with
    | [] => (s, [])
    | c :: t =>
        let s1 := fst (seq_call c s) in
        (fst (seq_run s1 t), snd (seq_call c s) :: snd (seq_run s1 t))
    end.

  Lemma seq_run_snoc s cs c :
    seq_run s (cs ++ [c]) =
    (fst (seq_call c (fst (seq_run s cs))),
     snd (seq_run s cs) ++ [snd (seq_call c (fst (seq_run s cs)))]).
  Proof.
    revert s. induction cs as [|c0 t IH]; intros s; cbn [app seq_run fst snd]; [reflexivity|].
    rewrite IH. reflexivity.
  Qed.

  Lemma run_steps_lift rs l s : snd (run_steps (map lift rs) l s) = s.
  Proof.
    revert l. induction rs as [|r t IH]; intros l; cbn [map run_steps lift fst snd]; auto.
  Qed.

  (** ** Threads and configurations *)

  Inductive tstate :=
  | Idle (todo : list call)
  | Running (c : call) (rest : list wstep) (loc : L) (todo : list call).

  Definition tid := nat.

  Record config := mkConfig {
    sh : S;
    ths : tid -> tstate;
    done : list (tid * call * R)     (* returns, oldest first *)
  }.

  Definition holds (m : mode) (t : tstate) : Prop :=
    match t with Running c _ _ _ => call_mode c = m | Idle _ => False end.

  Definition set_th (f : tid -> tstate) (i : tid) (x : tstate) : tid -> tstate :=
    fun j => if Nat.eqb j i then x else f j.

  Inductive step : config -> config -> Prop :=
  | StLock i c todo cfg :
      ths cfg i = Idle (c :: todo) -> call_mode c = MW ->
      (forall j, ~ holds MW (ths cfg j) /\ ~ holds MR (ths cfg j)) ->
      step cfg (mkConfig (sh cfg)
                  (set_th (ths cfg) i (Running c (call_steps c) (call_l0 c) todo)) (done cfg))
  | StRLock i c todo cfg :
      ths cfg i = Idle (c :: todo) -> call_mode c = MR ->
      (forall j, ~ holds MW (ths cfg j)) ->
      step cfg (mkConfig (sh cfg)
                  (set_th (ths cfg) i (Running c (call_steps c) (call_l0 c) todo)) (done cfg))
  | StNoLock i c todo cfg :
      ths cfg i = Idle (c :: todo) -> call_mode c = MU ->
      step cfg (mkConfig (sh cfg)
                  (set_th (ths cfg) i (Running c (call_steps c) (call_l0 c) todo)) (done cfg))
  | StMicro i c f rest loc todo cfg :
      ths cfg i = Running c (f :: rest) loc todo ->
      step cfg (mkConfig (snd (f loc (sh cfg)))
                  (set_th (ths cfg) i (Running c rest (fst (f loc (sh cfg))) todo)) (done cfg))
  | StReturn i c loc todo cfg :
      ths cfg i = Running c [] loc todo ->
      step cfg (mkConfig (sh cfg) (set_th (ths cfg) i (Idle todo))
                  (done cfg ++ [(i, c, call_res c loc)])).

  Inductive reachable (c0 : config) : config -> Prop :=
  | ReachRefl : reachable c0 c0
  | ReachStep c1 c2 : reachable c0 c1 -> step c1 c2 -> reachable c0 c2.

  Definition init (prog : tid -> list call) (s0 : S) : config :=
    mkConfig s0 (fun i => Idle (prog i)) [].

  Definition calls_of (d : list (tid * call * R)) : list call := map (fun x => snd (fst x)) d.
  Definition results_of (d : list (tid * call * R)) : list R := map snd d.

  Definition pending (t : tstate) : list call :=
    match t with Idle todo => todo | Running c _ _ todo => c :: todo end.

  Definition quiescent (cfg : config) : Prop := forall j, exists todo, ths cfg j = Idle todo.

  (** ** The invariant *)

  Definition gstate (s0 : S) (cfg : config) : S := fst (seq_run s0 (calls_of (done cfg))).

  Record inv (s0 : S) (cfg : config) : Prop := mkInv {
    inv_locked : forall j c, In c (pending (ths cfg j)) -> call_mode c <> MU;
    inv_results : snd (seq_run s0 (calls_of (done cfg))) = results_of (done cfg);
    inv_free : (forall j, ~ holds MW (ths cfg j)) -> sh cfg = gstate s0 cfg;
    inv_writer : forall i c rest loc todo,
        ths cfg i = Running c rest loc todo -> call_mode c = MW ->
        run_steps rest loc (sh cfg) = run_steps (call_steps c) (call_l0 c) (gstate s0 cfg) /\
        forall j, j <> i -> ~ holds MW (ths cfg j) /\ ~ holds MR (ths cfg j);
    inv_reader : forall i c rest loc todo,
        ths cfg i = Running c rest loc todo -> call_mode c = MR ->
        (exists rs, rest = map lift rs) /\
        fst (run_steps rest loc (sh cfg)) = fst (run_steps (call_steps c) (call_l0 c) (sh cfg)) /\
        forall j, ~ holds MW (ths cfg j)
  }.

  Lemma set_th_same f i x : set_th f i x i = x.
  Proof. unfold set_th. now rewrite Nat.eqb_refl. Qed.

  Lemma set_th_other f i x j : j <> i -> set_th f i x j = f j.
  Proof. unfold set_th. intros H. apply Nat.eqb_neq in H. now rewrite H. Qed.

  Lemma inv_init prog s0 :
    (forall j c, In c (prog j) -> call_mode c <> MU) -> inv s0 (init prog s0).
  Proof.
    intros H. constructor; cbn [init ths sh done calls_of results_of map seq_run fst snd pending].
    - exact H.
    - reflexivity.
    - reflexivity.
    - intros; discriminate.
    - intros; discriminate.
  Qed.

  Lemma rcall_steps c : call_mode c = MR -> exists rs, call_steps c = map lift rs.
  Proof. destruct c; cbn; try discriminate. eauto. Qed.

  Lemma no_writer_after_set (f : tid -> tstate) i x :
    ~ holds MW x -> (forall j, j <> i -> ~ holds MW (f j)) -> forall j, ~ holds MW (set_th f i x j).
  Proof.
    intros Hx Hf j. destruct (Nat.eq_dec j i) as [->|Hj].
    - now rewrite set_th_same.
    - rewrite set_th_other by exact Hj. auto.
  Qed.

  Lemma inv_step s0 c1 c2 : inv s0 c1 -> step c1 c2 -> inv s0 c2.
  Proof.
    intros [Hl Hr Hf Hw Hrd] Hs.
    destruct Hs as [i c todo cfg Hi Hm Hg | i c todo cfg Hi Hm Hg | i c todo cfg Hi Hm
                   | i c f rest loc todo cfg Hi | i c loc todo cfg Hi].
    - (* Lock *)
      assert (sh cfg = gstate s0 cfg) as Hsh by (apply Hf; intros j; apply Hg).
      constructor; cbn [sh ths done]; unfold gstate in *; cbn [done].
      + intros j c' Hin. destruct (Nat.eq_dec j i) as [->|Hj].
        * rewrite set_th_same in Hin. apply (Hl i). rewrite Hi. exact Hin.
        * rewrite set_th_other in Hin by exact Hj. eauto.
      + exact Hr.
      + intros Hno. exfalso. apply (Hno i). rewrite set_th_same. exact Hm.
      + intros i' c' rest' loc' todo' Hi' Hm'. destruct (Nat.eq_dec i' i) as [->|Hj].
        * rewrite set_th_same in Hi'. injection Hi' as <- <- <- <-. split.
          -- now rewrite Hsh.
          -- intros j Hj. rewrite set_th_other by exact Hj. apply Hg.
        * rewrite set_th_other in Hi' by exact Hj. exfalso.
          apply (proj1 (Hg i')). rewrite Hi'. exact Hm'.
      + intros i' c' rest' loc' todo' Hi' Hm'. destruct (Nat.eq_dec i' i) as [->|Hj].
        * rewrite set_th_same in Hi'. injection Hi' as <- <- <- <-. congruence.
        * rewrite set_th_other in Hi' by exact Hj. exfalso.
          apply (proj2 (Hg i')). rewrite Hi'. exact Hm'.
    - (* RLock *)
      constructor; cbn [sh ths done]; unfold gstate in *; cbn [done].
      + intros j c' Hin. destruct (Nat.eq_dec j i) as [->|Hj].
        * rewrite set_th_same in Hin. apply (Hl i). rewrite Hi. exact Hin.
        * rewrite set_th_other in Hin by exact Hj. eauto.
      + exact Hr.
      + intros _. apply Hf. exact Hg.
      + intros i' c' rest' loc' todo' Hi' Hm'. destruct (Nat.eq_dec i' i) as [->|Hj].
        * rewrite set_th_same in Hi'. injection Hi' as <- <- <- <-. congruence.
        * rewrite set_th_other in Hi' by exact Hj. exfalso.
          apply (Hg i'). rewrite Hi'. exact Hm'.
      + assert (forall j, ~ holds MW (set_th (ths cfg) i (Running c (call_steps c) (call_l0 c) todo) j)) as Hnw.
        { apply no_writer_after_set; [cbn; congruence|auto]. }
        intros i' c' rest' loc' todo' Hi' Hm'. destruct (Nat.eq_dec i' i) as [->|Hj].
        * rewrite set_th_same in Hi'. injection Hi' as <- <- <- <-.
          split; [now apply rcall_steps|]. split; [reflexivity|exact Hnw].
        * rewrite set_th_other in Hi' by exact Hj.
          destruct (Hrd i' c' rest' loc' todo' Hi' Hm') as (H1 & H2 & H3). auto.
    - (* an unlocked call cannot start: excluded by inv_locked *)
      exfalso. apply (Hl i c); [rewrite Hi; now left|exact Hm].
    - (* micro step *)
      assert (call_mode c <> MU) as Hnu by (apply (Hl i); rewrite Hi; now left).
      destruct (call_mode c) eqn:Hm; [| |congruence].
      + (* by the writer *)
        destruct (Hw i c (f :: rest) loc todo Hi Hm) as [Hrun Hothers].
        constructor; cbn [sh ths done]; unfold gstate in *; cbn [done].
        * intros j c' Hin. destruct (Nat.eq_dec j i) as [->|Hj].
          -- rewrite set_th_same in Hin. apply (Hl i). rewrite Hi. exact Hin.
          -- rewrite set_th_other in Hin by exact Hj. eauto.
        * exact Hr.
        * intros Hno. exfalso. apply (Hno i). rewrite set_th_same. exact Hm.
        * intros i' c' rest' loc' todo' Hi' Hm'. destruct (Nat.eq_dec i' i) as [->|Hj].
          -- rewrite set_th_same in Hi'. injection Hi' as <- <- <- <-. split.
             ++ exact Hrun.
             ++ intros j Hj. rewrite set_th_other by exact Hj. auto.
          -- rewrite set_th_other in Hi' by exact Hj. exfalso.
             apply (proj1 (Hothers i' Hj)). rewrite Hi'. exact Hm'.
        * intros i' c' rest' loc' todo' Hi' Hm'. destruct (Nat.eq_dec i' i) as [->|Hj].
          -- rewrite set_th_same in Hi'. injection Hi' as <- <- <- <-. congruence.
          -- rewrite set_th_other in Hi' by exact Hj. exfalso.
             apply (proj2 (Hothers i' Hj)). rewrite Hi'. exact Hm'.
      + (* by a reader: the shared state does not change *)
        destruct (Hrd i c (f :: rest) loc todo Hi Hm) as ([rs Hrs] & Hfst & Hnw).
        destruct rs as [|r rs]; [discriminate|]. cbn [map] in Hrs. injection Hrs as -> ->.
        assert (snd (lift r loc (sh cfg)) = sh cfg) as Hsame by reflexivity.
        assert (forall j, ~ holds MW (set_th (ths cfg) i
                  (Running c (map lift rs) (fst (lift r loc (sh cfg))) todo) j)) as Hnw'.
        { apply no_writer_after_set; [cbn; congruence|auto]. }
        constructor; cbn [sh ths done]; unfold gstate in *; cbn [done]; rewrite ?Hsame.
        * intros j c' Hin. destruct (Nat.eq_dec j i) as [->|Hj].
          -- rewrite set_th_same in Hin. apply (Hl i). rewrite Hi. exact Hin.
          -- rewrite set_th_other in Hin by exact Hj. eauto.
        * exact Hr.
        * intros _. apply Hf. exact Hnw.
        * intros i' c' rest' loc' todo' Hi' Hm'. exfalso. apply (Hnw' i'). rewrite Hi'. exact Hm'.
        * intros i' c' rest' loc' todo' Hi' Hm'. destruct (Nat.eq_dec i' i) as [->|Hj].
          -- rewrite set_th_same in Hi'. injection Hi' as <- <- <- <-.
             split; [eauto|]. split; [|exact Hnw'].
             cbn [run_steps] in Hfst. rewrite Hsame in Hfst. exact Hfst.
          -- rewrite set_th_other in Hi' by exact Hj.
             destruct (Hrd i' c' rest' loc' todo' Hi' Hm') as (H1 & H2 & H3). auto.
    - (* return *)
      assert (call_mode c <> MU) as Hnu by (apply (Hl i); rewrite Hi; now left).
      assert (forall j c', In c' (pending (set_th (ths cfg) i (Idle todo) j)) -> call_mode c' <> MU) as Hl'.
      { intros j c' Hin. destruct (Nat.eq_dec j i) as [->|Hj].
        - rewrite set_th_same in Hin. apply (Hl i). rewrite Hi. now right.
        - rewrite set_th_other in Hin by exact Hj. eauto. }
      destruct (call_mode c) eqn:Hm; [| |congruence].
      + (* the writer returns: its effect is the sequential one *)
        destruct (Hw i c [] loc todo Hi Hm) as [Hrun Hothers]. cbn [run_steps] in Hrun.
        assert (seq_call c (gstate s0 cfg) = (sh cfg, call_res c loc)) as Hseq.
        { unfold seq_call. now rewrite <- Hrun. }
        assert (forall j, ~ holds MW (set_th (ths cfg) i (Idle todo) j)) as Hnw.
        { apply no_writer_after_set; [cbn; auto|]. intros j Hj. apply Hothers, Hj. }
        unfold gstate in *.
        constructor; cbn [sh ths done]; unfold gstate, calls_of, results_of in *; cbn [done];
          rewrite ?map_app; cbn [map fst snd]; rewrite ?seq_run_snoc, ?Hseq; cbn [fst snd].
        * exact Hl'.
        * now rewrite Hr.
        * reflexivity.
        * intros i' c' rest' loc' todo' Hi' Hm'. exfalso. apply (Hnw i'). rewrite Hi'. exact Hm'.
        * intros i' c' rest' loc' todo' Hi' Hm'. destruct (Nat.eq_dec i' i) as [->|Hj].
          -- rewrite set_th_same in Hi'. discriminate.
          -- rewrite set_th_other in Hi' by exact Hj. exfalso.
             apply (proj2 (Hothers i' Hj)). rewrite Hi'. exact Hm'.
      + (* a reader returns: it saw the current state, which it leaves unchanged *)
        destruct (Hrd i c [] loc todo Hi Hm) as (_ & Hfst & Hnw). cbn [run_steps fst] in Hfst.
        assert (sh cfg = gstate s0 cfg) as Hsh by (apply Hf; exact Hnw).
        destruct (rcall_steps c Hm) as [rs Hrs].
        assert (seq_call c (gstate s0 cfg) = (gstate s0 cfg, call_res c loc)) as Hseq.
        { unfold seq_call. rewrite <- Hsh, <- Hfst. rewrite Hrs, run_steps_lift. reflexivity. }
        assert (forall j, ~ holds MW (set_th (ths cfg) i (Idle todo) j)) as Hnw'.
        { apply no_writer_after_set; [cbn; auto|auto]. }
        unfold gstate in *.
        constructor; cbn [sh ths done]; unfold gstate, calls_of, results_of in *; cbn [done];
          rewrite ?map_app; cbn [map fst snd]; rewrite ?seq_run_snoc, ?Hseq; cbn [fst snd].
        * exact Hl'.
        * now rewrite Hr.
        * intros _. exact Hsh.
        * intros i' c' rest' loc' todo' Hi' Hm'. exfalso. apply (Hnw' i'). rewrite Hi'. exact Hm'.
        * intros i' c' rest' loc' todo' Hi' Hm'. destruct (Nat.eq_dec i' i) as [->|Hj].
          -- rewrite set_th_same in Hi'. discriminate.
          -- rewrite set_th_other in Hi' by exact Hj.
             destruct (Hrd i' c' rest' loc' todo' Hi' Hm') as (H1 & H2 & H3). auto.
  Qed.

  Lemma inv_reachable prog s0 cfg :
    (forall j c, In c (prog j) -> call_mode c <> MU) ->
    reachable (init prog s0) cfg -> inv s0 cfg.
  Proof.
    intros H Hr. induction Hr as [|c1 c2 _ IH Hs]; [now apply inv_init|].
    eapply inv_step; eauto.
  Qed.

  (** ** Mutex reduction *)

  (** In every reachable configuration, the calls that have returned, taken in
      the order of their returns, form a sequential execution that produces
      exactly the results that were returned; and whenever no writer is inside
      its critical section the shared state is the state of that sequential
      execution. *)
  Theorem rw_linearizable prog s0 cfg :
    (forall j c, In c (prog j) -> call_mode c <> MU) ->
    reachable (init prog s0) cfg ->
    snd (seq_run s0 (calls_of (done cfg))) = results_of (done cfg) /\
    ((forall j, ~ holds MW (ths cfg j)) ->
     sh cfg = fst (seq_run s0 (calls_of (done cfg)))).
  Proof.
    intros H Hr. destruct (inv_reachable prog s0 cfg H Hr) as [_ H2 H3 _ _]. split; assumption.
  Qed.

  Corollary rw_quiescent prog s0 cfg :
    (forall j c, In c (prog j) -> call_mode c <> MU) ->
    reachable (init prog s0) cfg -> quiescent cfg ->
    seq_run s0 (calls_of (done cfg)) = (sh cfg, results_of (done cfg)).
  Proof.
    intros H Hr Hq. destruct (rw_linearizable prog s0 cfg H Hr) as [H1 H2].
    rewrite (surjective_pairing (seq_run s0 (calls_of (done cfg)))). f_equal; [|exact H1].
    symmetry. apply H2. intros j. destruct (Hq j) as [todo ->]. cbn. auto.
  Qed.

  (** The returned calls are the programs' calls, per thread in program order,
      and nothing is executed twice. *)
  Definition thread_done (i : tid) (d : list (tid * call * R)) : list call :=
    calls_of (filter (fun x => Nat.eqb (fst (fst x)) i) d).

  Lemma program_order prog s0 cfg :
    reachable (init prog s0) cfg ->
    forall i, prog i = thread_done i (done cfg) ++ pending (ths cfg i).
  Proof.
    intros Hr. induction Hr as [|c1 c2 _ IH Hs]; intros i'.
    - reflexivity.
    - specialize (IH i').
      destruct Hs as [i c todo cfg Hi Hm Hg | i c todo cfg Hi Hm Hg | i c todo cfg Hi Hm
                     | i c f rest loc todo cfg Hi | i c loc todo cfg Hi]; cbn [ths done];
        try (destruct (Nat.eq_dec i' i) as [->|Hj];
             [rewrite set_th_same; rewrite Hi in IH; exact IH
             |rewrite set_th_other by exact Hj; exact IH]).
      unfold thread_done, calls_of in *. rewrite filter_app, map_app. cbn [filter fst].
      destruct (Nat.eq_dec i' i) as [->|Hj].
      + rewrite set_th_same, Nat.eqb_refl. rewrite Hi in IH. cbn [pending map snd fst] in *.
        rewrite <- app_assoc. exact IH.
      + rewrite set_th_other by exact Hj.
        assert (Nat.eqb i i' = false) as E by (apply Nat.eqb_neq; congruence).
        rewrite E. cbn [map]. now rewrite app_nil_r.
  Qed.
  (** ** Blocking: what the lock excludes *)

  (** While a writer is inside its critical section no other thread is inside
      a call; while a reader is, no writer is. *)
  Theorem lock_exclusion prog s0 cfg :
    (forall j c, In c (prog j) -> call_mode c <> MU) ->
    reachable (init prog s0) cfg ->
    forall i,
      (holds MW (ths cfg i) -> forall j, j <> i -> ~ holds MW (ths cfg j) /\ ~ holds MR (ths cfg j)) /\
      (holds MR (ths cfg i) -> forall j, ~ holds MW (ths cfg j)).
  Proof.
    intros H Hr i. destruct (inv_reachable prog s0 cfg H Hr) as [_ _ _ Hw Hrd].
    destruct (ths cfg i) as [todo|c rest loc todo] eqn:E; cbn [holds]; split; try tauto.
    - intros Hm. exact (proj2 (Hw i c rest loc todo E Hm)).
    - intros Hm. exact (proj2 (proj2 (Hrd i c rest loc todo E Hm))).
  Qed.

  (** Hence while a writer is inside its critical section every step of the
      system is a step of that writer: all other threads stay where they are
      (their Lock / RLock is not enabled - they block). *)
  Theorem writer_runs_alone prog s0 cfg cfg' i :
    (forall j c, In c (prog j) -> call_mode c <> MU) ->
    reachable (init prog s0) cfg ->
    holds MW (ths cfg i) -> step cfg cfg' ->
    forall j, j <> i -> ths cfg' j = ths cfg j.
  Proof.
    intros H Hr Hi Hs j Hj.
    pose proof (inv_reachable prog s0 cfg H Hr) as [Hl _ _ _ _].
    destruct (lock_exclusion prog s0 cfg H Hr i) as [Hex _]. specialize (Hex Hi).
    destruct Hs as [i' c todo cfg Hi' Hm Hg | i' c todo cfg Hi' Hm Hg | i' c todo cfg Hi' Hm
                   | i' c f rest loc todo cfg Hi' | i' c loc todo cfg Hi']; cbn [ths].
    - exfalso. apply (proj1 (Hg i)). exact Hi.
    - exfalso. apply (Hg i). exact Hi.
    - exfalso. apply (Hl i' c); [rewrite Hi'; now left|exact Hm].
    - destruct (Nat.eq_dec i' i) as [->|Hne]; [now rewrite set_th_other|].
      exfalso. assert (call_mode c <> MU) as Hnu by (apply (Hl i'); rewrite Hi'; now left).
      destruct (Hex i' Hne) as [H1 H2]. rewrite Hi' in H1, H2. cbn [holds] in H1, H2.
      destruct (call_mode c); congruence.
    - destruct (Nat.eq_dec i' i) as [->|Hne]; [now rewrite set_th_other|].
      exfalso. assert (call_mode c <> MU) as Hnu by (apply (Hl i'); rewrite Hi'; now left).
      destruct (Hex i' Hne) as [H1 H2]. rewrite Hi' in H1, H2. cbn [holds] in H1, H2.
      destruct (call_mode c); congruence.
  Qed.

  (** While a reader is inside, no writer can start. *)
  Theorem reader_blocks_writers prog s0 cfg cfg' i :
    (forall j c, In c (prog j) -> call_mode c <> MU) ->
    reachable (init prog s0) cfg ->
    holds MR (ths cfg i) -> step cfg cfg' ->
    forall j, ~ holds MW (ths cfg' j).
  Proof.
    intros H Hr Hi Hs.
    assert (reachable (init prog s0) cfg') as Hr' by (eapply ReachStep; eauto).
    destruct (lock_exclusion prog s0 cfg H Hr i) as [_ Hex]. specialize (Hex Hi).
    destruct Hs as [i' c todo cfg Hi' Hm Hg | i' c todo cfg Hi' Hm Hg | i' c todo cfg Hi' Hm
                   | i' c f rest loc todo cfg Hi' | i' c loc todo cfg Hi']; cbn [ths]; intros j.
    - exfalso. apply (proj2 (Hg i)). exact Hi.
    - apply no_writer_after_set; [cbn; congruence|auto].
    - pose proof (inv_reachable prog s0 cfg H Hr) as [Hl _ _ _ _].
      exfalso. apply (Hl i' c); [rewrite Hi'; now left|exact Hm].
    - apply no_writer_after_set; [|auto]. cbn [holds]. intros Hm.
      apply (Hex i'). rewrite Hi'. exact Hm.
    - apply no_writer_after_set; [cbn; auto|auto].
  Qed.
End Sched.

Arguments WCall {S L R}.
Arguments RCall {S L R}.
Arguments UCall {S L R}.
Arguments Idle {S L R}.
Arguments Running {S L R}.
Arguments mkConfig {S L R}.
