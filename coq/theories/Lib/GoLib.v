(** The Coq side of the Go -> Gallina translator [gen/gotrans.go].

    Every definition that [coq/theories/Gen/Code*.v] (regenerated from /repo on
    every run) refers to lives here: Go's fixed-width integers as [Z] with
    explicit wrap functions, strings and byte slices as [list N], [time.Time]
    and [time.Duration] as [Z] nanoseconds, [error] as [option go_err], and
    the table of modelled library functions — each *defined as* the function
    the hand-written models already use (Lib/Path.v, Lib/Bytes.v, Lib/Codec.v,
    Lib/Utf8.v); there is no second model of [path.Clean] here.

    A Go shape the translator does not know becomes a definition of type
    [go_unknown], so the refinement lemma about it cannot even be stated.
    A Go panic site (slice / index out of range) evaluates to [go_junk d], an
    opaque value: a refinement lemma can only be proved by showing that the
    site is not reached (or under the bounds hypothesis it states). *)
From Coq Require Import String.
From Coq Require Import List NArith ZArith Bool Lia.
From Coq Require Import ZifyN ZifyNat ZifyBool.
From Verif Require Import Lib.Bytes Lib.Path Lib.Codec Lib.Utf8.
Import ListNotations.
Local Open Scope Z_scope.

(** * What the translator could not read *)
Inductive go_unknown : Set := GoUnknown (src : string).

(** * Panic sites *)
Definition go_junk {A : Type} (d : A) : A.
Proof. exact d. Qed.

(** * Errors: a constructor class and the message template.  Format
    arguments are not modelled. *)
Inductive go_err : Set := GoErr (kind msg : string).
Definition go_error := option go_err.

Definition go_err_kind (e : go_error) : option string :=
  match e with Some (GoErr k _) => Some k | None => None end.
Definition go_err_msg (e : go_error) : option string :=
  match e with Some (GoErr _ m) => Some m | None => None end.
Definition go_isnil {A} (o : option A) : bool :=
  match o with None => true | Some _ => false end.

(** [errcode.Annotate(err, msg)]: nil stays nil, the class is kept. *)
Definition errcode_Annotate (e : go_error) (m : string) : go_error :=
  match e with
  | None => None
  | Some (GoErr k m0) => Some (GoErr k (m ++ ": " ++ m0)%string)
  end.

(** * Integers *)
Definition two63z : Z := 9223372036854775808.
Definition two64z : Z := 18446744073709551616.

Definition wrap_i64 (z : Z) : Z := (z + two63z) mod two64z - two63z.
Definition wrap_u64 (z : Z) : Z := z mod two64z.
Definition wrap_i32 (z : Z) : Z := (z + 2147483648) mod 4294967296 - 2147483648.
Definition wrap_u32 (z : Z) : Z := z mod 4294967296.
Definition wrap_u16 (z : Z) : Z := z mod 65536.
Definition wrap_u8 (z : Z) : Z := z mod 256.

Definition is_i64 (z : Z) : Prop := - two63z <= z < two63z.
Definition is_u64 (z : Z) : Prop := 0 <= z < two64z.

Ltac Zify.zify_post_hook ::= Z.div_mod_to_equations.

Lemma wrap_i64_small z : is_i64 z -> wrap_i64 z = z.
Proof. unfold is_i64, wrap_i64, two63z, two64z. lia. Qed.
Lemma wrap_u64_small z : is_u64 z -> wrap_u64 z = z.
Proof. unfold is_u64, wrap_u64, two64z. lia. Qed.
Lemma wrap_i64_range z : is_i64 (wrap_i64 z).
Proof. unfold is_i64, wrap_i64, two63z, two64z. lia. Qed.
Lemma wrap_u64_range z : is_u64 (wrap_u64 z).
Proof. unfold is_u64, wrap_u64, two64z. lia. Qed.

(** Go's [/] and [%] truncate toward zero; division by zero panics. *)
Definition go_quot (a b : Z) : Z := if b =? 0 then go_junk 0 else Z.quot a b.
Definition go_rem (a b : Z) : Z := if b =? 0 then go_junk 0 else Z.rem a b.

Lemma go_quot_nonneg a b : 0 <= a -> 0 < b -> go_quot a b = a / b.
Proof.
  intros Ha Hb. unfold go_quot. destruct (Z.eqb_spec b 0); [lia|].
  apply Z.quot_div_nonneg; lia.
Qed.

(** [x << n], [x >> n] on the mathematical value (the caller wraps). *)
Definition go_shl (a n : Z) : Z := if n <? 0 then go_junk 0 else Z.shiftl a n.
Definition go_shr (a n : Z) : Z := if n <? 0 then go_junk 0 else Z.shiftr a n.

(** * Strings and byte slices *)
Definition go_len {A} (l : list A) : Z := Z.of_nat (List.length l).

Lemma go_len_nonneg {A} (l : list A) : 0 <= go_len l.
Proof. unfold go_len. lia. Qed.
Lemma go_len_N {A} (l : list A) : go_len l = Z.of_N (N.of_nat (List.length l)).
Proof. unfold go_len. lia. Qed.

Definition go_str_eqb (a b : list N) : bool := str_eqb a b.
Definition go_str_ltb (a b : list N) : bool := str_ltb a b.
Definition go_is_empty (a : list N) : bool := is_empty a.

(** [s[i]] as an integer. *)
Definition go_index (s : list N) (i : Z) : Z :=
  if (0 <=? i) && (i <? go_len s) then Z.of_N (nth (Z.to_nat i) s 0%N) else go_junk 0.

(** [s[lo:hi]]; a slice expression beyond [len] (for a slice: beyond its
    capacity, which is not modelled) panics. *)
Definition go_slice {A} (s : list A) (lo hi : Z) : list A :=
  if (0 <=? lo) && (lo <=? hi) && (hi <=? go_len s)
  then firstn (Z.to_nat (hi - lo)) (skipn (Z.to_nat lo) s) else go_junk [].

Lemma go_slice_from {A} (s : list A) n :
  0 <= n <= go_len s -> go_slice s n (go_len s) = skipn (Z.to_nat n) s.
Proof.
  unfold go_slice, go_len. intros H.
  destruct (Z.leb_spec 0 n); [|lia]. destruct (Z.leb_spec n (Z.of_nat (length s))); [|lia].
  destruct (Z.leb_spec (Z.of_nat (length s)) (Z.of_nat (length s))); [|lia]. cbn [andb].
  apply firstn_all2. rewrite skipn_length. lia.
Qed.

Lemma go_slice_to {A} (s : list A) n :
  0 <= n <= go_len s -> go_slice s 0 n = firstn (Z.to_nat n) s.
Proof.
  unfold go_slice, go_len. intros H.
  destruct (Z.leb_spec 0 0); [|lia]. destruct (Z.leb_spec 0 n); [|lia].
  destruct (Z.leb_spec n (Z.of_nat (length s))); [|lia]. cbn [andb].
  now rewrite Z.sub_0_r.
Qed.

(** [for _, r := range s] over a string: the runes Go's decoder yields
    (U+FFFD for every byte of an invalid sequence). *)
Definition go_runes (s : list N) : list Z := map Z.of_N (utf8_decode_with rune_error s).
Definition go_bytes_Z (s : list N) : list Z := map Z.of_N s.

(** * package strings *)
Definition strings_HasPrefix (s p : list N) : bool := has_prefix s p.
Definition strings_HasSuffix (s suf : list N) : bool := has_prefix (rev s) (rev suf).
Definition strings_TrimPrefix (s p : list N) : list N :=
  if has_prefix s p then skipn (List.length p) s else s.
Definition strings_TrimSuffix (s suf : list N) : list N :=
  if strings_HasSuffix s suf then firstn (List.length s - List.length suf) s else s.

Fixpoint strings_Contains_from (s sub : list N) : bool :=
  has_prefix s sub || match s with [] => false | _ :: r => strings_Contains_from r sub end.
Definition strings_Contains (s sub : list N) : bool := strings_Contains_from s sub.

(** [strings.Split(s, "/")] only (the one separator Lib/Path.v models). *)
Definition strings_Split_slash (s : list N) : list (list N) := split_slash s.
Definition strings_Join_slash (l : list (list N)) : list N := join_slash l.

Lemma strings_TrimPrefix_slash s : strings_TrimPrefix s [47%N] = trim_slash s.
Proof.
  unfold strings_TrimPrefix, trim_slash. destruct s as [|c r]; [reflexivity|].
  cbn [has_prefix]. unfold slash. rewrite N.eqb_sym.
  destruct (c =? 47)%N; cbn [andb]; [destruct r|]; reflexivity.
Qed.

(** * packages path and path/filepath (unix) *)
Definition path_Clean (p : list N) : list N := clean p.
Definition path_Join (elems : list (list N)) : list N := path_join elems.
Definition path_IsAbs (p : list N) : bool := is_rooted p.
Definition filepath_Clean (p : list N) : list N := clean p.
Definition filepath_Join (elems : list (list N)) : list N := filepath_join elems.
Definition filepath_IsAbs (p : list N) : bool := is_rooted p.
Definition filepath_Dir (p : list N) : list N := dir_of p.
Definition filepath_FromSlash (p : list N) : list N := p.
Definition filepath_ToSlash (p : list N) : list N := p.
(** [filepath.Rel]: the error is "Rel: can't make ... relative to ...". *)
Definition filepath_Rel (base targ : list N) : list N * go_error :=
  match filepath_rel base targ with
  | Some r => (r, None)
  | None => ([], Some (GoErr "filepath" "Rel: can't make relative"))
  end.

(** * packages bytes, crypto/hmac, crypto/subtle *)
Definition bytes_Equal (a b : list N) : bool := beq_bytes a b.
Definition hmac_Equal (a b : list N) : bool := beq_bytes a b.
Definition subtle_ConstantTimeCompare (a b : list N) : Z := if beq_bytes a b then 1 else 0.

(** * package encoding/hex *)
Definition hex_EncodeToString (b : list N) : list N := hex_encode b.
Definition hex_DecodeString (s : list N) : list N * go_error :=
  match hex_decode s with
  | Some b => (b, None)
  | None => ([], Some (GoErr "hex" "invalid byte or odd length"))
  end.

(** * package encoding/base64, RawURLEncoding *)
Definition base64_RawURL_EncodeToString (b : list N) : list N := b64_encode b.
Definition base64_RawURL_DecodeString (s : list N) : list N * go_error :=
  match b64_decode s with
  | Some b => (b, None)
  | None => ([], Some (GoErr "base64" "illegal base64 data"))
  end.

(** * package encoding/binary, LittleEndian *)
Definition binary_LE_Uint64 (b : list N) : Z :=
  if 8 <=? go_len b then Z.of_N (de64 b) else go_junk 0.
Definition binary_LE_PutUint64_bytes (v : Z) : list N := le64 (Z.to_N (wrap_u64 v)).
Definition binary_LE_Uint32 (b : list N) : Z :=
  if 4 <=? go_len b then Z.of_N (de_bytes (firstn 4 b)) else go_junk 0.
Definition binary_LE_Uint16 (b : list N) : Z :=
  if 2 <=? go_len b then Z.of_N (de_bytes (firstn 2 b)) else go_junk 0.

(** * package time: instants and durations are nanosecond counts in [Z].
    Exact on instants whose second count stays clear of the [int64] wrap of
    [time.Time]'s internal representation (see the range hypotheses of the
    refinement lemmas); [Sub] saturates as Go's does; [UnixNano] wraps. *)
Definition time_ns_per_sec : Z := 1000000000.
Definition time_min_dur : Z := - two63z.
Definition time_max_dur : Z := two63z - 1.
Definition time_Add (t d : Z) : Z := t + d.
Definition time_Sub (a b : Z) : Z :=
  let d := a - b in
  if d <? time_min_dur then time_min_dur else if time_max_dur <? d then time_max_dur else d.
Definition time_Before (a b : Z) : bool := a <? b.
Definition time_After (a b : Z) : bool := b <? a.
Definition time_Equal (a b : Z) : bool := a =? b.
Definition time_Unix (sec nsec : Z) : Z := sec * time_ns_per_sec + nsec.
Definition time_UnixNano (t : Z) : Z := wrap_i64 t.
Definition time_UnixSec (t : Z) : Z := t / time_ns_per_sec.

(** * Counterexample search: the candidates on which the generated
    definition and the model disagree, with both results. *)
Definition cex_search {A B : Type} (eqb : B -> B -> bool) (g m : A -> B) (cands : list A)
  : list (A * (B * B)) :=
  flat_map (fun x => let a := g x in let b := m x in if eqb a b then [] else [(x, (a, b))]) cands.

Definition opt_eqb {A} (eqb : A -> A -> bool) (a b : option A) : bool :=
  match a, b with
  | Some x, Some y => eqb x y
  | None, None => true
  | _, _ => false
  end.
Definition pair_eqb {A B} (ea : A -> A -> bool) (eb : B -> B -> bool) (a b : A * B) : bool :=
  ea (fst a) (fst b) && eb (snd a) (snd b).
Definition go_err_eqb (a b : go_err) : bool :=
  match a, b with GoErr k m, GoErr k' m' => String.eqb k k' && String.eqb m m' end.

(** All strings over an alphabet up to a length (candidate lists). *)
Fixpoint strs_upto (alpha : list N) (n : nat) : list (list N) :=
  match n with
  | O => [[]]
  | S n' => [] :: flat_map (fun s => map (fun c => c :: s) alpha) (strs_upto alpha n')
  end.

Definition pairs {A B} (la : list A) (lb : list B) : list (A * B) :=
  flat_map (fun a => map (fun b => (a, b)) lb) la.

(** * Tactics for refinement lemmas (robust against harmless rewrites of the
    Go code: no generated names, case analysis on the boolean atoms of the
    conditions, so that [!c], swapped branches and reordered conjuncts all end
    in the same leaves). *)
Ltac go_bool_atom c :=
  lazymatch c with
  | negb ?a => go_bool_atom a
  | andb ?a ?b => first [go_bool_atom a | go_bool_atom b]
  | orb ?a ?b => first [go_bool_atom a | go_bool_atom b]
  | Bool.eqb ?a ?b => first [go_bool_atom a | go_bool_atom b]
  | true => fail
  | false => fail
  | _ => lazymatch type of c with bool => destruct c eqn:? end
  end.

(** Every boolean connective of the goal becomes an [if]; then the
    innermost conditions are split first, so that no recorded equation contains
    an [if].  Nothing else is unfolded ([cbn beta iota zeta] only reduces
    [if true ...] and anonymous loops applied to constructors). *)
Ltac go_cases :=
  unfold andb, orb, negb, Bool.eqb;
  repeat (match goal with
          | |- context [if ?c then _ else _] =>
              lazymatch c with
              | context [if _ then _ else _] => fail
              | _ => go_bool_atom c
              end
          end; cbn beta iota zeta).

(** Comparison atoms that are left in the goal outside any [if] (a boolean
    that is returned as such). *)
Ltac go_atoms :=
  repeat (match goal with
          | |- context [(?a =? ?b)%Z] => destruct (a =? b)%Z eqn:?
          | |- context [(?a <? ?b)%Z] => destruct (a <? b)%Z eqn:?
          | |- context [(?a <=? ?b)%Z] => destruct (a <=? b)%Z eqn:?
          | |- context [(?a >? ?b)%Z] => destruct (a >? b)%Z eqn:?
          | |- context [(?a >=? ?b)%Z] => destruct (a >=? b)%Z eqn:?
          | |- context [(?a =? ?b)%N] => destruct (a =? b)%N eqn:?
          | |- context [(?a <? ?b)%N] => destruct (a <? b)%N eqn:?
          | |- context [(?a <=? ?b)%N] => destruct (a <=? b)%N eqn:?
          | |- context [String.eqb ?a ?b] => destruct (String.eqb a b) eqn:?
          | |- context [str_eqb ?a ?b] => destruct (str_eqb a b) eqn:?
          | |- context [beq_bytes ?a ?b] => destruct (beq_bytes a b) eqn:?
          end; cbn beta iota zeta).

(** Boolean comparison atoms in hypotheses to (in)equalities for [lia]. *)
Ltac go_arith :=
  repeat match goal with
         | H : (_ <? _)%Z = _ |- _ => first [apply Z.ltb_lt in H | apply Z.ltb_ge in H]
         | H : (_ <=? _)%Z = _ |- _ => first [apply Z.leb_le in H | apply Z.leb_gt in H]
         | H : (_ >? _)%Z = _ |- _ => rewrite Z.gtb_ltb in H
         | H : (_ >=? _)%Z = _ |- _ => rewrite Z.geb_leb in H
         | H : (_ =? _)%Z = _ |- _ => first [apply Z.eqb_eq in H | apply Z.eqb_neq in H]
         | H : (_ <? _)%N = _ |- _ => first [apply N.ltb_lt in H | apply N.ltb_ge in H]
         | H : (_ <=? _)%N = _ |- _ => first [apply N.leb_le in H | apply N.leb_gt in H]
         | H : (_ =? _)%N = _ |- _ => first [apply N.eqb_eq in H | apply N.eqb_neq in H]
         | H : str_eqb _ _ = _ |- _ => first [apply str_eqb_eq in H | apply str_eqb_neq in H]
         | H : go_str_eqb _ _ = _ |- _ => unfold go_str_eqb in H
         | H : beq_bytes _ _ = _ |- _ => first [apply beq_bytes_spec in H | apply beq_bytes_neq in H]
         | H : String.eqb _ _ = _ |- _ => first [apply String.eqb_eq in H | apply String.eqb_neq in H]
         end.

(** A leaf of the case analysis: the two sides are the same term, or the
    recorded conditions contradict each other. *)
Ltac go_leaf :=
  try reflexivity; go_arith; try congruence; try lia; exfalso; first [lia | congruence].

Ltac go_solve := go_cases; go_atoms; go_leaf.

(** * Panic conditions (checked mode of the translator): [true] = the
    expression does not panic. *)
Definition go_index_ok {A} (s : list A) (i : Z) : bool := (0 <=? i) && (i <? go_len s).
Definition go_slice_ok {A} (s : list A) (lo hi : Z) : bool :=
  (0 <=? lo) && (lo <=? hi) && (hi <=? go_len s).

Lemma go_slice_ok_eq {A} (s : list A) lo hi :
  go_slice_ok s lo hi = true ->
  go_slice s lo hi = firstn (Z.to_nat (hi - lo)) (skipn (Z.to_nat lo) s).
Proof. unfold go_slice_ok, go_slice. intros ->. reflexivity. Qed.

(** Slices and wraps at arguments that come from [N] (the models count in [N]). *)
Lemma go_slice_N {A} (l : list A) (s e : N) :
  (s <= e)%N -> (e <= N.of_nat (List.length l))%N ->
  go_slice l (Z.of_N s) (Z.of_N e) = skipn (N.to_nat s) (firstn (N.to_nat e) l).
Proof.
  intros H1 H2. unfold go_slice, go_len.
  destruct (Z.leb_spec 0 (Z.of_N s)); [|lia].
  destruct (Z.leb_spec (Z.of_N s) (Z.of_N e)); [|lia].
  destruct (Z.leb_spec (Z.of_N e) (Z.of_nat (length l))); [|lia]. cbn [andb].
  rewrite skipn_firstn_comm. f_equal; [lia|f_equal; lia].
Qed.

Lemma wrap_u64_of_N (a : N) : wrap_u64 (Z.of_N a) = Z.of_N (a mod 18446744073709551616)%N.
Proof. unfold wrap_u64, two64z. lia. Qed.

Lemma wrap_u64_len {A} (l : list A) :
  (N.of_nat (List.length l) < 18446744073709551616)%N -> wrap_u64 (go_len l) = Z.of_N (N.of_nat (List.length l)).
Proof. intros H. unfold wrap_u64, go_len, two64z. lia. Qed.

Fixpoint list_eqb {A} (eqb : A -> A -> bool) (a b : list A) : bool :=
  match a, b with
  | [], [] => true
  | x :: a', y :: b' => eqb x y && list_eqb eqb a' b'
  | _, _ => false
  end.

(** A Go string or slice holds fewer than 2^63 elements ([len] is an [int]). *)
Definition go_sized {A} (l : list A) : Prop := go_len l < two63z.

(** [errcode.IsNotFound] etc.: the class of the error ([errcode.Of]). *)
Definition errcode_Is (k : string) (e : go_error) : bool :=
  match e with Some (GoErr k' _) => String.eqb k' k | None => false end.

Lemma Z_of_N_eqb (a b : N) : (Z.of_N a =? Z.of_N b) = (a =? b)%N.
Proof. lia. Qed.
Lemma Z_of_N_ltb (a b : N) : (Z.of_N a <? Z.of_N b) = (a <? b)%N.
Proof. lia. Qed.
Lemma Z_of_N_leb (a b : N) : (Z.of_N a <=? Z.of_N b) = (a <=? b)%N.
Proof. lia. Qed.

(** * State machines (gotrans2.go)

    Results of definitions that can panic or contain a loop on fuel. *)
Inductive go_res (A : Type) : Type :=
| GoOk (a : A)
| GoPanic (why : string)
| GoOutOfFuel.
Arguments GoOk {A} a.
Arguments GoPanic {A} why.
Arguments GoOutOfFuel {A}.

Definition go_bind {A B} (r : go_res A) (f : A -> go_res B) : go_res B :=
  match r with
  | GoOk a => f a
  | GoPanic w => GoPanic w
  | GoOutOfFuel => GoOutOfFuel
  end.

Lemma go_bind_ok {A B} (a : A) (f : A -> go_res B) : go_bind (GoOk a) f = f a.
Proof. reflexivity. Qed.

(** ** The abstract lexer ([*lexing.Lexer] over its rune scanner).

    State: [inp] = the runes not yet consumed, its head is the current rune
    [x.Rune()], [[]] is [x.Ended()] (then [x.Rune()] is 0, what
    [lexScanner.next] returns with the error); [buf] = the scanning buffer;
    [errs] = the errors reported through [x.Errorf] / [x.CodeErrorf], before
    [ErrorList]'s cap.  [x.Next()] pushes the current rune into the buffer and
    moves on; on an ended lexer it is the Go panic "scanning on closed rune
    scanner".  [x.MakeToken(t)] yields [(t, buf)] and empties the buffer.
    Positions are not modelled.  Runes are [Z] (Go's [rune] = [int32]). *)
Definition lexer_Rune (inp : list Z) : Z := hd 0 inp.
Definition lexer_Ended (inp : list Z) : bool := match inp with [] => true | _ => false end.
Definition lexer_Buffered (buf : list Z) : list N := utf8_encode (map Z.to_N buf).

(** ** [strings.Fields] (on ASCII white space) and a [map[string]bool] that is
    only built by [strutil.MakeSet] and only looked up: a list with membership. *)
Definition strings_is_space (c : N) : bool :=
  ((c =? 9) || (c =? 10) || (c =? 11) || (c =? 12) || (c =? 13) || (c =? 32))%N.
Fixpoint strings_Fields_aux (cur : list N) (s : list N) : list (list N) :=
  match s with
  | [] => match cur with [] => [] | _ => [rev cur] end
  | c :: r =>
      if strings_is_space c
      then match cur with [] => strings_Fields_aux [] r | _ => rev cur :: strings_Fields_aux [] r end
      else strings_Fields_aux (c :: cur) r
  end.
Definition strings_Fields (s : list N) : list (list N) := strings_Fields_aux [] s.
Definition strutil_MakeSet (l : list (list N)) : list (list N) := l.
Definition go_set_mem (k : list N) (set : list (list N)) : bool := existsb (beq_bytes k) set.

(** ** The abstract [io.Reader]

    What a reader will do: the chunks it delivers, and whether the last chunk
    comes together with [io.EOF] (both are allowed by the [io.Reader]
    contract).  One [Read(buf)] returns at most [len(buf)] bytes of the next
    chunk — a chunk longer than the buffer is delivered over several calls, an
    empty chunk is a [(0, nil)] read — and, when the script is exhausted,
    [(0, io.EOF)].  The only error a reader of this model returns is [io.EOF]. *)
Record go_reader := mkReader { rd_chunks : list (list N); rd_eof_with_last : bool }.

Definition rd_bytes (r : go_reader) : list N := concat (rd_chunks r).
Definition rd_size (r : go_reader) : nat :=
  fold_right (fun c n => (S (List.length c) + n)%nat) 0%nat (rd_chunks r).

Definition io_EOF : go_error := Some (GoErr "var" "io.EOF").
Definition io_ErrUnexpectedEOF : go_error := Some (GoErr "var" "io.ErrUnexpectedEOF").

(** One [r.Read(buf)] with [len(buf) = n]: data, error, the reader after. *)
Definition rd_read (n : nat) (r : go_reader) : list N * go_error * go_reader :=
  match rd_chunks r with
  | [] => ([], io_EOF, r)
  | d :: cs =>
      if (List.length d <=? n)%nat then
        (d, (match cs with [] => if rd_eof_with_last r then io_EOF else None | _ => None end),
         mkReader cs (rd_eof_with_last r))
      else (firstn n d, None, mkReader (skipn n d :: cs) (rd_eof_with_last r))
  end.

(** The loop of [io.ReadAtLeast(r, buf, n)] with [n = len(buf)]: data read,
    whether the reader reported [io.EOF], the chunks left.  ([n] is binary:
    a length prefix can ask for 2^63 bytes.) *)
Definition lenNb {A} (l : list A) : N := N.of_nat (List.length l).

Fixpoint rd_fill (cs : list (list N)) (n : N) (flag : bool) : list N * bool * list (list N) :=
  match cs with
  | [] => ([], negb (n =? 0)%N, [])
  | d :: cs' =>
      if (n =? 0)%N then ([], false, cs)
      else if (lenNb d <? n)%N then
        match cs' with
        | [] => if flag then (d, true, []) else
                  let '(acc, e, r) := rd_fill cs' (n - lenNb d) flag in (d ++ acc, e, r)
        | _ => let '(acc, e, r) := rd_fill cs' (n - lenNb d) flag in (d ++ acc, e, r)
        end
      else (firstn (N.to_nat n) d, false,
            (if (lenNb d =? n)%N then cs' else skipn (N.to_nat n) d :: cs'))
  end.

(** [io.ReadFull(r, buf)] with [len(buf) = n]: [nil] when the buffer was
    filled, [io.EOF] when nothing was read, [io.ErrUnexpectedEOF] in between. *)
Definition io_ReadFull (r : go_reader) (n : Z) : list N * go_error * go_reader :=
  let '(got, _, cs) := rd_fill (rd_chunks r) (Z.to_N n) (rd_eof_with_last r) in
  (got,
   (if (lenNb got =? Z.to_N n)%N then None
    else match got with [] => io_EOF | _ => io_ErrUnexpectedEOF end),
   mkReader cs (rd_eof_with_last r)).

(** [io.CopyN(dst, r, n)] into a buffer: what was copied; [io.EOF] when the
    reader ended first. *)
Definition io_CopyN (r : go_reader) (n : Z) : list N * go_error * go_reader :=
  let '(got, _, cs) := rd_fill (rd_chunks r) (Z.to_N n) (rd_eof_with_last r) in
  (got, (if (lenNb got =? Z.to_N n)%N then None else io_EOF), mkReader cs (rd_eof_with_last r)).

(** [io.ReadAll(r)]: everything, no error. *)
Definition io_ReadAll (r : go_reader) : list N * go_error * go_reader :=
  (rd_bytes r, None, mkReader [] (rd_eof_with_last r)).

(** [r.Read(buf)] as the translator emits it: the buffer after the call. *)
Definition go_fill_buf (buf got : list N) : list N := got ++ skipn (List.length got) buf.

Definition go_max_alloc : Z := 281474976710656.   (* runtime.maxAlloc on linux/amd64 *)
Definition go_make_bytes (n : Z) : list N := repeat 0%N (Z.to_nat n).
Definition go_make_ok (n : Z) : bool := (0 <=? n) && (n <=? go_max_alloc).

(** ** The abstract [io.Writer]: what has been written, and what the next
    [Write] calls will answer ([None] / exhausted script: all bytes taken, no
    error; [Some e]: nothing taken, error [e]). *)
Record go_writer := mkWriter { wr_out : list N; wr_script : list go_error }.

Definition wr_write (w : go_writer) (bs : list N) : Z * go_error * go_writer :=
  match wr_script w with
  | Some e :: s => (0, Some e, mkWriter (wr_out w) s)
  | None :: s => (go_len bs, None, mkWriter (wr_out w ++ bs) s)
  | [] => (go_len bs, None, mkWriter (wr_out w ++ bs) [])
  end.

(** [binary.LittleEndian.PutUint64(buf, v)]: the first 8 bytes of [buf]. *)
Definition binary_LE_PutUint64 (buf : list N) (v : Z) : list N :=
  if 8 <=? go_len buf then le64 (Z.to_N (wrap_u64 v)) ++ skipn 8 buf else go_junk buf.
