(** Go-style UTF-8: decoding as [bufio.Reader.ReadRune] / [utf8.DecodeRune]
    do it (an invalid or truncated sequence yields U+FFFD and advances by one
    byte) and encoding as [utf8.AppendRune] (surrogates and values above
    U+10FFFF are written as U+FFFD).  Bytes and runes are [N]. *)
From Coq Require Import List NArith ZArith Bool Lia Wellfounded.
From Coq Require Import ZifyN ZifyNat ZifyBool.
Import ListNotations.
Local Open Scope N_scope.

Definition rune_error : N := 65533.   (* U+FFFD *)
Definition max_rune : N := 1114111.   (* U+10FFFF *)

Definition in_range (lo hi b : N) : bool := (lo <=? b) && (b <=? hi).

(** [lead b0] for a first byte >= 0x80: sequence length (2,3,4) and the
    accepted range of the second byte (utf8.first / utf8.acceptRanges). *)
Definition lead (b0 : N) : option (N * N * N) :=
  if in_range 194 223 b0 then Some (2, 128, 191)
  else if b0 =? 224 then Some (3, 160, 191)
  else if in_range 225 236 b0 then Some (3, 128, 191)
  else if b0 =? 237 then Some (3, 128, 159)
  else if in_range 238 239 b0 then Some (3, 128, 191)
  else if b0 =? 240 then Some (4, 144, 191)
  else if in_range 241 243 b0 then Some (4, 128, 191)
  else if b0 =? 244 then Some (4, 128, 143)
  else None.

Definition cont (b : N) : bool := in_range 128 191 b.

Fixpoint utf8_decode_with (bad : N) (bs : list N) : list N :=
  match bs with
  | [] => []
  | b0 :: r0 =>
      if b0 <? 128 then b0 :: utf8_decode_with bad r0
      else
        match lead b0 with
        | None => bad :: utf8_decode_with bad r0
        | Some (sz, lo, hi) =>
            match r0 with
            | [] => [bad]
            | b1 :: r1 =>
                if negb (in_range lo hi b1) then bad :: utf8_decode_with bad r0
                else if sz =? 2 then
                  ((b0 mod 32) * 64 + b1 mod 64) :: utf8_decode_with bad r1
                else
                  match r1 with
                  | [] => bad :: utf8_decode_with bad r0
                  | b2 :: r2 =>
                      if negb (cont b2) then bad :: utf8_decode_with bad r0
                      else if sz =? 3 then
                        ((b0 mod 16) * 4096 + (b1 mod 64) * 64 + b2 mod 64)
                          :: utf8_decode_with bad r2
                      else
                        match r2 with
                        | [] => bad :: utf8_decode_with bad r0
                        | b3 :: r3 =>
                            if negb (cont b3) then bad :: utf8_decode_with bad r0
                            else
                              ((b0 mod 8) * 262144 + (b1 mod 64) * 4096
                               + (b2 mod 64) * 64 + b3 mod 64)
                                :: utf8_decode_with bad r3
                        end
                  end
            end
        end
  end.

(** The same decoder keeping undecodable bytes apart ([None]). *)
Fixpoint utf8_decode_opt (bs : list N) : list (option N) :=
  match bs with
  | [] => []
  | b0 :: r0 =>
      if b0 <? 128 then Some b0 :: utf8_decode_opt r0
      else
        match lead b0 with
        | None => None :: utf8_decode_opt r0
        | Some (sz, lo, hi) =>
            match r0 with
            | [] => [None]
            | b1 :: r1 =>
                if negb (in_range lo hi b1) then None :: utf8_decode_opt r0
                else if sz =? 2 then
                  Some ((b0 mod 32) * 64 + b1 mod 64) :: utf8_decode_opt r1
                else
                  match r1 with
                  | [] => None :: utf8_decode_opt r0
                  | b2 :: r2 =>
                      if negb (cont b2) then None :: utf8_decode_opt r0
                      else if sz =? 3 then
                        Some ((b0 mod 16) * 4096 + (b1 mod 64) * 64 + b2 mod 64)
                          :: utf8_decode_opt r2
                      else
                        match r2 with
                        | [] => None :: utf8_decode_opt r0
                        | b3 :: r3 =>
                            if negb (cont b3) then None :: utf8_decode_opt r0
                            else
                              Some ((b0 mod 8) * 262144 + (b1 mod 64) * 4096
                                    + (b2 mod 64) * 64 + b3 mod 64)
                                :: utf8_decode_opt r3
                        end
                  end
            end
        end
  end.


Definition or_bad (bad : N) (o : option N) : N := match o with Some r => r | None => bad end.

(** The decoder of [ReadRune]: an undecodable byte reads as U+FFFD. *)
Notation utf8_decode := (utf8_decode_with rune_error).

Definition is_surrogate (r : N) : bool := in_range 55296 57343 r.

(** A rune that [ReadRune] can return / that a Go string can hold validly. *)
Definition valid_rune (r : N) : bool := (r <=? max_rune) && negb (is_surrogate r).

Definition encode_rune (r : N) : list N :=
  if r <? 128 then [r]
  else if r <? 2048 then [192 + r / 64; 128 + r mod 64]
  else if negb (valid_rune r) then [239; 191; 189]
  else if r <? 65536 then [224 + r / 4096; 128 + (r / 64) mod 64; 128 + r mod 64]
  else [240 + r / 262144; 128 + (r / 4096) mod 64; 128 + (r / 64) mod 64; 128 + r mod 64].

Definition utf8_encode (rs : list N) : list N := flat_map encode_rune rs.

(** ** decode after encode *)

Ltac Zify.zify_post_hook ::= Z.div_mod_to_equations.

Lemma decode_1 bad b0 rest : b0 < 128 -> utf8_decode_with bad (b0 :: rest) = b0 :: utf8_decode_with bad rest.
Proof. intros H. cbn [utf8_decode_with]. replace (b0 <? 128) with true by lia. reflexivity. Qed.

Lemma decode_2 bad b0 b1 lo hi rest :
  128 <= b0 -> lead b0 = Some (2, lo, hi) -> in_range lo hi b1 = true ->
  utf8_decode_with bad (b0 :: b1 :: rest) = ((b0 mod 32) * 64 + b1 mod 64) :: utf8_decode_with bad rest.
Proof.
  intros H0 Hl H1. cbn [utf8_decode_with]. replace (b0 <? 128) with false by lia.
  rewrite Hl, H1. reflexivity.
Qed.

Lemma decode_3 bad b0 b1 b2 lo hi rest :
  128 <= b0 -> lead b0 = Some (3, lo, hi) -> in_range lo hi b1 = true -> cont b2 = true ->
  utf8_decode_with bad (b0 :: b1 :: b2 :: rest)
  = ((b0 mod 16) * 4096 + (b1 mod 64) * 64 + b2 mod 64) :: utf8_decode_with bad rest.
Proof.
  intros H0 Hl H1 H2. cbn [utf8_decode_with]. replace (b0 <? 128) with false by lia.
  rewrite Hl, H1, H2. reflexivity.
Qed.

Lemma decode_4 bad b0 b1 b2 b3 lo hi rest :
  128 <= b0 -> lead b0 = Some (4, lo, hi) -> in_range lo hi b1 = true ->
  cont b2 = true -> cont b3 = true ->
  utf8_decode_with bad (b0 :: b1 :: b2 :: b3 :: rest)
  = ((b0 mod 8) * 262144 + (b1 mod 64) * 4096 + (b2 mod 64) * 64 + b3 mod 64)
      :: utf8_decode_with bad rest.
Proof.
  intros H0 Hl H1 H2 H3. cbn [utf8_decode_with]. replace (b0 <? 128) with false by lia.
  rewrite Hl, H1, H2, H3. reflexivity.
Qed.

Lemma lead_range b0 :
  128 <= b0 ->
  match lead b0 with
  | Some (sz, lo, hi) =>
      128 <= lo /\ hi <= 191 /\
      ((sz = 2 /\ 194 <= b0 <= 223 /\ lo = 128 /\ hi = 191) \/
       (sz = 3 /\ 224 <= b0 <= 239 /\ (lo = if b0 =? 224 then 160 else 128) /\
          (hi = if b0 =? 237 then 159 else 191)) \/
       (sz = 4 /\ 240 <= b0 <= 244 /\ (lo = if b0 =? 240 then 144 else 128) /\
          (hi = if b0 =? 244 then 143 else 191)))
  | None => b0 < 194 \/ 244 < b0
  end.
Proof.
  intros H. unfold lead, in_range.
  repeat match goal with
  | |- context [if ?c then Some _ else _] => destruct c eqn:?
  end; try lia.
  all: repeat match goal with |- context [if ?c then _ else _] => destruct c eqn:? end; lia.
Qed.

Lemma lead_some b0 sz lo hi :
  128 <= b0 -> 
  (sz = 2 /\ 194 <= b0 <= 223 /\ lo = 128 /\ hi = 191) \/
  (sz = 3 /\ 224 <= b0 <= 239 /\ (lo = if b0 =? 224 then 160 else 128) /\
     (hi = if b0 =? 237 then 159 else 191)) \/
  (sz = 4 /\ 240 <= b0 <= 244 /\ (lo = if b0 =? 240 then 144 else 128) /\
     (hi = if b0 =? 244 then 143 else 191)) ->
  lead b0 = Some (sz, lo, hi).
Proof.
  intros H0 H. pose proof (lead_range b0 H0) as L.
  destruct (lead b0) as [[[sz' lo'] hi']|].
  - destruct L as (_ & _ & L).
    repeat match goal with H : context [if ?c then _ else _] |- _ => destruct c eqn:? end;
    f_equal; f_equal; try f_equal; lia.
  - lia.
Qed.

Lemma dec2 bad a c rest : 2 <= a < 32 -> c < 64 ->
  utf8_decode_with bad (192 + a :: 128 + c :: rest) = (a * 64 + c) :: utf8_decode_with bad rest.
Proof.
  intros Ha Hc. rewrite (decode_2 bad _ _ 128 191).
  - f_equal. lia.
  - lia.
  - apply lead_some; lia.
  - unfold in_range. lia.
Qed.

Lemma dec3 bad a b c rest : a < 16 -> b < 64 -> c < 64 ->
  (a = 0 -> 32 <= b) -> (a = 13 -> b < 32) ->
  utf8_decode_with bad (224 + a :: 128 + b :: 128 + c :: rest)
  = (a * 4096 + b * 64 + c) :: utf8_decode_with bad rest.
Proof.
  intros Ha Hb Hc H0 H13.
  rewrite (decode_3 bad _ _ _ (if 224 + a =? 224 then 160 else 128)
             (if 224 + a =? 237 then 159 else 191)).
  - f_equal. lia.
  - lia.
  - apply lead_some; [lia|]. right; left. repeat split; lia.
  - unfold in_range. destruct (224 + a =? 224) eqn:?, (224 + a =? 237) eqn:?; lia.
  - unfold cont, in_range. lia.
Qed.

Lemma dec4 bad a b c d rest : a < 5 -> b < 64 -> c < 64 -> d < 64 ->
  (a = 0 -> 16 <= b) -> (a = 4 -> b < 16) ->
  utf8_decode_with bad (240 + a :: 128 + b :: 128 + c :: 128 + d :: rest)
  = (a * 262144 + b * 4096 + c * 64 + d) :: utf8_decode_with bad rest.
Proof.
  intros Ha Hb Hc Hd H0 H4.
  rewrite (decode_4 bad _ _ _ _ (if 240 + a =? 240 then 144 else 128)
             (if 240 + a =? 244 then 143 else 191)).
  - f_equal. lia.
  - lia.
  - apply lead_some; [lia|]. right; right. repeat split; lia.
  - unfold in_range. destruct (240 + a =? 240) eqn:?, (240 + a =? 244) eqn:?; lia.
  - unfold cont, in_range. lia.
  - unfold cont, in_range. lia.
Qed.

Lemma split64 r : r = (r / 64) * 64 + r mod 64 /\ r mod 64 < 64.
Proof. split; [|apply N.mod_lt; lia]. rewrite N.mul_comm. apply N.div_mod. lia. Qed.

Lemma div4096 r : r / 4096 = r / 64 / 64.
Proof. rewrite N.div_div by lia. reflexivity. Qed.
Lemma div262144 r : r / 262144 = r / 64 / 64 / 64.
Proof. rewrite !N.div_div by lia. reflexivity. Qed.

Lemma enc_1 r : r < 128 -> encode_rune r = [r].
Proof. intros H. unfold encode_rune. replace (r <? 128) with true by lia. reflexivity. Qed.

Lemma enc_2 r : 128 <= r < 2048 -> encode_rune r = [192 + r / 64; 128 + r mod 64].
Proof.
  intros H. unfold encode_rune. replace (r <? 128) with false by lia.
  replace (r <? 2048) with true by lia. reflexivity.
Qed.

Lemma enc_3 r : 2048 <= r < 65536 -> valid_rune r = true ->
  encode_rune r = [224 + r / 64 / 64; 128 + (r / 64) mod 64; 128 + r mod 64].
Proof.
  intros H Hv. unfold encode_rune. rewrite Hv. replace (r <? 128) with false by lia.
  replace (r <? 2048) with false by lia. replace (r <? 65536) with true by lia.
  cbn [negb]. now rewrite div4096.
Qed.

Lemma enc_4 r : 65536 <= r -> valid_rune r = true ->
  encode_rune r = [240 + r / 64 / 64 / 64; 128 + (r / 64 / 64) mod 64;
                   128 + (r / 64) mod 64; 128 + r mod 64].
Proof.
  intros H Hv. unfold encode_rune. rewrite Hv. replace (r <? 128) with false by lia.
  replace (r <? 2048) with false by lia. replace (r <? 65536) with false by lia.
  cbn [negb]. now rewrite div262144, div4096.
Qed.

Lemma de_2 bad r rest : 128 <= r < 2048 ->
  utf8_decode_with bad ([192 + r / 64; 128 + r mod 64] ++ rest) = r :: utf8_decode_with bad rest.
Proof.
  intros H.
  destruct (split64 r) as [E1 B1]. set (d := r mod 64) in *. set (q1 := r / 64) in *.
  clearbody d q1.
  cbn [app]. rewrite dec2 by lia. f_equal. lia.
Qed.

Lemma de_3 bad r rest : 2048 <= r < 65536 -> (55296 <=? r) && (r <=? 57343) = false ->
  utf8_decode_with bad ([224 + r / 64 / 64; 128 + (r / 64) mod 64; 128 + r mod 64] ++ rest)
  = r :: utf8_decode_with bad rest.
Proof.
  intros Hv Hs.
  destruct (split64 r) as [E1 B1]. set (d := r mod 64) in *. set (q1 := r / 64) in *.
  clearbody d q1.
  destruct (split64 q1) as [E2 B2]. set (c := q1 mod 64) in *. set (q2 := q1 / 64) in *.
  clearbody c q2.
  cbn [app]. rewrite dec3 by lia. f_equal. lia.
Qed.

Lemma de_4 bad r rest : 65536 <= r <= 1114111 ->
  utf8_decode_with bad ([240 + r / 64 / 64 / 64; 128 + (r / 64 / 64) mod 64;
                128 + (r / 64) mod 64; 128 + r mod 64] ++ rest)
  = r :: utf8_decode_with bad rest.
Proof.
  intros Hv.
  destruct (split64 r) as [E1 B1]. set (d := r mod 64) in *. set (q1 := r / 64) in *.
  clearbody d q1.
  destruct (split64 q1) as [E2 B2]. set (c := q1 mod 64) in *. set (q2 := q1 / 64) in *.
  clearbody c q2.
  destruct (split64 q2) as [E3 B3]. set (b := q2 mod 64) in *. set (q3 := q2 / 64) in *.
  clearbody b q3.
  cbn [app]. rewrite dec4 by lia. f_equal. lia.
Qed.

Lemma valid_rune_spec r :
  valid_rune r = true <-> r <= 1114111 /\ (r < 55296 \/ 57343 < r).
Proof. unfold valid_rune, is_surrogate, in_range, max_rune. lia. Qed.

Lemma decode_encode_rune bad r rest :
  valid_rune r = true ->
  utf8_decode_with bad (encode_rune r ++ rest) = r :: utf8_decode_with bad rest.
Proof.
  intros Hv. destruct (proj1 (valid_rune_spec r) Hv) as [Hm Hs].
  destruct (N.ltb_spec r 128) as [H1|H1].
  { rewrite enc_1 by lia. cbn [app]. apply decode_1. lia. }
  destruct (N.ltb_spec r 2048) as [H2|H2].
  { rewrite enc_2 by lia. apply de_2. lia. }
  destruct (N.ltb_spec r 65536) as [H3|H3].
  { rewrite enc_3 by (try lia; exact Hv). apply de_3; lia. }
  rewrite enc_4 by (try lia; exact Hv). apply de_4. lia.
Qed.

Lemma decode_encode bad rs :
  forallb valid_rune rs = true -> utf8_decode_with bad (utf8_encode rs) = rs.
Proof.
  induction rs as [|r rs IH]; intros H; [reflexivity|].
  cbn [forallb] in H. apply andb_true_iff in H as [Hr Hrs].
  cbn [utf8_encode flat_map]. rewrite decode_encode_rune by exact Hr.
  f_equal. apply IH, Hrs.
Qed.

(** Every decoded rune is a valid scalar value. *)
Lemma utf8_decode_valid bs :
  forallb (fun b => b <? 256) bs = true -> forallb valid_rune (utf8_decode bs) = true.
Proof.
  assert (Hre : valid_rune rune_error = true) by reflexivity.
  induction bs as [bs IH] using (induction_ltof1 _ (@length N)). unfold ltof in IH.
  intros Hb. destruct bs as [|b0 r0]; [reflexivity|].
  cbn [forallb] in Hb. apply andb_true_iff in Hb as [Hb0 Hr0].
  assert (IH0 : forallb valid_rune (utf8_decode r0) = true)
    by (apply IH; [cbn [length]; lia | exact Hr0]).
  cbn [utf8_decode_with].
  destruct (N.ltb_spec b0 128) as [E0|E0].
  { cbn [forallb]. rewrite IH0, andb_true_r. apply valid_rune_spec. lia. }
  pose proof (lead_range b0 E0) as Hl.
  destruct (lead b0) as [[[sz lo] hi]|].
  2:{ cbn [forallb]. now rewrite Hre, IH0. }
  destruct Hl as (Hlo & Hhi & Hl).
  destruct r0 as [|b1 r1]; [reflexivity|].
  cbn [forallb] in Hr0. apply andb_true_iff in Hr0 as [Hb1 Hr1].
  destruct (in_range lo hi b1) eqn:E1; cbn [negb].
  2:{ cbn [forallb]. now rewrite Hre, IH0. }
  assert (E1' : lo <= b1 <= hi) by (unfold in_range in E1; lia). clear E1.
  destruct (N.eqb_spec sz 2) as [S2|S2].
  { cbn [forallb]. rewrite IH by (cbn [length]; try lia; exact Hr1).
    rewrite andb_true_r. apply valid_rune_spec. lia. }
  destruct r1 as [|b2 r2].
  { cbn [forallb]. now rewrite Hre, IH0. }
  cbn [forallb] in Hr1. apply andb_true_iff in Hr1 as [Hb2 Hr2].
  destruct (cont b2) eqn:E2; cbn [negb].
  2:{ cbn [forallb]. now rewrite Hre, IH0. }
  assert (E2' : 128 <= b2 <= 191) by (unfold cont, in_range in E2; lia). clear E2.
  destruct (N.eqb_spec sz 3) as [S3|S3].
  { cbn [forallb]. rewrite IH by (cbn [length]; try lia; exact Hr2).
    rewrite andb_true_r. apply valid_rune_spec.
    destruct Hl as [Hl|[Hl|Hl]]; try lia.
    destruct Hl as (_ & Hb & Hlo' & Hhi').
    destruct (N.eqb_spec b0 224), (N.eqb_spec b0 237); lia. }
  destruct r2 as [|b3 r3].
  { cbn [forallb]. now rewrite Hre, IH0. }
  cbn [forallb] in Hr2. apply andb_true_iff in Hr2 as [Hb3 Hr3].
  destruct (cont b3) eqn:E3; cbn [negb].
  2:{ cbn [forallb]. now rewrite Hre, IH0. }
  assert (E3' : 128 <= b3 <= 191) by (unfold cont, in_range in E3; lia). clear E3.
  cbn [forallb]. rewrite IH by (cbn [length]; try lia; exact Hr3).
  rewrite andb_true_r. apply valid_rune_spec.
  destruct Hl as [Hl|[Hl|Hl]]; try lia.
  destruct Hl as (_ & Hb & Hlo' & Hhi').
  destruct (N.eqb_spec b0 240), (N.eqb_spec b0 244); lia.
Qed.

Lemma utf8_decode_length bs : (length (utf8_decode bs) <= length bs)%nat.
Proof.
  induction bs as [bs IH] using (induction_ltof1 _ (@length N)). unfold ltof in IH.
  destruct bs as [|b0 r0]; [cbn; lia|].
  assert (I0 := IH r0 ltac:(cbn; lia)).
  cbn [utf8_decode_with].
  destruct (b0 <? 128); [cbn [length]; lia|].
  destruct (lead b0) as [[[sz lo] hi]|]; [|cbn [length]; lia].
  destruct r0 as [|b1 r1]; [cbn; lia|].
  destruct (negb (in_range lo hi b1)); [cbn [length] in *; lia|].
  assert (I1 := IH r1 ltac:(cbn; lia)).
  destruct (sz =? 2); [cbn [length] in *; lia|].
  destruct r1 as [|b2 r2]; [cbn [length] in *; lia|].
  destruct (negb (cont b2)); [cbn [length] in *; lia|].
  assert (I2 := IH r2 ltac:(cbn; lia)).
  destruct (sz =? 3); [cbn [length] in *; lia|].
  destruct r2 as [|b3 r3]; [cbn [length] in *; lia|].
  destruct (negb (cont b3)); [cbn [length] in *; lia|].
  assert (I3 := IH r3 ltac:(cbn; lia)).
  cbn [length] in *; lia.
Qed.

Lemma utf8_decode_with_opt bad bs :
  utf8_decode_with bad bs = map (or_bad bad) (utf8_decode_opt bs).
Proof.
  induction bs as [bs IH] using (induction_ltof1 _ (@length N)). unfold ltof in IH.
  destruct bs as [|b0 r0]; [reflexivity|].
  assert (I0 := IH r0 ltac:(cbn; lia)).
  cbn [utf8_decode_with utf8_decode_opt].
  destruct (b0 <? 128); [cbn [map or_bad]; now rewrite I0|].
  destruct (lead b0) as [[[sz lo] hi]|]; [|cbn [map or_bad]; now rewrite I0].
  destruct r0 as [|b1 r1]; [reflexivity|].
  destruct (negb (in_range lo hi b1)); [cbn [map or_bad]; now rewrite I0|].
  assert (I1 := IH r1 ltac:(cbn; lia)).
  destruct (sz =? 2); [cbn [map or_bad]; now rewrite I1|].
  destruct r1 as [|b2 r2]; [cbn [map or_bad]; now rewrite I0|].
  destruct (negb (cont b2)); [cbn [map or_bad]; now rewrite I0|].
  assert (I2 := IH r2 ltac:(cbn; lia)).
  destruct (sz =? 3); [cbn [map or_bad]; now rewrite I2|].
  destruct r2 as [|b3 r3]; [cbn [map or_bad]; now rewrite I0|].
  destruct (negb (cont b3)); [cbn [map or_bad]; now rewrite I0|].
  assert (I3 := IH r3 ltac:(cbn; lia)).
  cbn [map or_bad]. now rewrite I3.
Qed.
