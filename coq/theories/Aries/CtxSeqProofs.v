(** Proofs about Aries/CtxSeq.v: a router that misses leaves the context as
    it found it (with the deployed wrapper), hence routers tried in a row on
    one context each route the request's own path; without the wrapper (the
    code before the fix) they do not. *)
From Coq Require Import List NArith ZArith Bool Arith Lia.
From Verif Require Import Aries.Str Aries.Radix Aries.SegTrie Aries.Router Aries.CtxSeq.
Import ListNotations.

Section Proofs.
  Variables (disp meth : rcond).
  Variable le : list (N * N).

  (** The wrapper does not change what a single [Serve] call answers. *)
  Lemma serve_ctx_result w fuel rs i c :
    (forall t, w <> RWUnknown t) ->
    fst (serve_ctx disp meth le w fuel rs i c) = nested disp meth le fuel rs i c.
  Proof.
    intros Hw. revert i c. induction fuel as [|k IH]; intros i c; cbn [serve_ctx nested]; [reflexivity|].
    destruct (nth_error rs i) as [r|]; [|reflexivity].
    assert (Hgo : forall h c',
      fst (if (1000 <=? h)%N then serve_ctx disp meth le w k rs (N.to_nat (h - 1000)) c'
           else ((Z.of_N h, rel c', leaf_res le h), c')) =
      (if (1000 <=? h)%N then nested disp meth le k rs (N.to_nat (h - 1000)) c'
       else (Z.of_N h, rel c', leaf_res le h))).
    { intros h c'. destruct (1000 <=? h)%N; [apply IH | reflexivity]. }
    destruct w as [| |t]; [| |exfalso; eapply Hw; reflexivity];
      destruct (router_serve_with disp meth r c) as [h c'|h c'| |h c'| | |]; cbn [fst];
      try rewrite <- Hgo;
      try match goal with |- context [if is_miss ?x then _ else _] => destruct (is_miss x) end;
      reflexivity.
  Qed.

  (** With the deployed wrapper, a [Serve] that returns Miss leaves the
      context exactly as it was handed in. *)
  Lemma serve_ctx_miss_restores fuel rs i c :
    is_miss (fst (serve_ctx disp meth le RWRestoreOnMiss fuel rs i c)) = true ->
    snd (serve_ctx disp meth le RWRestoreOnMiss fuel rs i c) = c.
  Proof.
    destruct fuel as [|k]; cbn [serve_ctx]; [reflexivity|].
    destruct (nth_error rs i) as [r|]; [|reflexivity].
    match goal with |- context [if is_miss (fst ?b) then _ else _] => set (body := b) end.
    destruct (is_miss (fst body)) eqn:E; cbn [fst snd]; [reflexivity|].
    intros H. rewrite E in H. discriminate.
  Qed.

  (** Hence: routers tried in a row on one context.  Every router of the
      sequence routes the request's own context; the leaves that ran and the
      final answer are those of the reference. *)
  Theorem serve_seq_is_ref fuel rs is c :
    let '(hs, f, _) := serve_seq disp meth le RWRestoreOnMiss fuel rs is c in
    (hs, f) = seq_ref disp meth le fuel rs is c.
  Proof.
    revert c. induction is as [|i rest IH]; intros c; cbn [serve_seq seq_ref]; [reflexivity|].
    pose proof (serve_ctx_result RWRestoreOnMiss fuel rs i c ltac:(discriminate)) as Hr.
    pose proof (serve_ctx_miss_restores fuel rs i c) as Hm.
    destruct (serve_ctx disp meth le RWRestoreOnMiss fuel rs i c) as [x c'] eqn:E.
    cbn [fst snd] in Hr, Hm. subst x.
    destruct (is_miss (nested disp meth le fuel rs i c)) eqn:Em.
    - rewrite (Hm eq_refl). specialize (IH c).
      destruct (serve_seq disp meth le RWRestoreOnMiss fuel rs rest c) as [[hs f] rl].
      destruct (seq_ref disp meth le fuel rs rest c) as [hs' f'].
      inversion IH; subst. reflexivity.
    - reflexivity.
  Qed.

  (** When the whole sequence misses, the context is still the one handed in. *)
  Lemma serve_seq_miss_keeps_rel fuel rs is c :
    let '(_, f, rl) := serve_seq disp meth le RWRestoreOnMiss fuel rs is c in
    f = 1%N -> rl = rel c.
  Proof.
    revert c. induction is as [|i rest IH]; intros c; cbn [serve_seq]; [reflexivity|].
    pose proof (serve_ctx_miss_restores fuel rs i c) as Hm.
    destruct (serve_ctx disp meth le RWRestoreOnMiss fuel rs i c) as [x c'] eqn:E.
    cbn [fst snd] in Hm.
    destruct (is_miss x) eqn:Em.
    - rewrite (Hm eq_refl). specialize (IH c).
      destruct (serve_seq disp meth le RWRestoreOnMiss fuel rs rest c) as [[hs f] rl]. exact IH.
    - intros Hf. unfold is_miss in Em. rewrite Hf in Em. discriminate.
  Qed.

  (** Every leaf that ran in a sequence is the leaf a single router of the
      sequence selects for the request's own context. *)
  Lemma seq_ref_hits fuel rs is c t rl :
    In (t, rl) (fst (seq_ref disp meth le fuel rs is c)) ->
    exists i, In i is /\ hit_of (nested disp meth le fuel rs i c) = [(t, rl)].
  Proof.
    induction is as [|i rest IH]; cbn [seq_ref]; [intros []|].
    destruct (is_miss (nested disp meth le fuel rs i c)).
    - destruct (seq_ref disp meth le fuel rs rest c) as [hs f] eqn:E. cbn [fst] in *.
      intros H. apply in_app_or in H. destruct H as [H|H].
      + exists i. split; [left; reflexivity|].
        unfold hit_of in *. destruct (nested disp meth le fuel rs i c) as [[t0 r0] e0].
        destruct (0 <=? t0)%Z; [|destruct H]. destruct H as [H|[]]. inversion H; subst. reflexivity.
      + destruct (IH H) as [j [Hj Hh]]. exists j. split; [right; exact Hj | exact Hh].
    - cbn [fst]. intros H. exists i. split; [left; reflexivity|].
      unfold hit_of in *. destruct (nested disp meth le fuel rs i c) as [[t0 r0] e0].
      destruct (0 <=? t0)%Z; [|destruct H]. destruct H as [H|[]]. inversion H; subst. reflexivity.
  Qed.
End Proofs.

(** * The code before the fix is refuted: GET /a/b reaches the handler of "b".

    Router 0 has the file "a", router 1 the file "b".  Router 0 matches "a",
    finds a remainder, misses - and, without the wrapper, leaves the context
    shifted past "a"; router 1 then routes "b". *)
Definition s_a : str := [97%N].
Definition s_b : str := [98%N].
Definition s_get : str := [71; 69; 84]%N.
Definition ex_router (seg : str) (h : N) : router :=
  match router_add_svc new_router seg (Some h) false [] with
  | Some (r, _) => r
  | None => new_router
  end.
Definition ex_rs : list router := [ex_router s_a 1%N; ex_router s_b 2%N].
Definition ex_ctx : ctx := new_ctx (slash :: s_a ++ slash :: s_b) s_get.

Lemma legacy_seq_refuted :
  serve_seq dispatch_cond method_reject [] RWPlain 8 ex_rs [0; 1]%nat ex_ctx = ([(2%Z, [])], 0%N, []) /\
  seq_ref dispatch_cond method_reject [] 8 ex_rs [0; 1]%nat ex_ctx = ([], 1%N).
Proof. vm_compute. split; reflexivity. Qed.

Lemma deployed_seq_example :
  serve_seq dispatch_cond method_reject [] RWRestoreOnMiss 8 ex_rs [0; 1]%nat ex_ctx
  = ([], 1%N, s_a ++ slash :: s_b).
Proof. vm_compute. reflexivity. Qed.
