(** Proofs about Aries/CtxSeq.v: a router that misses leaves the context as
    it found it (with the deployed wrapper), hence routers tried in a row on
    one context each route the request's own path; without the wrapper (the
    code before the fix) they do not. *)
From Coq Require Import List NArith ZArith Bool Arith Lia.
From Verif Require Import Aries.Str Aries.Radix Aries.SegTrie Aries.Router Aries.CtxSeq.
Import ListNotations.

Section Proofs.
  Variables (disp meth : rcond).
  Variable le : list (N * N).

  (** The wrapper does not change what a single [Serve] call answers. *)
  Lemma serve_ctx_result w fuel rs i c :
    (forall t, w <> RWUnknown t) ->
    fst (serve_ctx disp meth le w fuel rs i c) = nested disp meth le fuel rs i c.
  Proof.
    intros Hw. revert i c. induction fuel as [|k IH]; intros i c; cbn [serve_ctx nested]; [reflexivity|].
    destruct (nth_error rs i) as [r|]; [|reflexivity].
    assert (Hgo : forall h c',
      fst (if (1000 <=? h)%N then serve_ctx disp meth le w k rs (N.to_nat (h - 1000)) c'
           else ((Z.of_N h, rel c', leaf_res le h), c')) =
      (if (1000 <=? h)%N then nested disp meth le k rs (N.to_nat (h - 1000)) c'
       else (Z.of_N h, rel c', leaf_res le h))).
    { intros h c'. destruct (1000 <=? h)%N; [apply IH | reflexivity]. }
    destruct w as [| |t]; [| |exfalso; eapply Hw; reflexivity];
      destruct (router_serve_with disp meth r c) as [h c'|h c'| |h c'| | |]; cbn [fst];
      try rewrite <- Hgo;
      try match goal with |- context [if is_miss ?x then _ else _] => destruct (is_miss x) end;
      reflexivity.
  Qed.

  (** With the deployed wrapper, a [Serve] that returns Miss leaves the
      context exactly as it was handed in. *)
  Lemma serve_ctx_miss_restores fuel rs i c :
    is_miss (fst (serve_ctx disp meth le RWRestoreOnMiss fuel rs i c)) = true ->
    snd (serve_ctx disp meth le RWRestoreOnMiss fuel rs i c) = c.
  Proof.
    destruct fuel as [|k]; cbn [serve_ctx]; [reflexivity|].
    destruct (nth_error rs i) as [r|]; [|reflexivity].
    match goal with |- context [if is_miss (fst ?b) then _ else _] => set (body := b) end.
    destruct (is_miss (fst body)) eqn:E; cbn [fst snd]; [reflexivity|].
    intros H. rewrite E in H. discriminate.
  Qed.

  (** Hence: routers tried in a row on one context.  Every router of the
      sequence routes the request's own context; the leaves that ran and the
      final answer are those of the reference. *)
  Theorem serve_seq_is_ref fuel rs is c :
    let '(hs, f, _) := serve_seq disp meth le RWRestoreOnMiss fuel rs is c in
    (hs, f) = seq_ref disp meth le fuel rs is c.
  Proof.
    revert c. induction is as [|i rest IH]; intros c; cbn [serve_seq seq_ref]; [reflexivity|].
    pose proof (serve_ctx_result RWRestoreOnMiss fuel rs i c ltac:(discriminate)) as Hr.
    pose proof (serve_ctx_miss_restores fuel rs i c) as Hm.
    destruct (serve_ctx disp meth le RWRestoreOnMiss fuel rs i c) as [x c'] eqn:E.
    cbn [fst snd] in Hr, Hm. subst x.
    destruct (is_miss (nested disp meth le fuel rs i c)) eqn:Em.
    - rewrite (Hm eq_refl). specialize (IH c).
      destruct (serve_seq disp meth le RWRestoreOnMiss fuel rs rest c) as [[hs f] rl].
      destruct (seq_ref disp meth le fuel rs rest c) as [hs' f'].
      inversion IH; subst. reflexivity.
    - reflexivity.
  Qed.

  (** When the whole sequence misses, the context is still the one handed in. *)
  Lemma serve_seq_miss_keeps_rel fuel rs is c :
    let '(_, f, rl) := serve_seq disp meth le RWRestoreOnMiss fuel rs is c in
    f = 1%N -> rl = rel c.
  Proof.
    revert c. induction is as [|i rest IH]; intros c; cbn [serve_seq]; [reflexivity|].
    pose proof (serve_ctx_miss_restores fuel rs i c) as Hm.
    destruct (serve_ctx disp meth le RWRestoreOnMiss fuel rs i c) as [x c'] eqn:E.
    cbn [fst snd] in Hm.
    destruct (is_miss x) eqn:Em.
    - rewrite (Hm eq_refl). specialize (IH c).
      destruct (serve_seq disp meth le RWRestoreOnMiss fuel rs rest c) as [[hs f] rl]. exact IH.
    - intros Hf. unfold is_miss in Em. rewrite Hf in Em. discriminate.
  Qed.

  (** Every leaf that ran in a sequence is the leaf a single router of the
      sequence selects for the request's own context. *)
  Lemma seq_ref_hits fuel rs is c t rl :
    In (t, rl) (fst (seq_ref disp meth le fuel rs is c)) ->
    exists i, In i is /\ hit_of (nested disp meth le fuel rs i c) = [(t, rl)].
  Proof.
    induction is as [|i rest IH]; cbn [seq_ref]; [intros []|].
    destruct (is_miss (nested disp meth le fuel rs i c)).
    - destruct (seq_ref disp meth le fuel rs rest c) as [hs f] eqn:E. cbn [fst] in *.
      intros H. apply in_app_or in H. destruct H as [H|H].
      + exists i. split; [left; reflexivity|].
        unfold hit_of in *. destruct (nested disp meth le fuel rs i c) as [[t0 r0] e0].
        destruct (0 <=? t0)%Z; [|destruct H]. destruct H as [H|[]]. inversion H; subst. reflexivity.
      + destruct (IH H) as [j [Hj Hh]]. exists j. split; [right; exact Hj | exact Hh].
    - cbn [fst]. intros H. exists i. split; [left; reflexivity|].
      unfold hit_of in *. destruct (nested disp meth le fuel rs i c) as [[t0 r0] e0].
      destruct (0 <=? t0)%Z; [|destruct H]. destruct H as [H|[]]. inversion H; subst. reflexivity.
  Qed.
End Proofs.

(** * The code before the fix is refuted: GET /a/b reaches the handler of "b".

    Router 0 has the file "a", router 1 the file "b".  Router 0 matches "a",
    finds a remainder, misses - and, without the wrapper, leaves the context
    shifted past "a"; router 1 then routes "b". *)
Definition s_a : str := [97%N].
Definition s_b : str := [98%N].
Definition s_get : str := [71; 69; 84]%N.
Definition ex_router (seg : str) (h : N) : router :=
  match router_add_svc new_router seg (Some h) false [] with
  | Some (r, _) => r
  | None => new_router
  end.
Definition ex_rs : list router := [ex_router s_a 1%N; ex_router s_b 2%N].
Definition ex_ctx : ctx := new_ctx (slash :: s_a ++ slash :: s_b) s_get.

Lemma legacy_seq_refuted :
  serve_seq dispatch_cond method_reject [] RWPlain 8 ex_rs [0; 1]%nat ex_ctx = ([(2%Z, [])], 0%N, []) /\
  seq_ref dispatch_cond method_reject [] 8 ex_rs [0; 1]%nat ex_ctx = ([], 1%N).
Proof. vm_compute. split; reflexivity. Qed.

Lemma deployed_seq_example :
  serve_seq dispatch_cond method_reject [] RWRestoreOnMiss 8 ex_rs [0; 1]%nat ex_ctx
  = ([], 1%N, s_a ++ slash :: s_b).
Proof. vm_compute. reflexivity. Qed.

(** * Handlers that write to what the context handed them (seeded change C20-g) *)

Definition same_route (a b : ctx) : Prop :=
  c_routes a = c_routes b /\ c_isdir a = c_isdir b /\ c_method a = c_method b.

Lemma same_route_refl c : same_route c c.
Proof. repeat split. Qed.

Lemma same_route_trans a b c : same_route a b -> same_route b c -> same_route a c.
Proof. intros [A1 [A2 A3]] [B1 [B2 B3]]. repeat split; congruence. Qed.

Lemma same_route_shift c n : same_route (shift c n) c.
Proof. repeat split. Qed.

Lemma set_pos_same_route a c : same_route a c -> set_pos a (c_pos c) = c.
Proof. destruct a, c. intros [A1 [A2 A3]]. cbn in *. subst. reflexivity. Qed.

Lemma miss_ctx_same r c : same_route (miss_ctx r c) c.
Proof.
  unfold miss_ctx. destruct (rel_empty c); [apply same_route_refl|].
  destruct (trie_find_route (rt_trie r) (rel_route c)) as [hit p].
  destruct (is_nil p); [apply same_route_refl | apply same_route_shift].
Qed.

(** what [Router.serve] hands to the handler it selects differs from the
    context it got in the position only *)
Lemma router_serve_same disp meth r c :
  match router_serve_with disp meth r c with
  | OIndex _ c' | ODefault _ c' | ONode _ c' => same_route c' c
  | _ => True
  end.
Proof.
  unfold router_serve_with. destruct (rel_empty c).
  - destruct (rt_index r); [apply same_route_refl|]. unfold not_found. destruct (rt_miss r); [apply same_route_refl | exact I].
  - destruct (trie_find_route (rt_trie r) (rel_route c)) as [hit p]. destruct (is_nil p).
    + unfold not_found. destruct (rt_miss r); [apply same_route_refl | exact I].
    + destruct (alookup p (rt_nodes r)) as [n|]; [|exact I].
      destruct (eval_rcond n (shift c (length hit)) disp) as [[|]|]; [| |exact I].
      * destruct (eval_rcond n (shift c (length hit)) meth) as [[|]|]; try exact I. apply same_route_shift.
      * unfold not_found. destruct (rt_miss r); [apply same_route_shift | exact I].
Qed.

Section Writes.
  Variables (disp meth : rcond).
  Variable le : list (N * N).

  Lemma serve_ctx_same w fuel : forall rs i c,
    same_route (snd (serve_ctx disp meth le w fuel rs i c)) c.
  Proof.
    induction fuel as [|k IH]; intros rs i c; cbn [serve_ctx]; [apply same_route_refl|].
    destruct (nth_error rs i) as [r|]; [|apply same_route_refl].
    assert (Hgo : forall h c', same_route c' c ->
      same_route (snd (if (1000 <=? h)%N then serve_ctx disp meth le w k rs (N.to_nat (h - 1000)) c'
                       else ((Z.of_N h, rel c', leaf_res le h), c'))) c).
    { intros h c' S. destruct (1000 <=? h)%N; [|exact S].
      eapply same_route_trans; [apply IH | exact S]. }
    pose proof (router_serve_same disp meth r c) as RS.
    assert (Hb : same_route (snd
      match router_serve_with disp meth r c with
      | OIndex h c' | ODefault h c' | ONode h c' =>
          if (1000 <=? h)%N then serve_ctx disp meth le w k rs (N.to_nat (h - 1000)) c'
          else ((Z.of_N h, rel c', leaf_res le h), c')
      | OMiss => (((-1)%Z, [], 1%N), miss_ctx r c)
      | OBadMethod => (((-1)%Z, [], 2%N), miss_ctx r c)
      | OPanic => (((-1)%Z, [], 3%N), c)
      | OStuck => (r_stuck, c)
      end) c).
    { destruct (router_serve_with disp meth r c); cbn [snd]; auto using miss_ctx_same, same_route_refl. }
    destruct w; [| exact Hb | apply same_route_refl].
    match goal with |- context [if is_miss (fst ?b) then _ else _] => destruct (is_miss (fst b)) end;
      [apply same_route_refl | exact Hb].
  Qed.

  Variable lw : N -> option hwrite.
  Variable lsh : N -> nat.

  Let body_w k rs (r : router) c :=
    match router_serve_with disp meth r c with
    | OIndex h c' | ODefault h c' | ONode h c' =>
        if (1000 <=? h)%N
        then serve_ctx_w disp meth le AccFresh lw lsh RestoreEntry RWRestoreOnMiss k rs (N.to_nat (h - 1000)) c'
        else ((Z.of_N h, rel c', leaf_res le h), shift c' (lsh h))
    | OMiss => (((-1)%Z, [], 1%N), miss_ctx r c)
    | OBadMethod => (((-1)%Z, [], 2%N), miss_ctx r c)
    | OPanic => (((-1)%Z, [], 3%N), c)
    | OStuck => (r_stuck, c)
    end.

  Lemma serve_ctx_w_unfold k rs i c :
    serve_ctx_w disp meth le AccFresh lw lsh RestoreEntry RWRestoreOnMiss (S k) rs i c =
    match nth_error rs i with
    | None => (r_stuck, c)
    | Some r => if is_miss (fst (body_w k rs r c))
                then (fst (body_w k rs r c), set_pos (snd (body_w k rs r c)) (c_pos c))
                else body_w k rs r c
    end.
  Proof. cbn [serve_ctx_w]. destruct (nth_error rs i); reflexivity. Qed.

  (** whatever handlers write (they hold a copy) or shift, a [Serve] call
      changes nothing of the context but the position *)
  Lemma serve_ctx_w_same fuel : forall rs i c,
    same_route (snd (serve_ctx_w disp meth le AccFresh lw lsh RestoreEntry RWRestoreOnMiss fuel rs i c)) c.
  Proof.
    induction fuel as [|k IH]; intros rs i c; [apply same_route_refl|].
    rewrite serve_ctx_w_unfold. destruct (nth_error rs i) as [r|]; [|apply same_route_refl].
    assert (Hb : same_route (snd (body_w k rs r c)) c).
    { unfold body_w. pose proof (router_serve_same disp meth r c) as RS.
      destruct (router_serve_with disp meth r c); cbn [snd];
        auto using miss_ctx_same, same_route_refl;
        (destruct (1000 <=? h)%N;
         [eapply same_route_trans; [apply IH | exact RS]
         | eapply same_route_trans; [apply same_route_shift | exact RS]]). }
    destruct (is_miss (fst (body_w k rs r c))); [|exact Hb].
    cbn [snd]. destruct Hb as [A [B C]]. repeat split; assumption.
  Qed.

  (** With a fresh-copy accessor and the deployed wrapper, one [Serve] call
      answers exactly what it does with handlers that neither write nor shift
      - WHATEVER the handlers write to what they were handed and however far
      they shift the route before returning. *)
  Theorem serve_ctx_w_result fuel : forall rs i c,
    fst (serve_ctx_w disp meth le AccFresh lw lsh RestoreEntry RWRestoreOnMiss fuel rs i c) =
    nested disp meth le fuel rs i c.
  Proof.
    induction fuel as [|k IH]; intros rs i c; [reflexivity|].
    rewrite serve_ctx_w_unfold. cbn [nested].
    destruct (nth_error rs i) as [r|]; [|reflexivity].
    assert (E : fst (body_w k rs r c) =
      match router_serve_with disp meth r c with
      | OIndex h c' | ODefault h c' | ONode h c' =>
          if (1000 <=? h)%N then nested disp meth le k rs (N.to_nat (h - 1000)) c'
          else (Z.of_N h, rel c', leaf_res le h)
      | OMiss => ((-1)%Z, [], 1%N)
      | OBadMethod => ((-1)%Z, [], 2%N)
      | OPanic => ((-1)%Z, [], 3%N)
      | OStuck => r_stuck
      end).
    { unfold body_w. destruct (router_serve_with disp meth r c); try reflexivity;
        destruct (1000 <=? h)%N; try reflexivity; apply IH. }
    destruct (is_miss (fst (body_w k rs r c))); cbn [fst]; exact E.
  Qed.

  (** ... and when it answers Miss, the context is the one the router was
      ENTERED with - handler shifts included. *)
  Theorem serve_ctx_w_miss_restores fuel rs i c :
    is_miss (fst (serve_ctx_w disp meth le AccFresh lw lsh RestoreEntry RWRestoreOnMiss fuel rs i c)) = true ->
    snd (serve_ctx_w disp meth le AccFresh lw lsh RestoreEntry RWRestoreOnMiss fuel rs i c) = c.
  Proof.
    destruct fuel as [|k]; [reflexivity|].
    pose proof (serve_ctx_w_same (S k) rs i c) as SS.
    rewrite serve_ctx_w_unfold in *. destruct (nth_error rs i) as [r|]; [|reflexivity].
    destruct (is_miss (fst (body_w k rs r c))) eqn:M; cbn [fst snd] in *.
    - intros _. apply set_pos_same_route.
      destruct SS as [A [B C]]. cbn in A, B, C. repeat split; assumption.
    - intros H. rewrite M in H. discriminate.
  Qed.

  Theorem serve_seq_w_fresh fuel rs : forall is c,
    serve_seq_w disp meth le AccFresh lw lsh RestoreEntry RWRestoreOnMiss fuel rs is c =
    seq_ref disp meth le fuel rs is c.
  Proof.
    induction is as [|i rest IH]; intros c; cbn [serve_seq_w seq_ref]; [reflexivity|].
    pose proof (serve_ctx_w_result fuel rs i c) as R.
    pose proof (serve_ctx_w_miss_restores fuel rs i c) as M.
    destruct (serve_ctx_w disp meth le AccFresh lw lsh RestoreEntry RWRestoreOnMiss fuel rs i c) as [x c'].
    cbn [fst snd] in R, M. subst x.
    destruct (is_miss (nested disp meth le fuel rs i c)); [|reflexivity].
    rewrite (M eq_refl), IH. reflexivity.
  Qed.
End Writes.

(** An accessor that hands out the context's own slice is refuted: GET
    /docs/secret; router 0 has the directory "docs" whose handler 1 does
    [append(c.RelRoute()[:1], "index")] ... here: overwrites what it was
    handed with "index" and misses; router 1 has the file "index" (handler 2).
    Nothing registered for a prefix of /docs/secret is in router 1, yet
    handler 2 runs. *)
Definition s_docs : str := [100; 111; 99; 115]%N.
Definition s_secret : str := [115; 101; 99; 114; 101; 116]%N.
Definition s_index : str := [105; 110; 100; 101; 120]%N.
Definition ex_rs_w : list router :=
  [ match router_add_svc new_router s_docs (Some 1%N) true [] with Some (r, _) => r | None => new_router end;
    match router_add_svc new_router (s_docs ++ slash :: s_index) (Some 2%N) false [] with
    | Some (r, _) => r | None => new_router end ].
Definition ex_ctx_w : ctx := new_ctx (slash :: s_docs ++ slash :: s_secret) s_get.
Definition ex_lw (h : N) : option hwrite := if (h =? 1)%N then Some (w_fill s_index) else None.
Definition no_shift (h : N) : nat := 0.

Lemma alias_accessor_refuted :
  serve_seq_w dispatch_cond method_reject [(1%N, 1%N)] AccAlias ex_lw no_shift RestoreEntry RWRestoreOnMiss 8 ex_rs_w [0; 1]%nat ex_ctx_w
    = ([(1%Z, s_secret); (2%Z, [])], 0%N) /\
  serve_seq_w dispatch_cond method_reject [(1%N, 1%N)] AccFresh ex_lw no_shift RestoreEntry RWRestoreOnMiss 8 ex_rs_w [0; 1]%nat ex_ctx_w
    = ([(1%Z, s_secret)], 1%N).
Proof. vm_compute. split; reflexivity. Qed.

(** Seeded change C20-i: on Miss the router undoes only its OWN shift.  GET
    /u/settings; router 0 has the directory "u" whose handler 1 calls
    [c.ShiftRoute(1)] and declines; router 1 has the file "settings"
    (handler 2).  The handler's shift stays in the context and handler 2
    runs; restoring the position the router was entered with answers Miss. *)
Definition s_u : str := [117%N].
Definition s_settings : str := [115; 101; 116; 116; 105; 110; 103; 115]%N.
Definition ex_rs_sh : list router :=
  [ match router_add_svc new_router s_u (Some 1%N) true [] with Some (r, _) => r | None => new_router end;
    match router_add_svc new_router s_settings (Some 2%N) false [] with Some (r, _) => r | None => new_router end ].
Definition ex_ctx_sh : ctx := new_ctx (slash :: s_u ++ slash :: s_settings) s_get.
Definition ex_lsh (h : N) : nat := if (h =? 1)%N then 1%nat else 0%nat.

Lemma undo_own_shift_refuted :
  serve_seq_w dispatch_cond method_reject [(1%N, 1%N)] AccFresh (fun _ => None) ex_lsh UndoOwnShift RWRestoreOnMiss 8
              ex_rs_sh [0; 1]%nat ex_ctx_sh
    = ([(1%Z, s_settings); (2%Z, [])], 0%N) /\
  serve_seq_w dispatch_cond method_reject [(1%N, 1%N)] AccFresh (fun _ => None) ex_lsh RestoreEntry RWRestoreOnMiss 8
              ex_rs_sh [0; 1]%nat ex_ctx_sh
    = ([(1%Z, s_settings)], 1%N).
Proof. vm_compute. split; reflexivity. Qed.
