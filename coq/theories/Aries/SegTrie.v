(** Model of package trie (trie/trie.go, trie/node.go): a trie whose edges
    are whole path segments, values are non-empty strings.  Definitions
    only; proofs in SegTrieProofs.v. *)
From Coq Require Import List NArith Bool.
From Verif Require Import Aries.Str.
Import ListNotations.

Inductive snode := SNode (value : str) (subs : list (str * snode)).

Definition s_value (n : snode) := let 'SNode v _ := n in v.
Definition s_subs (n : snode) := let 'SNode _ s := n in s.

(** [newNode()] *)
Definition empty_snode : snode := SNode [] [].

Fixpoint slookup (k : str) (l : list (str * snode)) : option snode :=
  match l with
  | [] => None
  | (k', c) :: r => if str_eqb k' k then Some c else slookup k r
  end.

Fixpoint sset (k : str) (c : snode) (l : list (str * snode)) : list (str * snode) :=
  match l with
  | [] => [(k, c)]
  | (k', c') :: r => if str_eqb k' k then (k, c) :: r else (k', c') :: sset k c r
  end.

Definition is_nil {A} (l : list A) : bool := match l with [] => true | _ => false end.

(** [func (n *node) add(route []string, value string) bool] *)
Fixpoint sadd (route : list str) (value : str) (n : snode) : snode * bool :=
  match route with
  | [] =>
      if is_nil (s_value n) then (SNode value (s_subs n), true)
      else (n, false)                               (* have a conflict *)
  | cur :: rest =>
      let next := match slookup cur (s_subs n) with
                  | Some x => x
                  | None => empty_snode             (* next = newNode(); n.subs[cur] = next *)
                  end in
      let '(next', ok) := sadd rest value next in
      (SNode (s_value n) (sset cur next' (s_subs n)), ok)
  end.

(** [find] with [findSub] inlined. *)
Fixpoint sfind (route : list str) (n : snode) : nat * str :=
  match route with
  | [] => (0, s_value n)
  | cur :: rest =>
      let '(ret, v) :=
        match slookup cur (s_subs n) with
        | None => (0, [])
        | Some next =>
            let '(r, v) := sfind rest next in
            if is_nil v then (0, []) else (S r, v)
        end in
      if is_nil v then (0, s_value n) else (ret, v)
  end.

(** [Trie.Add]: panics on an empty value. *)
Definition trie_add (t : snode) (route : list str) (value : str) : option (snode * bool) :=
  if is_nil value then None else Some (sadd route value t).

(** [Trie.Find]: the matched prefix of the route and the value; [([], [])]
    when nothing matches. *)
Definition trie_find_route (t : snode) (route : list str) : list str * str :=
  let '(n, v) := sfind route t in
  if is_nil v then ([], []) else (firstn n route, v).

(** [Trie.FindExact] *)
Definition trie_find_exact (t : snode) (route : list str) : str :=
  let '(n, v) := sfind route t in
  if Nat.eqb n (length route) then v else [].
