(** The routed string is exactly URL.Path; its segment list is canonical;
    repeated, leading and trailing slashes do not matter to the segments;
    what an escaped slash does. (Model: Entry.v.) *)
From Coq Require Import List NArith ZArith Bool Arith Lia.
From Verif Require Import Aries.Str Aries.Radix Aries.SegTrie Aries.Router Aries.RouterProofs Aries.Entry.
Import ListNotations.
Local Open Scope N_scope.

(** * NewContext *)

(** With the sources NewContext has today: [C.Path] is URL.Path, the route
    is the canonical segment list of URL.Path (non-empty, slash-free
    segments: what [route_canonical] and the Router theorems assume), the
    route position is 0, "is a directory" is "URL.Path ends with a slash",
    and the host key is [Req.Host], untouched.  RawPath, EscapedPath and the
    request URI play no role. *)
Lemma new_actx_spec u method host :
  exists a, new_actx u method host = Some a /\
    a_path a = u_path u /\ a_host a = host /\
    c_routes (a_ctx a) = segs (u_path u) /\ Forall good_seg (c_routes (a_ctx a)) /\
    c_pos (a_ctx a) = 0%nat /\ c_isdir (a_ctx a) = path_is_dir (u_path u) /\
    c_method (a_ctx a) = method.
Proof.
  eexists. split; [reflexivity|]. simpl. repeat split; auto. apply segs_good.
Qed.

Lemma new_actx_ignores_raw u u' method host :
  u_path u = u_path u' -> new_actx u method host = new_actx u' method host.
Proof. unfold new_actx, new_actx_with. simpl. intros ->. auto. Qed.

(** * Slashes *)
Lemma split_aux_app_slash a : forall cur b,
  split_aux cur (a ++ slash :: b) = split_aux cur a ++ split_aux [] b.
Proof.
  induction a as [|c a IH]; intros cur b; simpl.
  - try rewrite N.eqb_refl. auto.
  - destruct (c =? slash); [rewrite IH; auto | apply IH].
Qed.

Lemma segs_app_slash a b : segs (a ++ slash :: b) = segs a ++ segs b.
Proof. unfold segs. rewrite split_aux_app_slash, filter_app. auto. Qed.

Lemma segs_nil : segs [] = [].
Proof. reflexivity. Qed.

(** A leading slash, a trailing slash and a repeated slash do not change
    the segments. *)
Lemma segs_slashes a b :
  segs (slash :: a) = segs a /\
  segs (a ++ [slash]) = segs a /\
  segs (a ++ slash :: slash :: b) = segs (a ++ slash :: b).
Proof.
  split; [|split].
  - apply (segs_app_slash [] a).
  - rewrite segs_app_slash, segs_nil, app_nil_r. auto.
  - rewrite !segs_app_slash. f_equal; try apply (segs_app_slash [] b).
Qed.

(** A path is a file path or a directory path by its last byte only. *)
Lemma path_is_dir_app a c : path_is_dir (a ++ [c]) = (c =? slash).
Proof. unfold path_is_dir. rewrite rev_app_distr. auto. Qed.

(** * Escapes (net/http, trusted model) *)
Lemma unescape_plain s : ~ In percent s -> unescape s = Some s.
Proof.
  induction s as [|c r IH]; simpl; auto. intros NI.
  destruct (N.eqb_spec c percent) as [->|ne]; [exfalso; auto|].
  rewrite IH; auto.
Qed.

(** Whatever the escapes were, the segments aries routes on never contain a
    slash: an escaped slash has become a separator. *)
Lemma parsed_segments_good r path host method :
  http_parse r = HReq path host ->
  exists a, new_actx (PUrl path [] [] []) method host = Some a /\
            Forall good_seg (c_routes (a_ctx a)) /\ c_routes (a_ctx a) = segs path.
Proof.
  intros _. destruct (new_actx_spec (PUrl path [] [] []) method host) as (a & E & _ & _ & R & G & _).
  exists a. auto.
Qed.

(** * ErrCode *)
Lemma status_of_spec e :
  status_of e = match e with
                | ENil => 200 | ENotFound => 404 | EInternal => 500
                | EUnauthorized => 403 | EInvalidArg => 400 | EOther => 500
                end.
Proof. destruct e; reflexivity. Qed.
