(** Tier gating of ServiceSet.Serve / ServeInternal (model: Tiers.v), for
    every configuration and all handler behaviours, and host dispatch. *)
From Coq Require Import List NArith ZArith Bool Lia.
From Verif Require Import Aries.Str Aries.Radix Aries.MuxProofs Aries.Tiers.
Import ListNotations.

Definition adm (s : sset) (c : ident) : bool :=
  match is_admin default_admin s c with Some true => true | _ => false end.

(** What the default admin test computes. *)
Lemma adm_default s c :
  s_is_admin s = None -> adm s c = negb (nil_str (i_user c)) && (0 <? i_level c)%Z.
Proof.
  intros E. unfold adm, is_admin, default_admin. rewrite E. simpl.
  destruct (negb (nil_str (i_user c))); simpl; auto. destruct (0 <? i_level c)%Z; auto.
Qed.

Lemma adm_custom s c f : s_is_admin s = Some f -> adm s c = f c.
Proof. intros E. unfold adm, is_admin. rewrite E. destruct (f c); auto. Qed.

(** An event is permitted if the user tier sees a signed-in context and the
    admin tier sees an admin context. *)
Definition ev_ok (s : sset) (e : event) : Prop :=
  match e with
  | EServe TUser c => i_user c <> []
  | EServe TAdmin c => adm s c = true
  | _ => True
  end.

Definition res_st (r : step_res) : st := match r with Next x => x | Done x _ => x end.

Definition inv (s : sset) (x : st) : Prop := Forall (ev_ok s) (st_tr x).

Lemma nil_str_false u : nil_str u = false -> u <> [].
Proof. destruct u; simpl; congruence. Qed.

Section Gating.
  Variable auth_prog : list auth_stmt.
  Variable s : sset.
  Notation X := (exec_stmt default_admin auth_prog s).
  Notation XS := (exec default_admin auth_prog s).

  Lemma exec_if e body x :
    exec_stmt default_admin auth_prog s (SIf e body) x =
    match eval_cond (is_admin default_admin s) s (st_c x) e with
    | None => Done x FStuck
    | Some false => Next x
    | Some true => exec default_admin auth_prog s body x
    end.
  Proof. reflexivity. Qed.

  Lemma try_tier_inv t x :
    (t = TUser -> i_user (st_c x) <> []) -> (t = TAdmin -> adm s (st_c x) = true) ->
    inv s x -> inv s (res_st (try_tier s t x)).
  Proof.
    intros HU HA I. unfold try_tier. destruct (tier_handler s t) as [h|]; auto.
    destruct (h (st_c x)) as [c' r].
    assert (inv s (St c' (EServe t (st_c x) :: st_tr x))).
    { constructor; auto. destruct t; simpl; auto. }
    destruct r; auto.
  Qed.

  Lemma run_setup_inv x x' e : run_setup s x = Some (x', e) -> inv s x -> inv s x'.
  Proof.
    unfold run_setup. destruct (s_auth s) as [[h setup]|]; [|discriminate].
    destruct (setup (st_c x)) as [c' e']. intros [= <- <-] I. constructor; simpl; auto.
  Qed.

  Lemma exec_auth_inv p : forall x x' b e,
    exec_auth s p x = inl (Some (x', b, e)) -> inv s x -> inv s x'.
  Proof.
    induction p as [|a p IH]; intros x x' b e; simpl; [discriminate|].
    destruct a.
    - destruct (s_auth s) as [[h setup]|]; [|discriminate].
      destruct (h (st_c x)) as [c' r]. destruct r.
      + intros E I. eapply IH; eauto. constructor; simpl; auto.
      + intros [= <- <- <-] I. constructor; simpl; auto.
    - destruct (run_setup s x) as [[x1 e1]|] eqn:R; [|discriminate].
      intros [= <- <- <-]. eapply run_setup_inv; eauto.
    - discriminate.
  Qed.

  (** Statements that cannot break the gating. *)
  Inductive Safe : stmt -> Prop :=
  | Safe_try t : t <> TUser -> t <> TAdmin -> Safe (STry t)
  | Safe_user : Safe (SIf CUserSet [STry TUser])
  | Safe_admin : Safe (SIf CIsAdmin [STry TAdmin])
  | Safe_if c body : SafeL body -> Safe (SIf c body)
  | Safe_gate : Safe SAuthGate
  | Safe_setup : Safe SSetup
  | Safe_redirect : Safe SRedirectRoot
  | Safe_return r : Safe (SReturn r)
  | Safe_unknown t : Safe (SUnknown t)
  with SafeL : list stmt -> Prop :=
  | SafeL_nil : SafeL []
  | SafeL_cons i r : Safe i -> SafeL r -> SafeL (i :: r).

  Scheme Safe_mut := Induction for Safe Sort Prop
  with SafeL_mut := Induction for SafeL Sort Prop.

  Lemma safe_inv :
    forall i, Safe i -> forall x, inv s x -> inv s (res_st (X i x)).
  Proof.
    apply (Safe_mut (fun i _ => forall x, inv s x -> inv s (res_st (X i x)))
                    (fun l _ => forall x, inv s x -> inv s (res_st (XS l x)))).
    - intros t NU NA x I. simpl. apply try_tier_inv; auto; congruence.
    - intros x I. rewrite exec_if. simpl.
      destruct (negb (nil_str (i_user (st_c x)))) eqn:E; auto.
      assert (inv s (res_st (try_tier s TUser x))).
      { apply try_tier_inv; auto; try congruence. intros _. apply nil_str_false, negb_true_iff; auto. }
      destruct (try_tier s TUser x); auto.
    - intros x I. rewrite exec_if. simpl.
      destruct (is_admin default_admin s (st_c x)) as [[|]|] eqn:E; auto.
      assert (inv s (res_st (try_tier s TAdmin x))).
      { apply try_tier_inv; auto; try congruence. intros _. unfold adm. rewrite E. auto. }
      destruct (try_tier s TAdmin x); auto.
    - intros c body _ IH x I. rewrite exec_if.
      destruct (eval_cond (is_admin default_admin s) s (st_c x) c) as [[|]|]; auto.
    - intros x I. simpl. destruct (exec_auth s auth_prog x) as [[[[x' b] e]|]|f] eqn:E; auto.
      apply exec_auth_inv in E; auto.
      destruct (negb (e =? 0)%N); auto. destruct b; auto.
    - intros x I. simpl. destruct (run_setup s x) as [[x' e]|] eqn:E; auto.
      apply run_setup_inv in E; auto. destruct (negb (e =? 0)%N); auto.
    - intros x I. simpl. constructor; simpl; auto.
    - intros r x I. destruct r; simpl; auto.
      destruct (s_signin s) as [f|]; auto. destruct (f (st_c x)). simpl. constructor; simpl; auto.
    - intros t x I. auto.
    - intros x I. auto.
    - intros i r _ IHi _ IHr x I. simpl. specialize (IHi x I).
      destruct (exec_stmt default_admin auth_prog s i x); auto.
  Qed.

  Lemma safe_list_inv l : SafeL l -> forall x, inv s x -> inv s (res_st (XS l x)).
  Proof.
    induction 1 as [|i r Hi Hr IH]; intros x I; auto.
    simpl. pose proof (safe_inv i Hi x I) as Hx.
    destruct (exec_stmt default_admin auth_prog s i x); auto.
  Qed.

  Lemma run_safe prog c0 : SafeL prog -> Forall (ev_ok s) (fst (run default_admin auth_prog s prog c0)).
  Proof.
    intros Hs. unfold run.
    pose proof (safe_list_inv prog Hs (St c0 []) (Forall_nil _)) as I.
    destruct (exec default_admin auth_prog s prog (St c0 [])); simpl in *;
      apply Forall_rev; auto.
  Qed.
End Gating.

Lemma serve_prog_safe : SafeL serve_prog.
Proof.
  unfold serve_prog. repeat constructor; congruence.
Qed.

(** [Serve]: whatever the handlers, the auth service, the IsAdmin callback
    and the incoming context are, the user tier is only ever invoked with a
    non-empty [c.User] and the admin tier only with a context for which
    [isAdmin] holds. *)
Theorem serve_gated s c0 : Forall (ev_ok s) (fst (serve s c0)).
Proof. apply run_safe. apply serve_prog_safe. Qed.

(** A decidable version of [SafeL], for programs regenerated from the source. *)
Fixpoint safeb (i : stmt) : bool :=
  match i with
  | STry TUser => false
  | STry TAdmin => false
  | SIf CUserSet [STry TUser] => true
  | SIf CIsAdmin [STry TAdmin] => true
  | SIf _ body => (fix all (l : list stmt) : bool :=
                     match l with [] => true | j :: r => safeb j && all r end) body
  | _ => true
  end.

Definition safeb_list (l : list stmt) : bool := forallb safeb l.

Section StmtInd.
  Variable P : stmt -> Prop.
  Hypothesis Hif : forall c body, Forall P body -> P (SIf c body).
  Hypothesis Hother : forall i, (forall c body, i <> SIf c body) -> P i.
  Fixpoint stmt_ind2 (i : stmt) : P i :=
    match i with
    | SIf c body =>
        Hif c body ((fix go l : Forall P l :=
                       match l with [] => Forall_nil _ | j :: r => Forall_cons j (stmt_ind2 j) (go r) end) body)
    | j => Hother j ltac:(intros; discriminate)
    end.
End StmtInd.

Lemma safeb_list_sound_aux l : Forall (fun i => safeb i = true -> Safe i) l ->
  (fix all (l : list stmt) : bool := match l with [] => true | j :: r => safeb j && all r end) l = true ->
  SafeL l.
Proof.
  induction 1 as [|i r Hi Hr IH]; intros E; [constructor|].
  apply andb_true_iff in E as [E1 E2]. constructor; auto.
Qed.

Lemma safeb_sound i : safeb i = true -> Safe i.
Proof.
  induction i as [c body IH|i NIf] using stmt_ind2.
  - intros E.
    assert (G : (fix all (l : list stmt) : bool :=
                   match l with [] => true | j :: r => safeb j && all r end) body = true -> Safe (SIf c body)).
    { intros E'. apply Safe_if. apply safeb_list_sound_aux; auto. }
    destruct c; auto.
    + destruct body as [|[[]| | | | | |] [|]]; auto; try constructor.
    + destruct body as [|[[]| | | | | |] [|]]; auto; try constructor.
  - destruct i; try (intros; constructor; fail).
    + destruct t; simpl; try discriminate; intros _; constructor; congruence.
    + exfalso. eapply NIf; eauto.
Qed.

Lemma safeb_list_sound l : safeb_list l = true -> SafeL l.
Proof.
  induction l as [|i r IH]; simpl; intros E; [constructor|].
  apply andb_true_iff in E as [E1 E2]. constructor; auto. apply safeb_sound; auto.
Qed.

(** Any skeleton that passes the decidable check is gated. *)
Theorem run_gated auth_prog s prog c0 :
  safeb_list prog = true -> Forall (ev_ok s) (fst (run default_admin auth_prog s prog c0)).
Proof. intros E. apply run_safe. apply safeb_list_sound; auto. Qed.

(** * ServeInternal *)

Definition gated_ev (e : event) : bool :=
  match e with
  | EServe TGuest _ | EServe TUser _ | EServe TAdmin _ => true
  | _ => false
  end.

(** The first guest/user/admin invocation, if any. *)
Definition first_gated (tr : list event) : option event := List.find gated_ev tr.

Lemma find_app {A} (p : A -> bool) l1 l2 :
  List.find p (l1 ++ l2) = match List.find p l1 with Some y => Some y | None => List.find p l2 end.
Proof. induction l1 as [|x l IH]; simpl; auto. destruct (p x); auto. Qed.

(** Invariant after the admin check: either nothing gated has run and the
    context is an admin's, or the first gated invocation saw an admin. *)
Definition J (s : sset) (x : st) : Prop :=
  (first_gated (rev (st_tr x)) = None /\ adm s (st_c x) = true) \/
  (exists t c, first_gated (rev (st_tr x)) = Some (EServe t c) /\ adm s c = true).

(** Before the check: nothing gated has run. *)
Definition K (x : st) : Prop := first_gated (rev (st_tr x)) = None.

Lemma K_cons e x c : K x -> gated_ev e = false -> K (St c (e :: st_tr x)).
Proof. unfold K, first_gated. simpl. intros H G. rewrite find_app, H. simpl. rewrite G. auto. Qed.

Lemma try_tier_K s t x : gated_ev (EServe t (st_c x)) = false -> K x -> K (res_st (try_tier s t x)).
Proof.
  intros G H. unfold try_tier. destruct (tier_handler s t) as [h|]; auto.
  destruct (h (st_c x)) as [c' r]. pose proof (K_cons (EServe t (st_c x)) x c' H G).
  destruct r; auto.
Qed.

Lemma try_tier_J s t x : gated_ev (EServe t (st_c x)) = true -> J s x -> J s (res_st (try_tier s t x)).
Proof.
  intros G H. unfold try_tier. destruct (tier_handler s t) as [h|]; auto.
  destruct (h (st_c x)) as [c' r].
  assert (J s (St c' (EServe t (st_c x) :: st_tr x))).
  { unfold J, first_gated in *. right. simpl. rewrite find_app.
    destruct H as [[N A]|(t0 & c0 & F & A)].
    - rewrite N. cbn [List.find]. rewrite G. eauto.
    - rewrite F. eauto. }
  destruct r; auto.
Qed.

Lemma J_final s x t c : J s x -> first_gated (rev (st_tr x)) = Some (EServe t c) -> adm s c = true.
Proof. intros [[N _]|(t0 & c0 & F & A)] E; congruence. Qed.

Lemma K_final x e : K x -> first_gated (rev (st_tr x)) = Some e -> False.
Proof. unfold K. congruence. Qed.

(** [ServeInternal]: the first of the guest/user/admin tiers to be invoked
    is invoked with a context for which [isAdmin] holds, whatever the
    handlers do.  (Nothing runs between the check and that invocation.) *)
Theorem serve_internal_gated s c0 t c :
  first_gated (fst (serve_internal s c0)) = Some (EServe t c) -> adm s c = true.
Proof.
  unfold serve_internal, run, serve_internal_prog.
  set (A := serve_auth_prog). set (D := default_admin).
  cbn [exec].
  (* STry TAuth *)
  set (x0 := St c0 []). assert (K0 : K x0) by reflexivity.
  change (exec_stmt D A s (STry TAuth) x0) with (try_tier s TAuth x0).
  pose proof (try_tier_K s TAuth x0 eq_refl K0) as K1.
  destruct (try_tier s TAuth x0) as [x1|x1 f1]; [|simpl in *; intros E; destruct (K_final _ _ K1 E)].
  (* if s.Auth != nil { Setup } *)
  assert (K2 : K (res_st (exec_stmt D A s (SIf CAuthSet [SSetup]) x1))).
  { rewrite exec_if. cbn [eval_cond]. destruct (s_auth s) as [[h setup]|] eqn:EA; auto.
    cbn [exec exec_stmt]. unfold run_setup. rewrite EA. destruct (setup (st_c x1)) as [c' e].
    assert (K (St c' (ESetup (st_c x1) :: st_tr x1))) by (apply K_cons; auto).
    destruct (negb (e =? 0)%N); auto. }
  destruct (exec_stmt D A s (SIf CAuthSet [SSetup]) x1) as [x2|x2 f2];
    [|simpl in *; intros E; destruct (K_final _ _ K2 E)].
  simpl in K2.
  (* STry TResource *)
  change (exec_stmt D A s (STry TResource) x2) with (try_tier s TResource x2).
  pose proof (try_tier_K s TResource x2 eq_refl K2) as K3.
  destruct (try_tier s TResource x2) as [x3|x3 f3]; [|simpl in *; intros E; destruct (K_final _ _ K3 E)].
  simpl in K3.
  (* the admin check *)
  rewrite exec_if. cbn [eval_cond option_map].
  destruct (is_admin default_admin s (st_c x3)) as [[|]|] eqn:EAd; cbn [option_map negb].
  - (* admin: the three tiers *)
    assert (J3 : J s x3) by (left; split; auto; unfold adm; rewrite EAd; auto).
    change (exec_stmt D A s (STry TGuest) x3) with (try_tier s TGuest x3).
    pose proof (try_tier_J s TGuest x3 eq_refl J3) as J4.
    destruct (try_tier s TGuest x3) as [x4|x4 f4]; [|simpl in *; apply J_final; auto].
    change (exec_stmt D A s (STry TUser) x4) with (try_tier s TUser x4).
    pose proof (try_tier_J s TUser x4 eq_refl J4) as J5.
    destruct (try_tier s TUser x4) as [x5|x5 f5]; [|simpl in *; apply J_final; auto].
    change (exec_stmt D A s (STry TAdmin) x5) with (try_tier s TAdmin x5).
    pose proof (try_tier_J s TAdmin x5 eq_refl J5) as J6.
    destruct (try_tier s TAdmin x5) as [x6|x6 f6]; simpl in *; apply J_final; auto.
  - (* not admin: sign-in page, NeedSignIn or a redirect; no tier runs *)
    cbn [exec]. rewrite exec_if. cbn [eval_cond].
    destruct (str_eqb (i_path (st_c x3)) [slash]).
    + cbn [exec]. rewrite exec_if. cbn [eval_cond]. destruct (s_signin s) as [f|] eqn:ES.
      * cbn [exec exec_stmt]. rewrite ES. destruct (f (st_c x3)) as [c' e]. simpl.
        intros E. exfalso. eapply (K_final (St c' (ESignIn (st_c x3) :: st_tr x3))); eauto.
        apply K_cons; auto.
      * cbn [exec exec_stmt]. simpl. intros E. destruct (K_final _ _ K3 E).
    + cbn [exec exec_stmt st_c st_tr]. simpl. intros E. exfalso.
      eapply (K_final (St (st_c x3) (ERedirect :: st_tr x3))); eauto. apply K_cons; auto.
  - simpl. intros E. destruct (K_final _ _ K3 E).
Qed.

(** ** Handlers that leave the identity alone: ALL three tiers only if admin *)

(** The frame condition: running the handler does not change what [isAdmin]
    answers (in particular: it does not touch [c.User], [c.UserLevel],
    [c.Path]). *)
Definition preserves_adm (s : sset) (h : handler) : Prop :=
  forall c, adm s (fst (h c)) = adm s c.

Definition keeps_ctx (h : handler) : Prop := forall c, fst (h c) = c.

Lemma keeps_preserves s h : keeps_ctx h -> preserves_adm s h.
Proof. intros H c. rewrite H. auto. Qed.

(** The guest and user handlers (the ones that run between the check and a
    later tier) satisfy the frame condition. *)
Definition frame_ok (s : sset) : Prop :=
  (forall h, s_guest s = Some h -> preserves_adm s h) /\
  (forall h, s_user s = Some h -> preserves_adm s h).

Definition all_gated_ok (s : sset) (tr : list event) : Prop :=
  forall t c, In (EServe t c) tr -> gated_ev (EServe t c) = true -> adm s c = true.

Lemma K_no_gated x : K x -> forall e, In e (st_tr x) -> gated_ev e = false.
Proof.
  unfold K, first_gated. intros H e I. apply (find_none _ _ H). apply in_rev in I. auto.
Qed.

Lemma K_all_gated s x : K x -> all_gated_ok s (st_tr x).
Proof. intros H t c I G. rewrite (K_no_gated x H _ I) in G. discriminate. Qed.

Lemma try_tier_all s t x :
  all_gated_ok s (st_tr x) -> adm s (st_c x) = true ->
  all_gated_ok s (st_tr (res_st (try_tier s t x))) /\
  ((forall h, tier_handler s t = Some h -> preserves_adm s h) ->
   adm s (st_c (res_st (try_tier s t x))) = true).
Proof.
  intros A C. unfold try_tier. destruct (tier_handler s t) as [h|] eqn:Eh; [|split; auto].
  destruct (h (st_c x)) as [c' r] eqn:Ec.
  assert (G : all_gated_ok s (EServe t (st_c x) :: st_tr x)).
  { intros t0 c0 [[= <- <-]|I] Hg; auto. apply (A t0 c0); auto. }
  assert (P : (forall h0, Some h = Some h0 -> preserves_adm s h0) -> adm s c' = true).
  { intros Hp. specialize (Hp h eq_refl (st_c x)). rewrite Ec in Hp. simpl in Hp. congruence. }
  destruct r; simpl; auto.
Qed.

(** [ServeInternal] with frame-respecting guest and user handlers: EVERY
    invocation of the guest, user and admin tiers sees an admin context. *)
Theorem serve_internal_all_gated s c0 :
  frame_ok s -> all_gated_ok s (fst (serve_internal s c0)).
Proof.
  intros [Fg Fu].
  assert (FIN : forall tr (f : final), all_gated_ok s tr -> all_gated_ok s (fst (rev tr, f))).
  { intros tr f A t c I. simpl in I. apply in_rev in I. apply A; auto. }
  assert (FINK : forall x (f : final), K x -> all_gated_ok s (fst (rev (st_tr x), f))).
  { intros x f Hk. apply FIN, K_all_gated; auto. }
  unfold serve_internal, run, serve_internal_prog.
  set (A := serve_auth_prog). set (D := default_admin).
  cbn [exec].
  set (x0 := St c0 []). assert (K0 : K x0) by reflexivity.
  change (exec_stmt D A s (STry TAuth) x0) with (try_tier s TAuth x0).
  pose proof (try_tier_K s TAuth x0 eq_refl K0) as K1.
  destruct (try_tier s TAuth x0) as [x1|x1 f1]; [|apply FINK; auto].
  assert (K2 : K (res_st (exec_stmt D A s (SIf CAuthSet [SSetup]) x1))).
  { rewrite exec_if. cbn [eval_cond]. destruct (s_auth s) as [[h setup]|] eqn:EA; auto.
    cbn [exec exec_stmt]. unfold run_setup. rewrite EA. destruct (setup (st_c x1)) as [c' e].
    assert (K (St c' (ESetup (st_c x1) :: st_tr x1))) by (apply K_cons; auto).
    destruct (negb (e =? 0)%N); auto. }
  destruct (exec_stmt D A s (SIf CAuthSet [SSetup]) x1) as [x2|x2 f2]; [|apply FINK; auto].
  simpl in K2.
  change (exec_stmt D A s (STry TResource) x2) with (try_tier s TResource x2).
  pose proof (try_tier_K s TResource x2 eq_refl K2) as K3.
  destruct (try_tier s TResource x2) as [x3|x3 f3]; [|apply FINK; auto].
  simpl in K3.
  rewrite exec_if. cbn [eval_cond option_map].
  destruct (is_admin default_admin s (st_c x3)) as [[|]|] eqn:EAd; cbn [option_map negb].
  - assert (C3 : adm s (st_c x3) = true) by (unfold adm; rewrite EAd; auto).
    pose proof (K_all_gated s x3 K3) as A3.
    change (exec_stmt D A s (STry TGuest) x3) with (try_tier s TGuest x3).
    destruct (try_tier_all s TGuest x3 A3 C3) as [A4 C4]. specialize (C4 Fg).
    destruct (try_tier s TGuest x3) as [x4|x4 f4]; [|apply FIN; auto]. simpl in A4, C4.
    change (exec_stmt D A s (STry TUser) x4) with (try_tier s TUser x4).
    destruct (try_tier_all s TUser x4 A4 C4) as [A5 C5]. specialize (C5 Fu).
    destruct (try_tier s TUser x4) as [x5|x5 f5]; [|apply FIN; auto]. simpl in A5, C5.
    change (exec_stmt D A s (STry TAdmin) x5) with (try_tier s TAdmin x5).
    destruct (try_tier_all s TAdmin x5 A5 C5) as [A6 _].
    destruct (try_tier s TAdmin x5) as [x6|x6 f6]; [|apply FIN; auto].
    cbn [exec exec_stmt]. apply FIN. auto.
  - cbn [exec]. rewrite exec_if. cbn [eval_cond].
    destruct (str_eqb (i_path (st_c x3)) [slash]).
    + cbn [exec]. rewrite exec_if. cbn [eval_cond]. destruct (s_signin s) as [f|] eqn:ES.
      * cbn [exec exec_stmt]. rewrite ES. destruct (f (st_c x3)) as [c' e].
        apply (FINK (St c' (ESignIn (st_c x3) :: st_tr x3))). apply K_cons; auto.
      * cbn [exec exec_stmt]. apply FINK; auto.
    + cbn [exec exec_stmt st_c st_tr].
      apply (FINK (St (st_c x3) (ERedirect :: st_tr x3))). apply K_cons; auto.
  - apply FINK; auto.
Qed.

(** A non-admin request, handlers that keep the context: no guest, user or
    admin tier runs at all. *)
Corollary serve_internal_nonadmin_nothing s c0 :
  frame_ok s ->
  (forall c, adm s c = false) ->
  forall e, In e (fst (serve_internal s c0)) -> gated_ev e = false.
Proof.
  intros F NA e I. destruct (gated_ev e) eqn:G; auto.
  destruct e as [t c| | |]; try discriminate.
  pose proof (serve_internal_all_gated s c0 F t c I G) as H. rewrite (NA c) in H. discriminate.
Qed.

(** [isAdmin] never gets stuck on the deployed default. *)
Lemma is_admin_total s c : is_admin default_admin s c <> None.
Proof.
  unfold is_admin, default_admin. destruct (s_is_admin s); [discriminate|]. simpl.
  destruct (negb (nil_str (i_user c))); discriminate.
Qed.

(** * Host mux *)
Definition host_build (sets : list (str * N)) : hostmux :=
  fold_left (fun m kv => host_set m (fst kv) (snd kv)) sets [].

(** The service serving a host is the one most recently [Set] for exactly
    that host string; nothing is served for any other string. *)
Theorem host_exact sets h :
  host_serve (host_build sets) h =
  option_map snd (List.find (fun kv => str_eqb (fst kv) h) (rev sets)).
Proof.
  unfold host_build, host_serve, host_set. induction sets as [|[k v] r IH] using rev_ind; auto.
  rewrite fold_left_app, rev_app_distr. simpl. rewrite alookup_aset.
  destruct (str_eqb k h); auto.
Qed.
