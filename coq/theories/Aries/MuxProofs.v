(** aries/mux.go: the Mux (model in Radix.v) refines a trie-free reference
    that keeps two plain maps and answers [Route] by a brute-force scan for
    the longest registered prefix. *)
From Coq Require Import List NArith Bool Lia Arith Permutation.
From Verif Require Import Aries.Str Aries.Radix Aries.RadixProofs.
Import ListNotations.

(** * Reference: no trie *)
Record rmux := RMux { r_exacts : list (str * N); r_prefixes : list (str * N) }.

Definition keys {A} (l : list (str * A)) : list str := map fst l.

Definition ref_prefix (r : rmux) (s : str) (f : N) : rmux * bool :=
  if str_eqb s [] then (r, false)
  else match alookup s (r_prefixes r) with
       | Some _ => (r, false)
       | None => (RMux (r_exacts r) (aset s f (r_prefixes r)), true)
       end.

Definition ref_exact (r : rmux) (s : str) (f : N) : rmux * bool :=
  match alookup s (r_exacts r) with
  | Some _ => (r, false)
  | None => (RMux (aset s f (r_exacts r)) (r_prefixes r), true)
  end.

Definition ref_dir (r : rmux) (s : str) (f : N) : rmux * bool :=
  if str_eqb s [slash] then
    let '(r1, ok) := ref_exact r s f in
    if ok then ref_prefix r1 s f else (r1, false)
  else
    let s' := trim_slash s in
    let '(r1, ok) := ref_exact r s' f in
    if ok then ref_prefix r1 (s' ++ [slash]) f else (r1, false).

Definition ref_apply (r : rmux) (op : mux_op) : rmux * bool :=
  match op with
  | OpPrefix s f => ref_prefix r s f
  | OpExact s f => ref_exact r s f
  | OpDir s f => ref_dir r s f
  end.

Fixpoint ref_run (r : rmux) (ops : list mux_op) : rmux * list bool :=
  match ops with
  | [] => (r, [])
  | op :: rest =>
      let '(r1, b) := ref_apply r op in
      let '(r2, bs) := ref_run r1 rest in (r2, b :: bs)
  end.

(** Exact match, else the handler of the longest registered prefix, else
    nothing. *)
Definition ref_route (r : rmux) (path : str) : option N :=
  match alookup path (r_exacts r) with
  | Some f => Some f
  | None => alookup (longest_prefix (keys (r_prefixes r)) path) (r_prefixes r)
  end.

(** * Association lists keyed by strings *)
Lemma alookup_None {A} k (l : list (str * A)) : alookup k l = None <-> ~ In k (keys l).
Proof.
  induction l as [|[k' v] r IH]; simpl; [tauto|].
  destruct (str_eqb k' k) eqn:E.
  - apply str_eqb_eq in E. split; [discriminate | intros H; exfalso; auto].
  - apply str_eqb_neq in E. rewrite IH. tauto.
Qed.

Lemma alookup_In {A} k (l : list (str * A)) : In k (keys l) <-> exists v, alookup k l = Some v.
Proof.
  destruct (alookup k l) eqn:E.
  - split; [eauto|]. intros _. destruct (in_dec str_eq_dec k (keys l)); auto.
    apply alookup_None in n. congruence.
  - apply alookup_None in E. split; [tauto | intros [v H]; discriminate].
Qed.

Lemma keys_aset {A} k (v : A) l w : In w (keys (aset k v l)) <-> w = k \/ In w (keys l).
Proof.
  induction l as [|[k' v'] r IH]; simpl; [intuition|].
  destruct (str_eqb k' k) eqn:E; simpl.
  - apply str_eqb_eq in E. subst. intuition.
  - rewrite IH. intuition.
Qed.

Lemma alookup_aset {A} k (v : A) l k2 :
  alookup k2 (aset k v l) = if str_eqb k k2 then Some v else alookup k2 l.
Proof.
  induction l as [|[k' v'] r IH]; simpl.
  - destruct (str_eqb k k2); auto.
  - destruct (str_eqb k' k) eqn:E; simpl.
    + apply str_eqb_eq in E. subst k'. destruct (str_eqb k k2); auto.
    + rewrite IH. destruct (str_eqb k' k2) eqn:E2; auto.
      apply str_eqb_eq in E2. subst k'. destruct (str_eqb k k2) eqn:E3; auto.
      apply str_eqb_eq in E3. subst k. rewrite str_eqb_refl in E. discriminate.
Qed.

(** * Simulation *)
Definition mux_inv (m : mux) : Prop :=
  wf [] (m_trie m) /\
  forall w, In w (contents (m_trie m)) <-> w = [] \/ In w (keys (m_prefixes m)).

Definition sim (m : mux) (r : rmux) : Prop :=
  m_exacts m = r_exacts r /\ m_prefixes m = r_prefixes r /\ mux_inv m.

Lemma sim_new : sim new_mux (RMux [] []).
Proof.
  split; auto. split; auto. split; [apply wf_root|]. intros w. simpl. intuition congruence.
Qed.

Lemma sim_prefix m r s f : sim m r ->
  exists m', mux_prefix m s f = Some (m', snd (ref_prefix r s f)) /\ sim m' (fst (ref_prefix r s f)).
Proof.
  intros (Ee & Ep & W & C). unfold mux_prefix, ref_prefix.
  destruct (add_correct (m_trie m) [] s W) as (t' & b & -> & W' & _ & C' & HB & SAME).
  destruct (str_eqb s []) eqn:Es.
  - apply str_eqb_eq in Es. subst s.
    destruct b; [exfalso; destruct (proj1 HB eq_refl); congruence|].
    rewrite (SAME eq_refl). exists m. split; [destruct m; reflexivity|]. simpl. repeat split; auto; apply C.
  - apply str_eqb_neq in Es. rewrite <- Ep.
    destruct (alookup s (m_prefixes m)) eqn:L.
    + destruct b.
      * exfalso. destruct (proj1 HB eq_refl) as [_ NI]. apply NI. apply C. right.
        apply alookup_In. eauto.
      * rewrite (SAME eq_refl). exists m. split; [destruct m; reflexivity|]. simpl. repeat split; auto; apply C.
    + destruct b.
      * eexists. split; [reflexivity|]. simpl. split; auto. split; [simpl; congruence|]. split; auto.
        simpl. intros w. rewrite C', C, keys_aset. intuition.
      * exfalso. apply alookup_None in L. assert (X : false = true); [|discriminate].
        apply HB. split; auto. rewrite C. intros [E|I]; auto.
Qed.

Lemma sim_exact m r s f : sim m r ->
  snd (mux_exact m s f) = snd (ref_exact r s f) /\ sim (fst (mux_exact m s f)) (fst (ref_exact r s f)).
Proof.
  intros (Ee & Ep & I). unfold mux_exact, ref_exact. rewrite <- Ee.
  destruct (alookup s (m_exacts m)); simpl; repeat split; auto; try apply I; try congruence.
Qed.

Lemma sim_apply m r op : sim m r ->
  exists m', mux_apply m op = Some (m', snd (ref_apply r op)) /\ sim m' (fst (ref_apply r op)).
Proof.
  intros S. destruct op as [s f|s f|s f]; simpl.
  - apply sim_prefix; auto.
  - destruct (sim_exact m r s f S) as [E S']. eexists. split; [|eauto].
    rewrite <- E. destruct (mux_exact m s f); auto.
  - unfold mux_dir, ref_dir. destruct (str_eqb s [slash]).
    + destruct (sim_exact m r s f S) as [E S'].
      destruct (mux_exact m s f) as [m1 ok], (ref_exact r s f) as [r1 ok']. simpl in *. subst ok'.
      destruct ok; [apply sim_prefix; auto | eauto].
    + destruct (sim_exact m r (trim_slash s) f S) as [E S'].
      destruct (mux_exact m (trim_slash s) f) as [m1 ok], (ref_exact r (trim_slash s) f) as [r1 ok'].
      simpl in *. subst ok'. destruct ok; [apply sim_prefix; auto | eauto].
Qed.

Lemma sim_run ops : forall m r, sim m r ->
  exists m', mux_run m ops = Some (m', snd (ref_run r ops)) /\ sim m' (fst (ref_run r ops)).
Proof.
  induction ops as [|op rest IH]; intros m r S; simpl.
  - eauto.
  - destruct (sim_apply m r op S) as (m1 & -> & S1).
    destruct (ref_apply r op) as [r1 b]. simpl in *.
    destruct (IH m1 r1 S1) as (m2 & -> & S2).
    destruct (ref_run r1 rest) as [r2 bs]. simpl in *. eauto.
Qed.

Lemma sim_route m r path : sim m r -> mux_route m path = ref_route r path.
Proof.
  intros (Ee & Ep & W & C). unfold mux_route, ref_route. rewrite <- Ee, <- Ep.
  destruct (alookup path (m_exacts m)); auto. f_equal.
  apply (best_unique (keys (m_prefixes m)) path); [|apply longest_prefix_best].
  apply (best_ext (contents (m_trie m))); [|apply find_best; auto].
  intros w Hne. rewrite C. tauto.
Qed.

(** Every sequence of registrations, then any request path: the Mux (with
    its trie) reports the same duplicates and routes exactly as the scan. *)
Theorem mux_refines_scan ops :
  exists m, mux_run new_mux ops = Some (m, snd (ref_run (RMux [] []) ops)) /\
    forall path, mux_route m path = ref_route (fst (ref_run (RMux [] []) ops)) path.
Proof.
  destruct (sim_run ops new_mux (RMux [] []) sim_new) as (m & E & S).
  exists m. split; auto. intros path. apply sim_route; auto.
Qed.

(** What the scan means, spelled out. *)
Theorem ref_route_spec r path :
  (forall w, In w (keys (r_prefixes r)) -> w <> []) ->
  match ref_route r path with
  | Some f =>
      alookup path (r_exacts r) = Some f \/
      (alookup path (r_exacts r) = None /\
       exists w, is_prefix w path /\ alookup w (r_prefixes r) = Some f /\
         forall w', In w' (keys (r_prefixes r)) -> is_prefix w' path -> length w' <= length w)
  | None =>
      alookup path (r_exacts r) = None /\
      forall w, In w (keys (r_prefixes r)) -> ~ is_prefix w path
  end.
Proof.
  intros NE. unfold ref_route. destruct (alookup path (r_exacts r)) as [f|] eqn:Ex; auto.
  destruct (longest_prefix_best (keys (r_prefixes r)) path) as (P & M & L).
  set (w := longest_prefix (keys (r_prefixes r)) path) in *.
  destruct (alookup w (r_prefixes r)) as [f|] eqn:Lw.
  - right. split; auto. exists w. auto.
  - split; auto. intros w' I Pw'. apply alookup_None in Lw.
    destruct M as [E|I']; auto. specialize (L _ I Pw'). rewrite E in L.
    destruct w'; [apply (NE _ I); auto | simpl in L; lia].
Qed.

Lemma ref_run_keys_nonempty ops : forall r,
  (forall w, In w (keys (r_prefixes r)) -> w <> []) ->
  forall w, In w (keys (r_prefixes (fst (ref_run r ops)))) -> w <> [].
Proof.
  assert (P : forall r s f, (forall w, In w (keys (r_prefixes r)) -> w <> []) ->
            forall w, In w (keys (r_prefixes (fst (ref_prefix r s f)))) -> w <> []).
  { intros r s f H w. unfold ref_prefix. destruct (str_eqb s []) eqn:E; simpl; auto.
    destruct (alookup s (r_prefixes r)); simpl; auto. rewrite keys_aset. intros [->|I]; auto.
    apply str_eqb_neq; auto. }
  assert (X : forall r s f, r_prefixes (fst (ref_exact r s f)) = r_prefixes r).
  { intros. unfold ref_exact. destruct (alookup s (r_exacts r)); auto. }
  induction ops as [|op rest IH]; intros r H; simpl; auto.
  destruct (ref_apply r op) as [r1 b] eqn:E1. destruct (ref_run r1 rest) as [r2 bs] eqn:E2.
  simpl. specialize (IH r1). rewrite E2 in IH. simpl in IH. apply IH.
  replace r1 with (fst (ref_apply r op)) by (rewrite E1; auto). clear E1 E2 IH.
  destruct op as [s f|s f|s f]; simpl.
  - apply P; auto.
  - rewrite X; auto.
  - unfold ref_dir. destruct (str_eqb s [slash]).
    + pose proof (X r s f). destruct (ref_exact r s f) as [r1' ok]. simpl in *.
      destruct ok; [apply P; rewrite H0; auto | simpl; rewrite H0; auto].
    + pose proof (X r (trim_slash s) f). destruct (ref_exact r (trim_slash s) f) as [r1' ok]. simpl in *.
      destruct ok; [apply P; rewrite H0; auto | simpl; rewrite H0; auto].
Qed.

(** * Registration order *)
Definition prefix_ops (l : list (str * N)) : list mux_op :=
  map (fun sf => OpPrefix (fst sf) (snd sf)) l.

Lemma aset_new {A} k (v : A) l : ~ In k (keys l) -> aset k v l = l ++ [(k, v)].
Proof.
  induction l as [|[k' v'] r IH]; simpl; intros NI; auto.
  destruct (str_eqb k' k) eqn:E.
  - apply str_eqb_eq in E. subst. exfalso. auto.
  - rewrite IH; auto.
Qed.

Lemma ref_run_prefix_ops l : forall r,
  NoDup (keys l) -> (forall w, In w (keys l) -> w <> [] /\ ~ In w (keys (r_prefixes r))) ->
  ref_run r (prefix_ops l) = (RMux (r_exacts r) (r_prefixes r ++ l), map (fun _ => true) l).
Proof.
  induction l as [|[s f] l IH]; intros r ND H; simpl.
  - rewrite app_nil_r. destruct r; auto.
  - destruct (H s (or_introl eq_refl)) as [Hne Hni]. unfold ref_prefix.
    rewrite (proj2 (str_eqb_neq s []) Hne), (proj2 (alookup_None s (r_prefixes r)) Hni).
    rewrite aset_new by auto. inversion ND as [|? ? NI ND']; subst.
    rewrite IH; auto.
    + simpl. rewrite <- app_assoc. auto.
    + intros w I. destruct (H w (or_intror I)) as [A B]. split; auto. simpl.
      unfold keys. rewrite map_app, in_app_iff. simpl. intros [X|[X|[]]]; auto.
      subst. auto.
Qed.

Lemma alookup_perm {A} (l l' : list (str * A)) k :
  NoDup (keys l) -> Permutation l l' -> alookup k l = alookup k l'.
Proof.
  intros ND P. induction P as [|[r v] l l' P IH|[r1 v1] [r2 v2] l|l l' l'' P1 IH1 P2 IH2]; auto.
  - simpl. inversion ND; subst. rewrite IH; auto.
  - simpl. destruct (str_eqb r1 k) eqn:E1, (str_eqb r2 k) eqn:E2; auto.
    apply str_eqb_eq in E1, E2. subst. inversion ND as [|? ? NI _]. exfalso. apply NI. simpl. auto.
  - rewrite IH1; auto. apply IH2. eapply Permutation_NoDup; [apply Permutation_map; eauto | auto].
Qed.

(** Distinct non-empty prefixes registered in any two orders: the two
    Muxes route every path alike. *)
Theorem mux_order_irrelevant l l' :
  NoDup (keys l) -> (forall w, In w (keys l) -> w <> []) -> Permutation l l' ->
  exists m m', mux_run new_mux (prefix_ops l) = Some (m, map (fun _ => true) l) /\
               mux_run new_mux (prefix_ops l') = Some (m', map (fun _ => true) l') /\
               forall path, mux_route m path = mux_route m' path.
Proof.
  intros ND NE P.
  assert (ND' : NoDup (keys l')) by (eapply Permutation_NoDup; [apply Permutation_map; eauto | auto]).
  assert (NE' : forall w, In w (keys l') -> w <> []).
  { intros w I. apply NE. eapply Permutation_in; [apply Permutation_map, Permutation_sym; eauto | auto]. }
  destruct (mux_refines_scan (prefix_ops l)) as (m & E & F).
  destruct (mux_refines_scan (prefix_ops l')) as (m' & E' & F').
  rewrite ref_run_prefix_ops in E, F by (auto; intros w I; split; auto).
  rewrite ref_run_prefix_ops in E', F' by (auto; intros w I; split; auto).
  simpl in *. exists m, m'. split; auto. split; auto. intros path. rewrite F, F'.
  unfold ref_route. simpl.
  assert (L : longest_prefix (keys l) path = longest_prefix (keys l') path).
  { apply (best_unique (keys l') path); [|apply longest_prefix_best].
    apply (best_ext (keys l)); [|apply longest_prefix_best].
    intros w _. split; apply Permutation_in; apply Permutation_map; auto. apply Permutation_sym; auto. }
  rewrite L. apply alookup_perm; auto.
Qed.
