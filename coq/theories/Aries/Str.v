(** Byte strings (Go [string] = [list N]) with the few operations the aries
    routing code uses: equality, [strings.HasPrefix]/[TrimPrefix], the
    common-prefix loop of [trieNode.add], and the brute-force "longest
    registered prefix" scan that serves as the specification. *)
From Coq Require Import List NArith Bool Lia Arith PeanoNat.
Import ListNotations.

Definition str := list N.

Fixpoint str_eqb (a b : str) : bool :=
  match a, b with
  | [], [] => true
  | x :: a', y :: b' => (x =? y)%N && str_eqb a' b'
  | _, _ => false
  end.

Lemma str_eqb_eq a b : str_eqb a b = true <-> a = b.
Proof.
  revert b; induction a as [|x a IH]; destruct b as [|y b]; simpl; try (split; congruence).
  rewrite andb_true_iff, N.eqb_eq, IH. split; [intros [-> ->]; auto | intros [= -> ->]; auto].
Qed.

Lemma str_eqb_refl a : str_eqb a a = true.
Proof. apply str_eqb_eq; auto. Qed.

Lemma str_eqb_neq a b : str_eqb a b = false <-> a <> b.
Proof.
  destruct (str_eqb a b) eqn:E.
  - apply str_eqb_eq in E. split; congruence.
  - split; auto. intros _ H. apply str_eqb_eq in H. congruence.
Qed.

Lemma str_eq_dec (a b : str) : {a = b} + {a <> b}.
Proof. destruct (str_eqb a b) eqn:E; [left; apply str_eqb_eq | right; apply str_eqb_neq]; auto. Qed.

(** [strings.HasPrefix(s, p)] together with [strings.TrimPrefix(s, p)]. *)
Fixpoint strip_prefix (p s : str) : option str :=
  match p, s with
  | [], _ => Some s
  | x :: p', y :: s' => if (x =? y)%N then strip_prefix p' s' else None
  | _ :: _, [] => None
  end.

Definition is_prefix {A} (p s : list A) : Prop := exists r, s = p ++ r.

Definition is_prefixb (p s : str) : bool :=
  match strip_prefix p s with Some _ => true | None => false end.

Lemma strip_prefix_Some p s r : strip_prefix p s = Some r <-> s = p ++ r.
Proof.
  revert s; induction p as [|x p IH]; intros s; simpl.
  - split; congruence.
  - destruct s as [|y s]; [split; discriminate|].
    destruct (N.eqb_spec x y) as [->|ne].
    + rewrite IH. split; [intros ->; auto | intros [= ->]; auto].
    + split; [discriminate | intros [= -> _]; congruence].
Qed.

Lemma strip_prefix_app p r : strip_prefix p (p ++ r) = Some r.
Proof. apply strip_prefix_Some; auto. Qed.

Lemma strip_prefix_None p s : strip_prefix p s = None <-> ~ is_prefix p s.
Proof.
  split.
  - intros H [r ->]. rewrite strip_prefix_app in H. discriminate.
  - intros H. destruct (strip_prefix p s) eqn:E; auto.
    apply strip_prefix_Some in E. exfalso. apply H. eexists; eauto.
Qed.

Lemma is_prefixb_spec p s : is_prefixb p s = true <-> is_prefix p s.
Proof.
  unfold is_prefixb. destruct (strip_prefix p s) eqn:E.
  - apply strip_prefix_Some in E. split; auto. intros _. eexists; eauto.
  - apply strip_prefix_None in E. split; [discriminate | tauto].
Qed.

Lemma is_prefix_nil {A} (s : list A) : is_prefix [] s.
Proof. exists s; auto. Qed.

Lemma is_prefix_refl {A} (s : list A) : is_prefix s s.
Proof. exists []; rewrite app_nil_r; auto. Qed.

Lemma is_prefix_of_nil {A} (p : list A) : is_prefix p [] -> p = [].
Proof. intros [r H]. symmetry in H. apply app_eq_nil in H. tauto. Qed.

Lemma is_prefix_length {A} (p s : list A) : is_prefix p s -> length p <= length s.
Proof. intros [r ->]. rewrite app_length. lia. Qed.

Lemma is_prefix_app_inv {A} (a p s : list A) : is_prefix (a ++ p) (a ++ s) <-> is_prefix p s.
Proof.
  split; intros [r H].
  - rewrite <- app_assoc in H. apply app_inv_head in H. exists r; auto.
  - exists r. rewrite <- app_assoc. f_equal; auto.
Qed.

Lemma is_prefix_cons_inv {A} (x : A) p y s : is_prefix (x :: p) (y :: s) -> x = y /\ is_prefix p s.
Proof. intros [r H]. simpl in H. injection H as -> ->. split; auto. exists r; auto. Qed.

(** Two prefixes of one string that have the same length are equal. *)
Lemma is_prefix_same_length {A} (a b s : list A) :
  is_prefix a s -> is_prefix b s -> length a = length b -> a = b.
Proof.
  revert b s; induction a as [|x a IH]; intros [|y b] s Ha Hb L; simpl in L; try lia; auto.
  destruct s as [|z s].
  - apply is_prefix_of_nil in Ha. discriminate.
  - apply is_prefix_cons_inv in Ha as [-> Ha]. apply is_prefix_cons_inv in Hb as [-> Hb].
    f_equal. eapply IH; eauto.
Qed.

(** The loop [for i < n && i < m && branch[i] == s[i] { i++ }] of
    [trieNode.add]: the common part and what is left of either string. *)
Fixpoint lcp (a b : str) : str * str * str :=
  match a, b with
  | x :: a', y :: b' =>
      if (x =? y)%N then let '(c, ra, rb) := lcp a' b' in (x :: c, ra, rb)
      else ([], a, b)
  | _, _ => ([], a, b)
  end.

Definition heads_differ (a b : str) : Prop :=
  match a, b with x :: _, y :: _ => x <> y | _, _ => True end.

Lemma lcp_spec a b c ra rb :
  lcp a b = (c, ra, rb) -> a = c ++ ra /\ b = c ++ rb /\ heads_differ ra rb.
Proof.
  revert b c ra rb; induction a as [|x a IH]; intros b c ra rb; simpl.
  - intros [= <- <- <-]. simpl. auto.
  - destruct b as [|y b]; [intros [= <- <- <-]; simpl; auto|].
    destruct (N.eqb_spec x y) as [->|ne].
    + destruct (lcp a b) as [[c' ra'] rb'] eqn:E. intros [= <- <- <-].
      destruct (IH _ _ _ _ E) as (-> & -> & H). simpl. auto.
    + intros [= <- <- <-]. simpl. auto.
Qed.

Lemma lcp_head x a b : exists c ra rb, lcp (x :: a) (x :: b) = (x :: c, ra, rb).
Proof.
  simpl. rewrite N.eqb_refl. destruct (lcp a b) as [[c ra] rb]. eauto.
Qed.

(** * Specification: the longest registered prefix

    [best ss s r]: [r] is a prefix of [s] that is registered in [ss] (or the
    empty string when nothing matches) and no registered prefix of [s] is
    longer.  [longest_prefix] is the brute-force scan computing it. *)
Definition best {A} (ss : list (list A)) (s r : list A) : Prop :=
  is_prefix r s /\ (r = [] \/ In r ss) /\
  forall w, In w ss -> is_prefix w s -> length w <= length r.

Definition pick (s : str) (cur w : str) : str :=
  if is_prefixb w s && (length cur <? length w) then w else cur.

Definition longest_prefix (ss : list str) (s : str) : str :=
  fold_left (pick s) ss [].

Lemma best_unique {A} ss (s r1 r2 : list A) : best ss s r1 -> best ss s r2 -> r1 = r2.
Proof.
  intros (P1 & M1 & L1) (P2 & M2 & L2).
  apply (is_prefix_same_length _ _ s); auto.
  assert (length r1 <= length r2).
  { destruct M1 as [->|I]; [simpl; lia | apply L2; auto]. }
  assert (length r2 <= length r1).
  { destruct M2 as [->|I]; [simpl; lia | apply L1; auto]. }
  lia.
Qed.

Lemma fold_pick_best s ss : forall done cur,
  best done s cur -> best (done ++ ss) s (fold_left (pick s) ss cur).
Proof.
  induction ss as [|w ss IH]; intros done cur B; simpl.
  - rewrite app_nil_r; auto.
  - replace (done ++ w :: ss) with ((done ++ [w]) ++ ss) by (rewrite <- app_assoc; auto).
    apply IH. destruct B as (P & M & L). unfold pick.
    destruct (is_prefixb w s) eqn:Ew; simpl.
    + apply is_prefixb_spec in Ew. destruct (Nat.ltb_spec (length cur) (length w)).
      * split; auto. split; [right; apply in_or_app; right; simpl; auto|].
        intros w' I Pw'. apply in_app_or in I as [I|[<-|[]]]; auto.
        specialize (L _ I Pw'). lia.
      * split; auto. split; [destruct M; auto; right; apply in_or_app; auto|].
        intros w' I Pw'. apply in_app_or in I as [I|[<-|[]]]; auto.
    + split; auto. split; [destruct M; auto; right; apply in_or_app; auto|].
      intros w' I Pw'. apply in_app_or in I as [I|[<-|[]]]; auto.
      apply is_prefixb_spec in Pw'. congruence.
Qed.

Lemma longest_prefix_best ss s : best ss s (longest_prefix ss s).
Proof.
  apply (fold_pick_best s ss [] []).
  split; [apply is_prefix_nil|]. split; auto. intros w [].
Qed.

Lemma best_ext {A} ss ss' (s r : list A) :
  (forall w, w <> [] -> (In w ss <-> In w ss')) -> best ss s r -> best ss' s r.
Proof.
  intros E (P & M & L). split; auto. split.
  - destruct M as [->|I]; auto. destruct r as [|x r]; auto. right. apply E; auto; discriminate.
  - intros w I Pw. destruct w as [|x w]; [simpl; lia|]. apply L; auto. apply E; auto; discriminate.
Qed.
