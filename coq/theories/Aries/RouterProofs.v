(** aries/router.go (model: Router.v): the Router, with its segment trie and
    its map keyed by canonical path strings, refines a reference that keeps
    a plain list of (segment list, node) and serves by a brute-force scan
    for the longest registered segment-wise prefix. *)
From Coq Require Import List NArith Bool Lia Arith PeanoNat Permutation.
From Verif Require Import Aries.Str Aries.Radix Aries.MuxProofs Aries.SegTrie Aries.SegTrieProofs Aries.Router.
Import ListNotations.

(** * Path splitting *)
Definition good_seg (s : str) : Prop := s <> [] /\ ~ In slash s.

Lemma split_aux_noslash p : forall cur, ~ In slash cur ->
  Forall (fun s => ~ In slash s) (split_aux cur p).
Proof.
  induction p as [|c r IH]; intros cur NI; simpl.
  - constructor; auto. rewrite <- in_rev. auto.
  - destruct (N.eqb_spec c slash) as [->|ne].
    + constructor; [rewrite <- in_rev; auto | apply IH; auto].
    + apply IH. simpl. intros [E|I]; auto.
Qed.

Lemma segs_good p : Forall good_seg (segs p).
Proof.
  unfold segs. pose proof (split_aux_noslash p [] (fun x => x)) as H.
  induction H as [|s l Hs Hl IH]; simpl; auto.
  destruct s as [|x s]; simpl; auto. constructor; auto. split; auto. discriminate.
Qed.

Lemma route_p_nil routes : Forall good_seg routes -> (route_p routes = [] <-> routes = []).
Proof. destruct routes; simpl; [tauto|]. intros _. split; discriminate. Qed.

Lemma seg_split_unique (s t x y : str) :
  ~ In slash s -> ~ In slash t ->
  (x = [] \/ exists x', x = slash :: x') -> (y = [] \/ exists y', y = slash :: y') ->
  s ++ x = t ++ y -> s = t /\ x = y.
Proof.
  revert t; induction s as [|a s IH]; intros t Hs Ht Hx Hy E.
  - destruct t as [|b t]; simpl in *; auto.
    exfalso. destruct Hx as [->|(x' & ->)]; [discriminate|].
    injection E as <- _. apply Ht. simpl. auto.
  - destruct t as [|b t]; simpl in *.
    + exfalso. destruct Hy as [->|(y' & ->)]; [discriminate|].
      injection E as -> _. apply Hs. simpl. auto.
    + injection E as <- E. destruct (IH t) as [-> ->]; auto.
Qed.

Lemma route_p_shape routes : route_p routes = [] \/ exists x, route_p routes = slash :: x.
Proof. destruct routes; simpl; eauto. Qed.

Lemma route_p_inj a : forall b, Forall good_seg a -> Forall good_seg b ->
  route_p a = route_p b -> a = b.
Proof.
  induction a as [|s a IH]; intros b Ha Hb E.
  - symmetry. apply route_p_nil; auto.
  - destruct b as [|t b]; [discriminate|]. simpl in E. injection E as E.
    inversion Ha as [|? ? [_ Hs] Ha']; subst. inversion Hb as [|? ? [_ Ht] Hb']; subst.
    destruct (seg_split_unique s t (route_p a) (route_p b) Hs Ht (route_p_shape a) (route_p_shape b) E) as [-> E'].
    f_equal. apply IH; auto.
Qed.

(** * Reference router *)
Record rref := RRef { rr_index : option N; rr_miss : option N; rr_regs : list (list str * rnode) }.

Definition new_rref : rref := RRef None None [].

Definition ref_router_add (R : rref) (p : str) (n : rnode) : option (rref * bool) :=
  let routes := segs p in
  if is_nil routes then None
  else match rlookup routes (rr_regs R) with
       | Some _ => Some (R, false)
       | None => Some (RRef (rr_index R) (rr_miss R) (rr_regs R ++ [(routes, n)]), true)
       end.

(** The longest prefix of [route] that is registered, trying every length
    from the longest down. *)
Fixpoint rfind_from {A} (t : list (list str * A)) (route : list str) (k : nat) : option (nat * A) :=
  match rlookup (firstn k route) t with
  | Some v => Some (k, v)
  | None => match k with O => None | S k' => rfind_from t route k' end
  end.

Definition rfind {A} (t : list (list str * A)) (route : list str) : option (nat * A) :=
  rfind_from t route (length route).

Definition ref_not_found (R : rref) (c : ctx) : outcome :=
  match rr_miss R with Some h => ODefault h c | None => OMiss end.

Definition ref_router_serve (R : rref) (c : ctx) : outcome :=
  if rel_empty c then
    match rr_index R with Some h => OIndex h c | None => ref_not_found R c end
  else
    match rfind (rr_regs R) (rel_route c) with
    | None => ref_not_found R c
    | Some (k, n) =>
        let c' := shift c k in
        if rn_dir n || (rel_empty c' && negb (c_isdir c')) then
          if negb (is_nil (rn_method n)) && negb (str_eqb (c_method c) (rn_method n))
          then OBadMethod else ONode (rn_svc n) c'
        else ref_not_found R c'
    end.

Lemma rfind_from_spec {A} (t : list (list str * A)) route k : k <= length route ->
  match rfind_from t route k with
  | Some (j, v) =>
      j <= k /\ rlookup (firstn j route) t = Some v /\
      forall i, j < i <= k -> rlookup (firstn i route) t = None
  | None => forall i, i <= k -> rlookup (firstn i route) t = None
  end.
Proof.
  induction k as [|k IH]; intros Hk.
  - cbn [rfind_from]. destruct (rlookup (firstn 0 route) t) eqn:L.
    + split; auto. split; auto. intros; lia.
    + intros i Hi. replace i with 0 by lia. auto.
  - cbn [rfind_from]. destruct (rlookup (firstn (S k) route) t) eqn:L.
    + split; auto. split; auto. intros; lia.
    + specialize (IH ltac:(lia)). destruct (rfind_from t route k) as [[j v]|].
      * destruct IH as (A1 & B & C). split; [lia|]. split; auto.
        intros i Hi. destruct (Nat.eq_dec i (S k)); [subst; auto | apply C; lia].
      * intros i Hi. destruct (Nat.eq_dec i (S k)); [subst; auto | apply IH; lia].
Qed.

(** What the scan returns: the longest registered prefix. *)
Theorem rfind_spec {A} (t : list (list str * A)) route :
  match rfind t route with
  | Some (j, v) =>
      j <= length route /\ rlookup (firstn j route) t = Some v /\
      forall i, j < i <= length route -> rlookup (firstn i route) t = None
  | None => forall i, i <= length route -> rlookup (firstn i route) t = None
  end.
Proof. apply rfind_from_spec; auto. Qed.

(** * Simulation *)
Definition trie_view (regs : list (list str * rnode)) : seg_ref :=
  map (fun rn => (fst rn, route_p (fst rn))) regs.

Definition rsim (r : router) (R : rref) : Prop :=
  rt_index r = rr_index R /\ rt_miss r = rr_miss R /\
  seg_sim (rt_trie r) (trie_view (rr_regs R)) /\
  (forall rt n, rlookup rt (rr_regs R) = Some n -> alookup (route_p rt) (rt_nodes r) = Some n) /\
  (forall k, In k (keys (rt_nodes r)) -> exists rt n, rlookup rt (rr_regs R) = Some n /\ k = route_p rt) /\
  (forall rt n, In (rt, n) (rr_regs R) -> rt <> [] /\ Forall good_seg rt).

Lemma rlookup_view rt regs :
  rlookup rt (trie_view regs) = match rlookup rt regs with Some _ => Some (route_p rt) | None => None end.
Proof.
  induction regs as [|[r' n] rest IH]; simpl; auto.
  destruct (route_eqb r' rt) eqn:E; auto. apply route_eqb_eq in E. subst; auto.
Qed.

Lemma rsim_new : rsim new_router new_rref.
Proof.
  split; auto. split; auto. split; [apply seg_sim_empty|].
  split; [intros rt n; discriminate|]. split; [intros k []|intros rt n []].
Qed.

Lemma rlookup_bound {A} rt (l : list (list str * A)) v : rlookup rt l = Some v -> In (rt, v) l.
Proof. apply rlookup_In. Qed.

Lemma rsim_add r R p n : rsim r R ->
  match ref_router_add R p n with
  | None => router_add r p n = None
  | Some (R', ok) => exists r', router_add r p n = Some (r', ok) /\ rsim r' R'
  end.
Proof.
  intros (Ei & Em & St & Hn & Hk & Hg). unfold ref_router_add, router_add.
  pose proof (segs_good p) as G. set (routes := segs p) in *.
  destruct (is_nil routes) eqn:En.
  - apply is_nil_true in En. rewrite En. reflexivity.
  - apply is_nil_false in En.
    assert (Ep : is_nil (route_p routes) = false).
    { apply is_nil_false. intros E. apply En. apply route_p_nil; auto. }
    rewrite Ep.
    destruct (rlookup routes (rr_regs R)) as [n0|] eqn:L.
    + rewrite (Hn _ _ L). exists r. split; auto.
      exact (conj Ei (conj Em (conj St (conj Hn (conj Hk Hg))))).
    + destruct (alookup (route_p routes) (rt_nodes r)) as [n1|] eqn:La.
      * exfalso. assert (I : In (route_p routes) (keys (rt_nodes r))) by (apply alookup_In; eauto).
        destruct (Hk _ I) as (rt & n2 & L2 & E).
        pose proof (rlookup_bound _ _ _ L2) as I2. destruct (Hg _ _ I2) as [_ G2].
        apply route_p_inj in E; auto. subst rt. congruence.
      * pose proof (seg_sim_add (rt_trie r) (trie_view (rr_regs R)) routes (route_p routes) St) as SA.
        unfold ref_seg_add in SA. rewrite Ep, rlookup_view, L in SA.
        destruct SA as (t' & -> & St').
        eexists. split; [reflexivity|]. split; auto. split; auto. split.
        { cbn [rt_trie rr_regs]. unfold trie_view in *. rewrite map_app. auto. }
        cbn [rt_nodes rr_regs]. split; [|split].
        -- intros rt n2. rewrite rlookup_app, alookup_aset. destruct (rlookup rt (rr_regs R)) as [n3|] eqn:L3.
           ++ intros [= <-]. destruct (str_eqb (route_p routes) (route_p rt)) eqn:E; auto.
              exfalso. apply str_eqb_eq in E. pose proof (rlookup_bound _ _ _ L3) as I3.
              destruct (Hg _ _ I3) as [_ G3].
              apply route_p_inj in E; auto. subst rt. congruence.
           ++ simpl. destruct (route_eqb routes rt) eqn:E; [|discriminate].
              apply route_eqb_eq in E. subst rt. intros [= <-]. rewrite str_eqb_refl. auto.
        -- intros k I. apply keys_aset in I as [->|I].
           ++ exists routes, n. rewrite rlookup_app, L. simpl.
              rewrite (proj2 (route_eqb_eq routes routes) eq_refl). auto.
           ++ destruct (Hk _ I) as (rt & n2 & L2 & ->). exists rt, n2. rewrite rlookup_app, L2. auto.
        -- intros rt n2 I. apply in_app_or in I as [I|[[= <- <-]|[]]]; eauto.
Qed.

Lemma rfind_view regs route k :
  ref_seg_find_from (trie_view regs) route k =
  match rfind_from regs route k with
  | Some (j, _) => (j, route_p (firstn j route))
  | None => (0, [])
  end.
Proof.
  induction k as [|k IH]; cbn [ref_seg_find_from rfind_from]; rewrite rlookup_view.
  - destruct (rlookup (firstn 0 route) regs); auto.
  - destruct (rlookup (firstn (S k) route) regs); auto.
Qed.

Lemma rel_route_length c : rel_empty c = false -> rel_route c <> [].
Proof.
  unfold rel_empty, rel_route. intros E. apply Nat.leb_gt in E.
  intros H. apply (f_equal (@length _)) in H. rewrite skipn_length in H. simpl in H. lia.
Qed.

Theorem router_serve_ref r R c : rsim r R -> router_serve r c = ref_router_serve R c.
Proof.
  intros (Ei & Em & St & Hn & Hk & Hg).
  unfold router_serve, router_serve_with, ref_router_serve, not_found, ref_not_found.
  rewrite Ei, Em. destruct (rel_empty c) eqn:Er; auto.
  unfold trie_find_route. rewrite (sfind_ref _ _ (rel_route c) St).
  unfold ref_seg_find, rfind. rewrite rfind_view.
  pose proof (rfind_from_spec (rr_regs R) (rel_route c) (length (rel_route c)) (le_n _)) as Sp.
  destruct (rfind_from (rr_regs R) (rel_route c) (length (rel_route c))) as [[k n]|]; auto.
  destruct Sp as (Hk1 & L & _).
  apply rlookup_bound in L as I. destruct (Hg _ _ I) as [NE G].
  assert (Ep : is_nil (route_p (firstn k (rel_route c))) = false).
  { apply is_nil_false. intros E. apply NE. apply route_p_nil; auto. }
  rewrite Ep. cbn [is_nil]. rewrite Ep. rewrite (Hn _ _ L).
  rewrite firstn_length, Nat.min_l by auto.
  unfold dispatch_cond, method_reject. cbn [eval_rcond option_map].
  destruct (rn_dir n || rel_empty (shift c k) && negb (c_isdir (shift c k))); auto.
Qed.

(** * Sequences of registrations *)
(** Handlers are [option N]: [None] is a nil handler. *)
Inductive router_op :=
| ROIndex (h : option N) | RODefault (h : option N)
| ROAdd (p : str) (svc : option N) (dir : bool) (m : str).

Definition router_apply (r : router) (op : router_op) : option (router * bool) :=
  match op with
  | ROIndex h => Some (set_index r h, true)
  | RODefault h => Some (set_default r h, true)
  | ROAdd p svc dir m => router_add_svc r p svc dir m
  end.

Definition rref_apply (R : rref) (op : router_op) : option (rref * bool) :=
  match op with
  | ROIndex h => Some (RRef h (rr_miss R) (rr_regs R), true)
  | RODefault h => Some (RRef (rr_index R) h (rr_regs R), true)
  | ROAdd p None _ _ => None
  | ROAdd p (Some h) dir m => ref_router_add R p (RNode h dir m)
  end.

(** A panicking registration (empty route) leaves the router as it was; the
    run goes on (the caller may recover). [None] flags the panic. *)
Fixpoint router_run (r : router) (ops : list router_op) : router * list (option bool) :=
  match ops with
  | [] => (r, [])
  | op :: rest =>
      match router_apply r op with
      | None => let '(r', fl) := router_run r rest in (r', None :: fl)
      | Some (r1, ok) => let '(r', fl) := router_run r1 rest in (r', Some ok :: fl)
      end
  end.

Fixpoint rref_run (R : rref) (ops : list router_op) : rref * list (option bool) :=
  match ops with
  | [] => (R, [])
  | op :: rest =>
      match rref_apply R op with
      | None => let '(R', fl) := rref_run R rest in (R', None :: fl)
      | Some (R1, ok) => let '(R', fl) := rref_run R1 rest in (R', Some ok :: fl)
      end
  end.

Lemma rsim_apply r R op : rsim r R ->
  match rref_apply R op with
  | None => router_apply r op = None
  | Some (R', ok) => exists r', router_apply r op = Some (r', ok) /\ rsim r' R'
  end.
Proof.
  intros S. destruct op as [h|h|p [h|] dir m]; simpl; auto.
  - eexists. split; [reflexivity|]. destruct S as (A & B & C). exact (conj eq_refl (conj B C)).
  - eexists. split; [reflexivity|]. destruct S as (A & B & C). exact (conj A (conj eq_refl C)).
  - apply rsim_add; auto.
Qed.

Lemma rsim_run ops : forall r R, rsim r R ->
  snd (router_run r ops) = snd (rref_run R ops) /\
  rsim (fst (router_run r ops)) (fst (rref_run R ops)).
Proof.
  induction ops as [|op rest IH]; intros r R S; simpl; auto.
  pose proof (rsim_apply r R op S) as H.
  destruct (rref_apply R op) as [[R1 ok]|].
  - destruct H as (r1 & -> & S1). destruct (IH r1 R1 S1) as [E S'].
    destruct (router_run r1 rest), (rref_run R1 rest). simpl in *. subst. auto.
  - rewrite H. destruct (IH r R S) as [E S'].
    destruct (router_run r rest), (rref_run R rest). simpl in *. subst. auto.
Qed.

(** After any sequence of Index/Default/File/MethodFile/Dir registrations
    (any order; duplicates refused; empty routes panicking), every request
    context is served exactly as the brute-force reference serves it, and
    the "route function not found" panic of Serve is unreachable. *)
Theorem router_serve_spec ops c :
  snd (router_run new_router ops) = snd (rref_run new_rref ops) /\
  router_serve (fst (router_run new_router ops)) c =
  ref_router_serve (fst (rref_run new_rref ops)) c.
Proof.
  destruct (rsim_run ops new_router new_rref rsim_new) as [E S]. split; auto.
  apply router_serve_ref; auto.
Qed.

Lemma ref_serve_not_stuck R c : ref_router_serve R c <> OPanic /\ ref_router_serve R c <> OStuck.
Proof.
  unfold ref_router_serve, ref_not_found.
  destruct (rel_empty c); [destruct (rr_index R), (rr_miss R); split; discriminate|].
  destruct (rfind (rr_regs R) (rel_route c)) as [[k n]|]; [|destruct (rr_miss R); split; discriminate].
  cbv zeta. destruct (rn_dir n || _); [|destruct (rr_miss R); split; discriminate].
  destruct (negb _ && _); split; discriminate.
Qed.

(** * Directories get the remainder, files need a complete match *)
Lemma skipn_skipn' {A} (l : list A) : forall a b, skipn a (skipn b l) = skipn (b + a) l.
Proof.
  induction l as [|x l IH]; intros a b.
  - rewrite !skipn_nil. auto.
  - destruct b; simpl; auto.
Qed.

Lemma rel_route_shift c k : k <= length (rel_route c) -> rel_route (shift c k) = skipn k (rel_route c).
Proof.
  unfold rel_route, shift. cbn [c_pos c_routes]. rewrite skipn_length. intros H.
  destruct (Nat.le_gt_cases (c_pos c) (length (c_routes c))) as [Hp|Hp].
  - rewrite Nat.min_l by lia. rewrite skipn_skipn'. f_equal.
  - rewrite Nat.min_r by lia. rewrite !skipn_all2; auto; try rewrite skipn_length; try lia.
Qed.

Lemma rel_empty_shift c k : k <= length (rel_route c) ->
  rel_empty (shift c k) = (k =? length (rel_route c)) || rel_empty c.
Proof.
  unfold rel_empty, rel_route, shift. cbn [c_pos c_routes]. rewrite skipn_length. intros H.
  destruct (Nat.leb_spec (length (c_routes c)) (c_pos c)).
  - rewrite orb_true_r. apply Nat.leb_le. lia.
  - rewrite orb_false_r. destruct (Nat.eqb_spec k (length (c_routes c) - c_pos c)).
    + apply Nat.leb_le. lia.
    + apply Nat.leb_gt. lia.
Qed.

(** * Registration order does not matter *)
Lemma rfind_from_ext {A} (t t' : list (list str * A)) route k :
  (forall rt, rlookup rt t = rlookup rt t') -> rfind_from t route k = rfind_from t' route k.
Proof.
  intros E. induction k as [|k IH]; cbn [rfind_from]; rewrite E; auto. rewrite IH. auto.
Qed.

Theorem ref_serve_ext R R' c :
  rr_index R = rr_index R' -> rr_miss R = rr_miss R' ->
  (forall rt, rlookup rt (rr_regs R) = rlookup rt (rr_regs R')) ->
  ref_router_serve R c = ref_router_serve R' c.
Proof.
  intros Ei Em E. unfold ref_router_serve, ref_not_found, rfind.
  rewrite Ei, Em, (rfind_from_ext _ _ _ _ E). auto.
Qed.

Lemma rlookup_perm {A} (l l' : list (list str * A)) rt :
  NoDup (map fst l) -> Permutation l l' -> rlookup rt l = rlookup rt l'.
Proof.
  intros ND P. induction P as [|[r v] l l' P IH|[r1 v1] [r2 v2] l|l l' l'' P1 IH1 P2 IH2]; auto.
  - simpl. inversion ND; subst. rewrite IH; auto.
  - simpl. destruct (route_eqb r1 rt) eqn:E1, (route_eqb r2 rt) eqn:E2; auto.
    apply route_eqb_eq in E1, E2. subst. inversion ND as [|? ? NI _]. exfalso. apply NI. simpl. auto.
  - rewrite IH1; auto. apply IH2. eapply Permutation_NoDup; [apply Permutation_map; eauto | auto].
Qed.

(** * Statements as used in Props/C20.v *)
Lemma router_remainder c k : k <= length (rel_route c) ->
  rel_route (shift c k) = skipn k (rel_route c) /\
  rel_empty (shift c k) = (k =? length (rel_route c)) || rel_empty c.
Proof. intros H. split; [apply rel_route_shift | apply rel_empty_shift]; auto. Qed.

Lemma router_order_irrelevant R R' c :
  rr_index R = rr_index R' -> rr_miss R = rr_miss R' ->
  NoDup (map fst (rr_regs R)) -> Permutation (rr_regs R) (rr_regs R') ->
  ref_router_serve R c = ref_router_serve R' c.
Proof.
  intros Ei Em ND P. apply ref_serve_ext; auto. intros rt. apply rlookup_perm; auto.
Qed.

Lemma route_canonical p q :
  Forall good_seg (segs p) /\ (route_p (segs p) = route_p (segs q) -> segs p = segs q).
Proof. split; [apply segs_good | apply route_p_inj; apply segs_good]. Qed.
