(** Obligations on the objects regenerated from /repo (Gen/AriesSkel.v): the
    skeletons and conditions read from the current source satisfy what the
    generic theorems need (a decidable check evaluated by [vm_compute]) or
    are the deployed ones the theorems were proved about; and the theorems
    instantiated with the regenerated objects. *)
From Coq Require Import List NArith Bool String.
From Verif Require Import Aries.Str Aries.Radix Aries.SegTrie Aries.Router Aries.Tiers
  Aries.RouterProofs Aries.TiersProofs Gen.AriesSkel.
Import ListNotations.

(** [Serve] as it is in the source today passes the gating check. *)
Lemma gen_serve_prog_safe : safeb_list gen_serve_prog = true.
Proof. vm_compute. reflexivity. Qed.

Lemma gen_serve_internal_prog_ok : gen_serve_internal_prog = serve_internal_prog.
Proof. vm_compute. reflexivity. Qed.

Lemma gen_serve_auth_prog_ok : gen_serve_auth_prog = serve_auth_prog.
Proof. vm_compute. reflexivity. Qed.

Lemma gen_default_admin_ok : gen_default_admin = default_admin.
Proof. vm_compute. reflexivity. Qed.

Lemma gen_serve_service_ok : gen_serve_service_nil_is_miss = true.
Proof. vm_compute. reflexivity. Qed.

Lemma gen_host_ok : gen_host_key = HKReqHost /\ gen_host_set_is_store = true.
Proof. vm_compute. split; reflexivity. Qed.

Lemma gen_dispatch_cond_ok : gen_dispatch_cond = dispatch_cond.
Proof. vm_compute. reflexivity. Qed.

Lemma gen_method_reject_ok : gen_method_reject = method_reject.
Proof. vm_compute. reflexivity. Qed.

Lemma gen_trie_root_ok : gen_new_node_hit = true /\ gen_root_is_empty_new_node = true.
Proof. vm_compute. split; reflexivity. Qed.

(** * The theorems, for the regenerated objects *)

Lemma gen_serve_gated s c0 :
  Forall (ev_ok s) (fst (run gen_default_admin gen_serve_auth_prog s gen_serve_prog c0)).
Proof. rewrite gen_default_admin_ok. apply run_gated. apply gen_serve_prog_safe. Qed.

Lemma gen_serve_internal_gated s c0 t c :
  first_gated (fst (run gen_default_admin gen_serve_auth_prog s gen_serve_internal_prog c0))
    = Some (EServe t c) -> adm s c = true.
Proof.
  rewrite gen_default_admin_ok, gen_serve_auth_prog_ok, gen_serve_internal_prog_ok.
  apply serve_internal_gated.
Qed.

Lemma gen_router_serve_spec ops c :
  snd (router_run new_router ops) = snd (rref_run new_rref ops) /\
  router_serve_with gen_dispatch_cond gen_method_reject (fst (router_run new_router ops)) c =
  ref_router_serve (fst (rref_run new_rref ops)) c.
Proof. rewrite gen_dispatch_cond_ok, gen_method_reject_ok. apply router_serve_spec. Qed.
