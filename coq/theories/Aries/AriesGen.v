(** Obligations on the objects regenerated from /repo (Gen/AriesSkel.v): the
    skeletons read from the current source are the ones the theorems of
    TiersProofs.v / RouterProofs.v are about. *)
From Coq Require Import List Bool String.
From Verif Require Import Aries.Tiers Aries.Router Gen.AriesSkel.
Import ListNotations.

Lemma gen_serve_prog_ok : gen_serve_prog = serve_prog.
Proof. vm_compute. reflexivity. Qed.

Lemma gen_serve_internal_prog_ok : gen_serve_internal_prog = serve_internal_prog.
Proof. vm_compute. reflexivity. Qed.

Lemma gen_serve_auth_prog_ok : gen_serve_auth_prog = serve_auth_prog.
Proof. vm_compute. reflexivity. Qed.

Lemma gen_default_admin_ok : gen_default_admin = default_admin.
Proof. vm_compute. reflexivity. Qed.

Lemma gen_serve_service_ok : gen_serve_service_nil_is_miss = true.
Proof. vm_compute. reflexivity. Qed.

Lemma gen_host_ok : gen_host_key = HKReqHost /\ gen_host_set_is_store = true.
Proof. vm_compute. split; reflexivity. Qed.

Lemma gen_dispatch_cond_ok : gen_dispatch_cond = dispatch_cond.
Proof. vm_compute. reflexivity. Qed.

Lemma gen_method_reject_ok : gen_method_reject = method_reject.
Proof. vm_compute. reflexivity. Qed.

Lemma gen_trie_root_ok : gen_new_node_hit = true /\ gen_root_is_empty_new_node = true.
Proof. vm_compute. split; reflexivity. Qed.
