(** Obligations on the objects regenerated from /repo (Gen/AriesSkel.v): the
    skeletons and conditions read from the current source satisfy what the
    generic theorems need (a decidable check evaluated by [vm_compute]) or
    are the deployed ones the theorems were proved about; and the theorems
    instantiated with the regenerated objects. *)
From Coq Require Import List NArith Bool String.
From Verif Require Import Aries.Str Aries.Radix Aries.SegTrie Aries.Router Aries.Tiers Aries.Entry
  Aries.CtxSeq Aries.RouterProofs Aries.TiersProofs Aries.EntryProofs Aries.CtxSeqProofs Gen.AriesSkel Gen.AriesEntry.
Import ListNotations.

(** [Serve] as it is in the source today passes the gating check. *)
Lemma gen_serve_prog_safe : safeb_list gen_serve_prog = true.
Proof. vm_compute. reflexivity. Qed.

Lemma gen_serve_internal_prog_ok : gen_serve_internal_prog = serve_internal_prog.
Proof. vm_compute. reflexivity. Qed.

Lemma gen_serve_auth_prog_ok : gen_serve_auth_prog = serve_auth_prog.
Proof. vm_compute. reflexivity. Qed.

Lemma gen_default_admin_ok : gen_default_admin = default_admin.
Proof. vm_compute. reflexivity. Qed.

Lemma gen_serve_service_ok : gen_serve_service_nil_is_miss = true.
Proof. vm_compute. reflexivity. Qed.

Lemma gen_host_ok : gen_host_key = HKReqHost /\ gen_host_set_is_store = true.
Proof. vm_compute. split; reflexivity. Qed.

Lemma gen_dispatch_cond_ok : gen_dispatch_cond = dispatch_cond.
Proof. vm_compute. reflexivity. Qed.

Lemma gen_method_reject_ok : gen_method_reject = method_reject.
Proof. vm_compute. reflexivity. Qed.

Lemma gen_trie_root_ok : gen_new_node_hit = true /\ gen_root_is_empty_new_node = true.
Proof. vm_compute. split; reflexivity. Qed.

(** * The theorems, for the regenerated objects *)

Lemma gen_serve_gated s c0 :
  Forall (ev_ok s) (fst (run gen_default_admin gen_serve_auth_prog s gen_serve_prog c0)).
Proof. rewrite gen_default_admin_ok. apply run_gated. apply gen_serve_prog_safe. Qed.

Lemma gen_serve_internal_gated s c0 t c :
  first_gated (fst (run gen_default_admin gen_serve_auth_prog s gen_serve_internal_prog c0))
    = Some (EServe t c) -> adm s c = true.
Proof.
  rewrite gen_default_admin_ok, gen_serve_auth_prog_ok, gen_serve_internal_prog_ok.
  apply serve_internal_gated.
Qed.

Lemma gen_router_serve_spec ops c :
  snd (router_run new_router ops) = snd (rref_run new_rref ops) /\
  router_serve_with gen_dispatch_cond gen_method_reject (fst (router_run new_router ops)) c =
  ref_router_serve (fst (rref_run new_rref ops)) c.
Proof. rewrite gen_dispatch_cond_ok, gen_method_reject_ok. apply router_serve_spec. Qed.

(** * Round 2: the HTTP entry, ErrCode, nil handlers, register-then-serve *)

(** NewContext routes on URL.Path, nothing else. *)
Lemma gen_ctx_src_ok : gen_ctx_path_src = USPath /\ gen_ctx_route_src = USPath.
Proof. vm_compute. split; reflexivity. Qed.

Lemma gen_errcode_ok : gen_errcode_table = errcode_table /\ gen_errcode_default = errcode_default.
Proof. vm_compute. split; reflexivity. Qed.

(** Router.add refuses a nil handler however it is wrapped; Index/Default
    turn a nil Func into "none". *)
Lemma gen_router_nil_ok :
  gen_router_add_refuses_nil = true /\ gen_router_nil_index_is_none = true.
Proof. vm_compute. split; reflexivity. Qed.

(** Scope "register everything, then serve": no serving method writes to a
    routing structure, and nowhere in the repository is a registration made
    from inside a handler or a goroutine. *)
Lemma gen_serving_readonly : gen_serving_writes = [].
Proof. vm_compute. reflexivity. Qed.

Lemma gen_no_late_registration : gen_late_registrations = [].
Proof. vm_compute. reflexivity. Qed.

Lemma gen_new_actx_spec u method host :
  exists a, new_actx_with gen_ctx_path_src gen_ctx_route_src u method host = Some a /\
    a_path a = u_path u /\ a_host a = host /\
    c_routes (a_ctx a) = segs (u_path u) /\ Forall good_seg (c_routes (a_ctx a)) /\
    c_pos (a_ctx a) = 0%nat /\ c_isdir (a_ctx a) = path_is_dir (u_path u) /\
    c_method (a_ctx a) = method.
Proof.
  destruct gen_ctx_src_ok as [-> ->]. apply new_actx_spec.
Qed.

Lemma gen_new_actx_ignores_raw u u' method host :
  u_path u = u_path u' ->
  new_actx_with gen_ctx_path_src gen_ctx_route_src u method host =
  new_actx_with gen_ctx_path_src gen_ctx_route_src u' method host.
Proof. destruct gen_ctx_src_ok as [-> ->]. apply new_actx_ignores_raw. Qed.

Lemma gen_status_spec e :
  status_with gen_errcode_table gen_errcode_default e =
  match e with
  | ENil => 200 | ENotFound => 404 | EInternal => 500
  | EUnauthorized => 403 | EInvalidArg => 400 | EOther => 500
  end%N.
Proof. destruct gen_errcode_ok as [-> ->]. apply status_of_spec. Qed.

Lemma gen_serve_internal_all_gated s c0 :
  frame_ok s ->
  all_gated_ok s (fst (run gen_default_admin gen_serve_auth_prog s gen_serve_internal_prog c0)).
Proof.
  rewrite gen_default_admin_ok, gen_serve_auth_prog_ok, gen_serve_internal_prog_ok.
  apply serve_internal_all_gated.
Qed.

(** With the guards in place (obligation above), what a nil handler does. *)
Lemma gen_router_nil_handler r p dir m :
  gen_router_add_refuses_nil = true /\ gen_router_nil_index_is_none = true /\
  router_add_svc r p None dir m = None /\
  rt_index (set_index r None) = None /\ rt_miss (set_default r None) = None.
Proof. destruct gen_router_nil_ok. repeat split; auto. Qed.

Lemma gen_scope_register_then_serve : gen_serving_writes = [] /\ gen_late_registrations = [].
Proof. split; [apply gen_serving_readonly | apply gen_no_late_registration]. Qed.

(** * Round 3: a router that misses leaves the context as it found it *)

(** [Router.Serve] as it is in the source today is the wrapper that puts
    [c.routePos] back when the result is Miss. *)
Lemma gen_router_wrap_ok : gen_router_wrap = RWRestoreOnMiss.
Proof. vm_compute. reflexivity. Qed.

(** Routers tried in a row on one context (the tiers of a ServiceSet): each
    routes the request's own path. *)
Lemma gen_serve_seq_is_ref le fuel rs is c :
  let '(hs, f, _) := serve_seq gen_dispatch_cond gen_method_reject le gen_router_wrap fuel rs is c in
  (hs, f) = seq_ref gen_dispatch_cond gen_method_reject le fuel rs is c.
Proof. rewrite gen_router_wrap_ok. apply serve_seq_is_ref. Qed.

(** * Round 3 (seeded change C20-g): what the context hands out is a copy *)

Definition acc_freshb (a : acc_kind) : bool := match a with AccFresh => true | _ => false end.

(** Every exported accessor of [C] with a slice or map result returns a
    freshly allocated value. *)
Lemma gen_ctx_accessors_fresh : forallb (fun na => acc_freshb (snd na)) gen_ctx_accessors = true.
Proof. vm_compute. reflexivity. Qed.

Lemma gen_relroute_fresh : acc_of relroute_name gen_ctx_accessors = AccFresh.
Proof. vm_compute. reflexivity. Qed.

(** * Round 3 (seeded change C20-l): the routing sources name no number.
    route.go, router.go, trie.go, mux.go, service_set.go, host_mux.go and
    package trie contain no integer literal of 8 or more: nothing bounds the
    depth of a route or of a request path.  (A new one makes the check run
    depths on both sides of it.) *)
Lemma gen_aries_no_depth_bound : gen_aries_int_literals = [].
Proof. vm_compute. reflexivity. Qed.
