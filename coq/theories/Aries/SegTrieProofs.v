(** Proofs about the segment trie (package trie; model: SegTrie.v): the trie
    is a partial map from routes to non-empty values, [Add] refuses exactly
    the routes already bound, and [Find] returns the longest prefix of the
    route that is bound. *)
From Coq Require Import List NArith Bool Lia Arith PeanoNat.
From Verif Require Import Aries.Str Aries.SegTrie.
Import ListNotations.

(** The value bound to exactly [route] ([[]] = none). *)
Fixpoint sget (route : list str) (n : snode) : str :=
  match route with
  | [] => s_value n
  | cur :: rest =>
      match slookup cur (s_subs n) with
      | None => []
      | Some next => sget rest next
      end
  end.

Lemma sget_empty route : sget route empty_snode = [].
Proof. destruct route; auto. Qed.

Lemma slookup_sset k c l k2 :
  slookup k2 (sset k c l) = if str_eqb k k2 then Some c else slookup k2 l.
Proof.
  induction l as [|[k' c'] r IH]; simpl.
  - destruct (str_eqb k k2); auto.
  - destruct (str_eqb k' k) eqn:E; simpl.
    + apply str_eqb_eq in E. subst k'. destruct (str_eqb k k2); auto.
    + rewrite IH. destruct (str_eqb k' k2) eqn:E2; auto.
      apply str_eqb_eq in E2. subst k'. destruct (str_eqb k k2) eqn:E3; auto.
      apply str_eqb_eq in E3. subst k. rewrite str_eqb_refl in E. discriminate.
Qed.

Fixpoint route_eqb (a b : list str) : bool :=
  match a, b with
  | [], [] => true
  | x :: a', y :: b' => str_eqb x y && route_eqb a' b'
  | _, _ => false
  end.

Lemma route_eqb_eq a b : route_eqb a b = true <-> a = b.
Proof.
  revert b; induction a as [|x a IH]; destruct b as [|y b]; simpl; try (split; congruence).
  rewrite andb_true_iff, str_eqb_eq, IH. split; [intros [-> ->]; auto | intros [= -> ->]; auto].
Qed.

Lemma is_nil_true {A} (l : list A) : is_nil l = true <-> l = [].
Proof. destruct l; simpl; split; congruence. Qed.

Lemma is_nil_false {A} (l : list A) : is_nil l = false <-> l <> [].
Proof. destruct l; simpl; split; congruence. Qed.

(** [add]: succeeds exactly when the route is unbound, then binds it and
    nothing else; on failure the trie is unchanged. *)
Lemma sadd_spec route : forall v n n' ok,
  v <> [] -> sadd route v n = (n', ok) ->
  (ok = true <-> sget route n = []) /\
  (ok = true -> forall r, sget r n' = if route_eqb r route then v else sget r n) /\
  (ok = false -> forall r, sget r n' = sget r n).
Proof.
  induction route as [|cur rest IH]; intros v n n' ok Hv.
  - simpl. destruct (is_nil (s_value n)) eqn:E; intros [= <- <-].
    + apply is_nil_true in E. split; [tauto|]. split; [|discriminate].
      intros _ r. destruct r; simpl; auto.
    + apply is_nil_false in E. split; [split; [discriminate | tauto]|]. split; [discriminate | auto].
  - simpl.
    set (next := match slookup cur (s_subs n) with Some x => x | None => empty_snode end).
    destruct (sadd rest v next) as [next' ok'] eqn:E. intros [= <- <-].
    destruct (IH v next next' ok' Hv E) as (A & B & C).
    assert (G : sget rest next = match slookup cur (s_subs n) with None => [] | Some nx => sget rest nx end).
    { unfold next. destruct (slookup cur (s_subs n)); auto. apply sget_empty. }
    split; [rewrite A, G; tauto|]. split.
    + intros Hok r. destruct r as [|x r]; simpl; auto.
      rewrite slookup_sset. destruct (str_eqb cur x) eqn:Ex.
      * apply str_eqb_eq in Ex. subst x. rewrite str_eqb_refl. simpl. rewrite (B Hok r).
        destruct (route_eqb r rest); auto.
        unfold next. destruct (slookup cur (s_subs n)); auto. apply sget_empty.
      * replace (str_eqb x cur) with false; auto.
        symmetry. apply str_eqb_neq. intros ->. rewrite str_eqb_refl in Ex. discriminate.
    + intros Hok r. destruct r as [|x r]; simpl; auto.
      rewrite slookup_sset. destruct (str_eqb cur x) eqn:Ex; auto.
      apply str_eqb_eq in Ex. subst x. rewrite (C Hok r).
      unfold next. destruct (slookup cur (s_subs n)); auto. apply sget_empty.
Qed.

(** [find]: [(k, v)] with [v] the value bound to the first [k] segments, no
    longer prefix being bound; [(0, [])] when no prefix is bound at all. *)
Lemma sfind_spec route : forall n k v,
  sfind route n = (k, v) ->
  k <= length route /\ v = sget (firstn k route) n /\
  (forall j, k < j <= length route -> sget (firstn j route) n = []) /\
  (v = [] -> k = 0).
Proof.
  induction route as [|cur rest IH]; intros n k v.
  - simpl. intros [= <- <-]. split; auto. split; auto. split; [intros j; lia | auto].
  - simpl. destruct (slookup cur (s_subs n)) as [next|] eqn:L.
    + destruct (sfind rest next) as [r v'] eqn:E.
      destruct (IH next r v' E) as (A & B & C & D).
      destruct (is_nil v') eqn:Ev; simpl.
      * apply is_nil_true in Ev. specialize (D Ev). subst r.
        intros [= <- <-]. split; [lia|]. split; auto. split; auto.
        intros j Hj. destruct j as [|j]; [lia|]. simpl. rewrite L.
        destruct j as [|j]; [simpl in B; simpl; congruence|]. apply C. lia.
      * apply is_nil_false in Ev. rewrite (proj2 (is_nil_false v') Ev).
        intros [= <- <-]. split; [lia|]. split; [simpl; rewrite L; auto|]. split.
        -- intros j Hj. destruct j as [|j]; [lia|]. simpl. rewrite L. apply C. lia.
        -- intros ->. congruence.
    + simpl. intros [= <- <-]. split; [lia|]. split; auto. split; auto.
      intros j Hj. destruct j as [|j]; [lia|]. simpl. rewrite L. auto.
Qed.

(** * The trie as built by a sequence of [Add]s *)

(** Reference: an association list, first binding wins. *)
Fixpoint rlookup {A} (r : list str) (l : list (list str * A)) : option A :=
  match l with
  | [] => None
  | (r', v) :: rest => if route_eqb r' r then Some v else rlookup r rest
  end.

Definition seg_ref := list (list str * str).

(** [Trie.Add] on the reference: panic on an empty value, refuse a bound
    route, else bind (appending keeps "first wins"). *)
Definition ref_seg_add (t : seg_ref) (route : list str) (v : str) : option (seg_ref * bool) :=
  if is_nil v then None
  else match rlookup route t with
       | Some _ => Some (t, false)
       | None => Some (t ++ [(route, v)], true)
       end.

Definition seg_sim (n : snode) (t : seg_ref) : Prop :=
  (forall r, sget r n = match rlookup r t with Some v => v | None => [] end) /\
  (forall r v, In (r, v) t -> v <> []).

Lemma rlookup_app {A} r (l1 l2 : list (list str * A)) :
  rlookup r (l1 ++ l2) = match rlookup r l1 with Some v => Some v | None => rlookup r l2 end.
Proof. induction l1 as [|[r' v] l IH]; simpl; auto. destruct (route_eqb r' r); auto. Qed.

Lemma route_eqb_sym a b : route_eqb a b = route_eqb b a.
Proof.
  destruct (route_eqb a b) eqn:E; symmetry.
  - apply route_eqb_eq in E. subst. apply route_eqb_eq; auto.
  - destruct (route_eqb b a) eqn:E2; auto. apply route_eqb_eq in E2. subst.
    rewrite (proj2 (route_eqb_eq a a) eq_refl) in E. discriminate.
Qed.

Lemma rlookup_In {A} r (l : list (list str * A)) v : rlookup r l = Some v -> In (r, v) l.
Proof.
  induction l as [|[r' v'] rest IH]; simpl; [discriminate|].
  destruct (route_eqb r' r) eqn:E; auto. apply route_eqb_eq in E. intros [= ->]. subst. auto.
Qed.

Lemma seg_sim_add n t route v : seg_sim n t ->
  match ref_seg_add t route v with
  | None => trie_add n route v = None
  | Some (t', ok) => exists n', trie_add n route v = Some (n', ok) /\ seg_sim n' t'
  end.
Proof.
  intros [S NE]. unfold ref_seg_add, trie_add. destruct (is_nil v) eqn:Ev; auto.
  apply is_nil_false in Ev. destruct (sadd route v n) as [n' ok] eqn:E.
  destruct (sadd_spec route v n n' ok Ev E) as (A & B & C).
  rewrite S in A. destruct (rlookup route t) as [v0|] eqn:L.
  - assert (ok = false).
    { destruct ok; auto. exfalso. apply (NE route v0); [apply rlookup_In; auto | tauto]. }
    subst ok. exists n'. split; auto. split; auto. intros r. rewrite (C eq_refl). apply S.
  - assert (ok = true) by tauto. subst ok. exists n'. split; auto. split.
    + intros r. rewrite (B eq_refl), rlookup_app, S. simpl. rewrite (route_eqb_sym route r).
      destruct (rlookup r t) eqn:L2; destruct (route_eqb r route) eqn:E2; auto.
      apply route_eqb_eq in E2. subst. congruence.
    + intros r v' I. apply in_app_or in I as [I|[[= <- <-]|[]]]; eauto.
Qed.

(** Longest bound prefix of a route, by brute force over prefix lengths. *)
Fixpoint ref_seg_find_from (t : seg_ref) (route : list str) (k : nat) : nat * str :=
  match rlookup (firstn k route) t with
  | Some v => (k, v)
  | None => match k with O => (0, []) | S k' => ref_seg_find_from t route k' end
  end.

Definition ref_seg_find (t : seg_ref) (route : list str) : nat * str :=
  ref_seg_find_from t route (length route).

Lemma ref_seg_find_from_spec t route k : k <= length route ->
  let '(j, v) := ref_seg_find_from t route k in
  j <= k /\ (forall i, j < i <= k -> rlookup (firstn i route) t = None) /\
  (rlookup (firstn j route) t = Some v \/ (j = 0 /\ v = [] /\ rlookup (firstn 0 route) t = None)).
Proof.
  induction k as [|k IH]; intros Hk.
  - simpl. destruct (rlookup [] t) eqn:L; simpl; (split; [lia|]); (split; [intros; lia|]); auto.
  - cbn [ref_seg_find_from]. destruct (rlookup (firstn (S k) route) t) eqn:L.
    + split; [lia|]. split; [intros; lia|]. auto.
    + specialize (IH ltac:(lia)). destruct (ref_seg_find_from t route k) as [j v].
      destruct IH as (A & B & C). split; [lia|]. split; auto.
      intros i Hi. destruct (Nat.eq_dec i (S k)); [subst; auto | apply B; lia].
Qed.

Lemma sfind_ref n t route : seg_sim n t -> sfind route n = ref_seg_find t route.
Proof.
  intros [Sm NE]. destruct (sfind route n) as [k v] eqn:E.
  destruct (sfind_spec route n k v E) as (A & B & C & D).
  unfold ref_seg_find. pose proof (ref_seg_find_from_spec t route (length route) (le_n _)) as R.
  destruct (ref_seg_find_from t route (length route)) as [j w]. destruct R as (RA & RB & RC).
  assert (Hnz : forall i x, rlookup (firstn i route) t = Some x -> sget (firstn i route) n <> []).
  { intros i x L. rewrite Sm, L. apply (NE (firstn i route)). apply rlookup_In; auto. }
  destruct RC as [L|(-> & -> & L0)].
  - assert (k = j).
    { destruct (Nat.lt_trichotomy k j) as [H|[H|H]]; auto.
      - exfalso. apply (Hnz j w L). apply C. lia.
      - exfalso. specialize (RB k ltac:(lia)). rewrite Sm, RB in B. subst v. specialize (D eq_refl). lia. }
    subst j. rewrite Sm, L in B. subst; auto.
  - assert (k = 0).
    { destruct k; auto. exfalso. specialize (RB (S k) ltac:(lia)). rewrite Sm, RB in B. subst v.
      specialize (D eq_refl). lia. }
    subst k. rewrite Sm, L0 in B. subst; auto.
Qed.

Fixpoint seg_run (n : snode) (adds : list (list str * str)) : option (snode * list bool) :=
  match adds with
  | [] => Some (n, [])
  | (r, v) :: rest =>
      match trie_add n r v with
      | None => None
      | Some (n', ok) =>
          match seg_run n' rest with
          | None => None
          | Some (n'', oks) => Some (n'', ok :: oks)
          end
      end
  end.

Fixpoint ref_seg_run (t : seg_ref) (adds : list (list str * str)) : option (seg_ref * list bool) :=
  match adds with
  | [] => Some (t, [])
  | (r, v) :: rest =>
      match ref_seg_add t r v with
      | None => None
      | Some (t', ok) =>
          match ref_seg_run t' rest with
          | None => None
          | Some (t'', oks) => Some (t'', ok :: oks)
          end
      end
  end.

Lemma seg_sim_empty : seg_sim empty_snode [].
Proof. split; [intros r; apply sget_empty | intros r v []]. Qed.

Lemma seg_sim_run adds : forall n t, seg_sim n t ->
  match ref_seg_run t adds with
  | None => seg_run n adds = None
  | Some (t', oks) => exists n', seg_run n adds = Some (n', oks) /\ seg_sim n' t'
  end.
Proof.
  induction adds as [|[r v] rest IH]; intros n t S; simpl; eauto.
  pose proof (seg_sim_add n t r v S) as H.
  destruct (ref_seg_add t r v) as [[t' ok]|]; [|rewrite H; auto].
  destruct H as (n' & -> & S'). specialize (IH n' t' S').
  destruct (ref_seg_run t' rest) as [[t'' oks]|]; [|rewrite IH; auto].
  destruct IH as (n'' & -> & S''). eauto.
Qed.

(** After any sequence of [Add]s (any order, duplicates, empty values
    panicking), the trie and the association list agree on every [Add]
    result and [Find]/[FindExact] answer with the longest bound prefix. *)
Theorem segtrie_find_longest adds :
  match ref_seg_run [] adds with
  | None => seg_run empty_snode adds = None
  | Some (t, oks) =>
      exists n, seg_run empty_snode adds = Some (n, oks) /\
        forall route, sfind route n = ref_seg_find t route
  end.
Proof.
  pose proof (seg_sim_run adds empty_snode [] seg_sim_empty) as H.
  destruct (ref_seg_run [] adds) as [[t oks]|]; auto.
  destruct H as (n & E & S). exists n. split; auto. intros route. apply sfind_ref; auto.
Qed.

(** What the brute-force answer means. *)
Theorem ref_seg_find_spec t route :
  let '(j, v) := ref_seg_find t route in
  j <= length route /\
  (forall i, j < i <= length route -> rlookup (firstn i route) t = None) /\
  (rlookup (firstn j route) t = Some v \/
   (j = 0 /\ v = [] /\ forall i, i <= length route -> rlookup (firstn i route) t = None)).
Proof.
  unfold ref_seg_find. pose proof (ref_seg_find_from_spec t route (length route) (le_n _)) as R.
  destruct (ref_seg_find_from t route (length route)) as [j v]. destruct R as (A & B & C).
  split; auto. split; auto. destruct C as [C|(-> & -> & C)]; auto.
  right. split; auto. split; auto. intros i Hi. destruct i; auto. apply B. lia.
Qed.
