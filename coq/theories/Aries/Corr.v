(** Correspondence evaluators for C20: run the models on what the harness
    fed to the implementation and compare with what it observed. *)
From Coq Require Import List NArith ZArith Bool Arith.
From Verif Require Import Aries.Str Aries.Radix Aries.SegTrie Aries.Router Aries.Tiers Aries.Entry
  Aries.CtxSeq Gen.AriesSkel Gen.AriesEntry.
Import ListNotations.

Fixpoint list_eqb {A} (eqb : A -> A -> bool) (a b : list A) : bool :=
  match a, b with
  | [], [] => true
  | x :: a', y :: b' => eqb x y && list_eqb eqb a' b'
  | _, _ => false
  end.

Definition optN_eqb (a b : option N) : bool :=
  match a, b with
  | None, None => true
  | Some x, Some y => (x =? y)%N
  | _, _ => false
  end.

(** The dump lists children sorted by key; the model keeps insertion order. *)
Fixpoint node_eqb (d m : node) {struct d} : bool :=
  match d, m with
  | Node db dp dh dc, Node mb mp mh mc =>
      str_eqb db mb && str_eqb dp mp && Bool.eqb dh mh &&
      Nat.eqb (length dc) (length mc) &&
      (fix all (l : list (N * node)) : bool :=
         match l with
         | [] => true
         | (k, c) :: r =>
             match lookup k mc with
             | Some c' => node_eqb c c'
             | None => false
             end && all r
         end) dc
  end.

(** op flags: 1 ok, 0 refused, 2 panic (state unchanged) *)
Fixpoint mux_obs (m : mux) (ops : list mux_op) : mux * list N :=
  match ops with
  | [] => (m, [])
  | op :: r =>
      match mux_apply m op with
      | None => let '(m', fl) := mux_obs m r in (m', 2%N :: fl)
      | Some (m1, ok) => let '(m', fl) := mux_obs m1 r in (m', (if ok then 1%N else 0%N) :: fl)
      end
  end.

Fixpoint trie_obs (t : node) (ss : list str) : node * list N :=
  match ss with
  | [] => (t, [])
  | s :: r =>
      match add t s with
      | None => let '(t', fl) := trie_obs t r in (t', 2%N :: fl)
      | Some (t1, ok) => let '(t', fl) := trie_obs t1 r in (t', (if ok then 1%N else 0%N) :: fl)
      end
  end.

Fixpoint seg_obs (t : snode) (adds : list (list str * str)) : snode * list N :=
  match adds with
  | [] => (t, [])
  | (rt, v) :: r =>
      match trie_add t rt v with
      | None => let '(t', fl) := seg_obs t r in (t', 2%N :: fl)
      | Some (t1, ok) => let '(t', fl) := seg_obs t1 r in (t', (if ok then 1%N else 0%N) :: fl)
      end
  end.

Definition seg_query (t : snode) (q : list str) : nat * str * str :=
  let '(m, v) := trie_find_route t q in (length m, v, trie_find_exact t q).

Definition seg_res_eqb (a b : nat * str * str) : bool :=
  let '(n1, v1, x1) := a in let '(n2, v2, x2) := b in
  Nat.eqb n1 n2 && str_eqb v1 v2 && str_eqb x1 x2.

(** * Routers *)
Inductive rop :=
| RIndex (h : option N) | RDefault (h : option N)
| RFile (m p : str) (h : option N)   (* MethodFile(m, p, ..); File = method "" *)
| RDir (p : str) (h : option N)
| RCall (p : str) (h : option N).    (* Call = JSONCallMust: POST file, panics when refused *)

Definition m_post : str := [80; 79; 83; 84]%N.

Fixpoint router_obs (r : router) (ops : list rop) : router * list N :=
  match ops with
  | [] => (r, [])
  | op :: rest =>
      let step :=
        match op with
        | RIndex h => Some (set_index r h, true)
        | RDefault h => Some (set_default r h, true)
        | RFile m p h => router_add_svc r p h false m
        | RDir p h => router_add_svc r p h true []
        | RCall p h =>
            match router_add_svc r p h false m_post with
            | Some (r', true) => Some (r', true)
            | _ => None
            end
        end in
      match step with
      | None => let '(r', fl) := router_obs r rest in (r', 2%N :: fl)
      | Some (r1, ok) => let '(r', fl) := router_obs r1 rest in (r', (if ok then 1%N else 0%N) :: fl)
      end
  end.

(** Handlers [>= 1000] are the other routers of the case. Result: leaf tag
    (or -1), [c.Rel()] seen by the leaf, error class
    (0 nil, 1 miss, 2 bad method, 3 panic, 9 evaluator gave up; what the
    leaf was told to return: 4 NotFound, 5 Internal, 6 Unauthorized,
    7 InvalidArg, 8 an error without code). *)
Fixpoint leaf_code (le : list (N * N)) (h : N) : N :=
  match le with
  | [] => 0%N
  | (t, e) :: r => if (t =? h)%N then e else leaf_code r h
  end.

Fixpoint serve_nested (le : list (N * N)) (fuel : nat) (rs : list router) (i : nat) (c : ctx) : Z * str * N :=
  match fuel with
  | O => ((-9)%Z, [], 9%N)
  | S k =>
      match nth_error rs i with
      | None => ((-9)%Z, [], 9%N)
      | Some r =>
          let go h c' :=
            if (1000 <=? h)%N then serve_nested le k rs (N.to_nat (h - 1000)) c'
            else (Z.of_N h, rel c', leaf_code le h) in
          match router_serve_with gen_dispatch_cond gen_method_reject r c with
          | OIndex h c' => go h c'
          | ODefault h c' => go h c'
          | ONode h c' => go h c'
          | OMiss => ((-1)%Z, [], 1%N)
          | OBadMethod => ((-1)%Z, [], 2%N)
          | OPanic => ((-1)%Z, [], 3%N)
          | OStuck => ((-9)%Z, [], 9%N)
          end
      end
  end.

Definition req_eqb (a b : Z * str * N) : bool :=
  let '(t1, r1, e1) := a in let '(t2, r2, e2) := b in
  (t1 =? t2)%Z && str_eqb r1 r2 && (e1 =? e2)%N.

(** * Tiers *)
Record beh := Beh { b_nil : bool; b_res : N (* 0 miss, 1 nil, 2 err *); b_set : option (str * Z) }.

Definition apply_set (o : option (str * Z)) (c : ident) : ident :=
  match o with
  | Some (u, l) => Ident u l (i_path c)
  | None => c
  end.

Definition mk_handler (code : N) (b : beh) : option handler :=
  if b_nil b then None
  else Some (fun c => (apply_set (b_set b) c,
                       match b_res b with 0%N => HMiss | 1%N => HRet 0 | _ => HRet code end)).

Record tcfg := TCfg {
  t_auth_nil : bool; t_auth_serve : beh; t_setup_set : option (str * Z); t_setup_err : bool;
  t_tiers : list beh;            (* resource, guest, user, admin *)
  t_isadmin : N;                 (* 0 nil, 1 true, 2 false, 3 level >= 2, 4 user == "root" *)
  t_signin : N }.                (* 0 nil, 1 ok, 2 err *)

Definition str_root : str := [114; 111; 111; 116]%N.

Definition mk_sset (t : tcfg) : sset :=
  let tier i code := match nth_error (t_tiers t) i with Some b => mk_handler code b | None => None end in
  SSet
    (if t_auth_nil t then None
     else match mk_handler 10 (Beh false (b_res (t_auth_serve t)) (b_set (t_auth_serve t))) with
          | Some h => Some (h, fun c => (apply_set (t_setup_set t) c, if t_setup_err t then 11%N else 0%N))
          | None => None
          end)
    (tier 0%nat 1%N) (tier 1%nat 2%N) (tier 2%nat 3%N) (tier 3%nat 4%N)
    (match t_isadmin t with
     | 0%N => None
     | 1%N => Some (fun _ => true)
     | 2%N => Some (fun _ => false)
     | 3%N => Some (fun c => (2 <=? i_level c)%Z)
     | _ => Some (fun c => str_eqb (i_user c) str_root)
     end)
    (match t_signin t with
     | 0%N => None
     | 1%N => Some (fun c => (c, 0%N))
     | _ => Some (fun c => (c, 20%N))
     end).

(** events as (kind, user, level): auth 0, resource 1, guest 2, user 3,
    admin 4, setup 5, signin 6, redirect 7 *)
Definition ev_code (e : event) : N * str * Z :=
  match e with
  | EServe TAuth c => (0%N, i_user c, i_level c)
  | EServe TResource c => (1%N, i_user c, i_level c)
  | EServe TGuest c => (2%N, i_user c, i_level c)
  | EServe TUser c => (3%N, i_user c, i_level c)
  | EServe TAdmin c => (4%N, i_user c, i_level c)
  | ESetup c => (5%N, i_user c, i_level c)
  | ESignIn c => (6%N, i_user c, i_level c)
  | ERedirect => (7%N, [], 0%Z)
  end.

Definition final_code (f : final) : N :=
  match f with
  | FRet 0 => 0 | FMiss => 1 | FNeedSignIn => 2 | FPanic => 3 | FStuck => 9
  | FRet e => 100 + e
  end%N.

Definition ev_eqb (a b : N * str * Z) : bool :=
  let '(k1, u1, l1) := a in let '(k2, u2, l2) := b in
  (k1 =? k2)%N && str_eqb u1 u2 && (l1 =? l2)%Z.

(** A Go panic unwinds out of Serve: the redirect (the only event after
    which nothing can panic) aside, the events before the panic did happen. *)

(** * The HTTP entry *)

(** status, handler reached, C.Path, route segments, PathIsDir, Req.Host,
    leaf tag, c.Rel() at the leaf *)
Definition eobs : Type := N * bool * str * list str * bool * str * Z * str.

Definition eobs_eqb (a b : eobs) : bool :=
  let '(s1, r1, p1, g1, d1, h1, t1, l1) := a in
  let '(s2, r2, p2, g2, d2, h2, t2, l2) := b in
  (s1 =? s2)%N && Bool.eqb r1 r2 && str_eqb p1 p2 && list_eqb str_eqb g1 g2 && Bool.eqb d1 d2 &&
  str_eqb h1 h2 && (t1 =? t2)%Z && str_eqb l1 l2.

(** Error class of the service result -> the class [C.ErrCode] switches on. *)
Definition eclass_of (e : N) : eclass :=
  match e with
  | 0 => ENil | 1 => ENotFound (* Miss *) | 2 => EInvalidArg (* unsupported method *)
  | 4 => ENotFound | 5 => EInternal | 6 => EUnauthorized | 7 => EInvalidArg
  | _ => EOther
  end%N.

Definition entry_obs (hmux : bool) (hm : hostmux) (rs : list router) (le : list (N * N)) (r : rawreq) : eobs :=
  match http_parse r with
  | HBad => (400%N, false, [], [], false, [], (-1)%Z, [])
  | HOptionsStar => (200%N, false, [], [], false, [], (-1)%Z, [])
  | HReq path host =>
      match new_actx_with gen_ctx_path_src gen_ctx_route_src (PUrl path [] [] []) (rq_method r) host with
      | None => (999%N, false, [], [], false, [], (-9)%Z, [])
      | Some a =>
          let c := a_ctx a in
          let '(tag, rl, e) :=
            if hmux then
              match gen_host_key, host_serve hm (a_host a) with
              | HKReqHost, Some j => serve_nested le 8 rs (N.to_nat j) c
              | HKReqHost, None => ((-1)%Z, [], 1%N)
              | HKUnknown _, _ => ((-9)%Z, [], 9%N)
              end
            else serve_nested le 8 rs 0 c in
          (* a panic in the handler: net/http drops the connection, no status *)
          let status := if (e =? 3)%N then 0%N
                        else status_with gen_errcode_table gen_errcode_default (eclass_of e) in
          (status, true, a_path a, c_routes c, c_isdir c, a_host a, tag, rl)
      end
  end.

(** * Round 3: one context through several routers; one long-lived object *)

Definition hit_eqb (a b : Z * str) : bool := (fst a =? fst b)%Z && str_eqb (snd a) (snd b).

(** leaves that ran, final class, [c.Rel()] afterwards - compared when every router missed (a
    handler that serves may have walked the route on) *)
Definition seq_eqb (a b : list (Z * str) * N * str) : bool :=
  let '(h1, f1, r1) := a in let '(h2, f2, r2) := b in
  list_eqb hit_eqb h1 h2 && (f1 =? f2)%N && (negb (f1 =? 1)%N || str_eqb r1 r2).

(** what the regenerated source says about [C.RelRoute] *)
Definition gen_relroute_acc : acc_kind := acc_of relroute_name gen_ctx_accessors.

(** handler writes of a case: (handler, mode, segment): 1 overwrite every
    remaining segment, 2 [append(rr[:1], segment)] *)
Fixpoint writes_of (lw : list (N * (N * str))) (h : N) : option hwrite :=
  match lw with
  | [] => None
  | (t, (m, sg)) :: r =>
      if (t =? h)%N then Some (if (m =? 1)%N then w_fill sg else w_append1 sg) else writes_of r h
  end.

Fixpoint shifts_of (ls : list (N * nat)) (h : N) : nat :=
  match ls with
  | [] => 0%nat
  | (t, k) :: r => if (t =? h)%N then k else shifts_of r h
  end.

Inductive mstep :=
| MReg (op : mux_op) (flag : N)              (* 1 ok, 0 refused, 2 panic *)
| MServe (p : str) (got : option N).

Fixpoint mux_steps (m : mux) (l : list mstep) : bool :=
  match l with
  | [] => true
  | MReg op flag :: r =>
      match mux_apply m op with
      | None => (flag =? 2)%N && mux_steps m r
      | Some (m1, ok) => (flag =? (if ok then 1 else 0))%N && mux_steps m1 r
      end
  | MServe p got :: r => optN_eqb (mux_route m p) got && mux_steps m r
  end.

Inductive rstep :=
| RReg (op : rop) (flag : N)
| RServe (path method : str) (got : Z * str * N).

Fixpoint router_steps (le : list (N * N)) (r : router) (l : list rstep) : bool :=
  match l with
  | [] => true
  | RReg op flag :: rest =>
      let '(r', fl) := router_obs r [op] in
      list_eqb N.eqb fl [flag] && router_steps le r' rest
  | RServe path method got :: rest =>
      req_eqb (serve_nested le 8 [r] 0 (new_ctx path method)) got && router_steps le r rest
  end.

Inductive hstep :=
| HSet (h : str) (f : N)
| HServe (h : str) (got : option N).

Fixpoint host_steps (m : hostmux) (l : list hstep) : bool :=
  match l with
  | [] => true
  | HSet h f :: r => host_steps (host_set m h f) r
  | HServe h got :: r => optN_eqb (host_serve m h) got && host_steps m r
  end.

Inductive ccase :=
| CSeq (routers : list (list rop)) (le : list (N * N)) (lw : list (N * (N * str))) (lsh : list (N * nat))
       (roks : list (list N)) (is : list nat)
       (reqs : list (str * str)) (obs : list (list (Z * str) * N * str))
| CMuxSteps (l : list mstep)
| CRouterSteps (le : list (N * N)) (l : list rstep)
| CHostSteps (l : list hstep)
| CMux (ops : list mux_op) (oks : list N) (paths : list str) (routes : list (option N)) (dump : node)
| CTrie (adds : list str) (oks : list N) (paths : list str) (finds : list (str * bool)) (dump : node)
| CSeg (adds : list (list str * str)) (oks : list N) (qs : list (list str)) (finds : list (nat * str * str))
| CRouter (routers : list (list rop)) (le : list (N * N)) (roks : list (list N)) (reqs : list (str * str))
          (obs : list (Z * str * N))
| CEntry (hmux : bool) (hsets : list (str * N)) (routers : list (list rop)) (le : list (N * N))
         (raws : list rawreq) (obs : list eobs)
| CTiers (internal : bool) (c0 : ident) (cfg : tcfg) (trace : list (N * str * Z)) (res : N)
| CHost (sets : list (str * N)) (reqs : list str) (obs : list (option N)).

Definition find_eqb (a b : str * bool) : bool := str_eqb (fst a) (fst b) && Bool.eqb (snd a) (snd b).

Definition check_case (c : ccase) : bool :=
  match c with
  | CSeq defs le lw lsh roks is reqs obs =>
      let built := map (router_obs new_router) defs in
      list_eqb (list_eqb N.eqb) (map snd built) roks &&
      list_eqb seq_eqb
        (map (fun q => serve_seq gen_dispatch_cond gen_method_reject le gen_router_wrap 8
                         (map fst built) is (new_ctx (fst q) (snd q))) reqs) obs &&
      (* the same again with what the handlers write to the RelRoute they were handed and how far
         they shift the route before declining *)
      list_eqb (fun a b => list_eqb hit_eqb (fst a) (fst b) && (snd a =? snd b)%N)
        (map (fun q => serve_seq_w gen_dispatch_cond gen_method_reject le gen_relroute_acc (writes_of lw)
                         (shifts_of lsh) RestoreEntry
                         gen_router_wrap 8 (map fst built) is (new_ctx (fst q) (snd q))) reqs) (map fst obs)
  | CMuxSteps l => mux_steps new_mux l
  | CRouterSteps le l => router_steps le new_router l
  | CHostSteps l =>
      match gen_host_key with
      | HKReqHost => host_steps [] l
      | HKUnknown _ => false
      end
  | CMux ops oks paths routes dump =>
      let '(m, fl) := mux_obs new_mux ops in
      list_eqb N.eqb fl oks &&
      list_eqb optN_eqb (map (mux_route m) paths) routes &&
      node_eqb dump (m_trie m)
  | CTrie adds oks paths finds dump =>
      let '(t, fl) := trie_obs root adds in
      list_eqb N.eqb fl oks &&
      list_eqb find_eqb (map (trie_find t) paths) finds &&
      node_eqb dump t
  | CSeg adds oks qs finds =>
      let '(t, fl) := seg_obs empty_snode adds in
      list_eqb N.eqb fl oks &&
      list_eqb seg_res_eqb (map (seg_query t) qs) finds
  | CRouter defs le roks reqs obs =>
      let built := map (router_obs new_router) defs in
      list_eqb (list_eqb N.eqb) (map snd built) roks &&
      list_eqb req_eqb
        (map (fun q => serve_nested le 8 (map fst built) 0 (new_ctx (fst q) (snd q))) reqs) obs
  | CEntry hmux hsets defs le raws obs =>
      let rs := map (fun d => fst (router_obs new_router d)) defs in
      let hm := fold_left (fun m kv => host_set m (fst kv) (snd kv)) hsets [] in
      list_eqb eobs_eqb (map (entry_obs hmux hm rs le) raws) obs
  | CTiers internal c0 cfg trace res =>
      let '(tr, f) :=
        run gen_default_admin gen_serve_auth_prog (mk_sset cfg)
            (if internal then gen_serve_internal_prog else gen_serve_prog) c0 in
      list_eqb ev_eqb (map ev_code tr) trace && (final_code f =? res)%N
  | CHost sets reqs obs =>
      let m := fold_left (fun m kv => host_set m (fst kv) (snd kv)) sets [] in
      match gen_host_key with
      | HKReqHost => list_eqb optN_eqb (map (host_serve m) reqs) obs
      | HKUnknown _ => false
      end
  end.

Fixpoint mismatches_from (i : nat) (cs : list ccase) : list nat :=
  match cs with
  | [] => []
  | c :: r => if check_case c then mismatches_from (S i) r
              else i :: mismatches_from (S i) r
  end.

Definition mismatches (cs : list ccase) : list nat := mismatches_from 0 cs.
