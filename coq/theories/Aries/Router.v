(** Model of aries/route.go (path splitting), the routing part of
    aries/context.go and aries/router.go.  Handlers are opaque tags.
    Definitions only; proofs in RouterProofs.v. *)
From Coq Require Import List NArith Bool Arith.
From Coq Require String.
From Verif Require Import Aries.Str Aries.Radix Aries.SegTrie.
Import ListNotations.

(** [strings.Split(p, "/")] *)
Fixpoint split_aux (cur : str) (p : str) : list str :=
  match p with
  | [] => [rev cur]
  | c :: r => if (c =? slash)%N then rev cur :: split_aux [] r else split_aux (c :: cur) r
  end.

(** [newRoute]: the non-empty pieces; [route.p] is their canonical joining
    with a leading slash each; [isDir] is "ends with a slash". *)
Definition segs (p : str) : list str := filter (fun s => negb (is_nil s)) (split_aux [] p).
Definition route_p (routes : list str) : str := flat_map (fun s => slash :: s) routes.
Definition path_is_dir (p : str) : bool :=
  match rev p with c :: _ => (c =? slash)%N | [] => false end.

(** The routing state of a [C]: [route.routes], [routePos], [route.isDir],
    [Req.Method]. *)
Record ctx := Ctx { c_routes : list str; c_pos : nat; c_isdir : bool; c_method : str }.

Definition new_ctx (path method : str) : ctx := Ctx (segs path) 0 (path_is_dir path) method.

(** [c.Rel() == ""] *)
Definition rel_empty (c : ctx) : bool := length (c_routes c) <=? c_pos c.
(** [c.RelRoute()] *)
Definition rel_route (c : ctx) : list str := skipn (c_pos c) (c_routes c).
(** [c.Rel()]: the remaining segments joined by "/" *)
Fixpoint join_slash (l : list str) : str :=
  match l with
  | [] => []
  | [s] => s
  | s :: r => s ++ slash :: join_slash r
  end.
Definition rel (c : ctx) : str := join_slash (rel_route c).

(** [c.ShiftRoute(inc)] *)
Definition shift (c : ctx) (inc : nat) : ctx :=
  Ctx (c_routes c) (Nat.min (c_pos c + inc) (length (c_routes c))) (c_isdir c) (c_method c).

Record rnode := RNode { rn_svc : N; rn_dir : bool; rn_method : str }.

Record router := Router {
  rt_index : option N; rt_miss : option N;
  rt_trie : snode; rt_nodes : list (str * rnode) }.

Definition new_router : router := Router None None empty_snode [].

(** [Index(f)], [Default(f)]: a nil [Func] means "none" (it must not end up
    as a non-nil interface around a nil function). *)
Definition set_index (r : router) (h : option N) := Router h (rt_miss r) (rt_trie r) (rt_nodes r).
Definition set_default (r : router) (h : option N) := Router (rt_index r) h (rt_trie r) (rt_nodes r).

(** [Router.add]: [Some (r, true)] = nil error, [Some (r, false)] =
    "path already assigned", [None] = panic (empty route, or the trie
    refusing a path the node map did not know). *)
Definition router_add (r : router) (p : str) (n : rnode) : option (router * bool) :=
  let routes := segs p in
  let rp := route_p routes in
  if is_nil rp then None
  else match alookup rp (rt_nodes r) with
       | Some _ => Some (r, false)
       | None =>
           match trie_add (rt_trie r) routes rp with
           | Some (t', true) => Some (Router (rt_index r) (rt_miss r) t' (aset rp n (rt_nodes r)), true)
           | _ => None
           end
       end.

(** The two conditions of [Router.Serve], as data: the translator re-reads
    them from the source (Gen/AriesSkel.v) and TiersGen.v compares. *)
(** Registration as the public methods do it: a nil handler ([None]) is the
    panic "function is nil", whether it arrives as a nil [Service] or as a
    nil [Func]. *)
Definition router_add_svc (r : router) (p : str) (svc : option N) (dir : bool) (m : str)
  : option (router * bool) :=
  match svc with
  | None => None
  | Some h => router_add r p (RNode h dir m)
  end.

Inductive rcond :=
| RCIsDir                   (* n.isDir *)
| RCRelEmpty                (* c.Rel() == "" *)
| RCPathIsDir               (* c.PathIsDir() *)
| RCMethodSet               (* n.method != "" *)
| RCMethodDiffers           (* m != n.method, m := c.Req.Method *)
| RCNot (a : rcond)
| RCAnd (a b : rcond)
| RCOr (a b : rcond)
| RCUnknown (text : String.string).

(** serve the node: [n.isDir || (c.Rel() == "" && !c.PathIsDir())] *)
Definition dispatch_cond : rcond := RCOr RCIsDir (RCAnd RCRelEmpty (RCNot RCPathIsDir)).
(** refuse the method: [n.method != "" && m != n.method] *)
Definition method_reject : rcond := RCAnd RCMethodSet RCMethodDiffers.

Fixpoint eval_rcond (n : rnode) (c : ctx) (e : rcond) : option bool :=
  match e with
  | RCIsDir => Some (rn_dir n)
  | RCRelEmpty => Some (rel_empty c)
  | RCPathIsDir => Some (c_isdir c)
  | RCMethodSet => Some (negb (is_nil (rn_method n)))
  | RCMethodDiffers => Some (negb (str_eqb (c_method c) (rn_method n)))
  | RCNot a => option_map negb (eval_rcond n c a)
  | RCAnd a b =>
      match eval_rcond n c a, eval_rcond n c b with
      | Some x, Some y => Some (x && y)
      | _, _ => None
      end
  | RCOr a b =>
      match eval_rcond n c a, eval_rcond n c b with
      | Some x, Some y => Some (x || y)
      | _, _ => None
      end
  | RCUnknown _ => None
  end.

Inductive outcome :=
| OIndex (h : N) (c : ctx)        (* r.index.Serve(c) *)
| ODefault (h : N) (c : ctx)      (* r.miss.Serve(c) *)
| OMiss                           (* return Miss *)
| ONode (h : N) (c : ctx)         (* n.s.Serve(c), with the shifted context *)
| OBadMethod                      (* "unsupported method" *)
| OPanic
| OStuck.                         (* an Unknown condition *)

Definition not_found (r : router) (c : ctx) : outcome :=
  match rt_miss r with Some h => ODefault h c | None => OMiss end.

(** [Router.Serve] *)
Definition router_serve_with (disp meth : rcond) (r : router) (c : ctx) : outcome :=
  if rel_empty c then
    match rt_index r with Some h => OIndex h c | None => not_found r c end
  else
    let '(hit, p) := trie_find_route (rt_trie r) (rel_route c) in
    if is_nil p then not_found r c
    else match alookup p (rt_nodes r) with
         | None => OPanic
         | Some n =>
             let c' := shift c (length hit) in
             match eval_rcond n c' disp with
             | None => OStuck
             | Some true =>
                 match eval_rcond n c' meth with
                 | None => OStuck
                 | Some true => OBadMethod
                 | Some false => ONode (rn_svc n) c'
                 end
             | Some false => not_found r c'
             end
         end.

Definition router_serve := router_serve_with dispatch_cond method_reject.
