(** The routing-position helpers of aries as they are written NOW
    (Gen/CodeAries.v: [route.size], [route.relRoute] of route.go and
    [C.ShiftRoute] of context.go, translated by gen/gotrans.go on every run)
    compute the model of Aries/Router.v ([rel_route], [shift]) for every
    routing state.  [ShiftRoute] assigns the receiver's field [routePos]; the
    generated definition yields its final value.  Candidates: CodeCands.v. *)
From Coq Require Import List NArith ZArith Bool Lia.
From Coq Require Import ZifyN ZifyNat ZifyBool.
From Verif Require Import Lib.GoLib Aries.Str Aries.Router Gen.CodeAries Aries.CodeCands.
Import ListNotations.
Local Open Scope Z_scope.

Lemma gen_route_size_is_model : forall routes : list str,
  gen_aries_route_size routes = Z.of_nat (length routes).
Proof. reflexivity. Qed.

Lemma gen_relRoute_is_model : forall c : ctx,
  gen_aries_route_relRoute (c_routes c) (Z.of_nat (c_pos c)) = rel_route c.
Proof.
  intros [routes pos d m]. unfold gen_aries_route_relRoute, rel_route. cbn [c_routes c_pos]. unfold str in *.
  go_cases; go_arith.
  all: first [ rewrite go_slice_from by (unfold go_len in *; lia); now rewrite Nat2Z.id
             | symmetry; apply skipn_all2; unfold go_len in *; lia ].
Qed.

(** [int] arithmetic: the sum of position and increment stays below 2^63. *)
Lemma gen_ShiftRoute_is_model : forall (c : ctx) (inc : nat),
  Z.of_nat (c_pos c + inc) < two63z ->
  gen_aries_C_ShiftRoute (c_routes c) (Z.of_nat (c_pos c)) (Z.of_nat inc) = Z.of_nat (c_pos (shift c inc)).
Proof.
  intros [routes pos d m] inc H. unfold gen_aries_C_ShiftRoute, gen_aries_route_size, shift, go_len.
  cbn [c_routes c_pos] in *. cbv zeta. unfold str in *.
  rewrite wrap_i64_small by (unfold is_i64, two63z in *; lia).
  go_cases; go_arith;
    destruct (Nat.min_spec (pos + inc) (length routes)) as [[? ->]|[? ->]]; lia.
Qed.

(** Read over the code: the position never passes the end of the route, and
    what remains after a shift is the tail of what remained before. *)
Lemma code_shift_bounded : forall (c : ctx) (inc : nat),
  Z.of_nat (c_pos c + inc) < two63z ->
  gen_aries_C_ShiftRoute (c_routes c) (Z.of_nat (c_pos c)) (Z.of_nat inc) <= Z.of_nat (length (c_routes c)).
Proof.
  intros c inc H. rewrite gen_ShiftRoute_is_model by exact H.
  destruct c as [routes pos d m]. unfold shift. cbn [c_routes c_pos].
  destruct (Nat.min_spec (pos + inc) (length routes)) as [[? ->]|[? ->]]; lia.
Qed.

Lemma skipn_skipn_add {A} n m (l : list A) : skipn n (skipn m l) = skipn (m + n) l.
Proof.
  revert l; induction m as [|m IH]; intros l; [reflexivity|].
  destruct l as [|x l]; [now rewrite !skipn_nil|]. cbn [skipn Nat.add]. apply IH.
Qed.

Lemma code_relRoute_after_shift : forall (c : ctx) (inc : nat),
  Z.of_nat (c_pos c + inc) < two63z ->
  gen_aries_route_relRoute (c_routes c)
    (gen_aries_C_ShiftRoute (c_routes c) (Z.of_nat (c_pos c)) (Z.of_nat inc))
  = skipn inc (gen_aries_route_relRoute (c_routes c) (Z.of_nat (c_pos c))).
Proof.
  intros c inc H. rewrite gen_ShiftRoute_is_model by exact H.
  pose proof (gen_relRoute_is_model (shift c inc)) as E1.
  pose proof (gen_relRoute_is_model c) as E2.
  destruct c as [routes pos d m]. unfold rel_route, shift in *. cbn [c_routes c_pos] in *. unfold str in *.
  rewrite E1, E2, skipn_skipn_add.
  destruct (Nat.le_ge_cases (pos + inc) (length routes)).
  - rewrite Nat.min_l by lia. reflexivity.
  - rewrite Nat.min_r by lia. rewrite (skipn_all2 (n := length routes)), (skipn_all2 (n := pos + inc)) by lia.
    reflexivity.
Qed.

Lemma cex_aries_none : cex_route_relRoute = [] /\ cex_C_ShiftRoute = [] /\ cex_route_size = [].
Proof. vm_compute. repeat split. Qed.
