(** Candidate inputs for the counterexample search of the aries code
    refinement (Aries/CodeRefine.v).  Requires only the generated file and
    the model. *)
From Coq Require Import List NArith ZArith Bool.
From Verif Require Import Lib.GoLib Aries.Str Aries.Router Gen.CodeAries.
Import ListNotations.
Local Open Scope Z_scope.

Definition cand_routes : list (list str) :=
  [[]; [[97%N]]; [[97%N]; [98%N]]; [[97%N]; [98%N; 99%N]; [100%N]]].

(** (routes, position, increment): positions and increments up to one past the end. *)
Definition cands_route : list (list str * (nat * nat)) :=
  pairs cand_routes (pairs [0; 1; 2; 3; 4]%nat [0; 1; 2; 3; 5]%nat).

Definition ctx_of (x : list str * (nat * nat)) : ctx := Ctx (fst x) (fst (snd x)) false [].

Definition cex_route_relRoute :=
  cex_search (list_eqb Aries.Str.str_eqb)
             (fun x => gen_aries_route_relRoute (fst x) (Z.of_nat (fst (snd x))))
             (fun x => rel_route (ctx_of x)) cands_route.

Definition cex_C_ShiftRoute :=
  cex_search Z.eqb
             (fun x => gen_aries_C_ShiftRoute (fst x) (Z.of_nat (fst (snd x))) (Z.of_nat (snd (snd x))))
             (fun x => Z.of_nat (c_pos (shift (ctx_of x) (snd (snd x))))) cands_route.

Definition cex_route_size :=
  cex_search Z.eqb gen_aries_route_size (fun r => Z.of_nat (length r)) cand_routes.
