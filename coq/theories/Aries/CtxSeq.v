(** Round 3: ONE context handed to several routers in a row.

    [Router.Serve] moves the routing position of the context ([c.routePos])
    while it matches; the routers of a [ServiceSet] (Auth / Resource / Guest /
    User / Admin), or any two routers a caller tries one after the other, all
    receive the SAME [*C].  What a router that MISSES leaves behind in the
    context therefore decides what the next router routes.

    The deployed [Router.Serve] (after the fix recorded in
    known_findings/C20.json) is a wrapper

      pos := c.routePos; err := r.serve(c); if err == Miss { c.routePos = pos }; return err

    around the old body; the translator re-reads the wrapper's shape
    ([rwrap], Gen/AriesSkel.v [gen_router_wrap]).  [RWPlain] is the body
    without the wrapper, i.e. the code before the fix.

    Definitions only; proofs in CtxSeqProofs.v. *)
From Coq Require Import List NArith ZArith Bool Arith.
From Coq Require String.
From Verif Require Import Aries.Str Aries.Radix Aries.SegTrie Aries.Router.
Import ListNotations.

Inductive rwrap :=
| RWRestoreOnMiss            (* the position is put back when Serve returns Miss *)
| RWPlain                    (* Serve is the bare body: whatever was shifted stays shifted *)
| RWUnknown (text : String.string).

Definition set_pos (c : ctx) (p : nat) : ctx :=
  Ctx (c_routes c) p (c_isdir c) (c_method c).

(** The context as the bare body leaves it when it returns through
    [notFound] without a default handler: shifted past the matched route if
    the trie found one (a file node with a remainder), untouched otherwise. *)
Definition miss_ctx (r : router) (c : ctx) : ctx :=
  if rel_empty c then c
  else let '(hit, p) := trie_find_route (rt_trie r) (rel_route c) in
       if is_nil p then c else shift c (length hit).

(** What a leaf was told to return: 0 nil, 1 Miss itself, >= 4 an error. *)
Fixpoint leaf_res (le : list (N * N)) (h : N) : N :=
  match le with
  | [] => 0%N
  | (t, e) :: r => if (t =? h)%N then e else leaf_res r h
  end.

(** result of one [Serve]: leaf tag (or -1), [c.Rel()] seen by the leaf, class
    (0 nil, 1 miss, 2 bad method, 3 panic, 9 gave up, >= 4 leaf error) *)
Definition sres : Type := Z * str * N.
Definition res_class (x : sres) : N := snd x.
Definition is_miss (x : sres) : bool := (res_class x =? 1)%N.

Definition r_stuck : sres := ((-9)%Z, [], 9%N).

Section Seq.
  Variables (disp meth : rcond).
  Variable le : list (N * N).

  (** [Serve] of router [i] with its sub-routers (handlers [>= 1000] are the
      other routers of the list), result only.  This is Corr.serve_nested. *)
  Fixpoint nested (fuel : nat) (rs : list router) (i : nat) (c : ctx) : sres :=
    match fuel with
    | O => r_stuck
    | S k =>
        match nth_error rs i with
        | None => r_stuck
        | Some r =>
            let go h c' :=
              if (1000 <=? h)%N then nested k rs (N.to_nat (h - 1000)) c'
              else (Z.of_N h, rel c', leaf_res le h) in
            match router_serve_with disp meth r c with
            | OIndex h c' => go h c'
            | ODefault h c' => go h c'
            | ONode h c' => go h c'
            | OMiss => ((-1)%Z, [], 1%N)
            | OBadMethod => ((-1)%Z, [], 2%N)
            | OPanic => ((-1)%Z, [], 3%N)
            | OStuck => r_stuck
            end
        end
    end.

  (** The same call, together with the context it leaves behind. *)
  Fixpoint serve_ctx (w : rwrap) (fuel : nat) (rs : list router) (i : nat) (c : ctx) : sres * ctx :=
    match fuel with
    | O => (r_stuck, c)
    | S k =>
        match nth_error rs i with
        | None => (r_stuck, c)
        | Some r =>
            let go h c' :=
              if (1000 <=? h)%N then serve_ctx w k rs (N.to_nat (h - 1000)) c'
              else ((Z.of_N h, rel c', leaf_res le h), c') in
            let body :=
              match router_serve_with disp meth r c with
              | OIndex h c' => go h c'
              | ODefault h c' => go h c'
              | ONode h c' => go h c'
              | OMiss => (((-1)%Z, [], 1%N), miss_ctx r c)
              | OBadMethod => (((-1)%Z, [], 2%N), miss_ctx r c)
              | OPanic => (((-1)%Z, [], 3%N), c)
              | OStuck => (r_stuck, c)
              end in
            match w with
            | RWRestoreOnMiss => if is_miss (fst body) then (fst body, c) else body
            | RWPlain => body
            | RWUnknown _ => (r_stuck, c)
            end
        end
    end.

  Definition hit_of (x : sres) : list (Z * str) :=
    let '(t, rl, _) := x in if (0 <=? t)%Z then [(t, rl)] else [].

  (** Routers [is] tried in order on one context until one does not miss:
      every leaf that ran, the final class, [c.Rel()] afterwards. *)
  Fixpoint serve_seq (w : rwrap) (fuel : nat) (rs : list router) (is : list nat) (c : ctx)
    : list (Z * str) * N * str :=
    match is with
    | [] => ([], 1%N, rel c)
    | i :: rest =>
        let '(x, c') := serve_ctx w fuel rs i c in
        if is_miss x then
          let '(hs, f, rl) := serve_seq w fuel rs rest c' in (hit_of x ++ hs, f, rl)
        else (hit_of x, res_class x, rel c')
    end.

  (** The reference: every router of the sequence routes the request's own
      context [c], whatever the routers before it did. *)
  Fixpoint seq_ref (fuel : nat) (rs : list router) (is : list nat) (c : ctx) : list (Z * str) * N :=
    match is with
    | [] => ([], 1%N)
    | i :: rest =>
        let x := nested fuel rs i c in
        if is_miss x then
          let '(hs, f) := seq_ref fuel rs rest c in (hit_of x ++ hs, f)
        else (hit_of x, res_class x)
    end.
End Seq.

(** * What the context hands out to handlers (round 3, seeded change C20-g)

    [C.RelRoute()] is the one accessor of [C] that returns a slice.  The
    deployed code returns a COPY of [route.routes[routePos:]]; an accessor
    that returned the sub-slice itself would let a handler rewrite - in place,
    or by [append] on a shortened sub-slice with spare capacity - the very
    segments every later [Router] looks up.  The translator re-reads, for
    every exported accessor of [C] with a slice or map result, whether the
    result is freshly allocated ([gen_ctx_accessors], Gen/AriesSkel.v). *)
Inductive acc_kind :=
| AccFresh                       (* make + copy: the caller owns what it gets *)
| AccAlias                       (* a field or sub-slice of the context's own state *)
| AccUnknown (text : String.string).

(** What a handler does to the slice it was handed: any function of the
    remaining segments that keeps their number (writes within the slice and
    its capacity cannot change the length of [route.routes]). *)
Definition hwrite := list str -> list str.

Definition apply_write (a : acc_kind) (w : option hwrite) (c : ctx) : ctx :=
  match a, w with
  | AccAlias, Some f =>
      let tail := skipn (c_pos c) (c_routes c) in
      let tail' := f tail in
      if Nat.eqb (length tail') (length tail)
      then Ctx (firstn (c_pos c) (c_routes c) ++ tail') (c_pos c) (c_isdir c) (c_method c)
      else c
  | _, _ => c
  end.

(** two concrete handlers: overwrite every remaining segment with [s];
    [append(rr[:1], s)] (writes the second remaining segment when there is one) *)
Definition w_fill (s : str) : hwrite := map (fun _ => s).
Definition w_append1 (s : str) : hwrite :=
  fun l => match l with x :: _ :: r => x :: s :: r | _ => l end.

(** What [Router.Serve] does to the route position when it returns Miss:
    the deployed wrapper puts back the position the router was ENTERED with;
    [UndoOwnShift] (seeded change C20-i) calls [ShiftRoute(-shift)] with the
    length of its own match, which leaves in the context whatever the handler
    itself shifted. *)
Inductive restore_kind := RestoreEntry | UndoOwnShift.

Section SeqW.
  Variables (disp meth : rcond).
  Variable le : list (N * N).
  Variable acc : acc_kind.
  Variable lw : N -> option hwrite.       (* what handler [h] writes to the RelRoute it was handed *)
  Variable lsh : N -> nat.                (* [c.ShiftRoute(k)] a leaf handler calls before it returns *)
  Variable rk : restore_kind.

  (** [serve_ctx] with handlers that write: a leaf writes and returns; a
      handler that is another router writes and then delegates. *)
  Fixpoint serve_ctx_w (w : rwrap) (fuel : nat) (rs : list router) (i : nat) (c : ctx) : sres * ctx :=
    match fuel with
    | O => (r_stuck, c)
    | S k =>
        match nth_error rs i with
        | None => (r_stuck, c)
        | Some r =>
            let go h c' :=
              let c'' := apply_write acc (lw h) c' in
              if (1000 <=? h)%N then serve_ctx_w w k rs (N.to_nat (h - 1000)) c''
              else ((Z.of_N h, rel c', leaf_res le h), shift c'' (lsh h)) in
            let body :=
              match router_serve_with disp meth r c with
              | OIndex h c' => go h c'
              | ODefault h c' => go h c'
              | ONode h c' => go h c'
              | OMiss => (((-1)%Z, [], 1%N), miss_ctx r c)
              | OBadMethod => (((-1)%Z, [], 2%N), miss_ctx r c)
              | OPanic => (((-1)%Z, [], 3%N), c)
              | OStuck => (r_stuck, c)
              end in
            match w with
            | RWRestoreOnMiss =>
                if is_miss (fst body) then
                  (fst body,
                   match rk with
                   | RestoreEntry => set_pos (snd body) (c_pos c)
                   | UndoOwnShift => set_pos (snd body) (c_pos (snd body) - (c_pos (miss_ctx r c) - c_pos c))
                   end)
                else body
            | RWPlain => body
            | RWUnknown _ => (r_stuck, c)
            end
        end
    end.

  Fixpoint serve_seq_w (w : rwrap) (fuel : nat) (rs : list router) (is : list nat) (c : ctx)
    : list (Z * str) * N :=
    match is with
    | [] => ([], 1%N)
    | i :: rest =>
        let '(x, c') := serve_ctx_w w fuel rs i c in
        if is_miss x then
          let '(hs, f) := serve_seq_w w fuel rs rest c' in (hit_of x ++ hs, f)
        else (hit_of x, res_class x)
    end.
End SeqW.

Fixpoint acc_of (n : String.string) (l : list (String.string * acc_kind)) : acc_kind :=
  match l with
  | [] => AccUnknown n
  | (k, a) :: r => if String.eqb k n then a else acc_of n r
  end.
Module RelName.
  Import String.
  Local Open Scope string_scope.
  Definition v : string := "RelRoute".
End RelName.
Definition relroute_name : String.string := RelName.v.
