(** Model of aries/service_set.go (tiers) and aries/host_mux.go.

    [ServiceSet.Serve], [ServeInternal], [serveAuth] are statement skeletons
    (type [stmt]) interpreted by [exec]; the translator gen/aries.go re-reads
    the skeletons from the source on every run (Gen/AriesSkel.v) and
    TiersGen.v checks they are the ones the theorems are about.  Handlers
    are arbitrary functions on the identity part of the context. *)
From Coq Require Import List NArith ZArith Bool String.
From Verif Require Import Aries.Str Aries.Radix.
Import ListNotations.

Inductive tier := TAuth | TResource | TGuest | TUser | TAdmin.

Inductive cond :=
| CUserSet                 (* c.User != "" *)
| CLevelPos                (* c.UserLevel > 0 *)
| CIsAdmin                 (* s.isAdmin(c) *)
| CAuthSet                 (* s.Auth != nil *)
| CSignInSet               (* s.InternalSignIn != nil *)
| CPathRoot                (* c.Path == "/" *)
| CNot (c : cond)
| CAnd (a b : cond)
| CUnknown (text : string).

Inductive ret :=
| RMiss | RNil | RNeedSignIn
| RSignIn                  (* return s.InternalSignIn(c) *)
| RUnknown (text : string).

Inductive stmt :=
| STry (t : tier)          (* if err := serveService(s.T, c); err != Miss { return err } *)
| SAuthGate                (* if served, err := s.serveAuth(c); err != nil { return err } else if served { return nil } *)
| SSetup                   (* if err := s.Auth.Setup(c); err != nil { return err } *)
| SIf (c : cond) (body : list stmt)
| SRedirectRoot            (* c.Redirect("/") *)
| SReturn (r : ret)
| SUnknown (text : string).

(** [serveAuth] *)
Inductive auth_stmt :=
| ATryServe                (* if err := s.Auth.Serve(c); err != Miss { return true, err } *)
| AReturnSetup             (* return false, s.Auth.Setup(c) *)
| AUnknown (text : string).

(** The skeletons of the deployed code (compared with the regenerated ones
    in TiersGen.v). *)
Definition serve_auth_prog : list auth_stmt := [ATryServe; AReturnSetup].

Definition serve_prog : list stmt :=
  [ SAuthGate; STry TResource; STry TGuest;
    SIf CUserSet [STry TUser];
    SIf CIsAdmin [STry TAdmin];
    SReturn RMiss ].

Definition serve_internal_prog : list stmt :=
  [ STry TAuth;
    SIf CAuthSet [SSetup];
    STry TResource;
    SIf (CNot CIsAdmin)
      [ SIf CPathRoot [ SIf CSignInSet [SReturn RSignIn]; SReturn RNeedSignIn ];
        SRedirectRoot; SReturn RNil ];
    STry TGuest; STry TUser; STry TAdmin;
    SReturn RMiss ].

(** [isAdmin] when [s.IsAdmin == nil] *)
Definition default_admin : cond := CAnd CUserSet CLevelPos.

(** * Semantics *)

(** The part of [*C] the gating looks at. *)
Record ident := Ident { i_user : str; i_level : Z; i_path : str }.

(** A handler either misses or returns an error code (0 = nil); it may
    change the context. *)
Inductive hres := HMiss | HRet (e : N).
Definition handler := ident -> ident * hres.

Record sset := SSet {
  s_auth : option (handler * (ident -> ident * N));     (* Auth.Serve, Auth.Setup (error code) *)
  s_resource : option handler;
  s_guest : option handler;
  s_user : option handler;
  s_admin : option handler;
  s_is_admin : option (ident -> bool);
  s_signin : option (ident -> ident * N) }.

Inductive event :=
| EServe (t : tier) (c : ident)     (* the tier's Serve was invoked with this context *)
| ESetup (c : ident)
| ESignIn (c : ident)
| ERedirect.

Inductive final :=
| FMiss | FRet (e : N) | FNeedSignIn
| FPanic                            (* nil interface method call *)
| FStuck.                           (* an Unknown construct: the skeleton is not the modelled one *)

Definition tier_handler (s : sset) (t : tier) : option handler :=
  match t with
  | TAuth => option_map fst (s_auth s)
  | TResource => s_resource s
  | TGuest => s_guest s
  | TUser => s_user s
  | TAdmin => s_admin s
  end.

Definition nil_str (l : str) : bool := match l with [] => true | _ => false end.

(** Conditions; [adm] answers [s.isAdmin(c)]. [None] = an Unknown construct. *)
Fixpoint eval_cond (adm : ident -> option bool) (s : sset) (c : ident) (e : cond) : option bool :=
  match e with
  | CUserSet => Some (negb (nil_str (i_user c)))
  | CLevelPos => Some (0 <? i_level c)%Z
  | CIsAdmin => adm c
  | CAuthSet => Some (match s_auth s with Some _ => true | None => false end)
  | CSignInSet => Some (match s_signin s with Some _ => true | None => false end)
  | CPathRoot => Some (str_eqb (i_path c) [slash])
  | CNot a => option_map negb (eval_cond adm s c a)
  | CAnd a b =>
      match eval_cond adm s c a with
      | Some true => eval_cond adm s c b
      | r => r
      end
  | CUnknown _ => None
  end.

(** [func (s *ServiceSet) isAdmin(c *C) bool], [dflt] being the expression
    used when [s.IsAdmin == nil]. *)
Definition is_admin (dflt : cond) (s : sset) (c : ident) : option bool :=
  match s_is_admin s with
  | Some f => Some (f c)
  | None => eval_cond (fun _ => None) s c dflt
  end.

(** Running state: the context and the events so far (most recent first). *)
Record st := St { st_c : ident; st_tr : list event }.

Inductive step_res :=
| Next (x : st)                     (* fall through to the next statement *)
| Done (x : st) (f : final).        (* return *)

(** [serveService(m, c)] followed by [if err != Miss { return err }] *)
Definition try_tier (s : sset) (t : tier) (x : st) : step_res :=
  match tier_handler s t with
  | None => Next x                                      (* m == nil: Miss *)
  | Some h =>
      let '(c', r) := h (st_c x) in
      let x' := St c' (EServe t (st_c x) :: st_tr x) in
      match r with HMiss => Next x' | HRet e => Done x' (FRet e) end
  end.

(** [s.Auth.Setup(c)]; a nil [Auth] is a nil-interface call. *)
Definition run_setup (s : sset) (x : st) : option (st * N) :=
  match s_auth s with
  | None => None
  | Some (_, setup) =>
      let '(c', e) := setup (st_c x) in Some (St c' (ESetup (st_c x) :: st_tr x), e)
  end.

(** [serveAuth]: [(served, err)] *)
Fixpoint exec_auth (s : sset) (p : list auth_stmt) (x : st) : option (st * bool * N) + final :=
  match p with
  | [] => inr FStuck
  | ATryServe :: rest =>
      match s_auth s with
      | None => inr FPanic
      | Some (h, _) =>
          let '(c', r) := h (st_c x) in
          let x' := St c' (EServe TAuth (st_c x) :: st_tr x) in
          match r with
          | HMiss => exec_auth s rest x'
          | HRet e => inl (Some (x', true, e))
          end
      end
  | AReturnSetup :: _ =>
      match run_setup s x with
      | None => inr FPanic
      | Some (x', e) => inl (Some (x', false, e))
      end
  | AUnknown _ :: _ => inr FStuck
  end.

Section Exec.
  Variable dflt : cond.               (* isAdmin's default expression *)
  Variable auth_prog : list auth_stmt.
  Variable s : sset.

  Fixpoint exec_stmt (i : stmt) (x : st) {struct i} : step_res :=
    match i with
    | STry t => try_tier s t x
    | SAuthGate =>
        match exec_auth s auth_prog x with
        | inr f => Done x f
        | inl None => Done x FStuck
        | inl (Some (x', served, e)) =>
            if negb (e =? 0)%N then Done x' (FRet e)
            else if served then Done x' (FRet 0) else Next x'
        end
    | SSetup =>
        match run_setup s x with
        | None => Done x FPanic
        | Some (x', e) => if negb (e =? 0)%N then Done x' (FRet e) else Next x'
        end
    | SIf e body =>
        match eval_cond (is_admin dflt s) s (st_c x) e with
        | None => Done x FStuck
        | Some false => Next x
        | Some true =>
            (fix exec_list (l : list stmt) (x : st) : step_res :=
               match l with
               | [] => Next x
               | j :: r => match exec_stmt j x with
                           | Next x' => exec_list r x'
                           | d => d
                           end
               end) body x
        end
    | SRedirectRoot => Next (St (st_c x) (ERedirect :: st_tr x))
    | SReturn RMiss => Done x FMiss
    | SReturn RNil => Done x (FRet 0)
    | SReturn RNeedSignIn => Done x FNeedSignIn
    | SReturn RSignIn =>
        match s_signin s with
        | None => Done x FPanic
        | Some f => let '(c', e) := f (st_c x) in
                    Done (St c' (ESignIn (st_c x) :: st_tr x)) (FRet e)
        end
    | SReturn (RUnknown _) => Done x FStuck
    | SUnknown _ => Done x FStuck
    end.

  Fixpoint exec (l : list stmt) (x : st) : step_res :=
    match l with
    | [] => Next x
    | j :: r => match exec_stmt j x with
                | Next x' => exec r x'
                | d => d
                end
    end.

  (** A Go function body must end in a return; falling off the end cannot
      happen for a skeleton that type-checked, so it shows as [FStuck]. *)
  Definition run (prog : list stmt) (c : ident) : list event * final :=
    match exec prog (St c []) with
    | Done x f => (rev (st_tr x), f)
    | Next x => (rev (st_tr x), FStuck)
    end.
End Exec.

(** [ServiceSet.Serve] and [ServeInternal] of the deployed code. *)
Definition serve (s : sset) (c : ident) : list event * final :=
  run default_admin serve_auth_prog s serve_prog c.
Definition serve_internal (s : sset) (c : ident) : list event * final :=
  run default_admin serve_auth_prog s serve_internal_prog c.

(** * aries/host_mux.go *)
Inductive host_key := HKReqHost | HKUnknown (text : string).

(** [Set] is a map store, [Serve] an exact map lookup on [c.Req.Host]. *)
Definition hostmux := list (str * N).
Definition host_set (m : hostmux) (h : str) (sv : N) : hostmux := aset h sv m.
Definition host_serve (m : hostmux) (req_host : str) : option N := alookup req_host m.
