(** Model of aries/trie.go (compressed trie with branch splitting) and of
    aries/mux.go (exact map + prefix map + trie).  Definitions only; the
    proofs are in RadixProofs.v.

    Go [*trieNode] values form a tree (a node is reachable from exactly one
    parent slot), so in-place mutation of [cnode] followed by re-parenting is
    modelled by rebuilding the child.  [map[byte]*trieNode] is an association
    list looked up by key; [None] results stand for a Go panic. *)
From Coq Require Import List NArith Bool.
From Verif Require Import Aries.Str.
Import ListNotations.

Inductive node := Node (branch prefix : str) (hit : bool) (child : list (N * node)).

Definition n_branch (t : node) := let 'Node b _ _ _ := t in b.
Definition n_prefix (t : node) := let 'Node _ p _ _ := t in p.
Definition n_hit (t : node) := let 'Node _ _ h _ := t in h.
Definition n_child (t : node) := let 'Node _ _ _ c := t in c.

Definition set_branch (b : str) (t : node) := let 'Node _ p h c := t in Node b p h c.
Definition set_hit (h : bool) (t : node) := let 'Node b p _ c := t in Node b p h c.
Definition set_children (c : list (N * node)) (t : node) := let 'Node b p h _ := t in Node b p h c.

(** [newTrieNode]: note [hit: true]; [newTrieRoot] = [newTrieNode("", "")]. *)
Definition new_node (branch prefix : str) : node := Node branch prefix true [].
Definition root : node := new_node [] [].

Fixpoint lookup (k : N) (l : list (N * node)) : option node :=
  match l with
  | [] => None
  | (k', c) :: r => if (k' =? k)%N then Some c else lookup k r
  end.

(** [t.child[key] = c] *)
Fixpoint set_child (k : N) (c : node) (l : list (N * node)) : list (N * node) :=
  match l with
  | [] => [(k, c)]
  | (k', c') :: r => if (k' =? k)%N then (k, c) :: r else (k', c') :: set_child k c r
  end.

(** [addChild]: [c.branch[0]] panics on an empty branch; an occupied key is
    the explicit [panic("illegal trieNode append, same key")]. *)
Definition add_child (t c : node) : option node :=
  match n_branch c with
  | [] => None
  | key :: _ =>
      match lookup key (n_child t) with
      | Some _ => None
      | None => Some (set_children (set_child key c (n_child t)) t)
      end
  end.

(** The part of [add] after [cnode := t.child[key]] was found.  [rec] is
    [cnode.add]; the result is the node that ends up in [t.child[key]]
    (the mutated [cnode] itself, or the new node placed above it). *)
Definition add_step (rec : str -> option (node * bool)) (tprefix : str) (c : node) (s : str)
  : option (node * bool) :=
  let '(com, rb, rs) := lcp (n_branch c) s in   (* branch = com ++ rb, s = com ++ rs *)
  match rs, rb with
  | [], [] =>                                    (* i == m && i == n *)
      if n_hit c then Some (c, false) else Some (set_hit true c, true)
  | [], _ :: _ =>                                (* i == m *)
      match add_child (new_node s (tprefix ++ s)) (set_branch rb c) with
      | Some nn => Some (nn, true)
      | None => None
      end
  | _ :: _, [] => rec rs                         (* i == n: cnode.add(s[n:m]) *)
  | _ :: _, _ :: _ =>                            (* split *)
      match add_child (set_hit false (new_node com (tprefix ++ com))) (set_branch rb c) with
      | Some n1 =>
          match add_child n1 (new_node rs (tprefix ++ s)) with
          | Some n2 => Some (n2, true)
          | None => None
          end
      | None => None
      end
  end.

(** [t.child[key]] followed by a computation on the child found.  Written as
    a combinator (like [List.map]) so that the structural recursion of [add]
    and [find] through the child map is accepted. *)
Section OnChild.
  Context {A : Type} (key : N) (f : node -> A).
  Fixpoint on_child (l : list (N * node)) : option A :=
    match l with
    | [] => None
    | (k, c) :: r => if (k =? key)%N then Some (f c) else on_child r
    end.
End OnChild.

(** [func (t *trieNode) add(s string) bool]; [None] = panic. *)
Fixpoint add (t : node) (s : str) {struct t} : option (node * bool) :=
  match s with
  | [] => Some (t, false)
  | key :: _ =>
      match t with
      | Node br pre hit ch =>
          match on_child key (fun c => add_step (add c) pre c s) ch with
          | None =>                               (* t.child[key] == nil *)
              match add_child t (new_node s (pre ++ s)) with
              | Some t' => Some (t', true)
              | None => None
              end
          | Some None => None
          | Some (Some (c', b)) => Some (Node br pre hit (set_child key c' ch), b)
          end
      end
  end.

(** What [find] does once [child := t.child[key]] is there. *)
Definition find_step (rec : str -> str -> str * bool) (c : node) (s res : str) : str * bool :=
  match strip_prefix (n_branch c) s with       (* strings.HasPrefix(s, child.branch) *)
  | Some s' => rec s' (if n_hit c then n_prefix c else res)
  | None => (res, false)
  end.

(** [func (t *trieNode) find(s, res string) (string, bool)] *)
Fixpoint find (t : node) (s res : str) {struct t} : str * bool :=
  match s with
  | [] => (res, n_hit t)
  | key :: _ =>
      match t with
      | Node _ _ _ ch =>
          match on_child key (fun c => find_step (find c) c s res) ch with
          | None => (res, false)
          | Some r => r
          end
      end
  end.

Definition trie_find (t : node) (s : str) : str * bool := find t s [].

(** Successive [add]s from a fresh root; [None] if any of them panics. *)
Fixpoint add_all (t : node) (ss : list str) : option (node * list bool) :=
  match ss with
  | [] => Some (t, [])
  | s :: r =>
      match add t s with
      | None => None
      | Some (t', b) =>
          match add_all t' r with
          | None => None
          | Some (t'', bs) => Some (t'', b :: bs)
          end
      end
  end.

Definition build (ss : list str) : option (node * list bool) := add_all root ss.

(** * aries/mux.go *)

Fixpoint alookup {A} (k : str) (l : list (str * A)) : option A :=
  match l with
  | [] => None
  | (k', v) :: r => if str_eqb k' k then Some v else alookup k r
  end.

Fixpoint aset {A} (k : str) (v : A) (l : list (str * A)) : list (str * A) :=
  match l with
  | [] => [(k, v)]
  | (k', v') :: r => if str_eqb k' k then (k, v) :: r else (k', v') :: aset k v r
  end.

(** Handlers are opaque tags. *)
Record mux := Mux { m_exacts : list (str * N); m_prefixes : list (str * N); m_trie : node }.

Definition new_mux : mux := Mux [] [] root.

Inductive mux_op := OpPrefix (s : str) (f : N) | OpExact (s : str) (f : N) | OpDir (s : str) (f : N).

(** Result of a registration: [Some true] = nil error, [Some false] =
    "duplicate ..." error, [None] = panic. *)
Definition mux_prefix (m : mux) (s : str) (f : N) : option (mux * bool) :=
  match add (m_trie m) s with
  | None => None
  | Some (t', false) => Some (Mux (m_exacts m) (m_prefixes m) t', false)
  | Some (t', true) => Some (Mux (m_exacts m) (aset s f (m_prefixes m)) t', true)
  end.

Definition mux_exact (m : mux) (s : str) (f : N) : mux * bool :=
  match alookup s (m_exacts m) with
  | Some _ => (m, false)
  | None => (Mux (aset s f (m_exacts m)) (m_prefixes m) (m_trie m), true)
  end.

Definition slash : N := 47.

(** [strings.TrimSuffix(s, "/")] *)
Definition trim_slash (s : str) : str :=
  match rev s with
  | c :: r => if (c =? slash)%N then rev r else s
  | [] => s
  end.

Definition mux_dir (m : mux) (s : str) (f : N) : option (mux * bool) :=
  if str_eqb s [slash] then
    let '(m1, ok) := mux_exact m s f in
    if ok then mux_prefix m1 s f else Some (m1, false)
  else
    let s' := trim_slash s in
    let '(m1, ok) := mux_exact m s' f in
    if ok then mux_prefix m1 (s' ++ [slash]) f else Some (m1, false).

Definition mux_apply (m : mux) (op : mux_op) : option (mux * bool) :=
  match op with
  | OpPrefix s f => mux_prefix m s f
  | OpExact s f => Some (mux_exact m s f)
  | OpDir s f => mux_dir m s f
  end.

Fixpoint mux_run (m : mux) (ops : list mux_op) : option (mux * list bool) :=
  match ops with
  | [] => Some (m, [])
  | op :: r =>
      match mux_apply m op with
      | None => None
      | Some (m', b) =>
          match mux_run m' r with
          | None => None
          | Some (m'', bs) => Some (m'', b :: bs)
          end
      end
  end.

(** [Mux.Route]: [None] = nil Func (Serve then returns Miss). *)
Definition mux_route (m : mux) (path : str) : option N :=
  match alookup path (m_exacts m) with
  | Some f => Some f
  | None => alookup (fst (trie_find (m_trie m) path)) (m_prefixes m)
  end.
