(** The HTTP entry of aries: from a request line to the string that is
    routed, its segment list and the host key.

    aries itself does very little here (aries/context.go NewContext,
    aries/func.go ServeHTTP, aries/host_mux.go): it takes [req.URL.Path] as
    the path, splits it with [newRoute], and uses [req.Host] as the host key;
    the error returned by the service is mapped to a status by [C.ErrCode].
    That part is modelled exactly ([new_actx], [status_of]) and tied to the
    source by the translator ([url_src], [gen_errcode_table]).

    What net/http does before (http.ReadRequest, url.ParseRequestURI,
    url.unescape in path mode, the server's Host-header and [OPTIONS *]
    handling) is TRUSTED; [http_parse] is a model of it for the request forms
    the harness sends, checked against a real http.Server by the [entry]
    correspondence stream, not verified. *)
From Coq Require Import List NArith ZArith Bool Arith.
From Coq Require Import String.
From Verif Require Import Aries.Str Aries.Radix Aries.SegTrie Aries.Router.
Import ListNotations.
Local Open Scope N_scope.
Local Close Scope string_scope.

(** * net/http, trusted: request line -> URL.Path and Host *)

Definition hexval (c : N) : option N :=
  if (48 <=? c) && (c <=? 57) then Some (c - 48)
  else if (97 <=? c) && (c <=? 102) then Some (c - 87)
  else if (65 <=? c) && (c <=? 70) then Some (c - 55)
  else None.

Definition percent : N := 37.

(** [url.unescape(s, encodePath)]: every [%XX] is one byte, a malformed
    escape is an error; nothing else changes (['+'] stays). *)
Fixpoint unescape (s : str) : option str :=
  match s with
  | [] => Some []
  | c :: r =>
      if c =? percent then
        match r with
        | a :: b :: r' =>
            match hexval a, hexval b with
            | Some x, Some y => option_map (cons (16 * x + y)) (unescape r')
            | _, _ => None
            end
        | _ => None
        end
      else option_map (cons c) (unescape r)
  end.

(** Up to the first ['?']. *)
Fixpoint before_query (s : str) : str :=
  match s with
  | [] => []
  | c :: r => if c =? 63 then [] else c :: before_query r
  end.

Fixpoint has_ctl (s : str) : bool :=
  match s with
  | [] => false
  | c :: r => (c <? 32) || (c =? 127) || has_ctl r
  end.

(** Split ["auth/rest"] at the first ['/']. *)
Fixpoint split_authority (s : str) : str * str :=
  match s with
  | [] => ([], [])
  | c :: r => if c =? slash then ([], s)
              else let '(a, rest) := split_authority r in (c :: a, rest)
  end.

Definition http_scheme : str := [104; 116; 116; 112; 58; 47; 47].   (* "http://" *)

(** [url.ParseRequestURI]: [(URL.Host, URL.Path)]; [None] = error. *)
Definition parse_request_uri (t : str) : option (str * str) :=
  if has_ctl t then None
  else match t with
       | [] => None
       | [42] => Some ([], [42])                         (* "*" *)
       | _ =>
           match strip_prefix http_scheme t with
           | Some rest =>                                (* absolute-form *)
               let '(auth, p) := split_authority (before_query rest) in
               option_map (fun p' => (auth, p')) (unescape p)
           | None =>
               match t with
               | c :: _ =>
                   if c =? slash                         (* origin-form *)
                   then option_map (fun p' => ([], p')) (unescape (before_query t))
                   else None                             (* "invalid URI for request" *)
               | [] => None
               end
           end
       end.

Record rawreq := RawReq {
  rq_method : str; rq_target : str;
  rq_host : option str;            (* the Host header, if sent *)
  rq_11 : bool }.                  (* HTTP/1.1 (else 1.0) *)

Definition m_connect : str := [67; 79; 78; 78; 69; 67; 84].
Definition m_options : str := [79; 80; 84; 73; 79; 78; 83].

Inductive hparse :=
| HBad                              (* 400 from net/http; the handler is not called *)
| HOptionsStar                      (* [OPTIONS *]: 200 from net/http; the handler is not called *)
| HReq (path host : str).           (* the handler gets URL.Path = path, Req.Host = host *)

(** http.ReadRequest + the checks of conn.readRequest (net/http server.go). *)
Definition http_parse (r : rawreq) : hparse :=
  let t := rq_target r in
  let connect := str_eqb (rq_method r) m_connect in
  let just_authority := connect && negb (match t with c :: _ => c =? slash | [] => false end) in
  match parse_request_uri (if just_authority then http_scheme ++ t else t) with
  | None => HBad
  | Some (uhost, path) =>
      if rq_11 r && negb connect && (match rq_host r with None => true | Some _ => false end)
      then HBad                                          (* missing required Host header *)
      else if str_eqb (rq_method r) m_options && str_eqb t [42] then HOptionsStar
      else HReq path (if is_nil uhost
                      then match rq_host r with Some h => h | None => [] end
                      else uhost)
  end.

(** * aries: NewContext *)

(** Which field of the parsed URL a piece of NewContext reads. *)
Inductive url_src :=
| USPath                            (* u.Path *)
| USRawPath | USEscapedPath | USRequestURI
| USUnknown (text : String.string).

(** The strings net/http offers for one request. *)
Record purl := PUrl { u_path : str; u_rawpath : str; u_escaped : str; u_requri : str }.

Definition pick (s : url_src) (u : purl) : option str :=
  match s with
  | USPath => Some (u_path u)
  | USRawPath => Some (u_rawpath u)
  | USEscapedPath => Some (u_escaped u)
  | USRequestURI => Some (u_requri u)
  | USUnknown _ => None
  end.

(** [C.Path], the routing state, and the key [HostMux] will use. *)
Record actx := ACtx { a_path : str; a_ctx : ctx; a_host : str }.

(** [NewContext]: [Path: <psrc>], [route: newRoute(<rsrc>)]; [HostMux.Serve]
    reads [c.Req.Host]. *)
Definition new_actx_with (psrc rsrc : url_src) (u : purl) (method req_host : str) : option actx :=
  match pick psrc u, pick rsrc u with
  | Some p, Some r => Some (ACtx p (new_ctx r method) req_host)
  | _, _ => None
  end.

Definition new_actx := new_actx_with USPath USPath.

(** * aries: C.ErrCode *)

(** Classes of [errcode.Of(err)]. *)
Inductive eclass := ENil | ENotFound | EInternal | EUnauthorized | EInvalidArg | EOther.

Definition eclass_name (e : eclass) : String.string :=
  match e with
  | ENotFound => "NotFound" | EInternal => "Internal" | EUnauthorized => "Unauthorized"
  | EInvalidArg => "InvalidArg" | _ => ""
  end%string.

Fixpoint assoc_status (k : String.string) (l : list (String.string * N)) : option N :=
  match l with
  | [] => None
  | (k', v) :: r => if String.eqb k' k then Some v else assoc_status k r
  end.

(** The switch of [C.ErrCode] as a table; [nil] is 200 (nothing written). *)
Definition errcode_table : list (String.string * N) :=
  [("NotFound", 404); ("Internal", 500); ("Unauthorized", 403); ("InvalidArg", 400)]%string.
Definition errcode_default : N := 500.

Definition status_with (tbl : list (String.string * N)) (dflt : N) (e : eclass) : N :=
  match e with
  | ENil => 200
  | EOther => dflt
  | _ => match assoc_status (eclass_name e) tbl with Some s => s | None => dflt end
  end.

Definition status_of := status_with errcode_table errcode_default.
